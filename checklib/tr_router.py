"""
Tie T for C17: re-reads  src/app.rs  (`impl CosmosRouter for Router`: the `match` of execute / query /
sudo) and  src/contracts.rs  (`customize_msg`: the `match msg.msg` that lifts sub-messages of
Empty-typed contracts) and regenerates

    <root>/lean/CwMt/Gen/Router.lean     CwMt.Gen.Router.execTable / queryTable / sudoTable
    <root>/lean/CwMt/Gen/Lift.lean       CwMt.Gen.Lift.table

in the vocabulary of CwMt/Model/Route.lean. Per arm: variant, cfg feature, number of pattern
variables, receiver field, method, classified argument list, whether the body is exactly the call;
plus the wildcard arm. Whatever is not recognised becomes `.other` (or `bodyIsMatch := false`), which
the theorems of CwMt/Props/C17.lean do not accept: the translator never repairs or guesses.

translate(root, log) also evaluates the routing / lifting conditions on the table it extracted
(the same conditions the theorems state) and returns the rows that break them as counter-examples;
each is then driven on the real code through the `route` slice of the harness (tr_common.confirm).
"""
import os
import re
import tr_common as C
from tr_common import squash, split_top, match_close

KINDS = {"Wasm": "wasm", "Bank": "bank", "Custom": "custom", "Staking": "staking", "Distribution": "distribution",
         "Ibc": "ibc", "Gov": "gov", "Stargate": "stargate", "Any": "any", "Grpc": "grpc"}
MODS = {"wasm", "bank", "custom", "staking", "distribution", "ibc", "gov", "stargate"}
METHODS = {"execute", "query", "sudo", "execute_stargate", "execute_any", "query_stargate", "query_grpc"}
FEATURES = {"staking", "stargate", "cosmwasm_2_0"}
CTX = {"api": "api", "storage": "storage", "self": "router", "block": "block", "sender": "sender"}
QUERIER_LET = "let querier=self.querier(api,storage,block);"


def parse_attrs(piece):
    """Strips leading #[…] attributes; returns (feature, rest). `allow(..)` is ignored."""
    feature = "none"
    rest = piece.strip()
    while rest.startswith("#["):
        j = match_close(rest, 1)
        attr = squash(rest[2:j])
        rest = rest[j + 1:].strip()
        if attr.startswith("allow("):
            continue
        m = re.fullmatch(r'cfg\(feature\s*=\s*"([a-z0-9_]+)"\)', attr)
        f = m.group(1) if m else None
        if f in FEATURES and feature == "none":
            feature = f
        else:
            feature = "other"
    return feature, rest


def parse_pattern(pat, enum):
    """`Enum::Variant(a)` / `Enum::Variant { a, b }` / `_` / `ident`.
    Returns (kind|None for wildcard, [binder names or None])."""
    pat = squash(pat)
    if pat == "_" or re.fullmatch(C.IDENT, pat):
        return None, []
    m = re.fullmatch(r"(%s)::(%s)(?:\((.*)\)|\{(.*)\})?" % (C.IDENT, C.IDENT), pat)
    if not m or m.group(1) != enum:
        return "other", []
    inner = m.group(3) if m.group(3) is not None else (m.group(4) or "")
    binders = [b if re.fullmatch(C.IDENT, b) and b != "_" else None for b in split_top(inner)]
    return KINDS.get(m.group(2), "other"), binders


def classify_arg(a, binders, querier_ok):
    a = squash(a)
    if a in binders:
        return ".bound %d" % binders.index(a)
    if a == "&querier":
        return ".querier" if querier_ok else ".other"
    return "." + CTX[a] if a in CTX else ".other"


def fall_of(body):
    b = squash(body)
    while b.startswith("{") and match_close(b, 0) == len(b) - 1:
        b = b[1:-1].strip().rstrip(";")
    for name in ("bail", "unimplemented", "unreachable", "panic"):
        if re.fullmatch(name + r"!\(.*\)", b):
            return name
    return "other"


def split_arms(block):
    """`PAT => BODY` pieces of a match block. An arm ends at the comma after its body or — when the body is a block
    `{ … }` — at the closing brace (rustfmt writes no comma there). Returns None if some piece has no `=>`."""
    arms = []
    i, n = 0, len(block)
    while i < n:
        # skip whitespace and separating commas
        while i < n and (block[i].isspace() or block[i] == ","):
            i += 1
        if i >= n:
            break
        k = block.find("=>", i)
        if k < 0:
            return None if block[i:].strip() else arms
        head = block[i:k]
        j = k + 2
        while j < n and block[j].isspace():
            j += 1
        if j < n and block[j] == "{":
            c = match_close(block, j)
            if c < 0:
                return None
            body, i = block[j:c + 1], c + 1
        else:
            # up to the next comma outside brackets
            depth, e = 0, j
            while e < n:
                ch = block[e]
                if ch in "([{":
                    depth += 1
                elif ch in ")]}":
                    depth -= 1
                elif ch == "," and depth == 0:
                    break
                e += 1
            body, i = block[j:e], e + 1
        feature, pat = parse_attrs(head)
        arms.append((feature, pat.strip(), body.strip()))
    return arms


def match_block(text):
    """text == `match <scrutinee> { … }` exactly → (scrutinee, inner) else None."""
    m = re.match(r"match\s+([^{]+?)\s*\{", text)
    if not m:
        return None
    o = text.index("{", m.start())
    c = match_close(text, o)
    if c < 0 or text[c + 1:].strip() not in ("", ";"):
        return None
    return squash(m.group(1)), text[o + 1:c]


def read_router_fn(fn, enum, msg_param, allow_querier):
    """→ dict(onParam, bodyIsMatch, arms[...], fall, notes[])"""
    t = {"onParam": False, "bodyIsMatch": False, "arms": [], "fall": "missing", "notes": []}
    body = fn["body"].strip()
    querier_ok = False
    m = re.match(r"let\s+querier\b[^;]*;", body)
    if m and allow_querier:
        querier_ok = squash(m.group(0)) == QUERIER_LET
        body = body[m.end():].strip()
    mb = match_block(body)
    if mb is None:
        t["notes"].append("body of %s is not a single match expression" % fn["name"])
        # still try to find a match somewhere, so that the report shows what could be extracted
        k = body.find("match ")
        o = body.find("{", k) if k >= 0 else -1
        c = match_close(body, o) if o >= 0 else -1
        if c < 0:
            return t
        mb = (squash(body[k + 6:o]), body[o + 1:c])
    else:
        t["bodyIsMatch"] = True
    names, _ = C.param_names(fn["params"])
    t["onParam"] = mb[0] == msg_param and msg_param in names
    arms = split_arms(mb[1])
    if arms is None:
        t["bodyIsMatch"] = False
        t["notes"].append("an arm of %s could not be split at `=>`" % fn["name"])
        return t
    for feature, pat, body in arms:
        kind, binders = parse_pattern(pat, enum)
        if kind is None:
            t["fall"] = fall_of(body)
            continue
        arm = {"variant": kind, "feature": feature, "binders": len(binders), "recv": "other", "method": "other",
               "args": [], "direct": False, "text": squash(pat + " => " + body)}
        b = squash(body)
        while b.startswith("{") and match_close(b, 0) == len(b) - 1:      # `=> { call(..) }`: a block holding one expression
            b = b[1:-1].strip()
        m = re.match(r"self\.(%s)\.(%s)\(" % (C.IDENT, C.IDENT), b)
        if m:
            arm["recv"] = m.group(1) if m.group(1) in MODS else "other"
            arm["method"] = m.group(2) if m.group(2) in METHODS else "other"
            o = m.end() - 1
            c = match_close(b, o)
            arm["args"] = [classify_arg(a, binders, querier_ok) for a in split_top(b[o + 1:c])] if c > 0 else [".other"]
            arm["direct"] = c == len(b) - 1
        t["arms"].append(arm)
    return t


def read_lift(src):
    t = {"bodyIsRebuild": False, "subFields": [], "arms": [], "fall": "missing", "notes": []}
    fns = [f for f in C.find_fns(src, 0, len(src)) if f["name"] == "customize_msg"]
    if len(fns) != 1:
        t["notes"].append("fn customize_msg not found exactly once")
        return t
    fn = fns[0]
    names, _ = C.param_names(fn["params"])
    body = fn["body"].strip()
    # two spellings are read: the fields taken from the parameter (`msg.id`, … `match msg.msg {..}`), or the parameter
    # destructured first (`let SubMsg { id, payload, msg: m, gas_limit, reply_on } = p;`) and the locals used; the `match` may
    # sit in a private one-parameter helper of the same file that is applied to the message (`helper::<C>(m)`)
    if len(names) != 1:
        t["notes"].append("customize_msg does not take exactly one parameter")
        return t
    par = names[0]
    alias = {}
    dm = re.match(r"let\s+SubMsg\s*\{", body)
    if dm:
        dc = match_close(body, dm.end() - 1)
        rest = body[dc + 1:].lstrip()
        em = re.match(r"=\s*(%s)\s*;" % C.IDENT, rest)
        if dc < 0 or not em or em.group(1) != par:
            t["notes"].append("the destructuring at the start of customize_msg is not `let SubMsg { .. } = <parameter>;`")
            return t
        for fld in split_top(body[dm.end():dc]):
            f = squash(fld)
            if not f or f == "..":
                continue
            fm = re.match(r"^(%s)(?::(%s))?$" % (C.IDENT, C.IDENT), f)
            if not fm:
                t["notes"].append("field `%s` of the destructuring not understood" % f)
                return t
            alias[fm.group(1)] = fm.group(2) or fm.group(1)
        body = rest[em.end():].strip()
    src_of = lambda name: alias[name] if alias else par + "." + name      # noqa: E731
    m = re.match(r"SubMsg\s*\{", body)
    c = match_close(body, body.index("{")) if m else -1
    if not m or c != len(body) - 1:
        t["notes"].append("body of customize_msg is not a single SubMsg literal over its parameter")
        return t
    ok = True
    for fld in split_top(body[m.end():c]):
        fm = re.match(r"(%s)\s*(?::\s*(.*))?$" % C.IDENT, fld.strip(), re.S)
        if not fm:
            ok = False
            t["notes"].append("field `%s` of the SubMsg literal not understood" % squash(fld))
            continue
        name, expr = fm.group(1), (fm.group(2) or fm.group(1)).strip()
        if name != "msg":
            tag = name if name in ("id", "payload", "gas_limit", "reply_on") else "other"
            try:
                same = squash(expr) == src_of(name)
            except KeyError:
                same = False
            t["subFields"].append((tag, same))
            continue
        try:
            scrut = src_of("msg")
        except KeyError:
            scrut = "?"
        mb = match_block(expr)
        if mb is None:
            hm = re.match(r"^(%s)(?:::<[^>]*>)?\((.*)\)$" % C.IDENT, squash(expr))
            helper = [f for f in C.find_fns(src, 0, len(src)) if hm and f["name"] == hm.group(1)]
            if hm and squash(hm.group(2)) == scrut and len(helper) == 1:
                hn, _ = C.param_names(helper[0]["params"])
                hb = match_block(helper[0]["body"].strip())
                if len(hn) == 1 and hb is not None and hb[0] == hn[0]:
                    mb = (scrut, hb[1])
        if mb is None or mb[0] != scrut:
            ok = False
            t["notes"].append("the msg field is not `match <the sub-message's msg> { … }` (directly or through a one-parameter helper)")
            continue
        arms = split_arms(mb[1])
        if arms is None:
            ok = False
            t["notes"].append("an arm of customize_msg could not be split at `=>`")
            continue
        for feature, pat, abody in arms:
            kind, binders = parse_pattern(pat, "CosmosMsg")
            if kind is None:
                t["fall"] = fall_of(abody)
                continue
            arm = {"variant": kind, "feature": feature, "binders": len(binders), "out": ".other",
                   "text": squash(pat + " => " + abody)}
            f = fall_of(abody)
            k2, outs = parse_pattern(abody, "CosmosMsg")
            if f != "other":
                arm["out"] = ".diverge .%s" % f
            elif k2 not in (None, "other"):
                b = squash(abody)
                if "{" in b:   # struct variant: shorthand fields, listed in pattern order
                    args = [".bound %d" % i if (n is not None and n in outs) else ".other" for i, n in enumerate(binders)]
                    args += [".other"] * max(0, len(outs) - len(binders))
                else:
                    args = [".bound %d" % binders.index(a) if (a is not None and a in binders) else ".other" for a in outs]
                arm["out"] = ".rebuild .%s [%s]" % (k2, ", ".join(args))
            t["arms"].append(arm)
    t["bodyIsRebuild"] = ok
    return t


# ---- Lean output -----------------------------------------------------------------------------------

def b(x):
    return "true" if x else "false"


def lean_match_table(name, t):
    arms = ["{ variant := .%s, feature := .%s, binders := %d, recv := .%s, method := .%s,\n      args := [%s], direct := %s }"
            % (a["variant"], a["feature"], a["binders"], a["recv"], a["method"], ", ".join(a["args"]), b(a["direct"]))
            for a in t["arms"]]
    doc = "".join("  -- %s\n" % a["text"] for a in t["arms"])
    return ("/-- arms as written in /repo/src/app.rs:\n%s-/\ndef %s : MatchTable :=\n  { onParam := %s, bodyIsMatch := %s, fall := .%s,\n    arms := %s }\n"
            % (doc.replace("-/", "- /"), name, b(t["onParam"]), b(t["bodyIsMatch"]), t["fall"], C.lean_list(arms)))


HEADER = "/- GENERATED by checklib/%s from /repo/src — do not edit; regenerated on every ./check run (tie T). -/\nimport CwMt.Model.Route\n"


def router_file(ts):
    s = HEADER % "tr_router.py" + "namespace CwMt.Gen.Router\nopen CwMt.Route\n\n"
    for name in ("execTable", "queryTable", "sudoTable"):
        s += lean_match_table(name, ts[name]) + "\n"
    return s + "end CwMt.Gen.Router\n"


def lift_file(t):
    arms = ["{ variant := .%s, feature := .%s, binders := %d, out := %s }" % (a["variant"], a["feature"], a["binders"], a["out"])
            for a in t["arms"]]
    doc = "".join("  -- %s\n" % a["text"] for a in t["arms"])
    sub = ", ".join("(.%s, %s)" % (n, b(k)) for n, k in t["subFields"])
    return (HEADER % "tr_router.py" + "namespace CwMt.Gen.Lift\nopen CwMt.Route\n\n"
            "/-- arms of `customize_msg` as written in /repo/src/contracts.rs:\n%s-/\ndef table : LiftTable :=\n"
            "  { bodyIsRebuild := %s, fall := .%s,\n    subFields := [%s],\n    arms := %s }\n\nend CwMt.Gen.Lift\n"
            % (doc.replace("-/", "- /"), b(t["bodyIsRebuild"]), t["fall"], sub, C.lean_list(arms)))


# ---- the conditions of C17 evaluated on the extracted tables (counter-example finder) ---------------

MODULE = {"any": "stargate", "grpc": "stargate"}
PARTS = {"stargate": 2}
EXEC_KINDS = ["wasm", "bank", "custom", "staking", "distribution", "ibc", "gov", "stargate", "any"]
QUERY_KINDS = ["wasm", "bank", "custom", "staking", "ibc", "stargate", "grpc"]
SUDO_KINDS = ["wasm", "bank", "staking"]


def route_cex(table_name, t, kinds, method_of, ctx):
    out = []
    if not (t["onParam"] and t["bodyIsMatch"]):
        out.append({"table": table_name, "kind": "*", "observed": "; ".join(t["notes"]) or "function body not understood"})
    for k in kinds:
        arms = [a for a in t["arms"] if a["variant"] == k]
        want = ctx + [".bound %d" % i for i in range(PARTS.get(k, 1))]
        if not arms:
            out.append({"table": table_name, "kind": k, "observed": "no arm: falls through to %s" % t["fall"]})
        elif len(arms) > 1:
            out.append({"table": table_name, "kind": k, "observed": "%d arms" % len(arms)})
        else:
            a = arms[0]
            if (a["recv"], a["method"], a["args"], a["direct"]) != (MODULE.get(k, k), method_of(k), want, True):
                out.append({"table": table_name, "kind": k, "observed": a["text"]})
    return out


def lift_cex(t):
    out = []
    if not t["bodyIsRebuild"]:
        out.append({"table": "Lift", "kind": "*", "observed": "; ".join(t["notes"]) or "function body not understood"})
    for f in ("id", "payload", "gas_limit", "reply_on"):
        if dict(t["subFields"]).get(f) is not True:
            out.append({"table": "Lift", "kind": "*", "field": f, "observed": "SubMsg field not passed through"})
    for k in EXEC_KINDS:
        if k == "custom":
            continue
        arms = [a for a in t["arms"] if a["variant"] == k]
        want = ".rebuild .%s [%s]" % (k, ", ".join(".bound %d" % i for i in range(PARTS.get(k, 1))))
        if not arms:
            out.append({"table": "Lift", "kind": k, "observed": "no arm: falls through to %s" % t["fall"]})
        elif len(arms) > 1 or arms[0]["out"] != want:
            out.append({"table": "Lift", "kind": k, "observed": arms[0]["text"]})
    return out


def translate(root, log):
    problems, cex = [], []
    app = C.strip_comments(C.read_src("app.rs"))
    ts = {}
    impls = C.find_impl(app, r"CosmosRouter for Router<")
    fns = {f["name"]: f for (lo, hi) in impls for f in C.find_fns(app, lo, hi)} if len(impls) == 1 else {}
    spec = {"execTable": ("execute", "CosmosMsg", "msg", False), "queryTable": ("query", "QueryRequest", "request", True),
            "sudoTable": ("sudo", "SudoMsg", "msg", False)}
    for name, (fn, enum, param, q) in spec.items():
        if fn in fns:
            ts[name] = read_router_fn(fns[fn], enum, param, q)
        else:
            ts[name] = {"onParam": False, "bodyIsMatch": False, "arms": [], "fall": "missing",
                        "notes": ["fn %s of `impl CosmosRouter for Router` not found" % fn]}
    lt = read_lift(C.strip_comments(C.read_src("contracts.rs")))
    lean = os.path.join(root, "lean", "CwMt", "Gen")
    C.write_if_changed(os.path.join(lean, "Router.lean"), router_file(ts), log)
    C.write_if_changed(os.path.join(lean, "Lift.lean"), lift_file(lt), log)

    cex += route_cex("Router.execTable", ts["execTable"], EXEC_KINDS, lambda k: {"stargate": "execute_stargate", "any": "execute_any"}.get(k, "execute"),
                     [".api", ".storage", ".router", ".block", ".sender"])
    cex += route_cex("Router.queryTable", ts["queryTable"], QUERY_KINDS, lambda k: {"stargate": "query_stargate", "grpc": "query_grpc"}.get(k, "query"),
                     [".api", ".storage", ".querier", ".block"])
    cex += route_cex("Router.sudoTable", ts["sudoTable"], SUDO_KINDS, lambda k: "sudo", [".api", ".storage", ".router", ".block"])
    cex += lift_cex(lt)
    for t in list(ts.values()) + [lt]:
        problems += ["tr_router: " + n for n in t["notes"]]
    if cex:
        problems.append("tr_router: %d row(s) of the generated routing/lifting tables break the conditions of C17 (see counterexamples)" % len(cex))
        C.confirm(root, cex, log)
    summary = {"source": os.path.join(C.REPO, "src"), "exec_arms": len(ts["execTable"]["arms"]), "query_arms": len(ts["queryTable"]["arms"]),
               "sudo_arms": len(ts["sudoTable"]["arms"]), "lift_arms": len(lt["arms"]),
               "falls": {k: v["fall"] for k, v in ts.items()} | {"lift": lt["fall"]}}
    return {"problems": problems, "counterexamples": cex, "summary": summary}


if __name__ == "__main__":
    import json, sys
    r = translate(sys.argv[1] if len(sys.argv) > 1 else os.path.dirname(os.path.dirname(os.path.abspath(__file__))), print)
    print(json.dumps(r, indent=1))
