"""Tie T: translators that regenerate Lean tables from /repo/src on every run."""
import os


def run(pid, cfg, root, log):
    info = {"problems": [], "counterexamples": [], "summary": {}}
    for t in cfg.get("translators", []):
        mod = __import__(t)
        r = mod.translate(root, log)
        info["problems"] += r.get("problems", [])
        info["counterexamples"] += r.get("counterexamples", [])
        info["summary"][t] = r.get("summary", {})
    return info


def run_all(props, root, log):
    done = set()
    for pid, cfg in props.items():
        for t in cfg.get("translators", []):
            if t not in done:
                done.add(t)
                __import__(t).translate(root, log)
