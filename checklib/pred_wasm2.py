"""
More model-free predicates for the wasm slices. Each evaluates a rule of a property text directly on the
implementation transcript, only on shapes where the expected value follows from the op text and earlier
observations alone (no model run): returns None when a case has another shape.

  data_rule        (C04)  "The returned data is the data of the last reply that set data, otherwise the contract's own
                          data; execute and migrate results wrap it (only when present); a sub-message whose reply is
                          not invoked contributes no data."
  supply_conserved (C01/C02/C09) coins are neither created nor destroyed by transactions that contain no burn / mint
  funds_visible    (C05)  "attached funds have already been moved from the sender to the callee when the contract runs"
"""
import re
from pred_wasm import parse_sx, print_sx, fnv, binds_of, TX_OPS, READ_OPS


def unhex(tok):
    """bytes of a hex token of the line protocol (`-` empty, `aa*3` repetition, `+` concatenation); None if malformed"""
    if tok == "-":
        return b""
    out = b""
    for part in tok.split("+"):
        try:
            if "*" in part:
                b, n = part.split("*", 1)
                out += bytes([int(b, 16)]) * int(n)
            elif part != "-":
                out += bytes.fromhex(part)
        except ValueError:
            return None
    return out


def hexs(b):
    return "-" if not b else b.hex()


def varint(n):
    out = b""
    while True:
        if n < 0x80:
            return out + bytes([n])
        out += bytes([(n & 0x7F) | 0x80])
        n >>= 7


def wrap_execute(d):
    """MsgExecuteContractResponse{data}: protobuf omits an empty bytes field"""
    return b"" if not d else b"\x0a" + varint(len(d)) + d


def all_sub_ids(ops):
    ids = []

    def walk_script(s):
        if not isinstance(s, list):
            return
        for a in s:
            if isinstance(a, list) and a:
                if a[0] == "sub" and len(a) >= 5:
                    ids.append(a[1])
                    walk_script(a[3])
                    walk_msg(a[4])
                elif a[0] == "msg" and len(a) >= 2:
                    walk_msg(a[1])

    def walk_msg(m):
        if isinstance(m, list) and m:
            if m[0] in ("exec", "inst") and len(m) > 2:
                walk_script(m[2])
            elif m[0] == "mig" and len(m) > 3:
                walk_script(m[3])
    for op in ops:
        h = op.split(" ", 1)[0]
        if h not in TX_OPS:
            continue
        items = parse_sx(op)
        if not items:
            continue
        if items[0] == "exec" and len(items) > 2:
            walk_msg(items[2])
        elif items[0] == "multi" and len(items) > 2 and isinstance(items[2], list):
            for m in items[2]:
                walk_msg(m)
        elif items[0] in ("sudo-wasm", "wasm-sudo") and len(items) > 2:
            walk_script(items[2])
        elif items[0] in ("h-inst", "h-exec") and len(items) > 3:
            walk_script(items[3])
        elif items[0] == "h-mig" and len(items) > 4:
            walk_script(items[4])
    return ids


class Unknown(Exception):
    pass


def expected_data(script, replied):
    """data of the response that processing `script`'s response yields, given the set of sub-message ids whose reply
    handler was invoked in this (successful) transaction; raises Unknown on shapes the rule text does not settle"""
    if not isinstance(script, list):
        raise Unknown()
    d = None
    for a in script:
        if isinstance(a, list) and a and a[0] == "data":
            if len(a) != 2 or not isinstance(a[1], str):
                raise Unknown()
            b = unhex(a[1])
            if b is None:
                raise Unknown()
            d = b
    for a in script:
        if isinstance(a, list) and a and a[0] == "sub":
            if len(a) < 5 or not isinstance(a[1], str):
                raise Unknown()
            if a[1] in replied:
                r = expected_data(a[3], replied)
                if r is not None:
                    d = r
    return d


def data_rule(ops, impl):
    ids = all_sub_ids(ops)
    if len(ids) != len(set(ids)):
        return None           # ids are not unique in this case: reply entries cannot be attributed
    for n, (op, out) in enumerate(zip(ops, impl)):
        if not out.startswith("ok [") or n + 1 >= len(ops) or ops[n + 1] != "trace" or not impl[n + 1].startswith("trace["):
            continue
        items = parse_sx(op)
        if not items:
            continue
        kind, script = None, None
        if items[0] == "exec" and len(items) > 2 and isinstance(items[2], list) and items[2]:
            m = items[2]
            if m[0] == "exec" and len(m) > 2:
                kind, script = "wrapped", m[2]
            elif m[0] == "mig" and len(m) > 3:
                kind, script = "wrapped", m[3]
        elif items[0] in ("sudo-wasm", "wasm-sudo") and len(items) > 2:
            kind, script = "raw", items[2]
        # (the Executor helpers `execute_contract` / `migrate_contract` post-process the data: not covered here)
        if kind is None or not isinstance(script, list):
            continue
        parts = out.split(" ")
        if len(parts) != 3:
            continue
        replied = set(re.findall(r" reply:(\d+):(?:ok|err)", impl[n + 1]))
        try:
            d = expected_data(script, replied)
        except Unknown:
            continue
        want = "~" if d is None else hexs(wrap_execute(d) if kind == "wrapped" else d)
        if parts[2] != want:
            return ("op %d `%s`: returned data %s, but the rule (own data, replaced by the data of each later reply that was invoked "
                    "and set data; replies invoked for ids %s) gives %s%s" % (
                        n, op[:200], parts[2][:80], sorted(replied), want[:80], " (execute-response encoding)" if kind == "wrapped" and d else ""))
    return None


# --------------------------------------------------------------------------------------------------

def parse_bank(dump):
    m = re.search(r"bank\{([^}]*)\}", dump)
    if not m:
        return None
    res = {}
    for ent in m.group(1).split(";"):
        if not ent:
            continue
        if "=" not in ent:
            return None
        a, cs = ent.split("=", 1)
        bal = {}
        for c in cs.split(","):
            if not c:
                continue
            if ":" not in c:
                return None
            amt, den = c.split(":", 1)
            if not amt.isdigit():
                return None
            bal[den] = bal.get(den, 0) + int(amt)
        res[a] = bal
    return res


def totals(bank):
    t = {}
    for bal in bank.values():
        for d, n in bal.items():
            t[d] = t.get(d, 0) + n
    return {d: n for d, n in t.items() if n}


NEUTRAL = set(READ_OPS) | {"trace", "rawhash", "dump", "bind", "bind2", "bind2x", "bindc", "section", "nondet", "store", "store-w", "store-c",
                           "store-as", "store-id", "dup", "block", "next-block"}


def supply_conserved(ops, impl):
    if any(o.startswith("stk-") for o in ops):
        return None        # staking set up: reward withdrawals mint
    app = "1"
    prev = {}              # app -> (op index, totals)
    for n, (op, out) in enumerate(zip(ops, impl)):
        h = op.split(" ", 1)[0]
        if h == "app":
            app = op.split()[1] if len(op.split()) > 1 else "1"
        elif h == "dump":
            bank = parse_bank(out)
            if bank is None:
                prev.pop(app, None)
                continue
            t = totals(bank)
            if app in prev and prev[app][1] != t:
                return ("total supply changed from %s (after op %d) to %s (after op %d) although no operation in between burns or mints: %s" % (
                    prev[app][1], prev[app][0], t, n, " ; ".join(o[:120] for o in ops[prev[app][0] + 1:n] if o.split(" ", 1)[0] in TX_OPS)[:600]))
            prev[app] = (n, t)
        elif h in TX_OPS:
            if h == "sudo-mint" or "burn" in op or "(ext " in op or "(stk" in op:
                prev.pop(app, None)
        elif h not in NEUTRAL:
            prev.pop(app, None)
    return None


# --------------------------------------------------------------------------------------------------

def funds_visible(ops, impl):
    b = binds_of(ops)
    stk = any(o.startswith("stk-") for o in ops)
    app = "1"
    bank = {}          # app -> bank as of the last dump, valid while no state-changing op intervened
    for n, (op, out) in enumerate(zip(ops, impl)):
        h = op.split(" ", 1)[0]
        if h == "app":
            app = op.split()[1] if len(op.split()) > 1 else "1"
            continue
        if h == "dump":
            bk = parse_bank(out)
            if bk is None:
                bank.pop(app, None)
            else:
                bank[app] = bk
            continue
        if h in READ_OPS or h in ("trace", "rawhash", "bind", "bind2", "bind2x", "bindc", "section", "nondet"):
            continue
        if h == "h-send":
            # Executor::send_tokens is BankMsg::Send through the router: the stock bank rejects a transfer that carries no
            # positive amount ("carries no positive amount, fails and changes nothing"); answering Ok means no module saw it
            t = op.split(" ")
            if len(t) == 4 and (t[3] == "-" or all(re.fullmatch(r"0+:\w+", c) for c in t[3].split(","))) and out.startswith("ok"):
                return "op %d `%s`: a transfer without any positive amount was answered Ok (the bank module rejects it)" % (n, op[:160])
        cur = bank.pop(app, None)      # any other op may change balances: the snapshot is used for this op only
        if cur is None or n + 1 >= len(ops) or ops[n + 1] != "trace" or not impl[n + 1].startswith("trace["):
            continue
        if h in TX_OPS and h != "sudo-mint" and not stk:
            # "attaching more than the sender owns fails without running the contract": nobody can own more than exists.
            # Within one transaction coins are only moved or burnt, so the supply of the last dump bounds every attachment.
            sup = totals(cur)
            for e in impl[n + 1][6:-1].split(" || "):
                t = e.split("|", 1)[0].split(" ")
                if len(t) >= 8 and t[1] in ("execute", "instantiate") and t[4] != "-":
                    for c in t[4].split(","):
                        if re.fullmatch(r"\d+:\w+", c):
                            a, dn = c.split(":")
                            if int(a) > sup.get(dn, 0):
                                return ("op %d `%s`: %s ran `%s` with attached funds %s from %s, but only %d %s exist on the whole chain — "
                                        "the sender cannot own them" % (n, op[:160], t[0], t[1], c, t[3], sup.get(dn, 0), dn))
        if h != "exec":
            continue
        items = parse_sx(op)
        if not items or len(items) < 3 or not isinstance(items[2], list) or not items[2] or not isinstance(items[1], str):
            continue
        m = items[2]
        if m[0] == "exec" and len(m) > 3:
            entry, script, funds, callee_sym = "execute", m[2], m[3], m[1]
        elif m[0] == "inst" and len(m) > 3:
            entry, script, funds, callee_sym = "instantiate", m[2], m[3], None
        else:
            continue
        if not isinstance(script, list) or not isinstance(funds, str) or not re.fullmatch(r"\d+:\w+", funds):
            continue
        amt, den = funds.split(":")
        amt = int(amt)
        entries = [e for e in impl[n + 1][6:-1].split(" || ") if e]
        if not entries:
            continue
        head, _, notes = entries[0].partition("|")
        t = head.split(" ")
        if len(t) < 8 or t[1] != entry or not head.endswith("#" + fnv(print_sx(script))):
            continue
        callee = t[0]
        sender = b.get(items[1], items[1])
        if callee_sym is not None and b.get(callee_sym, callee_sym) != callee:
            continue
        if sender == callee or t[3] != sender or t[4] != funds:
            continue
        qb = [a for a in script if isinstance(a, list) and a and a[0] == "qbal"]
        got = [x[5:] for x in notes.split(";") if x.startswith("qbal=")]
        if len(qb) != len(got):
            continue
        for a, g in zip(qb, got):
            if len(a) != 3 or not isinstance(a[1], str) or not g.isdigit():
                continue
            who = b.get(a[1], a[1])
            before = cur.get(who, {}).get(a[2], 0)
            want = before + (amt if who == callee and a[2] == den else 0) - (amt if who == sender and a[2] == den else 0)
            if int(g) != want:
                return ("op %d `%s`: while `%s` runs with funds %s from %s, its bank query for %s/%s answers %s, but the balance before the call was "
                        "%d and the funds must already have moved (expected %d)" % (n, op[:200], entry, funds, items[1], a[1], a[2], g, before, want))
    return None


def pred_c09_wasm(ops, impl):
    """C09 on the path from contracts to the ledger (slice wasm of C09)"""
    return supply_conserved(ops, impl) or funds_visible(ops, impl)


def own_events_unchanged(ops, impl):
    """C13/C04: "accepted keys, values and event types surface unchanged": the response of a successful top-level call starts
    with the entry-point event, then `wasm` with the contract's attributes (if any), then one `wasm-<type>` per custom event
    of the contract's own response, each with `_contract_address` first and its attributes in order, all byte-for-byte."""
    from pred_wasm import pdec, parse_events
    for n, (op, out) in enumerate(zip(ops, impl)):
        if not out.startswith("ok ["):
            continue
        items = parse_sx(op)
        if not items:
            continue
        script = None
        if items[0] == "exec" and len(items) > 2 and isinstance(items[2], list) and items[2] and items[2][0] == "exec" and len(items[2]) > 2:
            script = items[2][2]
        elif items[0] in ("sudo-wasm", "wasm-sudo") and len(items) > 2:
            script = items[2]
        if not isinstance(script, list):
            continue
        parts = out.split(" ")
        evs = parse_events(parts[1]) if len(parts) > 1 else None
        if not evs:
            continue
        try:
            attrs = [(pdec(a[1]), pdec(a[2])) for a in script if isinstance(a, list) and a and a[0] == "attr" and len(a) == 3]
            customs = []
            for a in script:
                if isinstance(a, list) and a and a[0] == "ev" and len(a) >= 2 and isinstance(a[1], str):
                    kv = []
                    for x in a[2:]:
                        if not (isinstance(x, list) and len(x) == 2 and isinstance(x[0], str) and isinstance(x[1], str)):
                            raise ValueError
                        kv.append((pdec(x[0]), pdec(x[1])))
                    customs.append(("wasm-" + pdec(a[1]), kv))
            if any(isinstance(a, list) and a and a[0] in ("attr", "ev") and not all(isinstance(x, (str, list)) for x in a) for a in script):
                continue
        except (ValueError, IndexError):
            continue
        got = [(pdec(t), [(pdec(k), pdec(v)) for k, v in kv if True]) for t, kv in evs]
        k = 1
        if attrs:
            if len(got) <= k or got[k][0] != "wasm" or got[k][1][1:] != attrs:
                return "op %d `%s`: the `wasm` event does not carry the contract's attributes unchanged: expected %s, got %s" % (
                    n, op[:160], attrs, got[k] if len(got) > k else None)
            k += 1
        for j, (ty, kv) in enumerate(customs):
            if len(got) <= k + j or got[k + j][0] != ty or got[k + j][1][1:] != kv:
                return "op %d `%s`: custom event %d must surface as %r with attributes %s, got %s" % (
                    n, op[:160], j, ty, kv, got[k + j] if len(got) > k + j else None)
    return None


def pred_c14_wasm(ops, impl):
    """C14 on slice wasm-stk: "no sequence of valid staking operations and block updates makes the simulator panic" — the
    generator of this slice issues only valid set-up (commission <= 1, whole-second non-decreasing block times), so any
    `panic` answer of a transaction, sudo or block change is a violation; plus the atomicity / supply checks of C01."""
    import pred_wasm
    for n, (op, out) in enumerate(zip(ops, impl)):
        h = op.split(" ", 1)[0]
        # (a contract packaged over `Empty` that emits CosmosMsg::Custom panics in the lifting code — reading R3, nothing to do
        # with staking; such transactions are not judged here)
        if out == "panic" and (h in TX_OPS or h in ("block", "next-block", "sudo-slash")) and "(ext custom" not in op:
            return "op %d `%s` made the simulator panic" % (n, op[:200])
    return pred_wasm.pred_c01(ops, impl)


def later_reads_see_writes(ops, impl):
    """C10 "a query issued by a contract while it executes observes the effects of everything that completed earlier in the same
    transaction": in a transaction in which nothing failed anywhere (result ok, no reply received an error — so nothing was rolled
    back) the state is the sequential effect of all bodies in invocation order (the trace). Every own-storage read `rd K` and every
    raw query `qraw X K` of a key written earlier in the same transaction must answer accordingly: `rd` sees the contract's own
    in-flight writes, a query sees the state at the start of the querying body. Keys not yet written in the transaction are skipped."""
    from pred_wasm import scripts_of_op
    b = binds_of(ops)
    for n, (op, out) in enumerate(zip(ops, impl)):
        h = op.split(" ", 1)[0]
        if h not in TX_OPS or not out.startswith("ok") or n + 1 >= len(ops) or ops[n + 1] != "trace":
            continue
        tr = impl[n + 1]
        if not tr.startswith("trace[") or re.search(r" reply:\d+:err", tr):
            continue
        items = parse_sx(op)
        if not items:
            continue
        by_hash = {}
        for sc in scripts_of_op(items):
            by_hash.setdefault(fnv(print_sx(sc)), sc)
        store = {}
        for e in [x for x in tr[6:-1].split(" || ") if x]:
            head, _, notes = e.partition("|")
            t = head.split(" ")
            hsh = head.rsplit("#", 1)[-1] if "#" in head else None
            sc = by_hash.get(hsh)
            if len(t) < 2 or sc is None:
                store = None      # an invocation whose script is unknown: writes unknown from here on
                break
            callee = t[0]
            pre = dict(store)
            rds = [x[3:] for x in notes.split(";") if x.startswith("rd=")]
            qrs = [x[5:] for x in notes.split(";") if x.startswith("qraw=")]
            ri = qi = 0
            for a in sc:
                if not (isinstance(a, list) and a and isinstance(a[0], str)):
                    continue
                if a[0] in ("w", "rm", "rd") and len(a) >= 2 and isinstance(a[1], str):
                    k = unhex(a[1])
                    if k is None:
                        store = None
                        break
                    if a[0] == "w":
                        v = unhex(a[2]) if len(a) >= 3 and isinstance(a[2], str) else None
                        if v is None:
                            store = None
                            break
                        store[(callee, k)] = v
                    elif a[0] == "rm":
                        store[(callee, k)] = None
                    else:
                        if ri < len(rds) and (callee, k) in store:
                            want = "none" if store[(callee, k)] is None else hexs(store[(callee, k)])
                            if rds[ri] != want:
                                return ("op %d `%s`: nothing failed in this transaction, yet %s reading its own key %s gets %s where the "
                                        "writes made so far in the transaction give %s" % (n, op[:160], callee, a[1], rds[ri], want))
                        ri += 1
                elif a[0] == "qraw" and len(a) >= 3 and isinstance(a[1], str) and isinstance(a[2], str):
                    k = unhex(a[2])
                    who = b.get(a[1], a[1])
                    if k is not None and qi < len(qrs) and (who, k) in pre and qrs[qi] != "err":
                        v = pre[(who, k)]
                        want = "-" if not v else hexs(v)
                        if qrs[qi] != want:
                            return ("op %d `%s`: nothing failed in this transaction, yet the raw query of %s for %s/%s answers %s where the "
                                    "writes completed earlier in the transaction give %s" % (n, op[:160], callee, a[1], a[2], qrs[qi], want))
                    qi += 1
            if store is None:
                break
    return None


# --------------------------------------------------------------------------------------------------
# C02 "absorbed exactly when reply_on Error/Always and the reply handler succeeds" / C01 "Ok with every effect persisted":
# a syntactic SUFFICIENT condition for "this invocation returns Ok", evaluated on the op text and on which
# contracts the implementation itself listed in its last dump.

_PLAIN_OK = ("rm", "rd", "rng", "rngk", "rngv", "data", "qbal", "qall", "qsup", "qraw", "qinfo", "qcode")


def contracts_in_dump(dump):
    m = re.search(r" contracts\{([^}]*)\}", dump)
    if not m:
        return set()
    return set(e.split("=", 1)[0] for e in m.group(1).split(";") if e)


def store_in_dump(dump, addr):
    """records of one contract as {hexkey: hexval} from a `dump` line, {} when the contract has none"""
    m = re.search(r" store\{([^}]*)\}", dump)
    if not m:
        return None
    for e in m.group(1).split(";"):
        if e.startswith(addr + "=["):
            body = e[len(addr) + 2:-1]
            return dict(kv.split("=", 1) for kv in body.split(",") if kv)
    return {}


def certainly_ok(script, existing, b):
    from pred_wasm import action_malformed, msg_certainly_fails
    if not isinstance(script, list):
        return False
    for a in script:
        if not isinstance(a, list) or not a:
            return False
        h = a[0]
        if h == "w":
            if len(a) < 3 or a[2] == "-" or unhex(a[1]) is None or not unhex(a[2]):
                return False
        elif h in _PLAIN_OK:
            continue
        elif h in ("attr", "ev"):
            if action_malformed(a):
                return False
        elif h == "sub" and len(a) >= 5:
            mode, reply, m = a[2], a[3], a[4]
            if msg_certainly_fails(m):
                if mode not in ("error", "always") or not certainly_ok(reply, existing, b):
                    return False
            elif msg_certainly_ok(m, existing, b):
                if mode in ("success", "always") and not certainly_ok(reply, existing, b):
                    return False
            else:
                return False
        elif h == "msg" and len(a) >= 2:
            if not msg_certainly_ok(a[1], existing, b):
                return False
        else:
            return False
    return True


def msg_certainly_ok(m, existing, b):
    return (isinstance(m, list) and len(m) >= 4 and m[0] == "exec" and m[3] == "-" and isinstance(m[1], str)
            and b.get(m[1], m[1]) in existing and certainly_ok(m[2], existing, b))


def must_succeed(ops, impl):
    """a top-level execute of an existing contract whose whole tree certainly succeeds (failures only inside sub-messages
    sent with reply_on error/always whose reply scripts certainly succeed) must return Ok"""
    b = binds_of(ops)
    existing = {}
    app = "1"
    for n, (op, out) in enumerate(zip(ops, impl)):
        t = op.split(" ", 1)[0]
        if t == "app":
            app = op.split()[1]
        elif t == "dump":
            existing[app] = contracts_in_dump(out)
        elif t == "exec" and app in existing:
            items = parse_sx(op)
            if items and len(items) > 2 and isinstance(items[1], str) and msg_certainly_ok(items[2], existing[app], b):
                if out.split(" ", 1)[0] != "ok":
                    return "op %d `%s` returned %s although every failure in its tree is confined to sub-messages sent with reply_on error/always whose reply handlers succeed" % (n, op[:200], out[:40])
    return None


def own_writes_persist(ops, impl):
    """Ok with every effect persisted: a successful top-level execute whose tree is one script (no messages) leaves exactly
    the last write / removal of every key it touched in that contract's state"""
    b = binds_of(ops)
    for n, (op, out) in enumerate(zip(ops, impl)):
        if not op.startswith("exec ") or out.split(" ", 1)[0] != "ok":
            continue
        items = parse_sx(op)
        if not items or len(items) < 3 or not isinstance(items[2], list) or len(items[2]) < 3 or items[2][0] != "exec":
            continue
        sc = items[2][2]
        if not isinstance(sc, list) or any(isinstance(a, list) and a and a[0] in ("sub", "msg") for a in sc):
            continue
        final = {}
        for a in sc:
            if isinstance(a, list) and len(a) >= 2 and a[0] in ("w", "rm"):
                k = unhex(a[1])
                if k is None:
                    final = None
                    break
                final[hexs(k)] = hexs(unhex(a[2]) or b"") if a[0] == "w" and len(a) >= 3 else None
        if not final:
            continue
        # the next dump before any other state-changing op
        for k in range(n + 1, min(n + 6, len(ops))):
            hk = ops[k].split(" ", 1)[0]
            if hk == "dump":
                addr = b.get(items[2][1], items[2][1])
                st = store_in_dump(impl[k], addr)
                if st is None:
                    break
                for key, want in final.items():
                    if st.get(key) != want:
                        return "op %d `%s` returned Ok but afterwards key %s of %s holds %s, its last operation on that key left %s" % (
                            n, op[:200], key, items[2][1], st.get(key), want)
                break
            if hk not in READ_OPS:
                break
    return None
