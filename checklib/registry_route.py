"""Registry fragment: engine `route` (C17, C20) — translator tie T + correspondence slice `route`."""

ROUTE_TB = [
    "translators checklib/tr_router.py / tr_builder.py (python, regex + bracket matching) are trusted to extract the arm / field tables "
    "faithfully; mitigation: every row of every table is driven on the real code by the `route` slice and compared with what the table says",
    "hand-written semantics of a Rust `match` over an arm table and of a struct rebuild over a field table (CwMt/Model/Route.lean)",
    "module slots are typed in Rust (a BankMsg can only be handed to the Bank slot); the tables record receiver field, method and arguments, "
    "the type checker is what makes `self.bank` a Bank",
]

ENGINES = [
    {"name": "route", "path": "checklib/tr_{router,builder}.py + lean/CwMt/Gen/*.lean + lean/CwMt/Model/Route.lean + harness/src/route.rs",
     "serves_properties": ["C17", "C20"],
     "kind_free_text": "router match arms, customize_msg arms and builder struct-rebuild tables are re-extracted from /repo/src on every run; "
                       "Lean theorems are re-proved over the regenerated tables; every table row is driven on the real AppBuilder/Router/ContractWrapper"},
]

_RULE = ("cases of four families from one seeded generator: (a) an App built through AppBuilder::new_custom() with recording/accepting/failing "
         "modules in a random subset of the 7 module slots (+ api/storage/block/wasm steps), then 6-14 (thorough 24) ops: messages of all 9 kinds sent "
         "top-level and as sub-messages returned from each of the five entry points (instantiate of a fresh instance, execute, migrate by an admin u2 != sender, sudo, reply) of a native contract and of an Empty-typed contract lifted by new_with_empty(..).with_sudo_empty.with_reply_empty.with_migrate_empty (1-3 messages per transaction), "
         "queries of 7 kinds, sudo of 3 kinds, each followed by `records` and storage dumps; (b) 0-6 (thorough 11) builder steps with repetitions, "
         "built and fully observed (block, storage, init count, api prefix, wasm keeper, all 19 probes), then 1-2 re-orderings that keep the last step "
         "per component, observed again; (c) ContractWrapper: new/new_with_empty + 0-5 (7) with_* steps incl. _empty variants and re-orderings; "
         "(d) malformed share 5%: ops before build, unknown kinds/steps, bad hex, lifted custom message, distribution query, custom sudo. "
         "non-trivial = a sub-message reached a module/contract, or a builder/wrapper with >= 2 steps")

PROPS = {
    "C17": {
        "claimed": True,
        "engine": "route",
        "translators": ["tr_router"],
        "technique": "Lean 4 theorems by kernel evaluation over tables regenerated from the Rust source on every run (tie T) + differential "
                     "correspondence of the table-driven model with the real Router / ContractWrapper (tie K)",
        "level_text": "Router::execute/query/sudo and customize_msg are re-read from /repo/src on every run into Lean arm tables; with the "
                      "hand-written semantics of `match` it is proved, for every message/query/sudo kind and every cargo-feature combination, that "
                      "exactly one arm exists, that it hands context, sender and payload unchanged to the module slot of that kind and returns its "
                      "result, and that lifting an Empty-typed contract's sub-message keeps kind, payload and envelope (all kinds except custom, R3). "
                      "Two engine-model theorems restate that module messages are handed on intact and that migrate's sub-messages are dispatched by the contract. On the real code, sub-message routing from every entry point with the emitting contract as sender and roll-back after a failing module are covered by correspondence and the "
                      "model-free predicate on the real App, not by a theorem of this slice.",
        "level_note": "Trusted: Lean kernel (no axioms beyond propext/Classical.choice/Quot.sound), the two ~250-line translators, the match/rebuild "
                      "semantics, Rust's type checking of module slots. Query kinds per R3; CosmosMsg::Custom from an Empty-typed contract excluded (R3).",
        "props_module": "CwMt.Props.C17",
        "slices": [{"name": "route", "quick": 4000, "thorough": 250000, "predicate": "pred_c17", "nontrivial": "nt_route"},
                   # sub-messages emitted from every entry point (instantiate, migrate, sudo, reply …) by native and
                   # ContractWrapper-lifted contracts, with the sender observable in the invocation trace and bank dumps
                   {"name": "wasm", "quick": 4000, "thorough": 40000, "predicate": "pred_c05", "nontrivial": "nt_wasm"},
                   {"name": "wasm-admin", "quick": 2000, "thorough": 20000, "predicate": "pred_c12", "nontrivial": "nt_any"},
                   # staking / distribution kinds reaching the REAL StakeKeeper / DistributionKeeper from users and contracts
                   {"name": "wasm-stk", "quick": 2000, "thorough": 40000, "predicate": "pred_c05", "nontrivial": "nt_any"}],
        "rule": _RULE,
        "trusted_base": ROUTE_TB,
        "assumptions": ["R3: query kinds are those the Router has a module slot for; Custom(Empty) cannot be lifted"],
    },
    "C20": {
        "claimed": True,
        "engine": "route",
        "translators": ["tr_builder"],
        "technique": "Lean 4 theorems (frame condition by kernel evaluation over regenerated field tables; any-order theorem by induction over the "
                     "step list) + differential correspondence with the real AppBuilder / ContractWrapper (tie K)",
        "level_text": "Every AppBuilder / ContractWrapper method is re-read from /repo/src on every run into a per-field table (kept / param / reset / "
                      "moved); it is proved that each with_* step sets exactly its own field and keeps all others (incl. the wrapper's checksum), that "
                      "therefore any list of steps (any subset, order, repetitions) yields per component the last supplied value or the constructor's "
                      "default, that all permutations agree, and that build() moves all eleven fields into App/Router and runs init_fn exactly once "
                      "after construction on that storage. The harness applies the same step lists to the real builders and observes every component.",
        "level_note": "Trusted: Lean kernel, translators, rebuild semantics. What `param` wrapping expressions (Some(Box::new(f)), customize_*_fn(f)) "
                      "do at run time is covered by correspondence (entry point answers with the supplied function's tag), not by the theorem.",
        "props_module": "CwMt.Props.C20",
        "slices": [{"name": "route", "quick": 4000, "thorough": 250000, "predicate": "pred_c20", "nontrivial": "nt_route"}],
        "rule": _RULE,
        "trusted_base": ROUTE_TB,
        "assumptions": [],
    },
}
