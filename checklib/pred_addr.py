"""
C18 — implementation-level predicate for the `addr` slice. Model-free: it only uses the op lines and
the outputs of the real `MockApiBech32` / `MockApiBech32m` / `MockApi` (never the Lean model, and it
has no bech32 code of its own).

Checked on every case:
  * total: `humanize`, `canonicalize`, `validate` never panic (a panic is only allowed for `make`);
    every output is `ok X`, `err` or `panic`;
  * `validate … x = ok y  =>  y = x` (accepted strings are returned unchanged);
  * round trip (prefixes without upper-case letters, reading R4): if `humanize v p B = ok S` occurs in the case, every `canonicalize v p S` in the case
    answers `ok B` and every `validate v p S` answers `ok S`; conversely if `canonicalize v p S = ok B`
    and `validate v p S = ok S` then every `humanize v p B` in the case answers `ok S`;
  * rejection: an op labelled `#corrupt` (single-character substitution of a valid address),
    `#foreign` (other prefix / other checksum variant), `#mixed` (mixed case) or `#malformed`
    (non-canonical padding, `validate` only) must answer `err`;
  * names: `make` is deterministic, its address validates under its own codec (`validate v p A = ok A`
    wherever that op occurs in the case) and equal addresses come only from equal
    (checksum constant, prefix, name).
"""

_LABELS = ("#corrupt", "#foreign", "#mixed", "#malformed")
_CONST = {"bech32": 1, "default": 1, "bech32m": 2}


def _has_upper(prefix_token):
    # percent-encoding keeps ASCII letters literal and writes escapes with lowercase hex digits
    return any("A" <= c <= "Z" for c in prefix_token)


def _split(op):
    toks = op.split()
    labels = [t for t in toks if t.startswith("#")]
    toks = [t for t in toks if not t.startswith("#")]
    return toks, labels


def pred_addr(ops, impl):
    if len(ops) != len(impl):
        return "%d ops but %d outputs" % (len(ops), len(impl))
    hum = {}      # (v, p, hex)    -> set of outputs
    can = {}      # (v, p, string) -> set of outputs
    val = {}      # (v, p, string) -> set of outputs
    made = {}     # (v, p, name)   -> set of outputs
    for n, (op, out) in enumerate(zip(ops, impl)):
        t, labels = _split(op)
        where = "op %d `%s`" % (n, op[:160])
        if out != "err" and out != "panic" and not out.startswith("ok "):
            return "%s: unexpected output `%s`" % (where, out[:80])
        if not t:
            continue
        kind = t[0]
        if kind in ("humanize", "canonicalize", "validate") and out == "panic":
            return "%s: panicked (the address helpers must be total)" % where
        if any(l in _LABELS for l in labels) and out != "err":
            return "%s: %s input was not rejected, answer `%s`" % (where, labels[0][1:], out[:80])
        if kind == "humanize" and len(t) == 4:
            hum.setdefault((t[1], t[2], t[3]), set()).add(out)
        elif kind == "canonicalize" and len(t) == 4:
            can.setdefault((t[1], t[2], t[3]), set()).add(out)
        elif kind == "validate" and len(t) == 4:
            val.setdefault((t[1], t[2], t[3]), set()).add(out)
            if out.startswith("ok ") and out[3:] != t[3]:
                return "%s: validation returned another string `%s`" % (where, out[3:80])
        elif kind == "make" and len(t) == 5:
            if out.startswith("trait-mismatch"):
                return "%s: the conversion helpers (IntoAddr / IntoBech32 / IntoBech32m) and addr_make of the same codec disagree: %s" % (where, out[:200])
            if out == "err":
                return "%s: addr_make returned an error value" % where
            made.setdefault((t[1], t[2], t[3]), set()).add(out)
    for d, what in ((hum, "humanize"), (can, "canonicalize"), (val, "validate"), (made, "make")):
        for k, outs in d.items():
            if len(outs) > 1:
                return "%s %s is not deterministic: %s" % (what, " ".join(k)[:120], sorted(outs)[:2])
    # round trip bytes -> string -> bytes (prefixes that are their own lowercase form, reading R4: with an
    # upper-case prefix the encoders still emit lower case and MockApiBech rejects its own output)
    for (v, p, hx), outs in hum.items():
        out = next(iter(outs))
        if not out.startswith("ok ") or _has_upper(p):
            continue
        s = out[3:]
        c = can.get((v, p, s))
        if c is not None and c != {"ok " + hx}:
            return "round trip broken: humanize %s %s %s = %s but canonicalize gives %s" % (v, p, hx[:40], s[:80], sorted(c)[0][:80])
        w = val.get((v, p, s))
        if w is not None and w != {"ok " + s}:
            return "humanized address does not validate: %s %s %s -> %s" % (v, p, s[:80], sorted(w)[0][:80])
    # round trip string -> bytes -> string for validated strings
    for (v, p, s), outs in val.items():
        if outs != {"ok " + s}:
            continue
        c = can.get((v, p, s))
        if c is None:
            continue
        c = next(iter(c))
        if not c.startswith("ok "):
            return "validated address does not canonicalize: %s %s %s" % (v, p, s[:80])
        h = hum.get((v, p, c[3:]))
        if h is not None and h != {"ok " + s}:
            return "round trip broken: %s %s %s canonicalizes to %s which humanizes to %s" % (v, p, s[:80], c[3:43], sorted(h)[0][:80])
    # names
    by_addr = {}
    for (v, p, name), outs in made.items():
        out = next(iter(outs))
        if not out.startswith("ok "):
            continue
        a = out[3:]
        w = val.get((v, p, a))
        if w is not None and w != {"ok " + a} and not _has_upper(p):
            return "address made from a name does not validate under its own codec: %s %s %s -> %s" % (v, p, a[:80], sorted(w)[0][:40])
        key = (_CONST[v], p.lower(), name)   # encoders lowercase the HRP; reading R4 takes prefixes in lowercase
        other = by_addr.setdefault(a, key)
        if other != key:
            return "two different (codec, prefix, name) give the same address %s: %s / %s" % (a[:80], other, key)
    return None


def nt_addr(ops, impl):
    """non-trivial: the case produced at least one accepted value and either a complete round trip
    (humanize ok + canonicalize ok) or at least one labelled rejection"""
    kinds_ok = set()
    labelled = False
    for op, out in zip(ops, impl):
        t, labels = _split(op)
        if out.startswith("ok ") and t:
            kinds_ok.add(t[0])
        if labels and out == "err":
            labelled = True
    return bool(kinds_ok) and (labelled or {"humanize", "canonicalize"} <= kinds_ok or "make" in kinds_ok)
