"""
Implementation-level predicates (DESIGN.md 2.4): each takes the op lines of one case and the
implementation's output lines, and returns None if the property's observable statement holds on
that transcript, else a message. They never look at the Lean model's output.
"""


def unhex(t):
    if t == "-":
        return b""
    out = b""
    for part in t.split("+"):
        if "*" in part:
            b, n = part.split("*")
            out += bytes.fromhex(b) * int(n)
        elif part != "-":
            out += bytes.fromhex(part)
    return out


def unhex_opt(t):
    return None if t == "~" else unhex(t)


def hx(b):
    return b.hex() if b else "-"


def fmt(recs):
    return "[" + ",".join("%s=%s" % (hx(k), hx(v)) for k, v in recs) + "]"


def parse_recs(s):
    if not (s.startswith("[") and s.endswith("]")):
        return None
    body = s[1:-1]
    if not body:
        return []
    out = []
    for item in body.split(","):
        k, v = item.split("=")
        out.append((unhex(k), unhex(v)))
    return out


def omap_range(d, s, e, o):
    ks = sorted(k for k in d if (s is None or k >= s) and (e is None or k < e))
    if o == "desc":
        ks.reverse()
    return [(k, d[k]) for k in ks]


# ---- C06 -----------------------------------------------------------------------------------------

def pred_overlay(ops, impl):
    """The cache stack must answer exactly like plain ordered maps: `stack[i]` is the map level i
    shows; push copies, commit replaces the level below, discard drops."""
    stack = [dict()]
    for n, (op, out) in enumerate(zip(ops, impl)):
        t = op.split()
        exp = None
        if t[0] == "push":
            stack.append(dict(stack[-1]))
            exp = "ok"
        elif t[0] == "commit":
            if len(stack) == 1:
                exp = "bad-op"
            else:
                top = stack.pop()
                stack[-1] = top
                exp = "ok"
        elif t[0] == "discard":
            if len(stack) == 1:
                exp = "bad-op"
            else:
                stack.pop()
                exp = "ok"
        elif t[0] == "set":
            stack[-1][unhex(t[1])] = unhex(t[2])
            exp = "ok"
        elif t[0] == "remove":
            stack[-1].pop(unhex(t[1]), None)
            exp = "ok"
        elif t[0] == "get":
            v = stack[-1].get(unhex(t[1]))
            exp = "none" if v is None else "some " + hx(v)
        elif t[0] == "range":
            exp = fmt(omap_range(stack[-1], unhex_opt(t[1]), unhex_opt(t[2]), t[3])[(int(t[4]) if len(t) > 4 else 0):])
        elif t[0] in ("keys", "values"):
            i = 0 if t[0] == "keys" else 1
            exp = "[" + ",".join(hx(r[i]) for r in omap_range(stack[-1], unhex_opt(t[1]), unhex_opt(t[2]), t[3])) + "]"
        elif t[0] == "base-range":
            exp = "bad-op" if len(stack) == 1 else fmt(omap_range(stack[-2], unhex_opt(t[1]), unhex_opt(t[2]), t[3]))
        elif t[0] == "dump-root":
            exp = fmt(omap_range(stack[0], None, None, "asc"))
        else:
            exp = "bad-op"
        if out != exp:
            return "op %d `%s`: implementation answered %s, an ordered map answers %s" % (n, op, out[:200], exp[:200])
    return None


def nt_overlay(ops, impl):
    # non-trivial: at least one range evaluated on a stack of depth >= 1 holding a local delta
    depth, dirty = 0, False
    for op in ops:
        t = op.split()[0]
        if t == "push":
            depth += 1
        elif t in ("commit", "discard"):
            depth = max(0, depth - 1)
        elif t in ("set", "remove") and depth > 0:
            dirty = True
        elif t == "range" and depth > 0 and dirty:
            return True
    return False


# ---- C07 -----------------------------------------------------------------------------------------

def path_prefix(tok):
    kind, rest = tok.split(":", 1)
    segs = [unhex(rest)] if kind == "s" else ([] if rest == "." else [unhex(x) for x in rest.split("/")])
    p = b""
    for s in segs:
        if len(s) > 0xFFFF:
            return None  # must panic
        p += bytes([len(s) >> 8, len(s) & 0xFF]) + s
    return p


def pred_views(ops, impl):
    """A view is exactly the window of raw keys starting with the namespace prefix."""
    raw = {}
    for n, (op, out) in enumerate(zip(ops, impl)):
        t = op.split()
        if t[0] == "base-set":
            raw[unhex(t[1])] = unhex(t[2])
            exp = "ok"
        elif t[0] == "base-remove":
            raw.pop(unhex(t[1]), None)
            exp = "ok"
        elif t[0] == "dump-root":
            exp = fmt(omap_range(raw, None, None, "asc"))
        else:
            pfx = path_prefix(t[1])
            rw = t[2] == "rw"
            if pfx is None:
                exp = "panic"
            elif t[0] == "vget":
                v = raw.get(pfx + unhex(t[3]))
                exp = "none" if v is None else "some " + hx(v)
            elif t[0] == "vset":
                if rw:
                    raw[pfx + unhex(t[3])] = unhex(t[4])
                    exp = "ok"
                else:
                    exp = "panic"
            elif t[0] == "vremove":
                if rw:
                    raw.pop(pfx + unhex(t[3]), None)
                    exp = "ok"
                else:
                    exp = "panic"
            elif t[0] == "vseq":
                if not rw:
                    exp = "panic"
                else:
                    outs = []
                    for sub in t[3:]:
                        f = sub.split(":")
                        if f[0] == "g":
                            v = raw.get(pfx + unhex(f[1]))
                            outs.append("none" if v is None else "some " + hx(v))
                        elif f[0] == "s":
                            raw[pfx + unhex(f[1])] = unhex(f[2])
                            outs.append("ok")
                        elif f[0] == "r":
                            raw.pop(pfx + unhex(f[1]), None)
                            outs.append("ok")
                        else:
                            win = {k[len(pfx):]: v for k, v in raw.items() if k.startswith(pfx)}
                            rs = omap_range(win, unhex_opt(f[1]), unhex_opt(f[2]), f[3])
                            outs.append(fmt(rs) if f[0] == "R" else "[" + ",".join(hx(r[0 if f[0] == "K" else 1]) for r in rs) + "]")
                    exp = "|".join(outs)
            elif t[0] == "vrange":
                win = {k[len(pfx):]: v for k, v in raw.items() if k.startswith(pfx)}
                exp = fmt(omap_range(win, unhex_opt(t[3]), unhex_opt(t[4]), t[5])[(int(t[6]) if len(t) > 6 else 0):])
            elif t[0] in ("vkeys", "vvalues"):
                win = {k[len(pfx):]: v for k, v in raw.items() if k.startswith(pfx)}
                i = 0 if t[0] == "vkeys" else 1
                exp = "[" + ",".join(hx(r[i]) for r in omap_range(win, unhex_opt(t[3]), unhex_opt(t[4]), t[5])) + "]"
            else:
                exp = "bad-op"
        if out != exp:
            return "op %d `%s`: implementation answered %s, the exact window answers %s" % (n, op[:120], out[:200], exp[:200])
    return None


def nt_views(ops, impl):
    # non-trivial: a vrange whose result is non-empty while the root holds keys outside the window
    for op, out in zip(ops, impl):
        if op.startswith(("vrange", "vkeys", "vvalues")) and out not in ("[]", "panic"):
            return True
    return False


# predicates of other slices live in pred_*.py next to this file
import glob as _glob, os as _os, importlib as _importlib
for _p in sorted(_glob.glob(_os.path.join(_os.path.dirname(_os.path.abspath(__file__)), "pred_*.py"))):
    _m = _importlib.import_module(_os.path.basename(_p)[:-3])
    for _k, _v in vars(_m).items():
        if not _k.startswith("_"):
            globals().setdefault(_k, _v)
