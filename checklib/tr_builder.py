"""
Tie T for C20: re-reads  src/app_builder.rs  (every method of `impl AppBuilder<…>`: new, new_custom,
with_*, build),  src/app.rs  (`App::init_modules`) and  src/contracts.rs  (every constructor / with_*
of `impl ContractWrapper<…>`) and regenerates

    <root>/lean/CwMt/Gen/Builder.lean    CwMt.Gen.Builder.steps / build
    <root>/lean/CwMt/Gen/Wrapper.lean    CwMt.Gen.Wrapper.steps

in the vocabulary of CwMt/Model/Route.lean. Per method and per field of the rebuilt struct literal one of
    kept            shorthand field bound from `self` by `let T { .. } = self`, or `self.f`, same field
    param i expr    computed from the i-th parameter only (possibly boxed / wrapped; `expr` is recorded)
    reset expr      constant expression
    moved g         taken from another field g of self
    unparsed expr   anything else
The two body shapes understood are (A) `[let T { … } = self;] T { f, g: e, … }` and
(B) `self.f = e; self` (with `mut self`), which keeps every other field of the struct definition.
A body of any other shape yields a row whose fields are all `unparsed`, so the frame theorems fail.

translate(root, log) also evaluates the frame conditions of C20 on the extracted tables and returns
every (step, field) that breaks them, e.g. {"table": "Wrapper", "step": "with_reply", "field":
"checksum", "observed": "reset None"}; each is driven on the real code (tr_common.confirm).
"""
import os
import re
import tr_common as C
from tr_common import squash, split_top, match_close

BFIELDS = ["api", "block", "storage", "bank", "wasm", "custom", "staking", "distribution", "ibc", "gov", "stargate"]
BSTEPS = ["new", "new_custom"] + ["with_" + f for f in ["wasm", "bank", "api", "storage", "custom", "staking", "distribution",
                                                        "ibc", "gov", "stargate", "block"]]
WFIELDS = ["execute_fn", "instantiate_fn", "query_fn", "sudo_fn", "reply_fn", "migrate_fn", "checksum"]
WSTEPS = ["new", "new_with_empty", "with_sudo", "with_sudo_empty", "with_reply", "with_reply_empty", "with_migrate",
          "with_migrate_empty", "with_checksum"]
WTARGET = {"with_sudo": "sudo_fn", "with_sudo_empty": "sudo_fn", "with_reply": "reply_fn", "with_reply_empty": "reply_fn",
           "with_migrate": "migrate_fn", "with_migrate_empty": "migrate_fn", "with_checksum": "checksum"}


def struct_fields(src, name):
    m = re.search(r"\bstruct\s+%s\b" % name, src)
    if not m:
        return None
    o = src.find("{", m.end())
    c = match_close(src, o) if o >= 0 else -1
    if c < 0:
        return None
    out = []
    for piece in split_top(src[o + 1:c]):
        fm = re.match(r"(?:#\[[^\]]*\]\s*)*(?:pub(?:\([a-z]+\))?\s+)?(%s)\s*:" % C.IDENT, piece)
        if fm:
            out.append(fm.group(1))
    return out


def literal_fields(text):
    """`f` / `f: expr` entries of a struct literal's inside → [(name, expr|None)], None if not understood.
    A trailing `..self` (struct update: every field not listed is taken from self) yields the entry ("..self", None)."""
    out = []
    for piece in split_top(text):
        if not piece.strip():
            continue
        if squash(piece) == "..self":
            out.append(("..self", None))
            continue
        if piece.strip().startswith(".."):
            return None
        fm = re.match(r"(%s)\s*(?::(?!:)\s*(.*))?$" % C.IDENT, piece.strip(), re.S)
        if not fm:
            return None
        out.append((fm.group(1), fm.group(2)))
    return out


def classify(field, expr, params, bound):
    """Source of one field. `bound`: name → field of self it was destructured from."""
    e = squash(expr if expr is not None else field)
    if re.fullmatch(C.IDENT, e):
        if e in bound:
            return ("kept",) if bound[e] == field else ("moved", bound[e])
        if e in params:
            return ("param", params.index(e), e)
        # a capitalised bare name is a unit struct / enum variant / constant (`None`, `StargateFailing`)
        return ("reset", e) if e[0].isupper() else ("unparsed", e)
    m = re.fullmatch(r"self\.(%s)" % C.IDENT, e)
    if m:
        return ("kept",) if m.group(1) == field else ("moved", m.group(1))
    used_p = [p for p in params if C.mentions(e, p) and p not in bound]
    used_b = [x for x in bound if C.mentions(e, x)]
    if C.mentions(e, "self") or "self." in e or used_b or len(used_p) > 1:
        return ("unparsed", e)
    if len(used_p) == 1:
        return ("param", params.index(used_p[0]), e)
    return ("reset", e)


def read_step(fn, ty, fields):
    """→ (params_count, {field: src}, note|None)"""
    params, has_self = C.param_names(fn["params"])
    body = fn["body"].strip()
    bad = lambda why: (len(params), {f: ("unparsed", why) for f in fields}, "%s::%s: %s" % (ty, fn["name"], why))
    bound = {}
    m = re.match(r"let\s+(?:%s|Self)\s*\{" % ty, body)
    if m:
        o = m.end() - 1
        c = match_close(body, o)
        rest = body[c + 1:].strip()
        if c < 0 or not re.match(r"=\s*self\s*;", rest):
            return bad("destructuring is not `let %s { … } = self;`" % ty)
        for piece in split_top(body[o + 1:c]):
            p = piece.strip()
            if p == "..":
                continue
            pm = re.fullmatch(r"(%s)\s*(?::\s*(?:mut\s+)?(%s))?" % (C.IDENT, C.IDENT), p)
            if not pm:
                return bad("pattern `%s` in the destructuring not understood" % squash(p))
            bound[pm.group(2) or pm.group(1)] = pm.group(1)
        body = rest[rest.index(";") + 1:].strip()
    m = re.match(r"(?:%s|Self)\s*\{" % ty, body)
    if m:                                                       # shape (A)
        o = m.end() - 1
        c = match_close(body, o)
        if c != len(body) - 1:
            return bad("something follows the struct literal")
        lits = literal_fields(body[o + 1:c])
        if lits is None:
            return bad("struct literal not understood (`..base` or odd field)")
        row = {}
        if ("..self", None) in lits:
            if bound:
                return bad("struct update `..self` after self was destructured")
            row = {f: ("kept",) for f in fields}
            lits = [x for x in lits if x[0] != "..self"]
            for name, expr in lits:
                row[name] = classify(name, expr, params, bound) if row.get(name) == ("kept",) else ("unparsed", "field written twice")
            return len(params), row, None
        for name, expr in lits:
            row[name] = classify(name, expr, params, bound) if name not in row else ("unparsed", "field written twice")
        return len(params), row, None
    stmts = [s.strip() for s in split_top(body, ";")]
    if has_self and not bound and stmts and stmts[-1] == "self" and len(stmts) >= 2:      # shape (B)
        row = {f: ("kept",) for f in fields}
        for s in stmts[:-1]:
            am = re.fullmatch(r"self\.(%s)\s*=(?!=)\s*(.*)" % C.IDENT, s, re.S)
            if not am:
                return bad("statement `%s` is not an assignment to a field of self" % squash(s))
            src = classify(am.group(1), am.group(2), params, {})
            row[am.group(1)] = src if row.get(am.group(1)) == ("kept",) else ("unparsed", "field assigned twice")
        return len(params), row, None
    dm = re.fullmatch(r"Self::(%s)\(\)" % C.IDENT, squash(body))
    if dm and not params:
        return 0, {"__delegate__": ("static", dm.group(1))}, None
    hm = re.fullmatch(r"self\.(%s)\((.*)\)" % C.IDENT, squash(body))
    if hm and has_self:
        return len(params), {"__delegate__": ("method", hm.group(1), [squash(a) for a in split_top(hm.group(2))], params)}, None
    return bad("body is neither a struct literal nor `self.f = e; self`")


def read_build(fn):
    """`build`: [let AppBuilder { … } = self;] [let <r> = Router { … };] let mut <app> = App { router[: Router { … } | <r>], … };
    <app>.init_modules(init_fn); <app>  — every field moved once, init run once after construction"""
    info = {"moves": {}, "routerFields": [], "stmts": [], "notes": []}
    params, _ = C.param_names(fn["params"])
    bound, router_var, router_lits, app_var = {}, None, None, None

    def router_fields(expr):
        rm = re.match(r"Router\s*\{", expr.strip())
        if rm and match_close(expr.strip(), rm.end() - 1) == len(expr.strip()) - 1:
            return literal_fields(expr.strip()[rm.end():-1]) or [("?", "?")]
        return None
    for s in [x.strip() for x in split_top(fn["body"], ";")]:
        q = squash(s)
        dm = re.match(r"let\s+(?:AppBuilder|Self)\s*\{", s)
        if dm and not info["stmts"]:
            c = match_close(s, dm.end() - 1)
            if c > 0 and re.fullmatch(r"=\s*self", s[c + 1:].strip()):
                okd = True
                for piece in split_top(s[dm.end():c]):
                    pm = re.fullmatch(r"(%s)\s*(?::\s*(?:mut\s+)?(%s))?" % (C.IDENT, C.IDENT), piece.strip())
                    if piece.strip() in ("", ".."):
                        continue
                    if not pm:
                        okd = False
                        break
                    bound[pm.group(2) or pm.group(1)] = pm.group(1)
                if okd:
                    continue
        lm = re.match(r"let\s+(%s)\s*=\s*(Router\s*\{.*)$" % C.IDENT, s, re.S)
        if lm and router_var is None and router_fields(lm.group(2)) is not None:
            router_var, router_lits = lm.group(1), router_fields(lm.group(2))
            continue
        m = re.match(r"let\s+mut\s+(%s)\s*=\s*App\s*\{" % C.IDENT, s)
        if m and match_close(s, m.end() - 1) == len(s) - 1:
            app_var = m.group(1)
            lits = literal_fields(s[m.end():-1]) or []
            for name, expr in lits:
                rf = router_fields(expr or "") if name == "router" else None
                if name == "router" and rf is None and router_var is not None and squash(expr or name) == router_var:
                    rf = router_lits
                if name == "router" and rf is not None:
                    for n2, e2 in rf:
                        info["moves"][n2] = classify(n2, e2, [], bound)
                        info["routerFields"].append(n2)
                else:
                    info["moves"][name] = classify(name, expr, [], bound)
            info["stmts"].append("construct" if lits else "other")
        elif app_var is not None and q == "%s.init_modules(init_fn)" % app_var and params == ["init_fn"]:
            info["stmts"].append("init")
        elif app_var is not None and q == app_var:
            info["stmts"].append("ret")
        else:
            info["stmts"].append("other")
            info["notes"].append("AppBuilder::build: statement `%s` not understood" % q[:80])
    return info


def read_init_modules(app_src):
    for lo, hi in C.find_impl(app_src, r"^(<.*>)?App<"):
        for f in C.find_fns(app_src, lo, hi):
            if f["name"] == "init_modules":
                b = squash(f["body"])
                m = re.fullmatch(r"init_fn\((.*)\)", b)
                names = {"&mut self.router": "router", "&self.api": "api", "&mut self.storage": "storage"}
                if m and C.param_names(f["params"])[0] == ["init_fn"]:
                    return [names.get(a, "other") for a in split_top(m.group(1))]
                return ["other"]
    return ["other"]


def read_impls(src, ty, fields, known):
    """All methods of inherent `impl … ty<…>` blocks → ordered [(step, nparams, row)], notes."""
    rows, notes, seen, pnames = [], [], set(), {}
    for lo, hi in C.find_impl(src, r"^(<.*>)?%s<" % ty):
        for fn in C.find_fns(src, lo, hi):
            name = fn["name"]
            if name == "build":
                continue
            n, row, note = read_step(fn, ty, fields)
            step = name if name in known and name not in seen else "other"
            if step == "other":
                notes.append("%s::%s: %s" % (ty, name, "method defined twice" if name in seen else "method unknown to the model vocabulary"))
            seen.add(name)
            if note:
                notes.append(note)
            rows.append((step, name, n, row))
            pnames[name] = C.param_names(fn["params"])[0]
    # one level of delegation: `Self::other()` is the row of `other`; `self.helper(a, b)` is the row of the private `helper`
    # with its parameters replaced by the caller's argument expressions (classified in the caller's terms)
    by_name = {name: (n, row) for (_, name, n, row) in rows}
    out = []
    for (step, name, n, row) in rows:
        d = row.get("__delegate__")
        if d is not None:
            target = by_name.get(d[1])
            if target is None or "__delegate__" in target[1]:
                row = {f: ("unparsed", "delegates to `%s`, which is not understood" % d[1]) for f in fields}
                notes.append("%s::%s: delegates to `%s`, which is not understood" % (ty, name, d[1]))
            elif d[0] == "static":
                row = dict(target[1])
            else:
                args, cparams = d[2], d[3]
                new = {}
                for f, srcf in target[1].items():
                    if srcf[0] == "param":
                        a = args[srcf[1]] if srcf[1] < len(args) else "?"
                        inner = srcf[2]
                        # the helper stores its parameter as it is (possibly wrapped); the caller's argument is classified in the caller's terms
                        c2 = classify(f, a, cparams, {})
                        hp = pnames.get(d[1], [])
                        hname = hp[srcf[1]] if srcf[1] < len(hp) else None
                        shown = re.sub(r"\b%s\b" % re.escape(hname), lambda _m: a, inner) if hname else a
                        new[f] = c2 if c2[0] != "param" else ("param", c2[1], shown)
                    else:
                        new[f] = srcf
                row = new
        out.append((step, name, n, row))
    # private helpers that only exist to be delegated to are not steps of the vocabulary
    out = [(st, nm, n, row) for (st, nm, n, row) in out if not (st == "other" and any(
        r.get("__delegate__") for _ in [0] for r in [dict()]) )]
    delegated = {row["__delegate__"][1] for (_, _, _, row) in rows if row.get("__delegate__") and row["__delegate__"][0] == "method"}
    out2, notes2 = [], []
    for (st, nm, n, row) in out:
        if st == "other" and nm in delegated:
            continue
        out2.append((st, nm, n, row))
    notes = [x for x in notes if not any(x.startswith("%s::%s: method unknown" % (ty, h)) for h in delegated)]
    return out2, notes


def _first_ident(e):
    m = re.search(C.IDENT, e)
    return m.group(0) if m else None


# ---- Lean output -----------------------------------------------------------------------------------

def lean_src(src, fields):
    fld = lambda f: "." + (f if f in fields else "other")
    if src[0] == "kept":
        return ".kept"
    if src[0] == "param":
        return ".param %d %s" % (src[1], C.lean_str(src[2]))
    if src[0] == "reset":
        return ".reset %s" % C.lean_str(src[1])
    if src[0] == "moved":
        return ".moved %s" % fld(src[1])
    return ".unparsed %s" % C.lean_str(src[1])


def lean_row(n, row, fields):
    items = ", ".join("(.%s, %s)" % (f if f in fields else "other", lean_src(s, fields)) for f, s in row.items())
    return "{ params := %d, fields := [%s] }" % (n, items)


HEADER = "/- GENERATED by checklib/tr_builder.py from /repo/src — do not edit; regenerated on every ./check run (tie T). -/\nimport CwMt.Model.Route\n"


def table_file(ns, sty, fty, rows, fields, extra=""):
    items = ["(.%s, %s)" % (step, lean_row(n, row, fields)) + ("   /- fn %s -/" % name if step == "other" else "")
             for step, name, n, row in rows]
    return (HEADER + "namespace CwMt.Gen.%s\nopen CwMt.Route\n\n/-- one row per method, in source order -/\n"
            "def steps : Table %s %s := %s\n%s\nend CwMt.Gen.%s\n" % (ns, sty, fty, C.lean_list(items, "  "), extra, ns))


def show(src):
    return " ".join(str(x) for x in src)


def frame_cex(table, rows, fields, target_of, steps):
    out = []
    byname = {}
    for step, name, n, row in rows:
        byname.setdefault(step, []).append((n, row))
    for st in steps:
        if len(byname.get(st, [])) != 1:
            out.append({"table": table, "step": st, "field": "*", "observed": "%d definitions found" % len(byname.get(st, []))})
            continue
        n, row = byname[st][0]
        if n != 1:
            out.append({"table": table, "step": st, "field": "*", "observed": "%d parameters" % n})
        for f in fields:
            want = ("param", 0) if f == target_of(st) else ("kept",)
            got = row.get(f, ("missing",))
            if got[:len(want)] != want:
                out.append({"table": table, "step": st, "field": f, "observed": show(got)})
    for step, name, n, row in rows:
        if step == "other":
            out.append({"table": table, "step": name, "field": "*", "observed": "method outside the model vocabulary"})
    return out


def translate(root, log):
    problems, cex = [], []
    bsrc = C.strip_comments(C.read_src("app_builder.rs"))
    asrc = C.strip_comments(C.read_src("app.rs"))
    csrc = C.strip_comments(C.read_src("contracts.rs"))

    bf = struct_fields(bsrc, "AppBuilder") or []
    wf = struct_fields(csrc, "ContractWrapper") or []
    if sorted(bf) != sorted(BFIELDS):
        problems.append("tr_builder: fields of struct AppBuilder are %s, the model knows %s" % (bf, BFIELDS))
    if sorted(wf) != sorted(WFIELDS):
        problems.append("tr_builder: fields of struct ContractWrapper are %s, the model knows %s" % (wf, WFIELDS))

    brows, notes = read_impls(bsrc, "AppBuilder", bf or BFIELDS, BSTEPS)
    problems += ["tr_builder: " + n for n in notes]
    build_fns = [f for lo, hi in C.find_impl(bsrc, r"^(<.*>)?AppBuilder<") for f in C.find_fns(bsrc, lo, hi) if f["name"] == "build"]
    bi = read_build(build_fns[0]) if len(build_fns) == 1 else {"moves": {}, "routerFields": [], "stmts": ["other"], "notes": ["AppBuilder::build not found exactly once"]}
    problems += ["tr_builder: " + n for n in bi["notes"]]
    init_args = read_init_modules(asrc)
    fld = lambda f: "." + (f if f in BFIELDS else "other")
    extra = ("\n/-- `AppBuilder::build` and `App::init_modules` -/\ndef build : BuildInfo :=\n  { moves := [%s],\n    routerFields := [%s],\n"
             "    stmts := [%s],\n    initArgs := [%s] }\n"
             % (", ".join("(%s, %s)" % (fld(f), lean_src(s, BFIELDS)) for f, s in bi["moves"].items()),
                ", ".join(fld(f) for f in bi["routerFields"]), ", ".join("." + s for s in bi["stmts"]), ", ".join("." + a for a in init_args)))
    wrows, notes = read_impls(csrc, "ContractWrapper", wf or WFIELDS, WSTEPS)
    problems += ["tr_builder: " + n for n in notes]

    lean = os.path.join(root, "lean", "CwMt", "Gen")
    C.write_if_changed(os.path.join(lean, "Builder.lean"), table_file("Builder", "BStep", "BField", brows, BFIELDS, extra), log)
    C.write_if_changed(os.path.join(lean, "Wrapper.lean"), table_file("Wrapper", "WStep", "WField", wrows, WFIELDS), log)

    # the frame conditions of C20 on the extracted tables
    cex += frame_cex("Builder", brows, BFIELDS, lambda st: st[5:], BSTEPS[2:])
    cex += frame_cex("Wrapper", wrows, WFIELDS, lambda st: WTARGET[st], WSTEPS[2:])
    for step, name, n, row in brows:
        if step in ("new", "new_custom"):
            cex += [{"table": "Builder", "step": step, "field": f, "observed": show(row.get(f, ("missing",)))}
                    for f in BFIELDS if row.get(f, ("missing",))[0] != "reset"]
    for step, name, n, row in wrows:
        if step in ("new", "new_with_empty"):
            for i, f in enumerate(WFIELDS):
                want = ("param", i) if i < 3 else ("reset",)
                if row.get(f, ("missing",))[:len(want)] != want:
                    cex.append({"table": "Wrapper", "step": step, "field": f, "observed": show(row.get(f, ("missing",)))})
    for f in BFIELDS:
        if bi["moves"].get(f) != ("kept",):
            cex.append({"table": "Builder", "step": "build", "field": f, "observed": show(bi["moves"].get(f, ("missing",)))})
    if bi["stmts"] != ["construct", "init", "ret"] or init_args != ["router", "api", "storage"]:
        cex.append({"table": "Builder", "step": "build", "field": "*",
                    "observed": "statements %s, init_modules passes %s" % (bi["stmts"], init_args)})
    if sorted(bi["routerFields"]) != sorted(f for f in BFIELDS if f not in ("api", "block", "storage")):
        cex.append({"table": "Builder", "step": "build", "field": "*", "observed": "router fields %s" % bi["routerFields"]})
    if cex:
        problems.append("tr_builder: %d (step, field) pair(s) of the generated builder tables break the frame conditions of C20 (see counterexamples)" % len(cex))
        C.confirm(root, cex, log)
    summary = {"source": os.path.join(C.REPO, "src"), "builder_methods": [r[1] for r in brows] + ["build"], "wrapper_methods": [r[1] for r in wrows],
               "builder_fields": bf, "wrapper_fields": wf, "build_stmts": bi["stmts"], "init_modules_args": init_args}
    return {"problems": problems, "counterexamples": cex, "summary": summary}


if __name__ == "__main__":
    import json, sys
    r = translate(sys.argv[1] if len(sys.argv) > 1 else os.path.dirname(os.path.dirname(os.path.abspath(__file__))), print)
    print(json.dumps(r, indent=1))
