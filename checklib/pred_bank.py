"""
C09 — implementation-level predicate for the `bank` slice (see harness/src/bank.rs for the vocabulary).

Uses only the op lines and the implementation's answers (never the model):
  * every `snap` line is internally consistent: Balance{a,d} is the d entry of AllBalances{a}; every
    AllBalances answer and every stored balance is normalised (strictly sorted by denom, no zero amount);
    the raw dump is in key order, has one entry per address and agrees with AllBalances for every bound
    address; Supply{d} = sum of the balances of all accounts;
  * for every state-changing op, python-int arithmetic on the balances queried BEFORE the op (the snapshot
    that precedes it; the generator emits one after every such op, and a fresh App starts empty) predicts
    (a) success/failure exactly as `C09.fail_iff_*` (send/burn fail iff no coin is positive or some denom's
    total exceeds the payer's balance; mint fails iff no coin is positive or the address is invalid) and
    (b) the balances/supplies AFTER the op (`send_exact`, `burn_exact`, `mint_exact`; every other account
    unchanged), compared with the next snapshot; a failed op leaves the whole snapshot (all query answers
    and the raw dump) literally unchanged. In hand-written or minimised cases without snapshots in between
    the arithmetic is simply carried on from the last snapshot (or from the empty ledger);
  * single queries (`bal`, `all`, `supply`, `dump-bank`) agree with the balances known at that point.
"""

_MUT = ("init", "mint", "send", "sendt", "sendr", "burn")


def _pdec(s):
    if s == "%":
        return ""
    out = bytearray()
    i = 0
    b = s.encode()
    while i < len(b):
        if b[i] == 0x25:
            out.append(int(b[i + 1:i + 3], 16))
            i += 3
        else:
            out.append(b[i])
            i += 1
    return out.decode("utf-8", "replace")


def _penc(s):
    if s == "":
        return "%"
    out = ""
    for b in s.encode():
        c = chr(b)
        if (c.isascii() and c.isalnum()) or c in "_-./:":
            out += c
        else:
            out += "%%%02x" % b
    return out


def _canon(tok):
    """address token as the dump prints it"""
    if tok.startswith("raw:"):
        try:
            return "raw:" + _penc(_pdec(tok[4:]))
        except Exception:
            return tok
    return tok


def _coins(tok):
    """`-` or `<amount><denom>,…` -> list of (denom, int) or None"""
    if tok == "-":
        return []
    out = []
    for part in tok.split(","):
        n = 0
        while n < len(part) and part[n].isdigit():
            n += 1
        if n == 0 or n == len(part):
            return None
        out.append((part[n:], int(part[:n])))
    return out


def _totals(cs):
    t = {}
    for d, a in cs:
        t[d] = t.get(d, 0) + a
    return t


def _normalised(cs):
    return all(a != 0 for _, a in cs) and all(cs[i][0] < cs[i + 1][0] for i in range(len(cs) - 1))


def _nz(m):
    return {d: a for d, a in m.items() if a != 0}


class _Snap:
    pass


def _parse_snap(op, out, syms, addr_of):
    """returns (_Snap, None) or (None, message)"""
    denoms = op.split()[1:]
    parts = out.split(" ")
    if len(parts) != 4 or not (parts[0].startswith("bal=") and parts[1].startswith("all=")
                               and parts[2].startswith("supply=") and parts[3].startswith("dump=")):
        return None, "malformed snapshot %r" % out[:200]
    s = _Snap()
    s.line = out
    s.denoms = denoms
    rows = parts[0][4:].split("/") if syms else []
    alls = parts[1][4:].split("|") if syms else []
    sups = parts[2][7:].split(",") if denoms else []
    if len(rows) != len(syms) or len(alls) != len(syms) or len(sups) != len(denoms):
        return None, "snapshot has the wrong shape: %r" % out[:200]
    s.bal, s.all = {}, {}
    for sym, row, al in zip(syms, rows, alls):
        cells = row.split(",") if denoms else []
        if len(cells) != len(denoms) or not all(c.isdigit() for c in cells):
            return None, "Balance query of %s did not answer a number for every denom: %s" % (sym, row)
        s.bal[sym] = {d: int(c) for d, c in zip(denoms, cells)}
        cs = _coins(al)
        if cs is None:
            return None, "AllBalances query of %s answered %s" % (sym, al)
        s.all[sym] = cs
    if not all(c.isdigit() for c in sups):
        return None, "Supply query answered %s" % parts[2]
    s.supply = {d: int(c) for d, c in zip(denoms, sups)}
    s.dump = []          # [(address token, coins)]
    body = parts[3][5:]
    if body != "-":
        for item in body.split(";"):
            if item.startswith("?") or "=" not in item:
                return None, "unexpected raw storage entry %s" % item[:100]
            a, c = item.split("=", 1)
            cs = _coins(c)
            if cs is None:
                return None, "stored balance of %s does not decode: %s" % (a, c[:100])
            s.dump.append((a, cs))
    # ---- internal consistency
    for sym in syms:
        if not _normalised(s.all[sym]):
            return None, "AllBalances of %s is not normalised (sorted by denom, no zeros, no duplicates): %s" % (sym, s.all[sym])
        ent = dict(s.all[sym])
        for d in denoms:
            if s.bal[sym][d] != ent.get(d, 0):
                return None, "Balance{%s,%s}=%d but AllBalances{%s} has %d" % (sym, d, s.bal[sym][d], sym, ent.get(d, 0))
    keys = [a for a, _ in s.dump]
    if len(set(keys)) != len(keys):
        return None, "two stored balances for one address: %s" % keys
    real = [addr_of(a) for a in keys]
    if any(r is None for r in real) or any(real[i].encode() >= real[i + 1].encode() for i in range(len(real) - 1)):
        return None, "raw dump is not in key order: %s" % keys
    dm = dict(s.dump)
    for a, cs in s.dump:
        if not _normalised(cs):
            return None, "stored balance of %s is not normalised: %s" % (a, cs)
    for sym in syms:
        if dm.get(sym, []) != s.all[sym]:
            return None, "AllBalances{%s}=%s but the stored balance is %s" % (sym, s.all[sym], dm.get(sym, []))
    for d in denoms:
        tot = sum(dict(cs).get(d, 0) for _, cs in s.dump)
        if s.supply[d] != tot:
            return None, "Supply{%s}=%d but the balances of all accounts add up to %d" % (d, s.supply[d], tot)
        if all(a in syms for a in keys) and s.supply[d] != sum(s.bal[sym][d] for sym in syms):
            return None, "Supply{%s}=%d but the Balance answers add up to %d" % (d, s.supply[d], sum(s.bal[sym][d] for sym in syms))
    s.accounts = {a: _nz(dict(cs)) for a, cs in s.dump}
    return s, None


def _predict(accounts, t, syms):
    """(expected outcome, expected accounts) of one state-changing op from the balances before it"""
    kind = t[0]
    amt = _coins(t[-1])
    if amt is None:
        return None, None
    tot = _totals(amt)
    positive = any(a > 0 for a in tot.values())
    acc = {a: dict(m) for a, m in accounts.items()}

    def credit(a):
        m = acc.setdefault(a, {})
        for d, x in tot.items():
            m[d] = m.get(d, 0) + x

    def debit(a):
        m = acc.setdefault(a, {})
        for d, x in tot.items():
            m[d] = m.get(d, 0) - x

    if kind == "init":
        acc[t[1]] = dict(tot)
        return "ok", acc
    if kind == "mint":
        if not positive or t[1] not in syms:
            return "err", accounts
        credit(t[1])
        return "ok", acc
    payer = t[1]
    have = accounts.get(payer, {})
    if not positive or any(x > have.get(d, 0) for d, x in tot.items()):
        return "err", accounts
    if kind == "burn":
        debit(payer)
        return "ok", acc
    if t[2] != payer:            # a self-transfer changes nothing
        debit(payer)
        credit(t[2])
    return "ok", acc


def pred_bank(ops, impl):
    syms = []
    addr = {}

    def addr_of(tok):
        if tok.startswith("raw:"):
            return _pdec(tok[4:])
        return addr.get(tok)

    # `basis`: the balances of all accounts before the next op. It is the latest snapshot (the implementation's
    # own query answers) whenever a snapshot directly precedes the op - always, in generated cases - and
    # otherwise exact arithmetic carried on from it; a fresh App starts with an empty ledger.
    basis = {}
    prev = None          # latest snapshot
    pending = []         # state-changing ops (index, tokens, outcome) since the latest snapshot
    for n, (op, out) in enumerate(zip(ops, impl)):
        t = op.split()
        if not t:
            continue
        if out == "panic" or out == "harness-panic":
            return "op %d `%s`: the implementation panicked" % (n, op[:120])
        if t[0] == "bind":
            if out != "ok":
                # a wrong or repeated declaration in a hand-written case: the symbol stays unbound for the
                # implementation (`bad-op` wherever it is used); not a statement about the ledger
                continue
            if len(t) == 3 and t[1] not in addr:
                syms.append(t[1])
                addr[t[1]] = t[2]
            prev = None
            continue
        if t[0] in _MUT:
            if out == "bad-op":      # unparsable line / unbound symbol (only in hand-edited or minimised cases): no effect
                continue
            if out not in ("ok", "err"):
                return "op %d `%s`: answered %s" % (n, op[:120], out[:100])
            t = [t[0]] + [_canon(x) for x in t[1:-1]] + [t[-1]]
            exp_out, exp_acc = _predict(basis, t, syms)
            if exp_out is None:
                continue
            if out != exp_out:
                return ("op %d `%s`: answered %s, but from the balances queried before it must %s"
                        % (n, " ".join(t)[:160], out, "succeed" if exp_out == "ok" else "fail"))
            basis = {a: _nz(v) for a, v in exp_acc.items()}
            pending.append((n, t, out))
            continue
        if t[0] == "snap":
            cur, msg = _parse_snap(op, out, syms, addr_of)
            if msg:
                return "op %d `%s`: %s" % (n, op, msg)
            what = "; ".join(" ".join(pt)[:120] for _, pt, _ in pending[-3:]) or "(no op)"
            m = pending[-1][0] if pending else n
            # every account holds exactly what the arithmetic of send_exact / burn_exact / mint_exact says
            for a in sorted(set(basis) | set(cur.accounts)):
                if basis.get(a, {}) != cur.accounts.get(a, {}):
                    return ("op %d `%s`: balance of %s is %s, exact arithmetic on the balances before gives %s"
                            % (m, what, a, cur.accounts.get(a, {}), basis.get(a, {})))
            if prev is not None and prev.denoms == cur.denoms:
                # failed ops change nothing: all query answers and the raw dump are literally the same
                if all(po == "err" for _, _, po in pending) and cur.line != prev.line:
                    return ("op %d `%s` failed but the ledger changed: before %s after %s"
                            % (m, what, prev.line[:300], cur.line[:300]))
                if len(pending) == 1 and pending[0][2] == "ok":
                    _, pt, _ = pending[0]
                    tot = _totals(_coins(pt[-1]))
                    for d in cur.denoms:
                        if pt[0] in ("send", "sendt", "sendr"):
                            e = prev.supply[d]
                        elif pt[0] == "burn":
                            e = prev.supply[d] - tot.get(d, 0)
                        elif pt[0] == "mint":
                            e = prev.supply[d] + tot.get(d, 0)
                        else:
                            e = None
                        if e is not None and cur.supply[d] != e:
                            return "op %d `%s`: Supply{%s} went from %d to %d, expected %d" % (m, what, d, prev.supply[d], cur.supply[d], e)
            prev, pending, basis = cur, [], cur.accounts
            continue
        # single queries: against the latest snapshot when nothing happened since, else against the basis
        if t[0] == "bal" and len(t) == 3 and t[1] in syms:
            e = str(basis.get(t[1], {}).get(t[2], 0))
            if out != e:
                return "op %d `%s`: answered %s, the balances before give %s" % (n, op, out, e)
        elif t[0] == "all" and len(t) == 2 and t[1] in syms:
            e = ",".join("%d%s" % (a, d) for d, a in sorted(basis.get(t[1], {}).items())) or "-"
            if out != e:
                return "op %d `%s`: answered %s, the balances before give %s" % (n, op, out, e)
        elif t[0] == "supply" and len(t) == 2:
            e = str(sum(m.get(t[1], 0) for m in basis.values()))
            if out != e:
                return "op %d `%s`: answered %s, the balances add up to %s" % (n, op, out, e)
        elif t[0] == "dump-bank" and prev is not None and not pending:
            e = prev.line.split(" dump=", 1)[1]
            if out != e:
                return "op %d `%s`: answered %s, the snapshot has %s" % (n, op, out[:200], e[:200])
    return None


def nt_bank(ops, impl):
    """non-trivial: at least one successful transfer and at least one rejected send/burn that carried a
    positive amount (i.e. rejected for insufficient funds)"""
    ok_send = rejected = False
    for op, out in zip(ops, impl):
        t = op.split()
        if not t:
            continue
        if t[0] in ("send", "sendt", "sendr") and out == "ok":
            ok_send = True
        if t[0] in ("send", "sendt", "sendr", "burn") and out == "err":
            cs = _coins(t[-1])
            if cs and any(a > 0 for _, a in cs):
                rejected = True
    return ok_send and rejected
