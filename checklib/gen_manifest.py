#!/usr/bin/env python3
"""Regenerates /verif/MANIFEST.json from checklib/registry.py (run after editing the registry)."""
import json, os, sys
ROOT = os.path.dirname(os.path.dirname(os.path.abspath(__file__)))
sys.path.insert(0, os.path.join(ROOT, "checklib"))
from registry import PROPS, ENGINES, PENDING_REASON  # noqa

ids = [json.loads(l)["id"] for l in open(os.path.join(ROOT, "properties.jsonl"))]
checks, na = [], []
for pid in ids:
    cfg = PROPS.get(pid)
    if cfg is None or not cfg.get("claimed", False):
        na.append({"property_id": pid, "reason": (cfg or {}).get("na_reason", PENDING_REASON)})
        continue
    checks.append({
        "property_id": pid,
        "quick_cmd": "./check %s --tier quick" % pid,
        "thorough_cmd": "./check %s --tier thorough" % pid,
        "evidence_file": "/verif/evidence/%s.json" % pid,
        "replay_cmd_template": "./check %s --replay {path}" % pid,
        "engine": cfg["engine"],
        "level_claimed": {
            "category": "proof",
            "text": cfg["level_text"],
            "design_ref": "DESIGN.md section 5, " + pid,
        },
        "level_note": cfg["level_note"],
        "technique": cfg["technique"],
    })
man = {
    "version": 1,
    "setup_cmd": "./check --setup",
    "hooks": {
        "guard": "verif",
        "enable": "cargo feature: --features verif,staking,stargate,cosmwasm_2_2 (the harness crate /verif/harness depends on /repo by path with these features)",
        "baseline_off_cmd": "cd /repo && cargo nextest run --workspace --no-fail-fast --test-threads 8 --offline || cargo test --workspace --no-fail-fast --offline",
        "source_commits": [l.strip() for l in open(os.path.join(ROOT, "hooks_commits.txt")) if l.strip()],
        "add_only": True,
    },
    "engines": ENGINES,
    "checks": checks,
    "not_applicable": na,
    "notes": "Technique family: machine-checked proof in Lean 4 (theorems about an executable model) tied to /repo by a correspondence "
             "harness (hand-written model) and by translators (generated tables). See DESIGN.md.",
}
json.dump(man, open(os.path.join(ROOT, "MANIFEST.json"), "w"), indent=1)
print("claimed:", [c["property_id"] for c in checks])
print("not_applicable:", [n["property_id"] for n in na])
