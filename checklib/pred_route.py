"""
Implementation-level predicates of the `route` slice (C17, C20). They read the op lines of one case and
the *implementation's* output lines only (never the model) and restate what the property text
observes:

C17  every message / query / sudo, from a user or as a sub-message returned by a native or a lifted
     contract from any of its entry points (instantiate, execute, migrate, sudo, reply), produces exactly the records the configured modules must produce (right module and tag, right
     entry point, sender and payload as sent, nothing in any other module); a failing module gives
     `err`; after `err`/`panic` the storage dump is what it was; after `ok` exactly the counters of the
     recording modules that were reached have moved.
C20  after `build`, block / storage / api / wasm keeper / every module slot are the last supplied ones
     or the defaults, the init function ran once on that storage; two builds (two wrappers) in one case
     whose steps agree on the last step per component give identical observations.

Conventions of the harness that are used: recording modules are tagged `slot#tag`; a recording module
bumps the storage counter `cnt/<slot>` on execute and sudo; the user is `u1`, the emitter contracts are
`cn` (native) and `cl` (lifted), a freshly instantiated emitter is `cx`, the emitters' admin is `u2`;
the default block is cosmwasm-std's `mock_env().block`.
What a *default* module answers to a probe is deliberately not assumed (either `ok` or `err` is
accepted), only that nobody else is called.
"""

SLOTS = ["bank", "custom", "staking", "distribution", "ibc", "gov", "stargate"]
PREFIXES = ["cosmwasm", "juno", "osmo"]
DEFAULT_BLOCK = "12345 1571797419879305533 cosmos-testnet-14002"
EXEC_KINDS = {"bank": "bank", "wasm": "wasm", "custom": "custom", "staking": "staking", "distribution": "distribution",
              "ibc": "ibc", "gov": "gov", "stargate": "stargate", "any": "stargate"}
EXEC_ENTRY = {"stargate": "exec-stargate", "any": "exec-any"}
QUERY_KINDS = {"bank": "bank", "wasm": "wasm", "custom": "custom", "staking": "staking", "ibc": "ibc", "stargate": "stargate",
               "grpc": "stargate"}
QUERY_ENTRY = {"stargate": "query-stargate", "grpc": "query-grpc"}
SUDO_KINDS = {"bank": "bank", "staking": "staking", "wasm": "wasm"}
ENTRIES = ("instantiate", "execute", "migrate", "sudo", "reply")


def is_hex(t):
    if t == "-":
        return True
    return len(t) % 2 == 0 and len(t) > 0 and all(c in "0123456789abcdef" for c in t)


def parse_build(toks):
    """→ dict target → ('rec'|'acc'|'fail', tag) | ('api', n) | …  (last step per target), or None if malformed."""
    cfg = {}
    crate_acc = bool(toks) and toks[-1] == "crate-acc"
    if crate_acc:      # the crate's own accepting modules in three slots, always the last step
        toks = list(toks[:-1]) + ["ibc:acc", "gov:acc", "stargate:acc"]
        cfg["crate-acc"] = ("crate-acc", 1)    # StargateAccepting answers stargate queries with `{}`, everything else like an accepting module
    for tok in toks:
        p = tok.split(":")
        if p[0] in SLOTS and len(p) in (2, 3) and p[1] in ("rec", "acc", "fail"):
            tag = p[2] if len(p) == 3 else "0"
            if not (tag.isdigit() and int(tag) <= 9):
                return None
            cfg[p[0]] = (p[1], int(tag))
        elif p[0] in ("api", "storage", "block", "wasm", "wasmrec") and len(p) == 2 and p[1].isdigit() and int(p[1]) <= 9:
            if p[0] == "api" and int(p[1]) >= len(PREFIXES):
                return None
            # wasmrec:N is the keeper of wasm:N behind a pass-through module of the test author's own
            cfg["wasm" if p[0] == "wasmrec" else p[0]] = ("wasm" if p[0] == "wasmrec" else p[0], int(p[1]))
        else:
            return None
    return cfg


def parse_items(toks):
    if not toks or len(toks) % 2:
        return None
    items = []
    for i in range(0, len(toks), 2):
        k, h = toks[i], toks[i + 1]
        if k not in EXEC_KINDS or not is_hex(h) or (k == "gov" and h != "-" and len(h) > 12):
            return None
        items.append((k, h))
    return items


def parse_dump(s):
    if not (s.startswith("[") and s.endswith("]")):
        return None
    d = {}
    for it in s[1:-1].split(","):
        if it:
            k, v = it.split("=")
            d[k] = v
    return d


def cnt_key(slot):
    return ("cnt/" + slot).encode().hex()


def scenarios(cfg, calls):
    """calls: [(slot, record-or-None)] in order, slot 'wasm' = the contract (always succeeds and records).
    → list of admissible (outcome, [records]) pairs under the property."""
    out = []
    recs = []
    for i, (slot, rec) in enumerate(calls):
        mode = "rec" if slot == "wasm" else cfg.get(slot, ("default", 0))[0]
        if mode in ("fail", "default"):
            out.append(("err", list(recs)))          # this module refuses: everything aborts, earlier records remain
        if mode == "fail":
            return out
        if mode == "rec":
            recs.append(rec)
    out.append(("ok", list(recs)))
    return out


def _check(ops, impl, want_builder):
    cfg = None                 # configuration of the current app
    dump = None                # last known storage dump (dict) of the current app, None = unknown
    pending = None             # (op index, admissible scenarios) waiting for the next `records`
    stale = False              # more than one recording op since the last `records`
    builds = []                # per build: (canonical config, [(op, out)])
    wrappers = {}
    for n, (op, out) in enumerate(zip(ops, impl)):
        t = op.split()
        if not t:
            continue
        where = "op %d `%s` -> `%s`: " % (n, op, out)
        if t[0] == "build":
            c = parse_build(t[1:])
            if c is None:
                if out != "bad-op":
                    return where + "malformed build accepted"
                continue
            if out != "ok":
                return where + "build failed"
            cfg, dump, pending, stale = c, None, None, False
            builds.append((tuple(sorted(c.items())), []))
            continue
        if t[0] == "wrapper":
            msg = check_wrapper(t[1:], out, wrappers) if want_builder else None
            if msg:
                return where + msg
            continue
        if out in ("bad-op", "no-app") or cfg is None:
            continue
        if builds:
            builds[-1][1].append((op, out))
        if t[0] in ("send-top", "send-sub", "send-sub-from"):
            # send-sub X … = send-sub-from execute X …
            entry = "execute"
            if t[0] == "send-top":
                origin, rest = "top", t[1:]
            elif t[0] == "send-sub":
                origin, rest = (t[1] if len(t) > 1 else ""), t[2:]
            else:
                entry, origin, rest = (t[1] if len(t) > 1 else ""), (t[2] if len(t) > 2 else ""), t[3:]
            items = parse_items(rest)
            if items is None or origin not in ("top", "native", "lifted") or entry not in ENTRIES:
                return where + "malformed send accepted"
            if pending is not None:
                stale = True
            if origin == "lifted" and any(k == "custom" for k, _ in items):
                pending = (n, None, out)           # R3: outside the property
                if out == "ok":
                    dump = None
                continue
            # the sender a module must see is the *emitting contract*, whatever entry point emitted the message and
            # whoever triggered that entry point (the user u1, the admin u2 for migrate, nobody for sudo); for
            # `instantiate` the emitter is the freshly created instance `cx`
            sender = {"top": "u1", "native": "cn", "lifted": "cl"}[origin]
            if origin != "top" and entry == "instantiate":
                sender = "cx"
            calls = []
            for k, h in items:
                slot = EXEC_KINDS[k]
                tag = 0 if slot == "wasm" else cfg.get(slot, ("default", 0))[1]
                calls.append((slot, "%s#%d:%s:%s:%s" % (slot, tag, EXEC_ENTRY.get(k, "exec"), sender, h)))
            sc = scenarios(cfg, calls)
            if out not in [o for o, _ in sc]:
                return where + "outcome not what the configured modules answer (admissible: %s)" % sorted({o for o, _ in sc})
            pending = (n, [r for o, r in sc if o == out], out)
            continue
        if t[0] == "query" and len(t) == 3:
            k, h = t[1], t[2]
            if pending is not None:
                stale = True
            if k == "distribution":               # R3: no module slot; must reach no module
                pending = (n, [[]], out)
                continue
            slot = QUERY_KINDS.get(k)
            if slot is None:
                return where + "unknown query kind accepted"
            mode, tag = ("rec", 0) if slot == "wasm" else cfg.get(slot, ("default", 0))
            rec = "%s#%d:%s:-:%s" % (slot, tag, QUERY_ENTRY.get(k, "query"), h)
            hx = "" if h == "-" else h
            if mode == "rec":
                want = "ok " + (hx or "-" if slot == "wasm" else "%02x%s" % (tag, hx))
                if out != want:
                    return where + "recording module must answer `%s`" % want
                pending = (n, [[rec]], out)
            elif mode == "acc":
                want = "ok 7b7d" if ("crate-acc" in cfg and k == "stargate") else "ok -"
                if out != want:
                    return where + "accepting module must answer `%s`" % want
                pending = (n, [[]], out)
            elif mode == "fail":
                if out != "err":
                    return where + "failing module must give err"
                pending = (n, [[]], out)
            else:
                if out == "panic":
                    return where + "default module panicked"
                pending = (n, [[]], out)
            continue
        if t[0] == "send-sub-reply" and len(t) == 4 and t[1] in ("native", "lifted"):
            # one sub-message with reply_on = always: the reply (which succeeds) is told exactly what the module answered —
            # a recording module's two events (`message`, `rec`) and its data, an accepting module's empty response, Err for
            # a refusing module — and the transaction succeeds either way; a refused sub-message leaves no storage effect
            k, h = t[2], t[3]
            if pending is not None:
                stale = True
            slot = EXEC_KINDS.get(k)
            if slot is None or slot == "wasm" or (k == "custom" and t[1] == "lifted"):
                return where + "malformed send-sub-reply accepted"
            mode, tag = cfg.get(slot, ("default", 0))
            sender = {"native": "cn", "lifted": "cl"}[t[1]]
            if out != "ok":
                return where + "the failure of a sub-message sent with reply_on always and caught by a succeeding reply must not fail the transaction"
            if mode == "rec":
                seen = "ok/message+rec/" + (slot + str(tag)).encode().hex()
                want = ["%s#%d:%s:%s:%s" % (slot, tag, EXEC_ENTRY.get(k, "exec"), sender, h), "wasm#8:reply:-:" + seen]
                pending = (n, [want], "ok")
            elif mode == "acc":
                pending = (n, [["wasm#8:reply:-:ok//~"]], "ok")
            else:
                pending = (n, [["wasm#8:reply:-:err"]], "query-only")
            continue
        if t[0] == "query-sub" and len(t) >= 4 and t[1] in ("native", "lifted"):
            # queries issued by a contract from inside one execute call: each one reaches its module, repeats included
            if pending is not None:
                stale = True
            rest = t[2:]
            if len(rest) % 2 != 0:
                return where + "malformed query-sub accepted"
            want = []
            for i in range(0, len(rest), 2):
                k, h = rest[i], rest[i + 1]
                if k == "distribution":
                    continue
                slot = QUERY_KINDS.get(k)
                if slot is None or (k == "custom" and t[1] == "lifted"):
                    return where + "unknown query kind accepted"
                mode, tag = ("rec", 0) if slot == "wasm" else cfg.get(slot, ("default", 0))
                if mode == "rec":
                    want.append("%s#%d:%s:-:%s" % (slot, tag, QUERY_ENTRY.get(k, "query"), h))
            if out != "ok":
                return where + "a contract that only asks queries and ignores the answers must succeed"
            pending = (n, [want], "query-only")
            continue
        if t[0] == "sudo" and len(t) == 3:
            k, h = t[1], t[2]
            if pending is not None:
                stale = True
            if k == "custom":                     # SudoMsg::Custom has no handler (unimplemented!): outside the property
                pending = (n, [[]], out)
                continue
            slot = SUDO_KINDS.get(k)
            if slot is None:
                return where + "unknown sudo kind accepted"
            tag = 0 if slot == "wasm" else cfg.get(slot, ("default", 0))[1]
            sc = scenarios(cfg, [(slot, "%s#%d:sudo:-:%s" % (slot, tag, h))])
            if out not in [o for o, _ in sc]:
                return where + "outcome not what the configured module answers"
            pending = (n, [r for o, r in sc if o == out], out)
            continue
        if t[0] == "records":
            if pending is not None and not stale and pending[1] is not None:
                got = [x for x in out[1:-1].split(",") if x]
                if got not in pending[1]:
                    return where + "records after op %d `%s` (-> %s) must be one of %s" % (pending[0], ops[pending[0]], pending[2], pending[1])
                # storage effect of the transaction that was just accounted for
                if dump is not None:
                    if pending[2] == "ok":
                        for r in got:
                            slot, entry = r.split("#")[0], r.split(":")[1]
                            if slot != "wasm" and not entry.startswith("query"):
                                k = cnt_key(slot)
                                dump[k] = "%02x" % ((int(dump.get(k, "00"), 16) + 1) % 256)
            elif pending is not None and pending[2] == "ok":
                dump = None
            pending, stale = None, False
            continue
        if t[0] == "storage-dump":
            d = parse_dump(out)
            if d is None:
                return where + "unreadable dump"
            if pending is not None and pending[2] == "ok":
                dump = None                       # an `ok` transaction not yet accounted for by `records`
            if dump is not None and d != dump:
                return where + "storage differs from what the transactions so far explain: expected %s" % sorted(dump.items())
            dump = d
            continue
    if want_builder:
        return check_builds(builds)
    return None


def check_builds(builds):
    seen = {}
    for cfg_t, obs in builds:
        cfg = dict(cfg_t)
        first = {}
        for op, out in obs:
            first.setdefault(op, out)
        # the component observations directly after build
        exp = {"block": "%d %d000000000 mark-%d" % ((cfg["block"][1],) * 3) if "block" in cfg else DEFAULT_BLOCK,
               "api-prefix": PREFIXES[cfg["api"][1]] if "api" in cfg else "cosmwasm",
               "wasm-gen": ("%s/%s" % (cfg["wasm"][1], cfg["wasm"][1])) if "wasm" in cfg else "default/default",
               "init-count": "1"}
        for op, want in exp.items():
            if op in first and first[op] != want:
                return "after build %s: `%s` gives `%s`, supplied/default component says `%s`" % (sorted(cfg.items()), op, first[op], want)
        if obs and obs[0][0] in ("block", "storage-dump", "init-count", "api-prefix", "wasm-gen"):
            k = next((i for i, (op, _) in enumerate(obs) if op.split()[0] in ("send-top", "send-sub", "send-sub-from", "send-sub-reply", "sudo")), len(obs))
            for op, out in obs[:k]:
                if op == "storage-dump":
                    want = {"696e6974": "01"}
                    if "storage" in cfg:
                        nn = cfg["storage"][1]
                        want[("pre%d" % nn).encode().hex()] = ("v%d" % nn).encode().hex()
                        want["shared".encode().hex()] = "%02x" % nn
                    if parse_dump(out) != want:
                        return "after build %s: storage is %s, supplied storage + one init run is %s" % (sorted(cfg.items()), out, sorted(want.items()))
        # all orders agree
        key = cfg_t
        obs = [(op, out) for op, out in obs if op != "wasm-calls"]    # implementation-only line of the wasmrec wrapper
        ops_only = tuple(op for op, _ in obs)
        if (key, ops_only) in seen and seen[(key, ops_only)] != obs:
            a, b = seen[(key, ops_only)], obs
            d = next(i for i in range(len(a)) if a[i] != b[i])
            return "two step orders with the same last step per component differ at `%s`: `%s` vs `%s`" % (a[d][0], a[d][1], b[d][1])
        seen.setdefault((key, ops_only), obs)
    return None


def check_wrapper(toks, out, seen):
    if not toks:
        return None if out == "bad-op" else "malformed wrapper accepted"
    first = toks[0].split(":")
    if first[0] not in ("new", "new-empty") or (len(first) > 1 and first[1] not in ("1", "2", "3")):
        return None if out == "bad-op" else "malformed wrapper accepted"
    ctag = ("e" if first[0] == "new-empty" else "") + (first[1] if len(first) > 1 else "1")
    want = {"checksum": "none", "execute": ctag, "instantiate": ctag, "query": ctag, "sudo": "none", "reply": "none", "migrate": "none"}
    for tok in toks[1:]:
        p = tok.split(":")
        if len(p) != 2:
            return None if out == "bad-op" else "malformed wrapper accepted"
        if p[0] == "checksum" and p[1].isdigit() and int(p[1]) <= 9:
            want["checksum"] = str(int(p[1]))
        elif p[0] in ("sudo", "reply", "migrate", "sudo-empty", "reply-empty", "migrate-empty") and p[1] in ("1", "2", "3"):
            want[p[0].replace("-empty", "")] = ("e" if p[0].endswith("-empty") else "") + p[1]
        else:
            return None if out == "bad-op" else "malformed wrapper accepted"
    got = dict(x.split("=") for x in out.split()) if "=" in out else {}
    if got != want:
        bad = sorted(k for k in want if got.get(k) != want[k])
        return "wrapper lost or changed %s: supplied %s, observed %s" % (bad, {k: want[k] for k in bad}, {k: got.get(k) for k in bad})
    key = tuple(sorted(want.items()))
    if key in seen and seen[key] != out:
        return "two orders of the same wrapper steps differ"
    seen[key] = out
    return None


def _wasm_module_sees_all(ops, impl):
    """An App built with `wasmrec:N` has a wasm module of the test author's own in the wasm slot (it notes the sender of every
    message it is handed and passes it on). Every execute call that reached a contract — the contract records its sender —
    must have been handed to that module first: the senders the contracts recorded are a subsequence of what the module noted."""
    rec_wasm = False
    for i, (op, out) in enumerate(zip(ops, impl)):
        t = op.split()
        if t and t[0] == "build":
            last = [x for x in t[1:] if x.startswith(("wasm:", "wasmrec:"))]
            rec_wasm = bool(last) and last[-1].startswith("wasmrec:") and out == "ok"
        if op == "wasm-calls" and rec_wasm and i > 0 and ops[i - 1] == "records" and out.startswith("!w[") and impl[i - 1].startswith("["):
            noted = [x.split("/", 1)[1] for x in out[3:-1].split(",") if x.startswith("x/")]
            seen = []
            for r in impl[i - 1][1:-1].split(","):
                f = r.split(":")
                if len(f) >= 3 and f[0] == "wasm#0" and f[1] == "exec":
                    seen.append(f[2])
            it = iter(noted)
            for s_ in seen:
                if not any(n == s_ for n in it):
                    return ("op %d: a contract was executed by `%s` but the wasm module the app was built with was never handed that message "
                            "(it noted %s; the contracts recorded %s)" % (i, s_, noted, seen))
    return None


def pred_c17(ops, impl):
    return _check(ops, impl, False) or _wasm_module_sees_all(ops, impl)


def pred_c20(ops, impl):
    return _check(ops, impl, True)


def nt_route(ops, impl):
    """non-trivial: some message reached a recording module or the contract from a sub-message, or a
    wrapper/builder was assembled from at least two steps"""
    for op, out in zip(ops, impl):
        if op == "records" and (":cn:" in out or ":cl:" in out or ":cx:" in out):
            return True
        if (op.startswith("build ") or op.startswith("wrapper ")) and len(op.split()) >= 3 and out != "bad-op":
            return True
    return False
