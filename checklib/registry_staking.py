"""Registry fragment: engine `staking` (C14, C15, C16). Loaded by registry.py."""

STK_TB = [
    "hand transcription of /repo/src/staking.rs:1-1018 and app.rs:407-423 into CwMt/Model/Staking.lean, validated only by the generator-bounded correspondence (slice `staking`, full raw module state compared after every op)",
    "cosmwasm-std 2.2.2 Decimal/Uint128 modelled on unbounded Nat atomics (floor semantics of *, /, from_ratio, mul_floor checked operator by operator against the real type: `dec` ops of the slice); 128-bit overflow excluded (DESIGN R6)",
    "bank ledger = CwMt.Model.Bank (C09); only single-coin send/mint of the bonded denom are used",
    "JSON (de)serialisation of the module records and the cw-storage-plus key layout are not modelled; the harness decodes every raw key of the root store and flags keys outside the known slots",
]

STK_ASSUME = [
    "block time non-decreasing; staking parameters fixed at setup; validator commissions <= 1",
    "nobody signs as the staking pool account `staking_module`",
    "amounts and time spans small enough that 128-bit fixed-point arithmetic does not overflow",
    "C15 lower bound: 'a delegation stays positive' is read as 'the Delegation query shows it' (>= 1 whole token); a sub-token remnant alone with its validator (whole-token total 0) accrues nothing",
]

_RULE = ("histories of 6-28 ops (10-60 thorough) over 3 delegators + a withdraw-only account x 2-3 validators with commissions "
         "0/3%/10%/1/3/10^-18/100%, apr 7/10/13/50/100%/1+10^-18, whole amounts 1-40, slashes p in {0,10^-18,10%,25%,1/3,1/2,2/3,1-10^-18,1,random %}, "
         "advances 0 s .. 2 years incl. exactly the unbonding time and one second less/more, exact thirds of a year and coprime spans; "
         "15% of the cases carry 30% malformed ops (zero amounts, foreign denom, unknown validator, more than delegated, p > 1, invalid withdraw address, "
         "unfunded sender); the five-step D3 history is replayed as a fixed prefix in 1 of 150 cases; after every op a Delegation query for all 12 pairs, "
         "all bank balances and the raw decoded module state are compared; ")

ENGINES = [
    {"name": "staking", "path": "lean/CwMt/Model/{Decimal,Staking}.lean + harness/src/staking.rs", "serves_properties": ["C14", "C15", "C16"],
     "kind_free_text": "Lean model of StakeKeeper/DistributionKeeper/block updates over the bank model with explicit panic outcomes; invariant and rounding theorems; correspondence on the real App"},
]


def _entry(pid, technique, level_text, rule_tail, pred, nt, quick=6000, thorough=20000):
    return {
        "claimed": True,
        "engine": "staking",
        "technique": technique,
        "level_text": level_text,
        "level_note": "Trusted: Lean kernel + propext/Classical.choice/Quot.sound; the hand transcription of staking.rs validated by generator-bounded correspondence; "
                      "Decimal on Nat atomics without overflow; the bank model of C09.",
        "props_module": "CwMt.Props." + pid,
        "slices": [{"name": "staking", "quick": quick, "thorough": thorough, "predicate": pred, "nontrivial": nt}],
        "rule": _RULE + rule_tail,
        "trusted_base": STK_TB,
        "assumptions": STK_ASSUME,
    }


PROPS = {
    "C14": _entry(
        "C14",
        "Lean 4 theorems (inductive invariant I1-I5 over every operation and block update, no-panic over arbitrary histories, exact delegation effect, rejection, "
        "payout timing) + differential correspondence of the executable model with the real App/StakeKeeper",
        "The staking machine is transcribed into Lean with every expect/unwrap as an explicit panic outcome; an invariant (staker sets in step with the records, "
        "queue sorted, pool covers validator totals plus pending unbondings, validator total >= whole tokens of the sum of its shares) is proved inductive and yields that no history of operations and block updates panics; "
        "the model is tied to /repo by running both on the same histories and comparing the complete decoded module state after every op.",
        "non-trivial = a block update runs after an accepted slash that followed an accepted undelegation",
        "pred_c14", "nt_c14", quick=7500),
    "C15": _entry(
        "C15",
        "Lean 4 theorems (withdrawal pays exactly the shown reward, other delegators' shown rewards unchanged, floor-division bounds of one reward update) "
        "+ differential correspondence + exact-rational bounds recomputed on the implementation transcript",
        "Reward arithmetic is modelled on Nat atomics with the exact rounding of cosmwasm-std; the per-update over/under-crediting is bounded by theorem, the exact statements "
        "(pays what is shown, others unaffected) are proved for all states; the upper and lower bounds are proved per update and summed over any ledger of updates and withdrawals (2 / 4 atomics per update under invariant I5); the replay of operation histories as ledger traces is covered by exact-rational evaluation on every generated history.",
        "non-trivial = at least one accepted reward withdrawal",
        "pred_c15", "nt_c15", quick=7500),
    "C16": _entry(
        "C16",
        "Lean 4 theorems (scaling of shares, totals and pending unbondings, monotonicity, frame, full slash, rejection, exactness when whole, composition over repeated slashes) "
        "+ differential correspondence",
        "Slashing is modelled with the exact floor semantics; scaling, frame and rejection theorems hold for every state, fraction and number of repeated slashes; "
        "the model is tied to /repo by the staking correspondence slice.",
        "non-trivial = at least two accepted non-zero slashes",
        "pred_c16", "nt_c16", quick=10000),
}

# C14 also runs the staking model inside the wasm engine: staking / distribution messages sent by users and emitted
# by contracts inside message trees (rolled back with failing parents), slashes and block advances; predicate: an
# operation that fails changes nothing (raw storage hash), as "… fails without effect" demands
PROPS["C14"]["slices"].append({"name": "wasm-stk", "quick": 2000, "thorough": 40000, "predicate": "pred_c14_wasm", "nontrivial": "nt_any"})
PROPS["C14"]["rule"] += ("; slice wasm-stk: message trees on an App with staking set up in which users and contracts delegate / undelegate / redelegate / "
                         "withdraw / set withdraw addresses, with slashes and non-decreasing whole-second block changes")
