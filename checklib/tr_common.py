"""
Shared helpers of the tie-T translators (tr_router.py, tr_builder.py): a tiny Rust "reader" that is
just good enough for the table-shaped code the translators look at (comment stripping, bracket
matching, top-level splitting, finding a `fn` inside an `impl` block) and the Lean file writer.

Nothing here interprets Rust; anything the translators do not recognise is passed on as an
`unparsed`/`other` marker so that the Lean theorems over the generated tables fail.
"""
import os
import re

REPO = os.environ.get("VERIF_REPO", "/repo")

OPEN = {"(": ")", "[": "]", "{": "}"}
CLOSE = {v: k for k, v in OPEN.items()}


def read_src(rel):
    with open(os.path.join(REPO, "src", rel), encoding="utf-8") as f:
        return f.read()


def strip_comments(src):
    """Blanks out // and /* */ comments (nested) and, inside string/char literals, every bracket,
    comma, semicolon, slash and quote, keeping every offset and every newline, so that positions map
    back to the file and `cfg(feature = "x")` stays readable."""
    out = list(src)
    i, n = 0, len(src)
    while i < n:
        c = src[i]
        if src.startswith("//", i):
            j = src.find("\n", i)
            j = n if j < 0 else j
            for k in range(i, j):
                out[k] = " "
            i = j
        elif src.startswith("/*", i):
            depth, j = 1, i + 2
            while j < n and depth:
                if src.startswith("/*", j):
                    depth += 1
                    j += 2
                elif src.startswith("*/", j):
                    depth -= 1
                    j += 2
                else:
                    j += 1
            for k in range(i, j):
                if out[k] != "\n":
                    out[k] = " "
            i = j
        elif c == '"':
            j = i + 1
            while j < n and src[j] != '"':
                j += 2 if src[j] == "\\" else 1
            for k in range(i + 1, min(j, n)):
                # only the characters that would confuse bracket matching / splitting are blanked
                if out[k] in "(){}[],;/\\'":
                    out[k] = "_"
            i = j + 1
        elif c == "'" and i + 2 < n and (src[i + 2] == "'" or (src[i + 1] == "\\" and "'" in src[i + 2:i + 6])):
            j = src.find("'", i + 2 if src[i + 1] != "\\" else i + 3)
            for k in range(i + 1, j):
                out[k] = "_"
            i = j + 1
        else:
            i += 1
    return "".join(out)


def match_close(s, i):
    """s[i] is an opening bracket; returns the index of its partner or -1."""
    stack = []
    for j in range(i, len(s)):
        c = s[j]
        if c in OPEN:
            stack.append(c)
        elif c in CLOSE:
            if not stack or stack[-1] != CLOSE[c]:
                return -1
            stack.pop()
            if not stack:
                return j
    return -1


def split_top(s, sep=","):
    """Splits at `sep` outside of any bracket. `<…>` of generics is not a bracket here; the
    constructs we split (argument lists, struct literals, match arms) do not need it, except
    turbofish `::<C>` which contains no comma in the code we read."""
    parts, depth, cur = [], 0, []
    for c in s:
        if c in OPEN:
            depth += 1
        elif c in CLOSE:
            depth -= 1
        if c == sep and depth == 0:
            parts.append("".join(cur))
            cur = []
        else:
            cur.append(c)
    parts.append("".join(cur))
    return [p.strip() for p in parts if p.strip()]


def squash(s):
    """Canonical one-line form of an expression: all whitespace removed except inside words."""
    s = re.sub(r"\s+", " ", s.strip())
    s = re.sub(r"\s*([(){}\[\],.:;&<>=])\s*", r"\1", s)
    return s


def find_impl(src, header_re):
    """Returns (body_start, body_end) of every `impl … {` block whose header (text between `impl`
    and `{`) matches header_re."""
    res = []
    for m in re.finditer(r"\bimpl\b", src):
        j = src.find("{", m.end())
        # the header may contain `where` clauses but never a `{`
        if j < 0:
            continue
        header = src[m.end():j]
        if ";" in header:
            continue
        if re.search(header_re, squash(header)):
            k = match_close(src, j)
            if k > 0:
                res.append((j + 1, k))
    return res


def find_fns(src, lo, hi):
    """All `fn name<…>(params) -> … { body }` directly inside src[lo:hi] (depth 0 of the block).
    Returns list of dicts(name, params(str), body(str), pos)."""
    out = []
    i, depth = lo, 0
    while i < hi:
        c = src[i]
        if c in OPEN:
            depth += 1
        elif c in CLOSE:
            depth -= 1
        elif depth == 0:
            m = re.compile(r"\bfn\s+([A-Za-z_][A-Za-z0-9_]*)").match(src, i)
            if m and (i == 0 or not (src[i - 1].isalnum() or src[i - 1] == "_")):
                p = src.find("(", m.end())
                q = match_close(src, p) if p >= 0 else -1
                b = q
                # body = first `{` at depth 0 after the parameter list (where-clauses contain no braces)
                while b >= 0 and b < hi and src[b] != "{" and src[b] != ";":
                    if src[b] in OPEN and b != q:
                        b = match_close(src, b)
                        if b < 0:
                            break
                    b += 1
                if q < 0 or b < 0 or b >= hi or src[b] != "{":
                    i = m.end()
                    continue
                e = match_close(src, b)
                if e < 0:
                    i = m.end()
                    continue
                out.append({"name": m.group(1), "params": src[p + 1:q], "body": src[b + 1:e], "pos": i,
                            "generics": src[m.end():p]})
                i = e + 1
                continue
        i += 1
    return out


def split_params(params):
    """Splits a parameter list at commas outside brackets *and* outside `<…>` (in a parameter list
    `<`/`>` are always generics; the `>` of `->` in fn-pointer types is skipped)."""
    parts, depth, angle, cur = [], 0, 0, []
    for i, c in enumerate(params):
        if c in OPEN:
            depth += 1
        elif c in CLOSE:
            depth -= 1
        elif c == "<":
            angle += 1
        elif c == ">" and not (i > 0 and params[i - 1] == "-"):
            angle -= 1
        if c == "," and depth == 0 and angle == 0:
            parts.append("".join(cur))
            cur = []
        else:
            cur.append(c)
    parts.append("".join(cur))
    return [p.strip() for p in parts if p.strip()]


def param_names(params):
    """Names of the parameters of a fn (without any form of self). Returns (names, has_self)."""
    names, has_self = [], False
    for p in split_params(params):
        q = squash(p)
        if re.fullmatch(r"(&)?(mut )?self|&mut self|mut self", q) or q in ("self", "&self", "&mut self", "mut self"):
            has_self = True
            continue
        m = re.match(r"(?:mut\s+)?([A-Za-z_][A-Za-z0-9_]*)\s*:", p.strip())
        names.append(m.group(1) if m else "?")
    return names, has_self


def line_of(src, pos):
    return src.count("\n", 0, pos) + 1


IDENT = r"[A-Za-z_][A-Za-z0-9_]*"


def mentions(expr, ident):
    return re.search(r"(?<![A-Za-z0-9_.])%s(?![A-Za-z0-9_])" % re.escape(ident), expr) is not None


def lean_str(s):
    return '"' + s.replace("\\", "\\\\").replace('"', '\\"') + '"'


def lean_list(items, indent="    "):
    if not items:
        return "[]"
    return "[\n" + ",\n".join(indent + it for it in items) + " ]"


def write_if_changed(path, content, log):
    os.makedirs(os.path.dirname(path), exist_ok=True)
    old = None
    if os.path.exists(path):
        with open(path, encoding="utf-8") as f:
            old = f.read()
    if old != content:
        tmp = path + ".tmp%d" % os.getpid()
        with open(tmp, "w", encoding="utf-8") as f:
            f.write(content)
        os.replace(tmp, path)
        if log:
            log("translator: regenerated %s" % path)
        return True
    return False


# ---- confirmation of table counter-examples on the real code ----------------------------------------
# A counter-example is a row of a generated table that breaks a condition of C17 / C20. It is turned into
# a concrete `route` case (ops below), run on the implementation through the harness binary, and the
# property's own model-free predicate (pred_route.pred_c17 / pred_c20) is evaluated on the transcript:
# `confirmed_on_impl` is True iff the real code violates the property on that input.
# This is the failure path only; the harness is (re)built first because ./check runs the translators
# before its own harness build, so the binary may be older than /repo.

ALL_REC = ["bank:rec:1", "custom:rec:1", "staking:rec:1", "distribution:rec:1", "ibc:rec:1", "gov:rec:1",
           "stargate:rec:1", "api:1", "storage:1", "block:7", "wasm:1"]
OBSERVE = ["block", "storage-dump", "init-count", "api-prefix", "wasm-gen"]
SEND_ALL = ["send-top %s 0%d" % (k, i + 1) for i, k in enumerate(
    ["bank", "custom", "staking", "distribution", "ibc", "gov", "stargate", "any", "wasm"])]


def cex_ops(c):
    t, k = c.get("table", ""), c.get("kind", "*")
    if t == "Lift":
        kinds = [k] if k != "*" else ["bank", "staking", "distribution", "ibc", "gov", "stargate", "any", "wasm"]
        return "c17", ["build " + " ".join(ALL_REC[:7])] + [x for kk in kinds for x in ("send-sub lifted %s 01" % kk, "records", "send-sub-from reply lifted %s 02" % kk, "records",
                                                                                  "send-sub-from migrate lifted %s 03" % kk, "records")]
    if t == "Router.execTable":
        kinds = [k] if k != "*" else ["bank", "custom", "staking", "distribution", "ibc", "gov", "stargate", "any", "wasm"]
        return "c17", ["build " + " ".join(ALL_REC[:7])] + [x for kk in kinds for x in ("send-top %s 01" % kk, "records", "send-sub native %s 02" % kk, "records")]
    if t == "Router.queryTable":
        kinds = [k] if k != "*" else ["bank", "custom", "staking", "ibc", "stargate", "grpc", "wasm"]
        return "c17", ["build " + " ".join(ALL_REC[:7])] + [x for kk in kinds for x in ("query %s 01" % kk, "records")]
    if t == "Router.sudoTable":
        kinds = [k] if k != "*" else ["bank", "staking", "wasm"]
        return "c17", ["build " + " ".join(ALL_REC[:7])] + [x for kk in kinds for x in ("sudo %s 01" % kk, "records")]
    if t == "Wrapper":
        step = c.get("step", "")
        tok = {"with_sudo": "sudo:2", "with_sudo_empty": "sudo-empty:2", "with_reply": "reply:2", "with_reply_empty": "reply-empty:2",
               "with_migrate": "migrate:2", "with_migrate_empty": "migrate-empty:2", "with_checksum": "checksum:2"}.get(step)
        ctor = "new-empty" if step == "new_with_empty" else "new"
        pre = ["checksum:1", "sudo:1", "reply:1", "migrate:1"]
        return "c20", ["wrapper %s %s" % (ctor, " ".join(pre + ([tok] if tok else [])))]
    if t == "Builder":
        step = c.get("step", "")
        tok = {"with_" + s.split(":")[0]: s for s in ALL_REC}.get(step)
        if tok:
            tok = tok[:-1] + "2"
        return "c20", ["build " + " ".join(ALL_REC + ([tok] if tok else []))] + OBSERVE + [x for s in SEND_ALL for x in (s, "records")] + OBSERVE
    return None, []


def confirm(root, cex, log):
    import fcntl
    import subprocess
    hdir = os.environ.get("VERIF_HARNESS_DIR", os.path.join(root, "harness"))
    tdir = os.environ.get("CARGO_TARGET_DIR", os.path.join(root, ".build", "cargo"))
    hbin = os.path.join(tdir, "release", "cwmt-harness")
    for c in cex:
        c["confirmed_on_impl"] = False
    try:
        os.makedirs(os.path.join(root, ".build"), exist_ok=True)
        with open(os.path.join(root, ".build", "cargo.lock"), "w") as lk:
            fcntl.flock(lk, fcntl.LOCK_EX)
            env = dict(os.environ, CARGO_NET_OFFLINE="true", CARGO_TARGET_DIR=tdir)
            p = subprocess.run(["cargo", "build", "--release", "--offline"], cwd=hdir, env=env,
                               stdout=subprocess.PIPE, stderr=subprocess.STDOUT, text=True)
        if p.returncode != 0:
            log("translator: harness build failed, counter-examples stay unconfirmed")
            return
        import pred_route
        wd = os.path.join(root, "work", "_replay")
        os.makedirs(wd, exist_ok=True)
        for n, c in enumerate(cex):
            which, ops = cex_ops(c)
            if not ops:
                continue
            path = os.path.join(wd, "cex_%d_%d.ops" % (os.getpid(), n))
            with open(path, "w") as f:
                f.write("case 0\n" + "\n".join(ops) + "\n")
            r = subprocess.run([hbin, "exec", "--slice", "route", path], stdout=subprocess.PIPE, stderr=subprocess.STDOUT, text=True)
            os.unlink(path)
            impl = r.stdout.split("\n")[:-1][1:]
            msg = (pred_route.pred_c17 if which == "c17" else pred_route.pred_c20)(ops, impl) if r.returncode == 0 else None
            c["replay_ops"] = ops
            c["impl"] = impl
            c["confirmed_on_impl"] = bool(msg)
            c["predicate"] = msg or "holds on this input"
            log("translator: counter-example %s -> %s" % ({k: v for k, v in c.items() if k in ("table", "step", "field", "kind", "observed")},
                                                         "CONFIRMED on the implementation: " + msg if msg else "not confirmed on the implementation"))
    except Exception as e:      # confirmation is best effort; an unconfirmed counter-example still fails the check
        log("translator: confirmation failed: %r" % (e,))
