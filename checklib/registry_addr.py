"""Registry fragment for property C18 (engine `addr`)."""

ADDR_TB = [
    "the bech32 crate 0.11.0 and cosmwasm-std 2.2.2 MockApi are modelled (charset, Hrp::parse, check_characters, checksum engine, "
    "BytesToFes/FesToBytes, encode, CheckedHrpstring::new + byte_iter), not verified; the model is tied to them only by the correspondence",
    "SHA-256 is an arbitrary function H in the theorems ('equal addresses => equal digests'); that different names have different "
    "digests is the usual collision assumption, sampled by the generator (the harness passes the real digest to the model)",
    "strings are lists of Unicode scalar values in the model; Rust's byte lengths coincide with character counts on every path that "
    "reaches a length check (non-ASCII input is rejected before, or the result is `err` either way)",
]

ENGINES = [
    {"name": "addr", "path": "lean/CwMt/Model/Bech32.lean + harness/src/addr.rs", "serves_properties": ["C18"],
     "kind_free_text": "Lean model of the Bech32/Bech32m codec (bech32 crate) and of MockApiBech32/MockApiBech32m/MockApi address helpers; "
                       "theorems by list induction and bit extensionality (no bv_decide); correspondence on the real Api implementations"},
]

PROPS = {
    "C18": {
        "claimed": True,
        "engine": "addr",
        "technique": "Lean 4 theorems about an executable model of the codec and the four address helpers (round trip, validation = strict "
                     "decoding, rejection incl. every single-character substitution at every position and length, addr_make) + differential "
                     "correspondence of the model with the real MockApiBech32 / MockApiBech32m / cosmwasm-std MockApi",
        "level_text": "Charset, HRP rules, the checksum engine on BitVec 30, 8<->5 bit regrouping (incl. the silent drop of leftover bits in byte_iter), "
                      "encode, CheckedHrpstring::new and the four helpers of all three Api implementations are modelled in Lean. Proved for every "
                      "valid lowercase prefix, every byte string within the code length and all three codecs: canonicalize(humanize bs) = bs; "
                      "addr_validate s = Ok s' iff s strictly decodes (own prefix, lowercase, correct checksum, canonical padding) and then s' = s; "
                      "other prefix, other checksum constant, mixed case and EVERY single-character substitution (any position incl. prefix, separator "
                      "and checksum, any substitute, any length) are rejected; no helper panics; addr_make = humanize of the digest, validates under "
                      "its own codec, and equal addresses force equal prefix, digest and checksum constant. The model is tied to /repo by running the "
                      "real Api objects and the model on the same generated inputs.",
        "level_note": "Trusted: Lean kernel + propext/Classical.choice/Quot.sound only (the four bit-vector facts DESIGN.md allowed to close with "
                      "bv_decide are proved by bit extensionality, so no bv_decide/ofReduceBool axiom is used); hand model of the bech32 crate and of "
                      "cosmwasm-std's MockApi validated only by the generator-bounded correspondence; SHA-256 is a parameter; 'valid prefix' = lowercase "
                      "HRP (reading R4: an upper-case prefix makes MockApiBech reject its own addresses); all-uppercase addresses are not 'strictly "
                      "decodable' (they are rejected as not normalized, like cosmwasm-std does).",
        "props_module": "CwMt.Props.C18",
        "slices": [{"name": "addr", "quick": 3000, "thorough": 60000, "predicate": "pred_addr", "nontrivial": "nt_addr"}],
        "rule": "per case one (variant, prefix) from 19 valid prefixes (1..83 chars, edge characters, embedded '1') and one scenario: round trips with "
                "byte lengths 0, 1..64 (uniform), 65..100, 255, 256, 560..660 (code-length boundary); single-character corruption of a valid address "
                "at every position x {2 charset chars, 1 non-charset char, case flip} and at selected positions (all positions in the thorough tier) "
                "x all 31 other charset chars + 12 non-charset chars (incl. '1', non-ASCII) (+ all 128 ASCII chars, thorough); other checksum constant, "
                "other prefixes, upper-case and mixed-case variants; valid-checksum strings with non-zero padding bits or surplus symbols; 16 odd "
                "prefixes (empty, 84 chars, upper/mixed case, blanks, DEL, non-ASCII) on all four entry points; junk strings incl. empty, no separator, "
                "short data part, 1022..1025 characters; names -> addresses with repeated names. Non-trivial = an accepted value plus a complete round "
                "trip or a labelled rejection; distinct = distinct op sequence.",
        "trusted_base": ADDR_TB,
        "assumptions": ["prefixes are their own lowercase form (R4)", "SHA-256 modelled as an arbitrary function"],
    },
}
