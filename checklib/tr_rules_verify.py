"""tie T, C13: the steps of verify_attributes / verify_response (see tr_rules.py)"""
import tr_rules


def translate(root, log):
    return tr_rules.translate(root, log, part="verify")
