"""
Implementation-level predicates for the wasm family (C01-C05, C08, C10-C13, C19).
Each is sound but partial: it states something the property text guarantees and that can be read off
the ops + the implementation's outputs alone (never the model). A disagreement between model and
implementation on which no predicate fires is reported by ./check with `no-failing-input-found`.
"""
import re

TX_OPS = ("exec", "multi", "sudo-mint", "sudo-wasm", "wasm-sudo", "h-inst", "h-exec", "h-mig", "h-send")
READ_OPS = ("q-bal", "q-all", "q-sup", "q-smart", "q-raw", "q-info", "q-code", "q-ext", "cdata", "wdump", "cstore",
            "dump", "trace", "block-info", "rawhash", "cs-get")

# Rust's char::is_whitespace (Unicode White_Space)
WHITE = set([0x9, 0xA, 0xB, 0xC, 0xD, 0x20, 0x85, 0xA0, 0x1680, 0x2028, 0x2029, 0x202F, 0x205F, 0x3000] +
            list(range(0x2000, 0x200B)))


def rust_trim(s):
    i, j = 0, len(s)
    while i < j and ord(s[i]) in WHITE:
        i += 1
    while j > i and ord(s[j - 1]) in WHITE:
        j -= 1
    return s[i:j]


def pdec(tok):
    if tok == "%":
        return ""
    out = bytearray()
    i = 0
    b = tok.encode()
    while i < len(b):
        if b[i] == 0x25:
            out.append(int(b[i + 1:i + 3], 16))
            i += 3
        else:
            out.append(b[i])
            i += 1
    return out.decode("utf-8", errors="replace")


def fnv(text):
    h = 0x811c9dc5
    for b in text.encode():
        h = ((h ^ b) * 0x01000193) & 0xFFFFFFFF
    return "%08x" % h


def print_sx(x):
    if isinstance(x, list):
        return "(" + " ".join(print_sx(y) for y in x) + ")"
    return x


def parse_sx(text):
    """returns list of top-level items; atoms are str, lists are python lists; None if unbalanced"""
    stack = [[]]
    cur = []

    def flush():
        if cur:
            stack[-1].append("".join(cur))
            cur.clear()
    for ch in text:
        if ch == "(":
            flush()
            stack.append([])
        elif ch == ")":
            flush()
            if len(stack) < 2:
                return None
            done = stack.pop()
            stack[-1].append(done)
        elif ch in " \t\r\n":
            flush()
        else:
            cur.append(ch)
    flush()
    if len(stack) != 1:
        return None
    return stack[0]


def binds_of(ops):
    m = {}
    for o in ops:
        t = o.split()
        if t and t[0] == "bind" and len(t) >= 3:
            m[t[1]] = t[2]
        elif t and t[0] == "bind2" and len(t) >= 5:
            m["i2_%s_%s_%s" % (t[1], t[2], t[3])] = t[4]
    return m


def scripts_in_msg(m, out):
    """collect every script (list of actions) reachable in a MSG s-expr, with the kind of entry point"""
    if not isinstance(m, list) or not m:
        return
    h = m[0]
    if h == "exec" and len(m) > 2:
        scripts_in_script(m[2], out)
    elif h == "inst" and len(m) > 2:
        scripts_in_script(m[2], out)
    elif h == "mig" and len(m) > 3:
        scripts_in_script(m[3], out)


def scripts_in_script(s, out):
    if not isinstance(s, list):
        return
    out.append(s)
    for act in s:
        if isinstance(act, list) and act:
            if act[0] == "sub" and len(act) >= 5:
                scripts_in_script(act[3], out)
                scripts_in_msg(act[4], out)
            elif act[0] == "msg" and len(act) >= 2:
                scripts_in_msg(act[1], out)


def scripts_of_op(items):
    out = []
    if not items:
        return out
    h = items[0]
    if h == "exec" and len(items) > 2:
        scripts_in_msg(items[2], out)
    elif h == "multi" and len(items) > 2 and isinstance(items[2], list):
        for m in items[2]:
            scripts_in_msg(m, out)
    elif h in ("sudo-wasm", "wasm-sudo") and len(items) > 2:
        scripts_in_script(items[2], out)
    elif h in ("h-inst", "h-exec") and len(items) > 3:
        scripts_in_script(items[3], out)
    elif h == "h-mig" and len(items) > 4:
        scripts_in_script(items[4], out)
    return out


def key_ok(k):
    t = rust_trim(k)
    return t != "" and not t.startswith("_")


def action_malformed(act):
    """does this single action make the response malformed (C13) or fail (syntactically)?"""
    if not isinstance(act, list) or not act:
        return True
    h = act[0]
    if h == "fail":
        return True
    if h == "attr" and len(act) >= 3:
        return not key_ok(pdec(act[1]))
    if h == "ev" and len(act) >= 2:
        if len(rust_trim(pdec(act[1])).encode("utf-8")) < 2:
            return True
        for kv in act[2:]:
            if isinstance(kv, list) and len(kv) == 2 and not key_ok(pdec(kv[0])):
                return True
    return False


def msg_script(m):
    if not isinstance(m, list) or not m:
        return None
    if m[0] in ("exec", "inst") and len(m) > 2:
        return m[2]
    if m[0] == "mig" and len(m) > 3:
        return m[3]
    return None


def msg_certainly_fails(m):
    sc = msg_script(m)
    return isinstance(sc, list) and certainly_fails(sc)


def certainly_fails(script):
    """syntactic sufficient condition for "an invocation running this script returns an error":
    a top-level `fail` / malformed attribute or event; or (when nothing before it can fail) a
    sub-message that certainly fails and is not caught, or is caught by a reply script that certainly
    fails. Sub-messages are only dispatched if the script itself succeeds, and earlier siblings may
    fail first, but then the invocation fails as well — so the condition stays sufficient."""
    if not isinstance(script, list):
        return False
    if any(action_malformed(a) for a in script):
        return True
    for a in script:
        if isinstance(a, list) and a:
            if a[0] == "sub" and len(a) >= 5 and msg_certainly_fails(a[4]):
                if a[2] in ("never", "success"):
                    return True
                if a[2] in ("always", "error") and certainly_fails(a[3]):
                    return True
            if a[0] == "msg" and len(a) >= 2 and msg_certainly_fails(a[1]):
                return True
    return False


def own_markers(script):
    fail_at = next((i for i, a in enumerate(script) if isinstance(a, list) and a and a[0] == "fail"), len(script))
    res = []
    for a in script[:fail_at]:
        if isinstance(a, list) and len(a) >= 3 and a[0] == "w" and re.fullmatch(r"6d[0-9a-f]{4}", a[1]):
            res.append(a[1])
    return res


def subtree_markers(script):
    res = []
    sub = []
    scripts_in_script(script, sub)
    for s in sub:
        res += own_markers(s)
    return res


def doomed_markers(script):
    """unique markers (keys 6dXXXX) written by `script` or anything beneath it, when an invocation of
    `script` certainly fails: everything it and its sub-messages wrote must be rolled back"""
    if not certainly_fails(script):
        return []
    return subtree_markers(script)


def tx_outcome(out):
    return out.split(" ", 1)[0]


# --------------------------------------------------------------------------------------------------

def pred_c01(ops, impl):
    last_hash = None
    pending = None  # (index of failed tx, hash before)
    for n, (op, out) in enumerate(zip(ops, impl)):
        h = op.split(" ", 1)[0]
        if h == "rawhash":
            if pending is not None and pending[1] is not None and out != pending[1]:
                return "op %d `%s` returned %s but the raw root storage changed (hash %s -> %s)" % (
                    pending[0], ops[pending[0]][:160], impl[pending[0]], pending[1], out)
            pending = None
            last_hash = out
        elif h in TX_OPS:
            if tx_outcome(out) in ("err", "panic"):
                if pending is None:
                    pending = (n, last_hash)
            else:
                pending = None
                last_hash = None
            if h == "multi" and out.startswith("ok"):
                items = parse_sx(op)
                if items and len(items) > 2 and isinstance(items[2], list):
                    nresp = 0 if out.strip() == "ok" else len(out[3:].split(" / "))
                    if nresp != len(items[2]):
                        return "op %d execute_multi with %d messages returned %d responses" % (n, len(items[2]), nresp)
                    # the messages ran in the given order: the top-level invocations (script hashes) appear in message order
                    want = [fnv(print_sx(m[2])) for m in items[2] if isinstance(m, list) and m and m[0] == "exec" and len(m) > 2]
                    if n + 1 < len(ops) and ops[n + 1] == "trace" and len(want) >= 2:
                        got = [e.split("|", 1)[0].rsplit("#", 1)[-1] for e in impl[n + 1][6:-1].split(" || ") if e]
                        pos, okk = 0, True
                        for w in want:
                            try:
                                pos = got.index(w, pos) + 1
                            except ValueError:
                                okk = False
                                break
                        if not okk:
                            return "op %d: execute_multi did not run its messages in the given order (invocation order %s, message order %s)" % (n, got[:8], want)
        elif h in READ_OPS or h in ("bind", "bind2", "bindc", "section"):
            pass
        else:
            # anything else (store, block, init-bal, app switch …) may legitimately change the storage
            last_hash, pending = None, None
    import pred_wasm2
    return pred_wasm2.supply_conserved(ops, impl) or pred_wasm2.own_writes_persist(ops, impl)


def pred_c02(ops, impl):
    doomed = {}
    app = "1"
    for n, (op, out) in enumerate(zip(ops, impl)):
        h = op.split(" ", 1)[0]
        if h == "app":
            app = op.split()[1]
        elif h in TX_OPS:
            items = parse_sx(op)
            for s in scripts_of_op(items or []):
                for mk in doomed_markers(s):
                    doomed.setdefault((app, mk), n)
        elif h == "dump" and doomed:
            for (a, mk), at in doomed.items():
                if a == app and (mk + "=") in out:
                    return "marker %s written by a failing contract call of op %d `%s` is present in the dump after op %d" % (
                        mk, at, ops[at][:160], n)
    import pred_wasm2
    return pred_wasm2.must_succeed(ops, impl)


def pred_c03(ops, impl):
    modes = {}
    for op in ops:
        for m in re.finditer(r"\(sub (\d+) (always|error|success|never) ", op):
            modes.setdefault(int(m.group(1)), set()).add(m.group(2))
    # the payload delivered with a reply is the sub-message's payload (= its reply script): compare script hashes
    payload = {}
    for op in ops:
        if op.split(" ", 1)[0] in TX_OPS:
            for sc in scripts_of_op(parse_sx(op) or []):
                for a in sc:
                    if isinstance(a, list) and len(a) >= 5 and a[0] == "sub" and a[1].isdigit():
                        payload.setdefault(int(a[1]), set()).add(fnv(print_sx(a[3])))
    for n, out in enumerate(impl):
        if out.startswith("trace["):
            for e in out[6:-1].split(" || "):
                m = re.search(r" reply:(\d+):(?:ok|err)[^|]*#([0-9a-f]{8})\|", e + "|")
                if m and len(payload.get(int(m.group(1)), ())) == 1 and m.group(2) not in payload[int(m.group(1))]:
                    return "reply for sub-message %s was delivered a payload different from the one the sub-message carried (trace of op %d)" % (m.group(1), n)
    seen = {}
    app = "1"
    for n, (op, out) in enumerate(zip(ops, impl)):
        if op.startswith("app "):
            app = op.split()[1]
        if out.startswith("trace["):
            for m in re.finditer(r" reply:(\d+):(ok|err)", out):
                sid, res = int(m.group(1)), m.group(2)
                ms = modes.get(sid)
                if not ms or len(ms) != 1:
                    continue
                mode = next(iter(ms))
                if mode == "never" or (mode == "success" and res == "err") or (mode == "error" and res == "ok"):
                    return "reply invoked for sub-message %d (reply_on %s) with result %s (trace of op %d)" % (sid, mode, res, n)
                seen[(app, sid)] = seen.get((app, sid), 0) + 1
    # a sub-message that certainly fails, was demonstrably started (its script's invocation is on the
    # trace) and asked for a reply on error must be followed by that reply
    for n, (op, out) in enumerate(zip(ops, impl)):
        if op.split(" ", 1)[0] not in TX_OPS or n + 1 >= len(ops) or ops[n + 1] != "trace":
            continue
        if out == "panic":
            continue  # e.g. a lifted Empty-typed contract emitting a Custom message aborts the whole call
        items = parse_sx(op)
        all_scripts = scripts_of_op(items or [])
        entries = [e for e in impl[n + 1][6:-1].split(" || ") if e]
        hashes = [e.split("|", 1)[0].rsplit("#", 1)[-1] for e in entries]
        for sc in all_scripts:
            for a in sc:
                if isinstance(a, list) and a and a[0] == "sub" and len(a) >= 5 and a[2] in ("always", "error"):
                    child = msg_script(a[4])
                    if isinstance(child, list) and a[4][0] == "exec" and certainly_fails(child) and modes.get(int(a[1])) == {a[2]}:
                        hc = fnv(print_sx(child))
                        texts = [print_sx(x) for x in all_scripts]
                        if hashes.count(hc) == 1 and texts.count(print_sx(child)) == 1:
                            k = hashes.index(hc)
                            tail = entries[k + 1:]
                            if not any((" reply:%s:err" % a[1]) in e for e in tail):
                                return "op %d: sub-message %s (reply_on %s) ran and failed but no reply with an error result followed" % (n, a[1], a[2])
    for (a, sid), cnt in seen.items():
        uses = sum(1 for op in ops if re.search(r"\(sub %d " % sid, op))
        if cnt > max(1, uses):
            return "reply for sub-message %d invoked %d times" % (sid, cnt)
    return None


def parse_events(tok):
    # [ty{k=v;k=v},ty{...}]
    if not (tok.startswith("[") and tok.endswith("]")):
        return None
    body = tok[1:-1]
    evs = []
    for m in re.finditer(r"([^{},]+)\{([^}]*)\}", body):
        attrs = [tuple(kv.split("=", 1)) for kv in m.group(2).split(";") if kv]
        evs.append((m.group(1), attrs))
    return evs


def pred_c04(ops, impl):
    for n, (op, out) in enumerate(zip(ops, impl)):
        if not out.startswith("ok ["):
            continue
        items = parse_sx(op)
        if not items:
            continue
        parts = out.split(" ")
        evs = parse_events(parts[1]) if len(parts) > 1 else None
        if evs is None:
            continue
        for ty, attrs in evs:
            if ty == "wasm" or ty.startswith("wasm-"):
                if not attrs or attrs[0][0] != "_contract_address":
                    return "op %d: event %s does not carry _contract_address as first attribute" % (n, ty)
        want = None
        if items[0] == "exec" and len(items) > 2 and isinstance(items[2], list) and items[2]:
            k = items[2][0]
            want = {"exec": "execute", "inst": "instantiate", "mig": "migrate"}.get(k)
            if k == "send":
                if len(evs) != 1 or evs[0][0] != "transfer" or [a[0] for a in evs[0][1]] != ["recipient", "sender", "amount"]:
                    return "op %d: BankMsg::Send must yield exactly one transfer event (recipient, sender, amount)" % n
            if k == "burn" and evs:
                return "op %d: BankMsg::Burn must yield no event" % n
        elif items[0] in ("sudo-wasm", "wasm-sudo"):
            want = "sudo"
        elif items[0] == "h-exec":
            want = "execute"
        elif items[0] == "h-mig":
            want = "migrate"
        if want:
            if not evs or evs[0][0] != want or not evs[0][1] or evs[0][1][0][0] != "_contract_address":
                return "op %d: first event must be `%s` carrying the contract address, got %s" % (n, want, parts[1][:120])
    import pred_wasm2
    return pred_wasm2.own_events_unchanged(ops, impl) or pred_wasm2.data_rule(ops, impl)


def pred_c05(ops, impl):
    r = _pred_c05_trace(ops, impl)
    if r:
        return r
    import pred_wasm2
    return pred_wasm2.funds_visible(ops, impl)


def _pred_c05_trace(ops, impl):
    b = binds_of(ops)
    blocks = {}
    chains = {}
    app = "1"
    default = (12345, 1571797419879305533)
    pending = None
    for n, (op, out) in enumerate(zip(ops, impl)):
        t = op.split()
        if not t:
            continue
        if t[0] == "app":
            app = t[1]
            pending = None
        elif t[0] == "block" and out == "ok":
            blocks[app] = (blocks.get(app, default)[0] if t[1] == "same" else int(t[1]), int(t[2]))   # `block same T`: set_block at the current height
        elif t[0] == "next-block" and out == "ok":
            h, tm = blocks.get(app, default)
            blocks[app] = (h + 1, tm + 5_000_000_000)
        elif t[0] == "block-chain" and out == "ok" and len(t) >= 2:
            chains[app] = t[1]
        elif t[0] in TX_OPS:
            pending = (n, parse_sx(op))
        elif t[0] == "trace" and out.startswith("trace["):
            body = out[6:-1]
            entries = [e for e in body.split(" || ") if e]
            h, tm = blocks.get(app, default)
            cid = chains.get(app, "cosmos-testnet-14002")
            for e in entries:
                f = e.split("|", 1)[0].split(" ")
                if len(f) >= 7 and (f[5] != str(h) or f[6] != str(tm)):
                    return "trace after op %d: contract %s was shown block (%s,%s) but the App's block is (%d,%d)" % (n, f[0], f[5], f[6], h, tm)
                # the chain id the contract was told (noted as `cid=…` when it is not the default one)
                notes = e.split("|", 1)[1] if "|" in e else ""
                told = notes.split(";", 1)[0][4:] if notes.startswith("cid=") else "cosmos-testnet-14002"
                if len(f) >= 7 and told != cid:
                    return "trace after op %d: contract %s was told chain id %s but the App's block has chain id %s" % (n, f[0], told, cid)
            if pending and entries:
                pn, items = pending
                if items and items[0] == "exec" and len(items) > 2 and isinstance(items[2], list) and items[2] and items[2][0] == "exec":
                    f = entries[0].split("|", 1)[0].split(" ")
                    c, u = b.get(items[2][1], items[2][1]), b.get(items[1], items[1])
                    funds = items[2][3] if len(items[2]) > 3 else "-"
                    if len(f) >= 5 and f[1] == "execute" and (f[0] != c or f[3] != u or f[4] != funds):
                        return "op %d: callee %s was told sender %s funds %s, but the message was sent by %s to %s with funds %s" % (
                            pn, f[0], f[3], f[4], u, c, funds)
            pending = None
    return None


def pred_c10(ops, impl):
    last_hash = None
    for n, (op, out) in enumerate(zip(ops, impl)):
        h = op.split(" ", 1)[0]
        if h == "app":
            last_hash = None
        if h == "rawhash":
            if last_hash is not None and out != last_hash[1]:
                return "raw root storage changed between op %d and op %d although only queries were issued" % (last_hash[0], n)
            last_hash = (n, out)
        elif h in READ_OPS:
            if n > 0 and ops[n - 1] == op and h.startswith("q-") and impl[n - 1] != out:
                return "op %d: the same query asked twice gave %s then %s" % (n, impl[n - 1][:80], out[:80])
        elif h not in ("bind", "bind2", "bindc", "section"):
            last_hash = None
    import pred_wasm2
    return pred_wasm2.later_reads_see_writes(ops, impl)


def pred_c11(ops, impl):
    ids = {}
    addrs = {}
    app = "1"
    for n, (op, out) in enumerate(zip(ops, impl)):
        t = op.split()
        if not t:
            continue
        if t[0] == "app":
            app = t[1]
        cur = ids.setdefault(app, set())
        if t[0] in ("store", "store-w", "store-n", "store-c", "store-as", "dup", "store-id"):
            if out.startswith("id "):
                i = int(out.split()[1])
                if i in cur:
                    return "op %d `%s` returned code id %d which is already in use" % (n, op, i)
                if t[0] != "store-id" and i != (max(cur) + 1 if cur else 1):
                    return "op %d `%s` returned id %d, expected max id in use + 1 = %d" % (n, op, i, (max(cur) + 1 if cur else 1))
                if t[0] == "store-id" and i != int(t[2]):
                    return "op %d: explicit id %s not honoured (got %d)" % (n, t[2], i)
                cur.add(i)
            elif t[0] == "store-id" and out == "err":
                want = int(t[2])
                if want != 0 and want not in cur:
                    return "op %d: store_code_with_id(%d) rejected although the id is non-zero and unused" % (n, want)
        elif t[0] == "h-inst" and out.startswith("ok "):
            a = out.split()[1]
            s = addrs.setdefault(app, set())
            if a in s:
                return "op %d: instantiate returned address %s twice" % (n, a)
            s.add(a)
        elif t[0] == "q-code" and out == "err":
            if int(t[1]) in cur:
                return "op %d: CodeInfo for stored code id %s fails" % (n, t[1])
    # every stored id must be instantiable: an `exec U (inst ID good-script - label admin ~)` with a trivially good
    # script, enough funds and non-empty label must not fail when ID is stored
    ids_now = {}
    app = "1"
    for n, (op, out) in enumerate(zip(ops, impl)):
        t = op.split()
        if not t:
            continue
        if t[0] == "app":
            app = t[1]
        cur = ids_now.setdefault(app, set())
        if t[0] in ("store", "store-w", "store-c", "store-as", "dup", "store-id") and out.startswith("id "):
            cur.add(int(out.split()[1]))
        m = re.fullmatch(r"exec (u\d) \(inst (\d+) \(\(w 6b 01\)( \(attr i 1\))?\) - (l\d+) (~|u\d) ~\)", op)
        if m and int(m.group(2)) in cur and out == "err":
            return "op %d: code id %s is stored but cannot be instantiated" % (n, m.group(2))
    # empty labels are rejected; a repeated salted instantiation (same code, creator, salt) is rejected
    salted = {}
    app = "1"
    for n, (op, out) in enumerate(zip(ops, impl)):
        t = op.split()
        if not t:
            continue
        if t[0] == "app":
            app = t[1]
        items = parse_sx(op) if t[0] in ("exec", "h-inst") else None
        if not items:
            continue
        if items[0] == "exec" and len(items) > 2 and isinstance(items[2], list) and items[2] and items[2][0] == "inst" and len(items[2]) >= 7:
            who, code, label, salt = items[1], items[2][1], items[2][4], items[2][6]
        elif items[0] == "h-inst" and len(items) >= 8:
            who, code, label, salt = items[2], items[1], items[5], items[7]
        else:
            continue
        if label == "%" and out.startswith("ok"):
            return "op %d: instantiation with an empty label succeeded" % n
        if salt != "~":
            key = (app, who, code, salt)
            if out.startswith("ok"):
                if key in salted:
                    return "op %d: salted instantiation (code %s, creator %s, salt %s) succeeded twice (first at op %d)" % (n, code, who, salt, salted[key])
                salted[key] = n
    return None


def _served_by_recorded_code(ops, impl):
    """"afterwards all calls are served by the new code": whenever ContractInfo of c was asked (answer: code id …) and the very next
    transaction's trace begins c's part with an entry point other than `migrate`, that invocation carries the tag of the code
    recorded under that id (tags: `store X` / `store-c X` / `store-w X` answer `id N`; `dup K` inherits K's tag)."""
    b = binds_of(ops)
    tag_of, last_info, pending = {}, {}, None
    for n, (op, out) in enumerate(zip(ops, impl)):
        t = op.split()
        if not t:
            continue
        if t[0] in ("store", "store-c", "store-w") and len(t) >= 2 and out.startswith("id "):
            tag_of[out[3:].strip()] = t[1]
        elif t[0] == "dup" and len(t) >= 2 and out.startswith("id "):
            if t[1] in tag_of:
                tag_of[out[3:].strip()] = tag_of[t[1]]
        elif t[0] == "app":
            last_info, pending = {}, None
        elif t[0] == "q-info" and len(t) >= 2:
            if out != "err" and "," in out:
                last_info[b.get(t[1], t[1])] = (n, out.split(",")[0])
            else:
                last_info.pop(b.get(t[1], t[1]), None)
        elif t[0] in TX_OPS:
            pending = (n, dict(last_info))
            last_info = {}
        elif t[0] == "trace" and out.startswith("trace[") and pending is not None:
            txn, infos = pending
            pending = None
            seen = set()
            for e in out[6:-1].split(" || "):
                f = e.split(" ")
                if len(f) < 3 or f[0] in seen:
                    continue
                seen.add(f[0])
                if f[1] == "migrate":
                    # a top-level `exec who (mig c K script)`: the migrate entry point that runs is the one of code K
                    mm = re.match(r"^exec \S+ \(mig (\S+) (\d+) ", ops[txn])
                    if mm and b.get(mm.group(1), mm.group(1)) == f[0] and tag_of.get(mm.group(2)) is not None and f[2] != tag_of[mm.group(2)]:
                        return ("op %d `%s`: migration to code id %s (code %s) ran the migrate entry point of code %s"
                                % (txn, ops[txn][:140], mm.group(2), tag_of[mm.group(2)], f[2]))
                    continue
                if f[0] in infos:
                    want = tag_of.get(infos[f[0]][1])
                    if want is not None and f[2] != want:
                        return ("op %d `%s`: ContractInfo (op %d) records code id %s (code %s) for %s, but its next invocation (%s) was served by code %s"
                                % (txn, ops[txn][:140], infos[f[0]][0], infos[f[0]][1], want, f[0], f[1], f[2]))
    return None


def pred_c12(ops, impl):
    r = _served_by_recorded_code(ops, impl)
    if r:
        return r
    b = binds_of(ops)
    info = {}
    for n, (op, out) in enumerate(zip(ops, impl)):
        t = op.split()
        if not t:
            continue
        if t[0] == "q-info":
            info_prev = info.get(t[1])
            info[t[1]] = (n, out)
            continue
        if t[0] != "exec":
            continue
        items = parse_sx(op)
        if not items or len(items) < 3 or not isinstance(items[2], list) or not items[2]:
            continue
        m = items[2]
        if m[0] == "exec" and len(m) > 2 and isinstance(m[2], list):
            # admin messages sent by a contract: when every Migrate / UpdateAdmin / ClearAdmin aimed at contract c in the
            # whole tree certainly fails (its migrate script fails), ContractInfo of c is what it was before
            subs = []

            def walk_msg(x):
                if not isinstance(x, list) or not x:
                    return
                if x[0] in ("upd", "clr", "mig", "inst"):
                    subs.append(x)
                sc = msg_script(x)
                if isinstance(sc, list):
                    for a in sc:
                        if isinstance(a, list) and a:
                            if a[0] == "sub" and len(a) >= 5:
                                walk_msg(a[4])
                                for r in (a[3] if isinstance(a[3], list) else []):
                                    if isinstance(r, list) and r and r[0] == "sub" and len(r) >= 5:
                                        walk_msg(r[4])
                                    elif isinstance(r, list) and r and r[0] == "msg" and len(r) >= 2:
                                        walk_msg(r[1])
                            elif a[0] == "msg" and len(a) >= 2:
                                walk_msg(a[1])
            walk_msg(m)
            targets = set(x[1] for x in subs if x[0] in ("upd", "clr", "mig") and isinstance(x[1], str))
            for c in targets:
                mine = [x for x in subs if x[0] in ("upd", "clr", "mig") and x[1] == c]
                if not mine or not all(x[0] == "mig" and msg_certainly_fails(x) for x in mine):
                    continue
                before = info.get(c)
                after = None
                for k in range(n + 1, len(ops)):
                    tk = ops[k].split()
                    if tk and tk[0] == "q-info" and tk[1] == c:
                        after = impl[k]
                        break
                    if tk and tk[0] in TX_OPS:
                        break
                if before is not None and after is not None and before[1] != "err" and after != before[1]:
                    return "op %d `%s`: every migration of %s in this transaction fails, yet its ContractInfo changed from %s to %s" % (
                        n, op[:160], c, before[1], after)
            continue
        if m[0] not in ("upd", "clr", "mig"):
            continue
        c = m[1]
        before = info.get(c)
        # find the next q-info of c
        after = None
        for k in range(n + 1, len(ops)):
            tk = ops[k].split()
            if tk and tk[0] == "q-info" and tk[1] == c:
                after = impl[k]
                break
            if tk and tk[0] in TX_OPS:
                break
        if before is None or after is None or before[1] == "err":
            continue
        bparts = before[1].split(",")
        sender = b.get(items[1], items[1])
        if out.startswith("ok"):
            if len(bparts) == 3 and bparts[2] != sender:
                return "op %d `%s` succeeded although the admin of %s was %s, not the sender" % (n, op[:120], c, bparts[2])
            aparts = after.split(",")
            if m[0] == "upd" and len(aparts) == 3 and aparts[2] != b.get(m[2], m[2]):
                return "op %d: UpdateAdmin succeeded but ContractInfo shows admin %s" % (n, aparts[2])
            if m[0] == "clr" and len(aparts) == 3 and aparts[2] != "~":
                return "op %d: ClearAdmin succeeded but ContractInfo shows admin %s" % (n, aparts[2])
            if m[0] == "mig" and len(aparts) == 3 and aparts[0] != m[2]:
                # a migrate handler may itself dispatch further migrations; only flag the plain scripts
                if "sub" not in op and "msg" not in op:
                    return "op %d: Migrate to code %s succeeded but ContractInfo shows code id %s" % (n, m[2], aparts[0])
        elif out == "err" and after != before[1]:
            return "op %d `%s` failed but ContractInfo of %s changed from %s to %s" % (n, op[:120], c, before[1], after)
    return None


def pred_c13(ops, impl):
    # a direct call whose own top-level response is malformed must fail
    for n, (op, out) in enumerate(zip(ops, impl)):
        items = parse_sx(op)
        if not items:
            continue
        script = None
        if items[0] == "exec" and len(items) > 2 and isinstance(items[2], list) and items[2] and items[2][0] == "exec":
            script = items[2][2] if len(items[2]) > 2 else None
        elif items[0] in ("sudo-wasm", "wasm-sudo") and len(items) > 2:
            script = items[2]
        if isinstance(script, list) and any(action_malformed(a) for a in script):
            if out.startswith("ok"):
                return "op %d `%s`: the contract's response is malformed (or it fails) yet the call returned Ok" % (n, op[:160])
    import pred_wasm2
    return pred_wasm2.own_events_unchanged(ops, impl) or pred_c02(ops, impl)


def pred_c08(ops, impl):
    b = binds_of(ops)
    last = {}
    for n, (op, out) in enumerate(zip(ops, impl)):
        t = op.split()
        if not t:
            continue
        if t[0] == "wdump":
            c = t[1]
            # cstore and the dump's store section must agree with it
            if n + 1 < len(ops) and ops[n + 1].startswith("cstore %s ~ ~ asc" % c) and impl[n + 1] != out:
                return "op %d: dump_wasm_raw(%s) = %s but contract_storage().range = %s" % (n, c, out[:100], impl[n + 1][:100])
            last[c] = out
        elif t[0] == "q-raw" and t[1] in last and n > 0:
            # nothing ran since the dump_wasm_raw of that contract (only read ops in between)?
            k = n - 1
            fresh = False
            while k >= 0:
                tk = ops[k].split()
                if tk and tk[0] == "wdump" and tk[1] == t[1]:
                    fresh = True
                    break
                if not tk or tk[0] not in READ_OPS:
                    break
                k -= 1
            if fresh:
                recs = dict(kv.split("=") for kv in last[t[1]][1:-1].split(",") if kv)
                from predicates import unhex as _unhex, hx as _hx
                want = recs.get(_hx(_unhex(t[2])), "-")
                if out != want and out != "err":
                    return "op %d: WasmQuery::Raw(%s, %s) = %s but the contract's state dump holds %s" % (n, t[1], t[2], out, want)
    # a transaction made only of storage operations of one contract leaves the other contracts' dumps alone
    from predicates import unhex as _unhex, hx as _hx

    def recs_of(txt):
        return dict(kv.split("=") for kv in txt[1:-1].split(",") if kv)

    def fmt_recs(d):
        return "[" + ",".join("%s=%s" % (k, d[k]) for k in sorted(d, key=lambda h: _unhex(h) if h != "-" else b"")) + "]"

    dumps = {}         # contract -> last known state dump (text), kept up to date across operations that say what they change
    stale = set()      # contracts whose state may have changed in a way this predicate does not follow
    ALL = object()
    for n, (op, out) in enumerate(zip(ops, impl)):
        t = op.split()
        if not t:
            continue
        if t[0] == "exec":
            items = parse_sx(op)
            target = ALL
            if items and len(items) > 2 and isinstance(items[2], list) and items[2] and items[2][0] == "exec":
                sc = items[2][2] if len(items[2]) > 2 else []
                if isinstance(sc, list) and all(isinstance(a, list) and a and a[0] in ("w", "rm", "rd", "rng", "rngk", "rngv", "fail") for a in sc):
                    target = None if all(a[0] in ("rd", "rng", "rngk", "rngv", "fail") for a in sc) else b.get(items[2][1], items[2][1])
            if target is ALL:
                stale = set(dumps)
            elif target is not None:
                stale.add(target)
        elif t[0] in ("cs-set", "cs-rm") and len(t) >= 3:
            # App::contract_storage_mut(c): exactly the entry (c, key) changes
            c = b.get(t[1], t[1])
            if out != "ok":
                stale.add(c)
            elif c in dumps and c not in stale:
                d = recs_of(dumps[c])
                k = _hx(_unhex(t[2]))
                if t[0] == "cs-set":
                    d[k] = _hx(_unhex(t[3]))
                else:
                    d.pop(k, None)
                dumps[c] = fmt_recs(d)
        elif t[0] == "cs-get" and len(t) >= 3 and n > 0 and (out == "none" or out.startswith("some ")):
            p = ops[n - 1].split()
            if p and p[0] == "cs-set" and p[1:3] == t[1:3] and impl[n - 1] == "ok" and out != "some " + _hx(_unhex(p[3])):
                return "op %d: contract_storage(%s).get(%s) = %s right after contract_storage_mut set it to %s" % (n, t[1], t[2], out, p[3])
            if p and p[0] == "cs-rm" and p[1:3] == t[1:3] and impl[n - 1] == "ok" and out != "none":
                return "op %d: contract_storage(%s).get(%s) = %s right after contract_storage_mut removed it" % (n, t[1], t[2], out)
            if b.get(t[1], t[1]) in dumps and b.get(t[1], t[1]) not in stale:
                want = recs_of(dumps[b.get(t[1], t[1])]).get(_hx(_unhex(t[2])))
                got = out[5:] if out.startswith("some ") else None
                if want != got:
                    return "op %d: contract_storage(%s).get(%s) = %s but the contract's state holds %s" % (n, t[1], t[2], out, want)
        elif t[0] == "wdump":
            c = b.get(t[1], t[1])     # symbols may alias one address (non-injective address generators)
            if c in dumps and c not in stale and dumps[c] != out:
                return "op %d: storage of %s changed (%s -> %s) by operations that did not write to it" % (n, c, dumps[c][:80], out[:80])
            dumps[c] = out
            stale.discard(c)
        elif t[0] not in READ_OPS and t[0] not in ("rawhash", "trace", "dump", "case", "section") and not t[0].startswith("bind"):
            stale = set(dumps)
    return None


def pred_c19(ops, impl):
    if "section" not in ops:
        return None
    outs = {"1": [], "2": [], "3": []}
    texts = {"1": [], "2": [], "3": []}
    app = None
    for op, out in zip(ops, impl):
        t = op.split()
        if t and t[0] == "app":
            app = t[1]
            continue
        if app is None or op == "section":
            continue
        outs[app].append(out)
        texts[app].append(op)
    if texts["1"] != texts["2"]:
        return None  # not a determinism case
    for k, (a, c) in enumerate(zip(outs["1"], outs["2"])):
        if a != c:
            return "the same history on two fresh instances diverges at its op %d `%s`: %s vs %s (second instance interleaved with another App)" % (
                k, texts["1"][k][:120], a[:120], c[:120])
    return None


def pred_c19_mix(ops, impl):
    """slice wasm-bech-mix: the harness itself compares the run in a fresh thread with the run made after Apps of the other
    bech32 variant (same prefix) were used in the same thread, and reports the first differing op on the `nondet` line"""
    for op, out in zip(ops, impl):
        if op == "nondet" and out.startswith("!nondet"):
            return "a history on fresh Apps gives another transcript once Apps of a different configuration ran in the same thread: " + out[:400]
    return None


def nt_wasm(ops, impl):
    return any(o.startswith("trace[") and " reply:" in o for o in impl)


def nt_wasm_err(ops, impl):
    return any(o == "err" for o in impl) and any(o.startswith("ok [") for o in impl)


def nt_any(ops, impl):
    return True
