#!/usr/bin/env python3
"""dev helper: run a slice on the implementation only and evaluate predicates: dev_pred.py <slice> <cases> <seed> pred1 pred2 …"""
import sys, os, subprocess
ROOT = os.path.dirname(os.path.dirname(os.path.abspath(__file__)))
sys.path.insert(0, os.path.join(ROOT, "checklib"))
import predicates
sl, n, seed = sys.argv[1], sys.argv[2], sys.argv[3]
preds = sys.argv[4:]
subprocess.check_call(["cargo", "build", "--release", "--offline", "-q"], cwd=os.path.join(ROOT, "harness"))
out = os.path.join(ROOT, "work", "devpred")
extra = ["--thorough"] if os.environ.get("THOROUGH") else []
subprocess.check_call([os.path.join(ROOT, ".build/cargo/release/cwmt-harness"), "run", "--slice", sl, "--seed", seed, "--cases", n, "--out", out] + extra)
def cases(p):
    cur, hdr = None, None
    for l in open(p, errors="replace").read().split("\n")[:-1]:
        if l.startswith("case "):
            if hdr is not None:
                yield hdr, cur
            hdr, cur = l, []
        else:
            cur.append(l)
    if hdr is not None:
        yield hdr, cur
ops = list(cases(out + ".ops")); imp = list(cases(out + ".impl"))
for pn in preds:
    f = getattr(predicates, pn)
    bad = 0
    for (h, o), (_, i) in zip(ops, imp):
        m = f(o, i)
        if m:
            bad += 1
            if bad <= 3:
                print(pn, h, m[:400])
    print("%s: %d/%d cases flagged" % (pn, bad, len(ops)))
