"""
Tie T for the *placement of write caches* (C01, C02): re-reads, on every run, where /repo/src/app.rs and
/repo/src/wasm.rs (non-test code) call

    transactional(<storage>, |<cache>, <base>| <body>)

and what the closure hands the cache / the read-only base to, and writes the result to
lean/CwMt/Gen/TxSites.lean. CwMt/Model/EngineTx.lean (the engine with in-place writes) places
`transactionalI` at exactly the sites listed in `EngineTx.expectedSites`; theorem
`C01.tx_sites_as_modelled` states that the regenerated table equals that list, so a change that removes,
adds or re-targets a cache breaks a proof obligation (and is then searched for in the correspondence).

For `execute_submsg` the table also records every call *outside* the closure that is handed the enclosing
storage (the two `self.reply` calls): the reply must run on the dispatcher's storage, not on the dropped or
committed cache.

Nothing here interprets Rust beyond bracket matching; what is not recognised becomes a site with
`fn = "?"` or a callee `"?"`, which `expectedSites` does not contain.
"""
import os
import re
import tr_common as C

FILES = ["app.rs", "wasm.rs"]


def cut_tests(src):
    """drop `#[cfg(test)] mod <name> { … }` blocks (keeps offsets irrelevant: we only read text)"""
    out = src
    while True:
        m = re.search(r"#\[cfg\(test\)\]\s*mod\s+\w+\s*\{", out)
        if not m:
            return out
        j = C.match_close(out, m.end() - 1)
        if j < 0:
            return out[:m.start()]
        out = out[:m.start()] + out[j + 1:]


def fn_bodies(src):
    """(name, body_lo, body_hi) for every `fn` with a body, innermost-first is not needed: the enclosing
    function of a position is the one with the smallest body containing it."""
    res = []
    for m in re.finditer(r"\bfn\s+(\w+)", src):
        i = src.find("(", m.end())
        if i < 0:
            continue
        # generics before the parameter list may contain parentheses (Fn(..) bounds): take the first
        # parenthesis at angle-bracket depth 0
        depth, k = 0, m.end()
        while k < len(src):
            c = src[k]
            if c == "<":
                depth += 1
            elif c == ">" and src[k - 1] != "-":
                depth -= 1
            elif c == "(" and depth <= 0:
                break
            k += 1
        j = C.match_close(src, k)
        if j < 0:
            continue
        # body: first `{` or `;` after the parameter list, skipping the where clause's `Fn(..)` parentheses
        k = j + 1
        while k < len(src) and src[k] not in "{;":
            if src[k] == "(":
                k2 = C.match_close(src, k)
                k = k2 if k2 > 0 else k
            k += 1
        if k >= len(src) or src[k] == ";":
            continue
        e = C.match_close(src, k)
        if e > 0:
            res.append((m.group(1), k, e))
    return res


def enclosing(fns, pos):
    best = None
    for (n, lo, hi) in fns:
        if lo < pos < hi and (best is None or hi - lo < best[2] - best[1]):
            best = (n, lo, hi)
    return best


def calls_with(body, ident):
    """callee paths of calls in `body` one of whose top-level arguments is exactly `ident` (modulo & / &mut / *)"""
    out = []
    for m in re.finditer(r"([A-Za-z_][\w\.:]*)\s*\(", body):
        name = m.group(1)
        if name in ("if", "match", "while", "for", "Some", "Ok", "Err", "matches"):
            continue
        j = C.match_close(body, m.end() - 1)
        if j < 0:
            continue
        args = [re.sub(r"^(&\s*mut\s+|&\s*|\*\s*)+", "", C.squash(a)) for a in C.split_top(body[m.end():j])]
        if ident in args:
            out.append(name)
    return out


def read_sites(rel):
    src = cut_tests(C.strip_comments(C.read_src(rel)))
    fns = fn_bodies(src)
    sites, notes = [], []
    for m in re.finditer(r"\btransactional\s*\(", src):
        j = C.match_close(src, m.end() - 1)
        enc = enclosing(fns, m.start())
        if enc is None:
            # the `use` line and anything outside a function body
            if src[max(0, m.start() - 40):m.start()].find("use ") >= 0 or "::" in src[max(0, m.start() - 2):m.start()]:
                continue
            notes.append("%s: transactional( outside any function body" % rel)
            continue
        site = {"file": rel, "fn": enc[0], "storage": "?", "cache": [], "base": [], "outer": []}
        parts = C.split_top(src[m.end():j]) if j > 0 else []
        # the closure's parameter list `|cache, base|` contains a top-level comma: re-join everything after the first argument
        args = [parts[0], ",".join(parts[1:])] if len(parts) >= 2 else parts
        cm = re.match(r"\s*\|\s*(\w+)\s*,\s*(\w+)\s*\|(.*)$", args[1], re.S) if len(args) == 2 else None
        if cm:
            site["storage"] = C.squash(args[0])
            cache, base, body = cm.group(1), cm.group(2), cm.group(3)
            site["cache"] = calls_with(body, cache) or ["?"]
            site["base"] = calls_with(body, base) if base != "_" else []
            # calls of the enclosing function, outside the closure, that are handed the same storage expression
            st = re.sub(r"^(&\s*mut\s+|&\s*|\*\s*)+", "", site["storage"])
            outer_text = src[enc[1]:m.start()] + " " + src[j + 1:enc[2]]
            site["outer"] = calls_with(outer_text, st)
        else:
            notes.append("%s: fn %s: transactional(..) call not of the form (storage, |cache, base| body)" % (rel, enc[0]))
            site["fn"] = "?"
        sites.append(site)
    return sites, notes


def lean_file(sites):
    rows = []
    for s in sites:
        rows.append("  { file := %s, fn := %s, storage := %s,\n    cache := %s, base := %s, outer := %s }" % (
            C.lean_str(s["file"]), C.lean_str(s["fn"]), C.lean_str(s["storage"]),
            "[" + ", ".join(C.lean_str(x) for x in s["cache"]) + "]",
            "[" + ", ".join(C.lean_str(x) for x in s["base"]) + "]",
            "[" + ", ".join(C.lean_str(x) for x in s["outer"]) + "]"))
    return ("""import CwMt.Model.TxSite
/- GENERATED by /verif/checklib/tr_tx.py from /repo/src/app.rs and /repo/src/wasm.rs on every check run. Do not edit. -/
namespace CwMt.Gen.Tx
open CwMt

def sites : List TxSite := [
""" + ",\n".join(rows) + """
]

end CwMt.Gen.Tx
""")


EXPECTED = [
    ("app.rs", "execute_multi", "&mut *storage", ["router.execute"], [], []),
    ("app.rs", "wasm_sudo", "&mut *storage", ["router.wasm.sudo"], [], []),
    ("app.rs", "sudo", "&mut *storage", ["router.sudo"], [], []),
    ("wasm.rs", "execute_submsg", "storage", ["router.execute"], [], ["self.reply", "self.reply"]),
    ("wasm.rs", "with_storage", "storage", ["self.contract_storage_mut"], ["RouterQuerier::new"], ["self.contract_data"]),
]


def translate(root, log):
    problems, sites = [], []
    for rel in FILES:
        try:
            s, notes = read_sites(rel)
        except Exception as e:   # unreadable source: a table nobody accepts
            s, notes = [{"file": rel, "fn": "?", "storage": "?", "cache": ["?"], "base": [], "outer": []}], ["%s: %r" % (rel, e)]
        sites += s
        problems += ["tr_tx: " + n for n in notes]
    C.write_if_changed(os.path.join(root, "lean", "CwMt", "Gen", "TxSites.lean"), lean_file(sites), log)
    got = [(s["file"], s["fn"], s["storage"], s["cache"], s["base"], s["outer"]) for s in sites]
    if got != EXPECTED:
        missing = [e[:2] for e in EXPECTED if e not in got]
        extra = [g[:2] for g in got if g not in EXPECTED]
        problems.append("tr_tx: write-cache placement differs from the one CwMt/Model/EngineTx.lean models: "
                        "missing/changed %s, unexpected %s" % (missing, extra))
    return {"problems": problems, "counterexamples": [], "summary": {"sites": ["%s:%s" % (s["file"], s["fn"]) for s in sites]}}


if __name__ == "__main__":
    import json, sys
    r = translate(sys.argv[1] if len(sys.argv) > 1 else os.path.dirname(os.path.dirname(os.path.abspath(__file__))), print)
    print(json.dumps(r, indent=1))
