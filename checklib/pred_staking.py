"""Model-free predicates for the `staking` slice (C14, C15, C16).

Everything is computed from the ops file and the IMPLEMENTATION transcript only, with exact integer /
`fractions.Fraction` arithmetic. The generator puts an `obs` line (Delegation query for all pairs + bank balances) and
an `sdump` line (raw decoded module state) after every state-changing op; the predicates only ever compare
observations that are directly adjacent to an op, so removing lines (delta debugging) can never create a failure.

Readings (DESIGN.md section 7): R1 "stake" = the delegation's fractional value kept by the module (the upper bound of
C15 counts every interval on that value; the lower bound counts the intervals in which the delegation is SHOWN, i.e. is
worth at least one whole token — a sub-token remnant that the Delegation query no longer shows earns nothing while it
is alone with its validator, whose whole-token total is then 0; C15.shown_delegation_accrues is the matching theorem); R2 the envelope of
C16 is never-increases / exact-when-whole / frame / p = 1 removes / rejection; R7 every C15 bound carries a slack of a
few 10^-18 tokens per reward update.
"""
from fractions import Fraction

ONE = 10 ** 18
YEAR = 60 * 60 * 24 * 365
QUERY_OPS = ("q-deleg", "q-all", "bal", "obs", "sdump", "dec")


def _parse_obs(line):
    if " | " not in line:
        return None
    left, right = line.split(" | ", 1)
    pairs, bals = {}, {}
    try:
        for tok in left.split():
            k, v = tok.split("=", 1)
            d, val = k.split("/", 1)
            if v == "none":
                pairs[(d, val)] = None
            elif v in ("err", "panic"):
                pairs[(d, val)] = v
            else:
                a, r = v.split(":")
                pairs[(d, val)] = (int(a), int(r))
        for tok in right.split():
            k, v = tok.split("=", 1)
            bals[k] = int(v)
    except ValueError:
        return None
    return {"pairs": pairs, "bals": bals, "raw": line}


def _parse_list(s):
    s = s[1:-1]
    return s.split(",") if s else []


def _parse_dump(line):
    if not line.startswith("info="):
        return None
    f = {}
    for tok in line.split(" "):
        if "=" in tok:
            k, v = tok.split("=", 1)
            f[k] = v
    try:
        denom, unb, apr = f["info"].rsplit(":", 2)
        d = {"denom": denom, "unb": int(unb), "apr": int(apr), "raw": line, "odd": f.get("?odd")}
        d["vals"] = {x.rsplit(":", 1)[0]: int(x.rsplit(":", 1)[1]) for x in _parse_list(f["vals"])}
        d["stakes"] = {}
        for x in _parse_list(f["stakes"]):
            k, st, rw = x.rsplit(":", 2)
            a, v = k.split("/", 1)
            d["stakes"][(a, v)] = (int(st), int(rw))
        d["vinfo"] = {}
        for x in _parse_list(f["vinfo"]):
            v, st, last, stakers = x.split(":", 3)
            d["vinfo"][v] = (int(st), int(last), [s for s in stakers.split(";") if s])
        d["queue"] = []
        for x in _parse_list(f["queue"]):
            k, amt, due = x.rsplit(":", 2)
            a, v = k.split("/", 1)
            d["queue"].append((a, v, int(amt), int(due)))
        d["t"] = int(f["t"])
        d["pool"] = int(f["pool"])
    except (KeyError, ValueError):
        return None
    return d


class _Walk:
    """Iterates over the state-changing ops of a case with the adjacent observations."""

    def __init__(self, ops, impl):
        self.ops = ops
        self.impl = impl

    def events(self):
        cur_obs = cur_dump = None
        n = min(len(self.ops), len(self.impl))
        i = 0
        while i < n:
            t = self.ops[i].split()
            out = self.impl[i]
            if not t:
                i += 1
                continue
            if t[0] == "obs":
                cur_obs = _parse_obs(out)
            elif t[0] == "sdump":
                cur_dump = _parse_dump(out)
            elif t[0] in QUERY_OPS:
                pass
            else:
                after_obs = after_dump = None
                j = i + 1
                while j < n:
                    tj = self.ops[j].split()
                    if not tj or tj[0] not in QUERY_OPS:
                        break
                    if tj[0] == "obs" and after_obs is None:
                        after_obs = _parse_obs(self.impl[j])
                    if tj[0] == "sdump" and after_dump is None:
                        after_dump = _parse_dump(self.impl[j])
                    j += 1
                yield (i, t, out, cur_obs, cur_dump, after_obs, after_dump)
                cur_obs = cur_dump = None
            i += 1


def _amt(obs, d, v):
    """shown delegation amount; None when the pair is not observed"""
    if obs is None or (d, v) not in obs["pairs"]:
        return None
    x = obs["pairs"][(d, v)]
    if x is None:
        return 0
    if isinstance(x, str):
        return None
    return x[0]


def _same_except(before, after, pairs=(), bals=()):
    """names of observed entries that differ, leaving out the listed ones"""
    diff = []
    for k, v in before["pairs"].items():
        if k not in pairs and after["pairs"].get(k, v) != v:
            diff.append("%s/%s: %s -> %s" % (k[0], k[1], v, after["pairs"].get(k)))
    for k, v in before["bals"].items():
        if k not in bals and after["bals"].get(k, v) != v:
            diff.append("balance %s: %s -> %s" % (k, v, after["bals"].get(k)))
    return diff


class _Hist:
    """what the ops themselves say: parameters, known validators, clock, pending unbondings, withdraw addresses"""

    def __init__(self):
        self.denom, self.unb, self.apr = "TOKEN", 60, ONE // 10
        self.vals = {}
        self.now = 0        # whole seconds of block time since the start (what rewards count)
        self.now_ns = 0     # nanoseconds since the start (what the unbonding queue compares)
        self.pending = []   # [delegator, validator, amount, due (ns)]
        self.wd = {}
        self.nops = 0
        self.nslash = 0

    def apply(self, t, out):
        self.nops += 1
        if out != "ok":
            return
        if t[0] == "setup":
            self.denom, self.unb, self.apr = t[1], int(t[2]), int(t[3])
        elif t[0] == "validator":
            self.vals[t[1]] = int(t[2])
        elif t[0] == "undeleg":
            self.pending.append([t[1], t[2], int(t[3]), self.now_ns + self.unb * 1000000000])
        elif t[0] == "slash":
            self.nslash += 1
            rem = ONE - int(t[2])
            for p in self.pending:
                if p[1] == t[1]:
                    p[2] = p[2] * rem // ONE
        elif t[0] == "setwd":
            if t[1] == t[2]:
                self.wd.pop(t[1], None)
            else:
                self.wd[t[1]] = t[2]
        elif t[0] == "advance":
            self.now += int(t[1])
            self.now_ns = int(t[2]) if len(t) > 2 else self.now_ns + int(t[1]) * 1000000000

    def denom_of(self, t, idx):
        return t[idx] if len(t) > idx else self.denom


def _norm(ops):
    """`advance SECS [MODE [NANOS]]` -> `advance <whole seconds of block time crossed> <nanoseconds since the start>`:
    rewards count whole seconds of block time (`floor(now) - floor(since)` in calculate_rewards; the default block
    starts at 1571797419.879305533), the unbonding queue compares nanoseconds; the predicates follow both clocks"""
    out, frac, ns_abs, st, cur = [], 879305533, 0, {}, "1"
    for o in ops:
        t = o.split()
        if t and t[0] == "app" and len(t) > 1:
            st[cur] = (frac, ns_abs)
            cur = t[1]
            frac, ns_abs = st.get(cur, (879305533, 0))
        if t and t[0] == "slash-direct":
            o = "slash " + " ".join(t[1:])        # the module's sudo entry point called directly: judged like App::sudo
            t = o.split()
        if t and t[0] == "advance" and len(t) in (2, 3, 4) and t[1].isdigit():
            ns = int(t[3]) if len(t) == 4 and t[3].isdigit() else 0
            f = frac + ns
            frac = f % 1000000000
            ns_abs += int(t[1]) * 1000000000 + ns
            out.append("advance %d %d" % (int(t[1]) + f // 1000000000, ns_abs))
        else:
            out.append(o)
    return out


def _first_panic(ops, impl):
    for i, (o, r) in enumerate(zip(ops, impl)):
        if r == "panic" and not o.startswith("dec "):
            return "op %d `%s` panicked" % (i, o)
        if "panic" in r and (o.startswith("obs") or o.startswith("q-")):
            return "op %d `%s`: a query panicked: %s" % (i, o, r[:120])
    return None


# ==================================================================================================
# C14

def pred_c14(ops, impl):
    ops = _norm(ops)
    m = _first_panic(ops, impl)
    if m:
        return "C14 no-panic: " + m
    h = _Hist()
    for (i, t, out, bo, bd, ao, ad) in _Walk(ops, impl).events():
        op = " ".join(t)
        where = "op %d `%s`: " % (i, op)
        if out not in ("ok", "err", "bad-op", "dead"):
            return where + "unexpected outcome " + out[:80]
        if t[0] == "advance" and out != "ok":
            return where + "block update failed (%s)" % out
        if t[0] == "rb" and out != "err":
            return where + "a transaction ending in an impossible transfer returned " + out[:40]
        if ad is not None and ad.get("odd"):
            return where + "raw storage holds keys outside the known staking/distribution/bank slots: " + ad["odd"][:120]
        # ---- rejected operations change nothing
        if out == "err":
            if bo is not None and ao is not None and bo["raw"] != ao["raw"]:
                return where + "rejected, but observations changed: " + "; ".join(_same_except(bo, ao))[:300]
            if bd is not None and ad is not None and bd["raw"] != ad["raw"]:
                return where + "rejected, but the module state changed"
        # ---- operations that must be rejected
        if t[0] in ("deleg", "undeleg", "redeleg") and len(t) >= (5 if t[0] == "redeleg" else 4):
            amount = int(t[4] if t[0] == "redeleg" else t[3])
            denom = h.denom_of(t, 5 if t[0] == "redeleg" else 4)
            vs = [t[2], t[3]] if t[0] == "redeleg" else [t[2]]
            must = None
            if t[0] != "redeleg" and amount == 0:
                must = "zero amount"
            elif denom != h.denom:
                must = "foreign denomination"
            elif any(v not in h.vals for v in vs):
                must = "unknown validator"
            elif t[0] in ("undeleg", "redeleg"):
                shown = _amt(bo, t[1], t[2])
                if shown is not None and amount > shown:
                    must = "more than the %d delegated" % shown
            if must and out == "ok":
                return where + "accepted although it must fail (%s)" % must
        # ---- effects of accepted operations
        if out == "ok" and bo is not None and ao is not None:
            if t[0] == "deleg":
                d, v, a = t[1], t[2], int(t[3])
                b0, b1 = _amt(bo, d, v), _amt(ao, d, v)
                if b0 is not None and b1 != b0 + a:
                    return where + "delegation shown %s -> %s, expected +%d" % (b0, b1, a)
                if d in bo["bals"] and ao["bals"].get(d) != bo["bals"][d] - a:
                    return where + "delegator balance %s -> %s, expected -%d" % (bo["bals"][d], ao["bals"].get(d), a)
                if "pool" in bo["bals"] and ao["bals"].get("pool") != bo["bals"]["pool"] + a:
                    return where + "pool balance %s -> %s, expected +%d" % (bo["bals"]["pool"], ao["bals"].get("pool"), a)
                diff = _same_except(bo, ao, pairs=[(d, v)], bals=[d, "pool"])
                if diff:
                    return where + "changed something else: " + "; ".join(diff)[:300]
            elif t[0] == "undeleg":
                d, v, a = t[1], t[2], int(t[3])
                b0, b1 = _amt(bo, d, v), _amt(ao, d, v)
                if b0 is not None and b1 != b0 - a:
                    return where + "delegation shown %s -> %s, expected to drop by %d at once" % (b0, b1, a)
                diff = _same_except(bo, ao, pairs=[(d, v)])
                if diff:
                    return where + "changed something else (nothing is paid before maturity): " + "; ".join(diff)[:300]
            elif t[0] == "redeleg":
                d, v1, v2, a = t[1], t[2], t[3], int(t[4])
                if v1 != v2:
                    for (v, sign) in ((v1, -1), (v2, 1)):
                        b0, b1 = _amt(bo, d, v), _amt(ao, d, v)
                        if b0 is not None and b1 != b0 + sign * a:
                            return where + "delegation to %s shown %s -> %s, expected %+d" % (v, b0, b1, sign * a)
                diff = _same_except(bo, ao, pairs=[(d, v1), (d, v2)])
                if diff:
                    return where + "changed something else: " + "; ".join(diff)[:300]
            elif t[0] in ("slash", "setwd", "setup", "validator"):
                diff = _same_except(bo, ao, pairs=list(bo["pairs"].keys()))
                if diff:
                    return where + "moved coins: " + "; ".join(diff)[:300]
            elif t[0] == "advance":
                # payouts: exactly the unbondings that are due at the new time, nothing else
                now = int(t[2]) if len(t) > 2 else h.now_ns + int(t[1]) * 1000000000
                due = {}
                for (d, v, amt, at) in h.pending:
                    if at <= now:
                        due[d] = due.get(d, 0) + amt
                total = 0
                for d, b in bo["bals"].items():
                    if d == "pool":
                        continue
                    exp = due.get(d, 0)
                    total += exp
                    if ao["bals"].get(d) != b + exp:
                        return where + "balance of %s %s -> %s, but unbondings due at t=%d pay %d" % (d, b, ao["bals"].get(d), now, exp)
                if all(d in bo["bals"] for d in due) and ao["bals"].get("pool") != bo["bals"]["pool"] - total:
                    return where + "pool %s -> %s, expected -%d" % (bo["bals"]["pool"], ao["bals"].get("pool"), total)
                for k, x in bo["pairs"].items():
                    if isinstance(x, tuple) and isinstance(ao["pairs"].get(k), tuple) and ao["pairs"][k][0] != x[0]:
                        return where + "delegation %s/%s changed from %d to %d by a block update" % (k[0], k[1], x[0], ao["pairs"][k][0])
        h.apply(t, out)
        if t[0] == "advance" and out == "ok":
            h.pending = [p for p in h.pending if p[3] > h.now_ns]
    return None


# ==================================================================================================
# C15

def pred_c15(ops, impl):
    ops = _norm(ops)
    h = _Hist()
    tracked = {}      # (d, v) -> dict(E, paid, w)
    for (i, t, out, bo, bd, ao, ad) in _Walk(ops, impl).events():
        op = " ".join(t)
        where = "op %d `%s`: " % (i, op)
        if out in ("panic", "dead"):
            break
        # ---- withdrawal pays exactly what was shown, to the withdraw address, and touches nobody else
        if t[0] == "withdraw" and out == "ok" and bo is not None and ao is not None:
            d, v = t[1], t[2]
            rcv = h.wd.get(d, d)
            before = bo["pairs"].get((d, v))
            after = ao["pairs"].get((d, v))
            delta = None
            if rcv in bo["bals"]:
                delta = ao["bals"].get(rcv, 0) - bo["bals"][rcv]
            if isinstance(before, tuple):
                if delta is not None and delta != before[1]:
                    return where + "paid %d to %s, the Delegation query showed %d just before" % (delta, rcv, before[1])
                if before[1] == 0:
                    return where + "succeeded with nothing to pay"
                if not (isinstance(after, tuple) and after == (before[0], 0)):
                    return where + "afterwards the query shows %s, expected amount %d with reward 0" % (after, before[0])
            diff = _same_except(bo, ao, pairs=[(d, v)], bals=[rcv])
            if diff:
                return where + "affected others: " + "; ".join(diff)[:300]
            if (d, v) in tracked:
                if delta is None:
                    del tracked[(d, v)]
                else:
                    tracked[(d, v)]["paid"] += delta
                    tracked[(d, v)]["w"] += 1
        elif t[0] == "withdraw" and out == "ok" and (t[1], t[2]) in tracked:
            del tracked[(t[1], t[2])]
        # ---- accrual bounds
        if out == "ok" and (ad is None or bd is None):
            tracked = {}                               # an accepted op without adjacent dumps: nothing can be followed
        if t[0] == "advance" and out == "ok" and bd is not None:
            secs = int(t[1])
            for k, st in tracked.items():
                if k in bd["stakes"] and k[1] in h.vals:
                    c = h.vals[k[1]]
                    inc = Fraction(bd["stakes"][k][0], ONE) * Fraction(h.apr, ONE) * Fraction(ONE - c, ONE) * Fraction(secs, YEAR)
                    st["E"] += inc                      # upper bound: every interval, on the fractional value (R1)
                    if bd["stakes"][k][0] >= ONE:
                        st["Elo"] += inc                # lower bound: only while the delegation is SHOWN (>= 1 token);
                                                        # a sub-token remnant whose validator total is 0 accrues nothing
        if t[0] == "redeleg" and out == "ok" and len(t) >= 5 and t[2] == t[3] and bd is not None:
            # a redelegation is an undelegation followed by a delegation; moving the whole delegation onto the same
            # validator takes it through zero, which ends the period (the module drops the record and its reward)
            k = (t[1], t[2])
            if k in tracked and bd["stakes"].get(k, (None,))[0] == int(t[4]) * ONE:
                tracked[k] = {"E": Fraction(0), "Elo": Fraction(0), "paid": 0, "w": 0}
        h.apply(t, out)
        if t[0] == "advance" and out == "ok":
            h.pending = [p for p in h.pending if p[3] > h.now_ns]
        if bd is not None and ad is not None:
            for k in list(tracked):
                if k not in ad["stakes"]:
                    del tracked[k]                     # the delegation ended: the period is over
            for k in ad["stakes"]:
                if k not in bd["stakes"] and k not in tracked:
                    tracked[k] = {"E": Fraction(0), "Elo": Fraction(0), "paid": 0, "w": 0}
        if ao is not None:
            slack = Fraction(10 * (3 + h.nslash) * h.nops, ONE)
            for k, st in tracked.items():
                x = ao["pairs"].get(k)
                if not isinstance(x, tuple):
                    continue
                got = st["paid"] + x[1]
                if got > st["E"] + slack:
                    return where + "%s/%s: withdrawn %d + pending %d exceeds stake x rate x (1-commission) x time = %s" % (
                        k[0], k[1], st["paid"], x[1], float(st["E"]))
                if st["Elo"] - got >= st["w"] + 1 + slack:
                    return where + "%s/%s: withdrawn %d + pending %d falls short of %s by more than %d withdrawal(s) + 1" % (
                        k[0], k[1], st["paid"], x[1], float(st["Elo"]), st["w"])
    return None


# ==================================================================================================
# C16

def pred_c16(ops, impl):
    ops = _norm(ops)
    h = _Hist()
    for (i, t, out, bo, bd, ao, ad) in _Walk(ops, impl).events():
        op = " ".join(t)
        where = "op %d `%s`: " % (i, op)
        if out in ("panic", "dead"):
            break
        if t[0] == "slash" and len(t) == 3:
            v, p = t[1], int(t[2])
            if (p > ONE or v not in h.vals):
                if out == "ok":
                    return where + "accepted although %s" % ("the fraction is above one" if p > ONE else "the validator is unknown")
                if bo is not None and ao is not None and bo["raw"] != ao["raw"]:
                    return where + "rejected, but observations changed"
                if bd is not None and ad is not None and bd["raw"] != ad["raw"]:
                    return where + "rejected, but the module state changed"
            elif out == "ok":
                rem = ONE - p
                if bo is not None and ao is not None:
                    for k, x in bo["pairs"].items():
                        y = ao["pairs"].get(k)
                        if k[1] != v:
                            if y != x:
                                return where + "delegation %s/%s to another validator changed: %s -> %s" % (k[0], k[1], x, y)
                            continue
                        a0 = x[0] if isinstance(x, tuple) else 0
                        a1 = y[0] if isinstance(y, tuple) else 0
                        if isinstance(x, str) or isinstance(y, str):
                            continue
                        if a1 > a0:
                            return where + "delegation %s/%s increased %d -> %d" % (k[0], k[1], a0, a1)
                        if isinstance(x, tuple) and isinstance(y, tuple) and x[1] != y[1]:
                            return where + "accrued reward of %s/%s changed %d -> %d" % (k[0], k[1], x[1], y[1])
                        if p == ONE and y is not None:
                            return where + "p = 1 but %s/%s still shows %s" % (k[0], k[1], y)
                    for d, b in bo["bals"].items():
                        if ao["bals"].get(d) != b:
                            return where + "bank balance of %s changed %d -> %s" % (d, b, ao["bals"].get(d))
                if bd is not None and ad is not None:
                    for k, (st, rw) in bd["stakes"].items():
                        if k[1] != v:
                            if ad["stakes"].get(k) != (st, rw):
                                return where + "record %s/%s of another validator changed" % k
                        else:
                            st1 = ad["stakes"].get(k, (0, 0))[0]
                            if st1 > st:
                                return where + "stake of %s/%s increased" % k
                    for k in ad["stakes"]:
                        if k not in bd["stakes"]:
                            return where + "a delegation %s/%s appeared" % k
                    if ao is not None:
                        # "(1 - p) times its value rounded down to whole tokens; sub-token remainders may additionally
                        # be dropped": at most one whole token below the floor of the scaled fractional value (R2)
                        for k, (st, rw) in bd["stakes"].items():
                            if k[1] == v and k in ao["pairs"] and not isinstance(ao["pairs"][k], str):
                                shown = ao["pairs"][k][0] if ao["pairs"][k] else 0
                                want = (st * rem) // (ONE * ONE)
                                if shown < want - 1:
                                    return where + "%s/%s is worth %s tokens, scaled %s, but shows %d afterwards: more than a sub-token remainder was dropped" % (
                                        k[0], k[1], float(Fraction(st, ONE)), float(Fraction(st * rem, ONE * ONE)), shown)
                    if p == ONE and any(k[1] == v for k in ad["stakes"]):
                        return where + "p = 1 but delegations to %s remain" % v
                    if len(bd["queue"]) != len(ad["queue"]):
                        return where + "the unbonding queue changed length"
                    for (q0, q1) in zip(bd["queue"], ad["queue"]):
                        if q0[1] != v:
                            if q0 != q1:
                                return where + "pending unbonding %s of another validator changed to %s" % (q0, q1)
                        else:
                            exp = q0[2] * rem // ONE
                            if q1[:2] != q0[:2] or q1[3] != q0[3] or q1[2] != exp:
                                return where + "pending unbonding %s became %s, expected amount %d" % (q0, q1, exp)
                    for w, vi in bd["vinfo"].items():
                        if w != v and ad["vinfo"].get(w, vi)[0] != vi[0]:
                            return where + "total of validator %s changed" % w
                    if ad["vinfo"].get(v, (0,))[0] > bd["vinfo"].get(v, (0,))[0]:
                        return where + "total of the slashed validator increased"
                    # exactness when everything is whole
                    mine = {k: s for k, (s, _) in bd["stakes"].items() if k[1] == v}
                    whole = all(s % ONE == 0 for s in mine.values()) and \
                        bd["vinfo"].get(v, (None,))[0] == sum(mine.values()) // ONE and \
                        all((s // ONE * rem) % ONE == 0 for s in mine.values())
                    if whole and mine:
                        for k, s0 in mine.items():
                            exp = s0 // ONE * rem
                            got = ad["stakes"].get(k, (0, 0))[0]
                            if got != exp:
                                return where + "all values whole: %s/%s should become exactly %d tokens, record holds %d atomics" % (k[0], k[1], exp // ONE, got)
                            if ao is not None and k in ao["pairs"] and not isinstance(ao["pairs"][k], str):
                                shown = ao["pairs"][k][0] if ao["pairs"][k] else 0
                                if shown != exp // ONE:
                                    return where + "all values whole: %s/%s should show exactly %d, shows %d" % (k[0], k[1], exp // ONE, shown)
                        if ad["vinfo"].get(v, (None,))[0] != sum(s // ONE * rem for s in mine.values()) // ONE:
                            return where + "all values whole: validator total is not the sum of the scaled delegations"
        h.apply(t, out)
        if t[0] == "advance" and out == "ok":
            h.pending = [p for p in h.pending if p[3] > h.now_ns]
    return None


# ==================================================================================================
# coverage rules

def nt_c14(ops, impl):
    ops = _norm(ops)
    # a matured unbonding was paid after at least one slash, or a rejection happened next to a live delegation
    seen_undeleg = seen_slash = False
    for o, r in zip(ops, impl):
        if o.startswith("undeleg") and r == "ok":
            seen_undeleg = True
        if o.startswith("slash") and r == "ok" and seen_undeleg:
            seen_slash = True
        if o.startswith("advance") and seen_slash:
            return True
    return False


def nt_c15(ops, impl):
    ops = _norm(ops)
    return any(o.startswith("withdraw") and r == "ok" for o, r in zip(ops, impl))


def nt_c16(ops, impl):
    ops = _norm(ops)
    n = 0
    for o, r in zip(ops, impl):
        if o.startswith("slash") and r == "ok" and not o.endswith(" 0"):
            n += 1
    return n >= 2


# ==================================================================================================
# C19 on the staking engine (slice `staking-det`)

def _split_apps(ops, impl):
    texts, outs = {}, {}
    app = "1"
    for op, out in zip(ops, impl):
        t = op.split()
        if t and t[0] == "app" and len(t) == 2:
            app = t[1]
            continue
        texts.setdefault(app, []).append(op)
        outs.setdefault(app, []).append(out)
    return texts, outs


def pred_c19_staking(ops, impl):
    ops = _norm(ops)
    """The same history on two fresh instances gives identical transcripts — including the `!h=` lines, i.e. the hash
    of the complete raw storage after every op — no matter what happens on a third instance in between."""
    texts, outs = _split_apps(ops, impl)
    if "1" not in texts or "2" not in texts or texts["1"] != texts["2"]:
        return None  # not a determinism case (e.g. after line removal by the minimiser)
    for k, (a, c) in enumerate(zip(outs["1"], outs["2"])):
        if a != c:
            return "the same history on two fresh instances diverges at its op %d `%s`: %s vs %s" % (
                k, texts["1"][k][:120], a[:120], c[:120])
    return None


def nt_c19_staking(ops, impl):
    ops = _norm(ops)
    # non-trivial: on instance 1 at least two different delegators staked successfully with the same validator
    texts, outs = _split_apps(ops, impl)
    seen = {}
    for op, out in zip(texts.get("1", []), outs.get("1", [])):
        t = op.split()
        if len(t) >= 4 and t[0] == "deleg" and out == "ok":
            seen.setdefault(t[2], set()).add(t[1])
    return "2" in texts and any(len(v) >= 2 for v in seen.values())
