"""Registry fragment: engine `bank`, property C09 (loaded by registry.py)."""

BANK_TB = [
    "hand transcription of BankKeeper (src/bank.rs:62-166, 183-289) and cw-utils 2.0.0 NativeBalance (normalize, += Coin, checked -= Coin, - Vec<Coin>) into CwMt/Model/Bank.lean, validated only by the generator-bounded correspondence",
    "amounts are unbounded Nat in the model; the generators keep every balance and supply far below 2^128 (amounts < 2^100, < 250 coins per case), as the property's quantifier says, so Uint128 arithmetic does not overflow",
    "the bank storage (cw-storage-plus Map<&Addr, NativeBalance> under the `bank` namespace of MemoryStorage) is modelled as an association list sorted by address; JSON (de)serialisation of the stored balances is exercised by the raw dump, not verified",
    "App::execute/sudo run the bank module inside a storage transaction (C06/C01); the model returns no state on failure, the correspondence compares the raw dump after every failed op",
    "address validation (MockApi bech32) is not modelled here: the driver treats exactly the addr_make addresses declared by `bind` as valid; BankMsg::Send/Burn and init_balance take addresses unchecked, as the code does",
]

ENGINES = [
    {"name": "bank", "path": "lean/CwMt/Model/Bank.lean + lean/CwMt/Proofs/Bank.lean + harness/src/bank.rs", "serves_properties": ["C09"],
     "kind_free_text": "Lean model of BankKeeper over NativeBalance coin lists; conservation/exactness/failure theorems by induction on coin lists, the ledger and op histories; correspondence on the real App (sudo/execute/send_tokens/init_modules + QuerierWrapper queries + raw storage dump)"},
]

PROPS = {
    "C09": {
        "claimed": True,
        "engine": "bank",
        "technique": "Lean 4 theorems about the executable ledger model (normal-form invariant, exact per-denom arithmetic of send/burn/mint, failure iff, query agreement, induction over op histories) + differential correspondence of the model with the real App bank module + model-free exact-arithmetic predicate on the implementation's query answers",
        "level_text": "BankKeeper's send = burn;mint over cw-utils NativeBalance (first-match add, sorted insert, checked subtract, normalize) is transcribed into Lean with Nat amounts and proved, for every reachable ledger and every coin list (repeated denoms, zero coins, empty lists, self-transfers, never-seen recipients): stored balances stay normalised; a transfer moves exactly the per-denom total from sender to recipient, changes no other account and no supply; burn/mint move one balance and the supply by exactly the total; send/burn fail iff no coin is positive or some denom's total exceeds the payer's balance (so a self-transfer beyond the balance fails), mint fails iff no coin is positive; Balance = entry of AllBalances, Supply = sum of Balance over all accounts; after any history balance + debits = credits + initial. The transcription is tied to /repo by running the real App and the model on the same generated histories and by evaluating the same arithmetic with python ints on the implementation's own query answers.",
        "level_note": "Trusted: Lean kernel + propext/Classical.choice/Quot.sound; the hand transcription of bank.rs and cw-utils balance.rs, validated only by the generator-bounded correspondence; Uint128 overflow excluded by the quantifier (amounts < 2^100); storage map and JSON codec of balances modelled as a sorted association list; bech32 address validation not modelled (declared addresses). Contract-initiated transfers (funds on execute/instantiate, bank sub-messages) reach the same BankKeeper::send through the router; slice `wasm` drives that path (model: the engine model with this ledger inside).",
        "props_module": "CwMt.Props.C09",
        "slices": [{"name": "bank", "quick": 15000, "thorough": 150000, "predicate": "pred_bank", "nontrivial": "nt_bank"},
                   # the same ledger reached from contracts: funds attached to execute / instantiate (also by a contract to itself),
                   # bank sub-messages, refunds after failures; model = engine model with the Bank model inside
                   {"name": "wasm", "quick": 4000, "thorough": 60000, "predicate": "pred_c09_wasm", "nontrivial": "nt_wasm"}],
        "rule": "histories of 6-25 (thorough 10-40) ops over 4 addr_make addresses (payers biased to two of them, so the others are often never-seen recipients), "
                "3 denoms (one a prefix of another, not in alphabetical order): genesis init_balance, BankSudo::Mint, BankMsg::Send via App::execute and via send_tokens, BankMsg::Burn, "
                "about 30% self-transfers; coin lists of 0-5 coins with duplicate denoms and 12% zero amounts; amounts 1-60, 3% near 2^100; debit amounts steered to the boundary "
                "(exactly the balance, balance+1, the balance split over two coins of one denom); 15% of the cases form the malformed stream (invalid/empty/upper-case address strings as "
                "mint target, sender, recipient and in queries); after every state-changing op one `snap` line with Balance for every (address, denom), AllBalances for every address, "
                "Supply for every denom and the decoded raw storage dump; single queries with unknown denoms in between. Non-trivial = at least one successful transfer and at least one "
                "send/burn rejected for insufficient funds in the same history; distinct = distinct op sequence; slice wasm: the message trees of C01-C05 (funds attached "
                "to execute/instantiate incl. contracts calling themselves, amounts 0 / 1 / 500 / 100000 against balances of 10-50, bank sub-messages, burns), predicate: "
                "supply unchanged across transactions without burn/mint, no invocation is told funds exceeding the whole supply, bank queries of a running callee show the funds moved",
        "trusted_base": BANK_TB,
        "assumptions": ["no balance or supply exceeds the 128-bit range (property quantifier; generator bound 2^100 per coin)"],
    },
}
