"""
Tie T for two small decision rules of /repo/src/wasm.rs that the engine model transcribes by hand:

 * `execute_submsg` (C03): in which arm (`Ok` / `Err` of the sub-message result) `reply` is called for which
   `reply_on` variants (`matches!(reply_on, …)`), what the `Reply { … }` literal of that arm is built from
   (id, payload, result kind and — for `Ok` — the events and data handed over), and what happens to the
   sub-message's own data when no reply is called.
 * `verify_attributes` / `verify_response` (C13): what is trimmed, which conditions bail, in which order, and
   over which parts of the response.

Both are re-read on every run into lean/CwMt/Gen/Rules.lean. `CwMt/Proofs/Rules.lean` proves that the model's
`wantsReplyOnOk` / `wantsReplyOnErr` are membership in the regenerated variant sets for all four modes, and that
the literal's fields and the validation steps are the ones `Engine.executeSubmsg` / `attrOk` / `eventOk` /
`responseOk` transcribe. Nothing here interprets Rust beyond bracket matching: what is not recognised becomes
`"?"`, which no theorem accepts.
"""
import os
import re
import tr_common as C
from tr_tx import cut_tests, fn_bodies


def fn_body(src, name):
    for (n, lo, hi) in fn_bodies(src):
        if n == name:
            return src[lo:hi + 1]
    return None


def struct_fields(lit):
    """`{ a, b: expr, .. }` → [(name, squashed expr)] (shorthand `a` ↦ (a, a))"""
    out = []
    for part in C.split_top(lit):
        p = re.sub(r"#\[[^\]]*\]", "", part).strip()
        if not p or p == "..":
            continue
        m = re.match(r"(\w+)\s*:\s*(.*)$", p, re.S)
        if m:
            out.append((m.group(1), C.squash(m.group(2))))
        else:
            out.append((C.squash(p), C.squash(p)))
    return out


def read_reply(src):
    body = fn_body(src, "execute_submsg")
    arms, notes = [], []
    if body is None:
        return [{"outcome": "?", "modes": ["?"], "fields": [], "then": [], "otherwise": []}], ["execute_submsg not found"]
    for m in re.finditer(r"\bif\s+let\s+(Ok|Err)\s*\(([^)]*)\)\s*=\s*(\w+)\s*\{", body):
        lo = m.end() - 1
        hi = C.match_close(body, lo)
        blk = body[lo + 1:hi]
        arm = {"outcome": m.group(1), "modes": ["?"], "fields": [], "then": [], "otherwise": []}
        var = re.sub(r"^mut\s+", "", m.group(2).strip())
        mm = list(re.finditer(r"\bif\s+matches!\s*\(", blk))
        if len(mm) != 1:
            notes.append("execute_submsg: %s arm: %d `if matches!(..)` tests" % (m.group(1), len(mm)))
            arms.append(arm)
            continue
        j = C.match_close(blk, mm[0].end() - 1)
        args = C.split_top(blk[mm[0].end():j])
        if len(args) == 2 and C.squash(args[0]) == "reply_on":
            arm["modes"] = [re.sub(r"^ReplyOn::", "", C.squash(v)) for v in args[1].split("|")]
        else:
            notes.append("execute_submsg: %s arm: matches! is not a test of reply_on" % m.group(1))
        t_lo = blk.find("{", j)
        t_hi = C.match_close(blk, t_lo)
        then = blk[t_lo + 1:t_hi]
        em = re.match(r"\s*else\s*\{", blk[t_hi + 1:])
        other = ""
        if em:
            o_lo = t_hi + 1 + em.end() - 1
            other = blk[o_lo + 1:C.match_close(blk, o_lo)]
        rl = list(re.finditer(r"\bReply\s*\{", then))
        if len(rl) == 1:
            k = C.match_close(then, rl[0].end() - 1)
            for (f, e) in struct_fields(then[rl[0].end():k]):
                if f == "result":
                    arm["fields"].append(("result", e.split("(")[0]))
                    sm_ = re.search(r"\bSubMsgResponse\s*\{", then[rl[0].end():k])
                    if sm_:
                        s0 = rl[0].end() + sm_.end() - 1
                        for (f2, e2) in struct_fields(then[s0 + 1:C.match_close(then, s0)]):
                            if f2 in ("events", "data"):
                                arm["fields"].append(("result." + f2, e2))
                else:
                    arm["fields"].append((f, e))
        else:
            notes.append("execute_submsg: %s arm: %d Reply literals" % (m.group(1), len(rl)))
            arm["fields"] = [("?", "?")]
        # what happens to the sub-message's response `var` with / without a reply, and who is handed the Reply
        def canon(s, extra=()):
            """local names are not part of the rule: the arm's bound variable becomes `$r`, let-bound names `$v`"""
            s = re.sub(r"\b%s\b" % re.escape(var), "$r", s)
            for x in extra:
                s = re.sub(r"\b%s\b" % re.escape(x), "$v", s)
            return s

        def effects(text):
            out, lets = [], []
            for st in C.split_top(text, ";"):
                s = C.squash(st)
                lm = re.match(r"^let (?:mut )?(\w+)(?::[^=]*)?=", s)
                if lm and re.search(r"\bself\.reply\(", s):
                    lets.append(lm.group(1))
                if re.match(r"^%s\.\w+(=[^=]|\.)" % re.escape(var), s) or re.search(r"\bself\.reply\(", s) or re.match(r"^(Ok|Err)\(", s):
                    s = re.sub(r"Reply\{.*\}", "Reply{..}", s)
                    out.append(canon(s, lets))
            return out
        arm["fields"] = [(f, canon(e)) for f, e in arm["fields"]]
        arm["then"] = effects(then)
        arm["otherwise"] = effects(other)
        arms.append(arm)
    return arms, notes


def read_verify(src):
    notes, steps = [], []
    for fn in ("verify_attributes", "verify_response"):
        body = fn_body(src, fn)
        if body is None:
            notes.append("%s not found" % fn)
            steps.append((fn, "?", "?"))
            continue
        # flatten: every `let x = e;`, `if c { bail!(..) }`, `for p in e {`, `Self::f(..)?;` in textual order
        for m in re.finditer(r"\blet\s+(\w+)\s*=\s*([^;]*);|\bif\s+([^{]*)\{\s*bail!|\bfor\s+(\w+)\s+in\s+([^{]*)\{|(Self::\w+\s*\([^;]*\))\s*\?\s*;", body):
            if m.group(1):
                steps.append((fn, "let " + m.group(1), C.squash(m.group(2))))
            elif m.group(3):
                steps.append((fn, "bail-if", C.squash(m.group(3))))
            elif m.group(4):
                steps.append((fn, "for " + m.group(4), C.squash(m.group(5))))
            else:
                steps.append((fn, "call", C.squash(m.group(6))))
    return steps, notes


EXPECTED_ARMS = [
    {"outcome": "Ok", "modes": ["Always", "Success"],
     "fields": [("id", "id"), ("payload", "payload"), ("gas_used", "0"), ("result", "SubMsgResult::Ok"),
                ("result.events", "$r.events.clone()"), ("result.data", "$r.data.clone()")],
     "then": ["let $v=self.reply(api,router,storage,block,contract,reply)?", "$r.data=$v.data",
              "$r.events.extend_from_slice(&$v.events)"],
     "otherwise": ["$r.data=None"]},
    {"outcome": "Err", "modes": ["Always", "Error"],
     "fields": [("id", "id"), ("payload", "payload"), ("gas_used", "0"), ("result", "SubMsgResult::Err")],
     "then": ["self.reply(api,router,storage,block,contract,reply)"],
     "otherwise": ["Err($r)"]},
]

EXPECTED_VERIFY = [
    ("verify_attributes", "for attr", "attributes"),
    ("verify_attributes", "let key", "attr.key.trim()"),
    ("verify_attributes", "let val", "attr.value.trim()"),
    ("verify_attributes", "bail-if", "key.is_empty()"),
    ("verify_attributes", "bail-if", "key.starts_with('_')"),
    ("verify_response", "call", "Self::verify_attributes(&response.attributes)"),
    ("verify_response", "for event", "&response.events"),
    ("verify_response", "call", "Self::verify_attributes(&event.attributes)"),
    ("verify_response", "let ty", "event.ty.trim()"),
    ("verify_response", "bail-if", "ty.len()<2"),
]


def lean_file(arms, steps):
    def pairs(l):
        return "[" + ", ".join("(%s, %s)" % (C.lean_str(a), C.lean_str(b)) for a, b in l) + "]"

    def strs(l):
        return "[" + ", ".join(C.lean_str(x) for x in l) + "]"
    rows = ["  { outcome := %s, modes := %s,\n    fields := %s,\n    thenDo := %s,\n    otherwise := %s }" % (
        C.lean_str(a["outcome"]), strs(a["modes"]), pairs(a["fields"]), strs(a["then"]), strs(a["otherwise"])) for a in arms]
    vs = ["  (%s, %s, %s)" % (C.lean_str(a), C.lean_str(b), C.lean_str(c)) for a, b, c in steps]
    return ("""import CwMt.Model.Rules
/- GENERATED by /verif/checklib/tr_rules.py from /repo/src/wasm.rs on every check run. Do not edit. -/
namespace CwMt.Gen.Rules
open CwMt

/-- `execute_submsg`: per arm of the sub-message result, the reply_on variants that trigger `reply`, the `Reply` literal, and
what is done to the sub-message's response with / without a reply -/
def replyArms : List ReplyArm := [
""" + ",\n".join(rows) + """
]

/-- `verify_attributes` / `verify_response`: (function, step, expression) in textual order -/
def verifySteps : List (String × String × String) := [
""" + ",\n".join(vs) + """
]

end CwMt.Gen.Rules
""")


def translate(root, log):
    problems = []
    try:
        src = cut_tests(C.strip_comments(C.read_src("wasm.rs")))
        arms, n1 = read_reply(src)
        steps, n2 = read_verify(src)
    except Exception as e:
        arms, steps, n1, n2 = [{"outcome": "?", "modes": ["?"], "fields": [], "then": [], "otherwise": []}], [("?", "?", "?")], ["%r" % (e,)], []
    problems += ["tr_rules: " + n for n in n1 + n2]
    C.write_if_changed(os.path.join(root, "lean", "CwMt", "Gen", "Rules.lean"), lean_file(arms, steps), log)
    got = [dict(a, fields=[tuple(f) for f in a["fields"]]) for a in arms]
    if got != EXPECTED_ARMS:
        problems.append("tr_rules: execute_submsg's reply rule differs from the one Engine.executeSubmsg transcribes: %s" % (
            [(a["outcome"], a["modes"], a["fields"], a["then"], a["otherwise"]) for a in got if a not in EXPECTED_ARMS],))
    if steps != EXPECTED_VERIFY:
        problems.append("tr_rules: response validation differs from the one attrOk/eventOk/responseOk transcribe: %s" % (
            [s for s in steps if s not in EXPECTED_VERIFY] + [("missing",) + s for s in EXPECTED_VERIFY if s not in steps],))
    return {"problems": problems, "counterexamples": [],
            "summary": {"reply_arms": [(a["outcome"], a["modes"]) for a in arms], "verify_steps": len(steps)}}


if __name__ == "__main__":
    import json, sys
    r = translate(sys.argv[1] if len(sys.argv) > 1 else os.path.dirname(os.path.dirname(os.path.abspath(__file__))), print)
    print(json.dumps(r, indent=1))
