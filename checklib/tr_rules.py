"""
Tie T for two small decision rules of /repo/src/wasm.rs that the engine model transcribes by hand:

 * `execute_submsg` (C03): in which arm (`Ok` / `Err` of the sub-message result) `reply` is called for which
   `reply_on` variants (`matches!(reply_on, …)`), what the `Reply { … }` literal of that arm is built from
   (id, payload, result kind and — for `Ok` — the events and data handed over). Both spellings of the case
   distinction (`if let Ok(..) = r {..} else if let Err(..) = r {..}` / `match r { Ok(..) => {..} Err(..) => {..} }`) and of the
   test (`matches!(reply_on, A | B)` / `reply_on == ReplyOn::A || reply_on == ReplyOn::B`, any order) are read; local variable
   names are canonicalised. What is done with the reply's response afterwards is covered by the correspondence, not by this table.
 * `verify_attributes` / `verify_response` (C13): what is trimmed, which conditions bail, in which order, and
   over which parts of the response.

Both are re-read on every run into lean/CwMt/Gen/Rules.lean. `CwMt/Proofs/Rules.lean` proves that the model's
`wantsReplyOnOk` / `wantsReplyOnErr` are membership in the regenerated variant sets for all four modes, and that
the literal's fields and the validation steps are the ones `Engine.executeSubmsg` / `attrOk` / `eventOk` /
`responseOk` transcribe. Nothing here interprets Rust beyond bracket matching: what is not recognised becomes
`"?"`, which no theorem accepts.
"""
import os
import re
import tr_common as C
from tr_tx import cut_tests, fn_bodies


def fn_body(src, name):
    for (n, lo, hi) in fn_bodies(src):
        if n == name:
            return src[lo:hi + 1]
    return None


def struct_fields(lit):
    """`{ a, b: expr, .. }` → [(name, squashed expr)] (shorthand `a` ↦ (a, a))"""
    out = []
    for part in C.split_top(lit):
        p = re.sub(r"#\[[^\]]*\]", "", part).strip()
        if not p or p == "..":
            continue
        m = re.match(r"(\w+)\s*:\s*(.*)$", p, re.S)
        if m:
            out.append((m.group(1), C.squash(m.group(2))))
        else:
            out.append((C.squash(p), C.squash(p)))
    return out


def _arms(body):
    """(outcome, bound pattern, block text) for `if let Ok(p) = X {..}` / `else if let Err(p) = X {..}` and for the arms of a
    `match X { Ok(p) => {..} Err(p) => {..} }` over the sub-message result"""
    out = []
    for m in re.finditer(r"\bif\s+let\s+(Ok|Err)\s*\(([^)]*)\)\s*=\s*(\w+)\s*\{", body):
        lo = m.end() - 1
        out.append((m.group(1), m.group(2), body[lo + 1:C.match_close(body, lo)]))
    if out:
        return out
    for mm in re.finditer(r"\bmatch\s+(\w+)\s*\{", body):
        lo = mm.end() - 1
        blk = body[lo + 1:C.match_close(body, lo)]
        found = []
        for m in re.finditer(r"\b(Ok|Err)\s*\(([^)]*)\)\s*=>\s*\{", blk):
            l2 = m.end() - 1
            found.append((m.group(1), m.group(2), blk[l2 + 1:C.match_close(blk, l2)]))
        if {f[0] for f in found} == {"Ok", "Err"}:
            return found
    return out


def _modes(blk):
    """the reply_on variants of the arm's test: `matches!(reply_on, A | B)` or `reply_on == ReplyOn::A || reply_on == ReplyOn::B`"""
    mm = list(re.finditer(r"\bmatches!\s*\(", blk))
    if len(mm) == 1:
        j = C.match_close(blk, mm[0].end() - 1)
        args = C.split_top(blk[mm[0].end():j])
        if len(args) == 2 and C.squash(args[0]) == "reply_on":
            return sorted(re.sub(r"^ReplyOn::", "", C.squash(v)) for v in args[1].split("|"))
        return None
    if not mm:
        eqs = re.findall(r"\breply_on\s*==\s*ReplyOn::(\w+)", blk)
        neg = re.search(r"\breply_on\s*!=", blk)
        if eqs and not neg:
            return sorted(set(eqs))
    return None


def read_reply(src):
    body = fn_body(src, "execute_submsg")
    arms, notes = [], []
    if body is None:
        return [{"outcome": "?", "modes": ["?"], "fields": []}], ["execute_submsg not found"]
    for outcome, pat, blk in _arms(body):
        arm = {"outcome": outcome, "modes": ["?"], "fields": []}
        var = re.sub(r"^mut\s+", "", pat.strip())
        modes = _modes(blk)
        if modes is None:
            notes.append("execute_submsg: %s arm: no single test of reply_on (matches!(reply_on, ..) or reply_on == .. || ..)" % outcome)
        else:
            arm["modes"] = modes
        rl = list(re.finditer(r"\bReply\s*\{", blk))
        if len(rl) == 1:
            k = C.match_close(blk, rl[0].end() - 1)
            for (f, e) in struct_fields(blk[rl[0].end():k]):
                if f == "result":
                    arm["fields"].append(("result", e.split("(")[0]))
                    sm_ = re.search(r"\bSubMsgResponse\s*\{", blk[rl[0].end():k])
                    if sm_:
                        s0 = rl[0].end() + sm_.end() - 1
                        for (f2, e2) in struct_fields(blk[s0 + 1:C.match_close(blk, s0)]):
                            if f2 in ("events", "data"):
                                arm["fields"].append(("result." + f2, e2))
                else:
                    arm["fields"].append((f, e))
        else:
            notes.append("execute_submsg: %s arm: %d Reply literals" % (outcome, len(rl)))
            arm["fields"] = [("?", "?")]
        # local names are not part of the rule: the arm's bound variable becomes `$r`
        arm["fields"] = [(f, re.sub(r"\b%s\b" % re.escape(var), "$r", e)) for f, e in arm["fields"]]
        arms.append(arm)
    if not arms:
        notes.append("execute_submsg: no case distinction on the sub-message result found")
        arms = [{"outcome": "?", "modes": ["?"], "fields": []}]
    return arms, notes


def read_verify(src):
    """every `let x = e;`, `if c { bail!(..) }`, `for p in e {` (or `e.iter().try_for_each(|p| ..`), `Self::f(..)?;` of the two
    functions in textual order; local names are canonicalised by role (`$attr`, `$event` loop variables; `$key`, `$val`, `$ty` the
    trimmed key / value / event type), so a renamed local is not a changed rule"""
    notes, steps = [], []
    for fn in ("verify_attributes", "verify_response"):
        body = fn_body(src, fn)
        if body is None:
            notes.append("%s not found" % fn)
            steps.append((fn, "?", "?"))
            continue
        ren = {}

        def canon(e):
            for a, b in ren.items():
                e = re.sub(r"(?<![\w$])%s\b" % re.escape(a), b, e)
            return e
        rx = (r"\blet\s+(\w+)\s*=\s*([^;]*);|\bif\s+([^{]*)\{\s*bail!|\bfor\s+(\w+)\s+in\s+([^{]*)\{|"
              r"([\w\.&]+?)(?:\.iter\(\))?\.try_for_each\(\|(\w+)\||(Self::\w+\s*\([^;]*\))\s*\?\s*;")
        for m in re.finditer(rx, body):
            if m.group(1):
                e = canon(C.squash(m.group(2)))
                role = "$key" if e.endswith(".key.trim()") else "$val" if e.endswith(".value.trim()") else "$ty" if e.endswith(".ty.trim()") else None
                if role:
                    ren[m.group(1)] = role
                steps.append((fn, "let " + (role or m.group(1)), e))
            elif m.group(3):
                steps.append((fn, "bail-if", canon(C.squash(m.group(3)))))
            elif m.group(4) or m.group(7):
                var = m.group(4) or m.group(7)
                it = canon(C.squash(m.group(5) if m.group(4) else m.group(6)))
                it = re.sub(r"\.iter\(\)$", "", it)
                role = "$event" if it.endswith("events") else "$attr"
                ren[var] = role
                steps.append((fn, "for " + role, it.lstrip("&")))
            else:
                steps.append((fn, "call", canon(C.squash(m.group(8)))))
    return steps, notes


EXPECTED_ARMS = [
    {"outcome": "Ok", "modes": ["Always", "Success"],
     "fields": [("id", "id"), ("payload", "payload"), ("gas_used", "0"), ("result", "SubMsgResult::Ok"),
                ("result.events", "$r.events.clone()"), ("result.data", "$r.data.clone()")]},
    {"outcome": "Err", "modes": ["Always", "Error"],
     "fields": [("id", "id"), ("payload", "payload"), ("gas_used", "0"), ("result", "SubMsgResult::Err")]},
]

EXPECTED_VERIFY = [
    ("verify_attributes", "for $attr", "attributes"),
    ("verify_attributes", "let $key", "$attr.key.trim()"),
    ("verify_attributes", "let $val", "$attr.value.trim()"),
    ("verify_attributes", "bail-if", "$key.is_empty()"),
    ("verify_attributes", "bail-if", "$key.starts_with('_')"),
    ("verify_response", "call", "Self::verify_attributes(&response.attributes)"),
    ("verify_response", "for $event", "response.events"),
    ("verify_response", "call", "Self::verify_attributes(&$event.attributes)"),
    ("verify_response", "let $ty", "$event.ty.trim()"),
    ("verify_response", "bail-if", "$ty.len()<2"),
]


def lean_file(arms, steps):
    def pairs(l):
        return "[" + ", ".join("(%s, %s)" % (C.lean_str(a), C.lean_str(b)) for a, b in l) + "]"

    def strs(l):
        return "[" + ", ".join(C.lean_str(x) for x in l) + "]"
    rows = ["  { outcome := %s, modes := %s,\n    fields := %s }" % (
        C.lean_str(a["outcome"]), strs(a["modes"]), pairs(a["fields"])) for a in arms]
    vs = ["  (%s, %s, %s)" % (C.lean_str(a), C.lean_str(b), C.lean_str(c)) for a, b, c in steps]
    return ("""import CwMt.Model.Rules
/- GENERATED by /verif/checklib/tr_rules.py from /repo/src/wasm.rs on every check run. Do not edit. -/
namespace CwMt.Gen.Rules
open CwMt

/-- `execute_submsg`: per arm of the sub-message result, the reply_on variants that trigger `reply` (sorted) and the `Reply` literal -/
def replyArms : List ReplyArm := [
""" + ",\n".join(rows) + """
]

/-- `verify_attributes` / `verify_response`: (function, step, expression) in textual order -/
def verifySteps : List (String × String × String) := [
""" + ",\n".join(vs) + """
]

end CwMt.Gen.Rules
""")


def translate(root, log, part=None):
    """part = "reply" (C03) / "verify" (C13): whose problems are reported; the generated file always holds both tables"""
    problems = []
    try:
        src = cut_tests(C.strip_comments(C.read_src("wasm.rs")))
        arms, n1 = read_reply(src)
        steps, n2 = read_verify(src)
    except Exception as e:
        arms, steps, n1, n2 = [{"outcome": "?", "modes": ["?"], "fields": []}], [("?", "?", "?")], ["%r" % (e,)], ["%r" % (e,)]
    C.write_if_changed(os.path.join(root, "lean", "CwMt", "Gen", "Rules.lean"), lean_file(arms, steps), log)
    got = [dict(a, fields=[tuple(f) for f in a["fields"]]) for a in arms]
    if part in (None, "reply"):
        problems += ["tr_rules: " + n for n in n1]
        if got != EXPECTED_ARMS:
            problems.append("tr_rules: execute_submsg's reply rule differs from the one Engine.executeSubmsg transcribes: %s" % (
                [(a["outcome"], a["modes"], a["fields"]) for a in got if a not in EXPECTED_ARMS],))
    if part in (None, "verify"):
        problems += ["tr_rules: " + n for n in n2]
        if steps != EXPECTED_VERIFY:
            problems.append("tr_rules: response validation differs from the one attrOk/eventOk/responseOk transcribe: %s" % (
                [s for s in steps if s not in EXPECTED_VERIFY] + [("missing",) + s for s in EXPECTED_VERIFY if s not in steps],))
    return {"problems": problems, "counterexamples": [],
            "summary": {"reply_arms": [(a["outcome"], a["modes"]) for a in arms], "verify_steps": len(steps)}}


if __name__ == "__main__":
    import json, sys
    r = translate(sys.argv[1] if len(sys.argv) > 1 else os.path.dirname(os.path.dirname(os.path.abspath(__file__))), print)
    print(json.dumps(r, indent=1))
