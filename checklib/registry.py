"""Per-property configuration of ./check."""

KV_TB = [
    "model of MemoryStorage = strictly sorted association list (cosmwasm-std's BTreeMap storage is not verified, only exercised through the correspondence)",
    "values are non-empty (MemoryStorage::set panics on empty values; outside the property's quantifier)",
]

PENDING_REASON = "check not built yet in this round (work in progress; the technique applies, see DESIGN.md section 5)"

ENGINES = [
    {"name": "kv", "path": "lean/CwMt/Model/{Store,Overlay,Prefix}.lean + harness/src/kv.rs", "serves_properties": ["C06", "C07"],
     "kind_free_text": "Lean model of StorageTransaction/MergeOverlay and prefixed views; theorems by induction; correspondence on the real types"},
]

PROPS = {
    "C06": {
        "claimed": True,
        "engine": "kv",
        "technique": "Lean 4 theorems (refinement of the overlay stack to an ordered map, induction over the merge iterator and the stack) + differential correspondence of the executable model with the real StorageTransaction",
        "level_text": "The overlay algorithm (get, the MergeOverlay iterator, set/remove, commit replay) is transcribed into Lean and proved to refine a plain ordered map for every base, every op history, all bounds, both orders and any stacking depth; the transcription is tied to /repo by running both on the same generated op sequences (and a model-free ordered-map oracle on the implementation's answers).",
        "level_note": "Trusted: Lean kernel + propext/Classical.choice/Quot.sound; the hand transcription of transactions.rs, validated only by the generator-bounded correspondence; MemoryStorage (cosmwasm-std) modelled as a sorted association list; Rust borrow rules for 'base not mutated while borrowed'; non-empty values.",
        "props_module": "CwMt.Props.C06",
        "slices": [{"name": "overlay", "quick": 20000, "thorough": 600000, "predicate": "pred_overlay", "nontrivial": "nt_overlay"},
                   # exhaustive small scope (thorough tier only): all 13^5 mutator sequences, each fully observed
                   {"name": "overlay-exh", "quick": 0, "thorough": 371293, "predicate": "pred_overlay", "nontrivial": "nt_overlay", "exhaustive": True}],
        "rule": "random op sequences (8-60 ops) over 12 fixed keys (empty key, 00/ff bytes, mutual prefixes) plus random short keys, "
                "4 values, stack depth <= 4 (5 thorough), all bound pairs incl. none/inverted/equal, both orders; thorough tier adds the EXHAUSTIVE enumeration of all 13^5 = 371 293 sequences of five mutators "
                "(set of 3 mutually-prefix keys x 2 values, removes, push, commit, discard, no-op) over a one-entry base, each followed by all gets, all 4x4 bound pairs in both orders, "
                "the base range and the root dump, then closing every level; a case is non-trivial "
                "if a range is evaluated on a cache of depth >= 1 that holds at least one local delta; distinct = distinct op sequence",
        "trusted_base": KV_TB,
        "assumptions": ["&dyn Storage base is not mutated while a cache borrows it (Rust type system)"],
    },
    "C07": {
        "claimed": True,
        "engine": "kv",
        "technique": "Lean 4 theorems (prefix-freeness of the length-prefixed code, exact-window refinement of get/set/remove/range) + differential correspondence with the real prefixed views obtained from App",
        "level_text": "The namespace encoding and the four view operations are modelled in Lean and proved, for all byte strings and all base contents, to be exactly the window of raw keys under the prefix (incl. empty path, 0xFF prefixes, foreign short keys), with disjointness and sub-window theorems for paths; the model is tied to /repo by running the real App::prefixed_*storage views and the model on the same generated cases.",
        "level_note": "Trusted: Lean kernel + propext/Classical.choice/Quot.sound; hand transcription of prefixed_storage/*.rs validated by generator-bounded correspondence; MemoryStorage modelled as a sorted association list. Read-only views rejecting writes is checked by correspondence only (it is an unimplemented!() panic).",
        "props_module": "CwMt.Props.C07",
        "slices": [{"name": "views", "quick": 12000, "thorough": 150000, "predicate": "pred_views", "nontrivial": "nt_views"}],
        "rule": "2-5 namespace paths per case (single/multi-level, empty path, empty/ff/00 segments, mutual extensions, 65535/65536-byte segments), "
                "raw root keys adversarial for those paths (inside, truncations, byte successors, concatenated prefixes); view get/set/remove/range with all "
                "bound shapes and both orders on read-only and mutable views, raw dump after every write; non-trivial = a non-empty view range was produced",
        "trusted_base": KV_TB,
        "assumptions": [],
    },
}


# further properties / engines are registered by registry_*.py fragments (each defines PROPS and optionally ENGINES)
import glob as _glob, os as _os, importlib as _importlib
for _p in sorted(_glob.glob(_os.path.join(_os.path.dirname(_os.path.abspath(__file__)), "registry_*.py"))):
    _m = _importlib.import_module(_os.path.basename(_p)[:-3])
    PROPS.update(getattr(_m, "PROPS", {}))
    ENGINES.extend(getattr(_m, "ENGINES", []))
