"""Per-property configuration of ./check."""

KV_TB = [
    "model of MemoryStorage = strictly sorted association list (cosmwasm-std's BTreeMap storage is not verified, only exercised through the correspondence)",
    "values are non-empty (MemoryStorage::set panics on empty values; outside the property's quantifier)",
]

PENDING_REASON = "check not built yet in this round (work in progress; the technique applies, see DESIGN.md section 5)"

ENGINES = [
    {"name": "kv", "path": "lean/CwMt/Model/{Store,Overlay,Prefix}.lean + harness/src/kv.rs", "serves_properties": ["C06", "C07"],
     "kind_free_text": "Lean model of StorageTransaction/MergeOverlay and prefixed views; theorems by induction; correspondence on the real types"},
]

PROPS = {
    "C06": {
        "props_module": "CwMt.Props.C06",
        "slices": [{"name": "overlay", "quick": 3000, "thorough": 60000, "predicate": "pred_overlay", "nontrivial": "nt_overlay"}],
        "rule": "random op sequences (8-60 ops) over 12 fixed keys (empty key, 00/ff bytes, mutual prefixes) plus random short keys, "
                "4 values, stack depth <= 4 (5 thorough), all bound pairs incl. none/inverted/equal, both orders; a case is non-trivial "
                "if a range is evaluated on a cache of depth >= 1 that holds at least one local delta; distinct = distinct op sequence",
        "trusted_base": KV_TB,
        "assumptions": ["&dyn Storage base is not mutated while a cache borrows it (Rust type system)"],
    },
    "C07": {
        "props_module": "CwMt.Props.C07",
        "slices": [{"name": "views", "quick": 2500, "thorough": 40000, "predicate": "pred_views", "nontrivial": "nt_views"}],
        "rule": "2-5 namespace paths per case (single/multi-level, empty path, empty/ff/00 segments, mutual extensions, 65535/65536-byte segments), "
                "raw root keys adversarial for those paths (inside, truncations, byte successors, concatenated prefixes); view get/set/remove/range with all "
                "bound shapes and both orders on read-only and mutable views, raw dump after every write; non-trivial = a non-empty view range was produced",
        "trusted_base": KV_TB,
        "assumptions": [],
    },
}
