"""Registry entries of the wasm engine family."""

_TB = [
    "Lean model CwMt/Model/Engine.lean is a hand transcription of app.rs / wasm.rs / bank.rs (value semantics; a state exists only on Ok), "
    "validated only by the generator-bounded correspondence with the real App driven through scripted contracts",
    "contracts and non-bank/non-wasm modules are arbitrary functions in the theorems; the scripted contract interpreter exists twice (Rust, Lean) and is trusted to be the same program",
    "SHA-256 and bech32 are inside the model (CwMt/Model/Sha256.lean, Bech32.lean, Address.lean): the driver recomputes every `bind*` declaration of a case "
    "(addr_make, classic and salted contract addresses, default checksums) and answers with its own value, so the values the implementation declares are checked, "
    "not trusted; only the wasm-legacy slice (custom Api and address generator) takes its declarations as given",
    "JSON text and raw keys of the bank and wasm records are modelled (CwMt/Model/Json.lean, Flat.lean) and compared byte for byte with the real root storage on every case (op rawdump); staking / distribution records are decoded by the harness with serde (every raw key must fall in a known namespace)",
    "value semantics for storage is justified by C06 (overlay = ordered map) and by the correspondence; Rust's borrow rules are assumed",
]
_NOTE = ("Trusted: Lean kernel + propext/Classical.choice/Quot.sound; the hand-written engine model and the scripted-contract twin, tied to /repo only by "
         "differential testing (generator-bounded); addresses/checksums recomputed by the model (SHA-256, bech32 modelled); JSON text of bank/wasm records modelled and compared byte for byte (rawdump), staking records decoded with serde; fuel-indexed "
         "recursion with out-of-fuel excluded by hypothesis (fuel irrelevance is proved).")


def module_ready(module):
    """a property is claimed once its theorem file builds (its Proofs lemmas exist)"""
    import os
    root = os.path.dirname(os.path.dirname(os.path.abspath(__file__)))
    return os.path.exists(os.path.join(root, "lean", "CwMt", "Proofs", "READY_" + module.split(".")[-1]))


def _entry(pid, module, slices, pred, technique, text, rule, nt="nt_any", quick=None, thorough=None):
    sl = []
    for (name, q, t) in slices:
        sl.append({"name": name, "quick": q, "thorough": t, "predicate": pred, "nontrivial": nt})
    return {
        "claimed": module_ready(module),
        "engine": "wasm",
        "technique": technique,
        "level_text": text,
        "level_note": _NOTE,
        "props_module": module,
        "slices": sl,
        "rule": rule,
        "trusted_base": _TB,
        "assumptions": ["no 128-bit overflow (amounts are unbounded naturals in the model; generators keep amounts tiny)"],
    }


_GEN = ("generated histories on a real App with 2-3 stored scripted codes and three contracts: 2-9 transactions through execute / execute_multi / "
        "sudo / wasm_sudo / Executor helpers with random message trees (depth <= 3, quick; 4, thorough; fan-out <= 5) of wasm execute / instantiate(2) / migrate / "
        "admin / bank / other-module messages, reply_on drawn uniformly on every edge, failures injected at random nodes (contract error, malformed response, "
        "missing contract, bad code id, empty label, insufficient funds, zero coins), unique marker writes, queries inside contracts; after every transaction "
        "the out-of-band invocation trace, the fully decoded root dump and a hash of the raw root storage are observed; ")

PROPS = {
    "C01": _entry("C01", "CwMt.Props.C01", [("wasm", 8000, 300000), ("wasm-stk", 3000, 80000)], "pred_c01",
                  "Lean 4 theorems over the engine model (atomicity of the four entry points, order/length of execute_multi, fuel irrelevance by mutual induction) + differential correspondence through all entry points",
                  "Atomicity and ordering are theorems about App.execute/execute_multi/sudo/wasm_sudo of the Lean engine model for every state, contract behaviour and failure point; the model is tied to the real App by comparing complete transcripts (responses, trace, decoded dump) on generated trees with injected failures, and a model-free predicate checks byte-identical raw storage after every Err.",
                  _GEN + "a case is non-trivial if it contains both a failed and a successful transaction", nt="nt_wasm_err"),
    "C02": _entry("C02", "CwMt.Props.C02", [("wasm", 8000, 300000), ("wasm-stk", 2000, 60000), ("wasm-admin", 1500, 40000)], "pred_c02",
                  "Lean 4 theorems over the engine model (state seen after a failed / successful sub-message, caught-iff, propagation) + differential correspondence on message trees with failures and all reply_on modes",
                  "The rollback discipline of execute_submsg/process_response/reply is proved on the model for arbitrary depth and partial progress; correspondence compares final dumps and traces of generated trees where every edge has a random reply_on and random nodes fail; the model-free predicate checks that unique markers written by certainly-failing calls never persist.",
                  _GEN + "non-trivial = at least one reply handler was invoked", nt="nt_wasm"),
    "C03": _entry("C03", "CwMt.Props.C03", [("wasm", 8000, 300000)], "pred_c03",
                  "Lean 4 theorems over the engine model's ghost invocation trace (exactly one reply entry iff outcome/mode demand it, on the dispatcher, right after the sub-message, with id/payload/result) + differential correspondence of traces",
                  "Reply invocation is proved against the trace the model engine emits; the real trace recorded out-of-band by scripted contracts (also for rolled-back calls) must equal it on every generated tree; the model-free predicate checks mode/outcome consistency and at-most-once per sub-message id.",
                  _GEN + "sub-message ids are unique per case; non-trivial = at least one reply handler was invoked", nt="nt_wasm"),
    "C04": _entry("C04", "CwMt.Props.C04", [("wasm", 6000, 200000), ("wasm-resp", 2000, 60000)], "pred_c04",
                  "Lean 4 theorems (event composition of build_app_response / sub-message folding, bank event, invertibility of the protobuf encoders incl. varint) + byte-exact differential correspondence of events and data",
                  "The composition rules are the model's definitions, pinned by theorems, and the wire encoders are proved invertible; byte-exact comparison of AppResponse.events/.data and of what every reply received ties them to the code over generated trees with attributes, custom events and data present/absent/empty.",
                  _GEN + "non-trivial = at least one reply handler was invoked", nt="nt_wasm"),
    "C05": _entry("C05", "CwMt.Props.C05", [("wasm", 8000, 300000), ("wasm-bech", 1500, 40000)], "pred_c05",
                  "Lean 4 theorems over the ghost trace (sender authenticity and environment by mutual induction over the engine; funds moved before the call; insufficient funds => no call) + differential correspondence of recorded (sender, funds, address, block)",
                  "Sender authenticity and environment are proved for every entry in the trace of any execution of the model; the scripted contracts record what the real engine told them and the transcripts must agree, with blocks changed between transactions.",
                  _GEN + "non-trivial = at least one reply handler was invoked", nt="nt_wasm"),
    "C08": _entry("C08", "CwMt.Props.C08", [("wasm-iso", 4000, 120000), ("wasm-legacy", 1500, 40000), ("wasm", 3000, 100000)], "pred_c08",
                  "Lean 4 theorems (byte-level disjointness of contract key spaces from the C07 prefix theorems; engine-level frame: only invoked contracts' windows change, by mutual induction) + differential correspondence of all storage views",
                  "Disjointness holds for all key bytes by the prefix-code theorems; non-interference of whole executions is proved on the engine model; the four views (contract reads, raw query, dump_wasm_raw, contract_storage) and bank/registry dumps are compared with the model after contracts write adversarial keys.",
                  "contracts created from the same and different codes write keys crafted to look like other modules' raw prefixes (bank balances, contract registry, wasm namespace, empty key, 00/ff); after every transaction dump_wasm_raw, contract_storage().range, WasmQuery::Raw, smart-query range and contract_data of every contract plus bank balances are observed; slice wasm-legacy repeats this on an App with a permissive Api and a custom AddressGenerator handing out contract0..contract12, so that one address is a strict prefix of another and keys spell the tail of the longer sibling"),
    "C10": _entry("C10", "CwMt.Props.C10", [("wasm", 8000, 300000), ("wasm-stk", 2500, 60000), ("wasm-admin", 1500, 40000), ("wasm-legacy", 800, 20000)], "pred_c10",
                  "Lean 4 theorems (query has no state output by type; the snapshot a contract gets is the enclosing transaction's current state) + differential correspondence of query answers recorded mid-transaction, each App query issued twice and bracketed by raw-storage hashes",
                  "Purity is a typing fact of the model and visibility is proved on the engine; contracts issue bank/raw/smart/info/code queries at random points of generated trees (after funds transfer, after completed and after caught-failed sub-messages) and their recorded answers must equal the model's.",
                  _GEN + "App-level queries are asked twice and bracketed by raw hashes", nt="nt_wasm"),
    "C11": _entry("C11", "CwMt.Props.C11", [("wasm-codes", 4000, 120000), ("wasm-bech-codes", 1500, 40000), ("wasm", 3000, 100000)], "pred_c11",
                  "Lean 4 theorems (registry invariant, auto/explicit ids, usability of any stored id, fresh address, classic/salted address inputs, salted repeat rejected, recorded metadata) + differential correspondence on store/duplicate/instantiate(2) histories",
                  "Identifier and address discipline is proved on the registry/registration model with the address generators as parameters; histories with non-contiguous ids, id 0, duplicates, u64::MAX, salts, repeats, failing and rolled-back instantiations are run on the real App and compared.",
                  "2-6 store_code / store_code_with_id (ids 0,1,2,3,5,10,11,40,u64::MAX) / duplicate_code calls, then 3-9 instantiate / instantiate2 (salts aa, bb, empty, 65 bytes; repeats) of stored and unknown ids with failing scripts, nested instantiations, insufficient funds, empty labels; CodeInfo for every id; migrate to non-contiguous ids; codes carrying their own checksum (Contract::checksum); slice wasm-bech-codes repeats the histories on an App built with MockApiBech32(\"juno\")"),
    "C12": _entry("C12", "CwMt.Props.C12", [("wasm-admin", 4000, 120000), ("wasm", 3000, 100000)], "pred_c12",
                  "Lean 4 theorems (authorisation of Migrate/UpdateAdmin/ClearAdmin, exact effect and immediacy of admin changes, migration runs the newly recorded code on the existing storage) + differential correspondence on admin histories",
                  "Authorisation is proved for every sender and state on the model; sequences of admin operations by admins, former admins, strangers and contracts acting via sub-messages are run on the real App, with code tags making the serving code observable.",
                  "4-15 Migrate / UpdateAdmin / ClearAdmin attempts by u1,u2,u3,unknown on contracts with admin u1 / none / u2 (optionally a contract as admin), directly and through sub-messages with all reply_on modes; ContractInfo of all contracts after every attempt; final calls reveal the serving code"),
    "C13": _entry("C13", "CwMt.Props.C13", [("wasm-resp", 5000, 150000), ("wasm", 3000, 100000)], "pred_c13",
                  "Lean 4 theorems (trim specification, acceptance predicate iff, values never matter, malformed response = error at every entry point, accepted strings unchanged) + differential correspondence with strings over Unicode whitespace / underscores / length boundaries at all entry points",
                  "The validation predicate is proved equivalent to its specification on the model for all strings; the model's trim (Unicode White_Space set written out) is tied to Rust's str::trim by correspondence on attribute keys/values and event types placed at execute, instantiate, reply, sudo and migrate, at depth.",
                  "scripts whose attributes/events draw keys and types from ASCII, '_', Unicode White_Space code points, near-misses (U+200B, U+FEFF, U+180E), multi-byte letters, lengths 0-2 after trimming; placed at all five entry points and inside sub-messages"),
    "C19": _entry("C19", "CwMt.Props.C19", [("wasm-det", 2000, 40000)], "pred_c19",  # + staking-det appended below
                  "Lean 4 theorem (interleaving two instances = running each alone; ids are functions of the instance's registry) + differential correspondence: every history run on a fresh App, again on a second App interleaved with a different history on a third, all transcripts equal to one pure model run; source scan for impure constructs",
                  "Determinism of a Lean function is by construction, so the proved part is the non-interference specification; the claim about the code is carried by comparing complete transcripts of repeated and interleaved runs with the pure model (partial by nature: wall-clock, allocator and dependency-global state are outside the model).",
                  "history H1 on App 1; then H1 on App 2 interleaved at random points with a different history H2 on App 3; predicate: transcripts of H1 on App 1 and App 2 identical; all three equal to the model"),
}

# what a reply is told about sub-messages handled by user-supplied modules (events incl. one typed `message`, data): route slice
PROPS["C03"]["slices"].append({"name": "route", "quick": 2500, "thorough": 60000, "predicate": "pred_c17", "nontrivial": "nt_route"})
PROPS["C03"]["rule"] += ("; slice route: Apps built with recording / accepting / refusing modules; op send-sub-reply makes a native or lifted "
                         "contract dispatch one module message as a sub-message with reply_on always, whose reply records outcome, event types and data it was handed")
PROPS["C19"]["slices"].append({"name": "staking-det", "quick": 1500, "thorough": 15000,
                               "predicate": "pred_c19_staking", "nontrivial": "nt_c19_staking"})
PROPS["C19"]["rule"] += ("; slice staking-det: a staking history (several delegators per validator, slashes, unbondings, block advances) on App 1 "
                         "and again on a fresh App 2, with a hash of the complete raw root storage after every op; predicate: both transcripts "
                         "including the hashes are identical")

PROPS["C19"]["translators"] = ["scan_impure"]
PROPS["C19"]["trusted_base"] = list(PROPS["C19"].get("trusted_base", [])) + [
    "checklib/scan_impure.py (regex over comment-stripped non-test sources) lists static mut / thread_local! / lazily initialised or interior-mutable "
    "statics / atomics / locks / RefCell / clocks / randomness / env / HashMap,HashSet / unsafe; theorem no_ambient_state_in_sources states the list is empty; "
    "that safe Rust without these is a deterministic function of its inputs is assumed; dependencies are not scanned"]
PROPS["C19"]["slices"].append({"name": "wasm-bech-mix", "quick": 1200, "thorough": 20000,
                               "predicate": "pred_c19_mix", "nontrivial": "nt_any"})
PROPS["C19"]["rule"] += ("; slice wasm-bech-mix (instances of a different configuration in the same process): every case runs on fresh "
                         "MockApiBech32m(\"juno\") Apps in a fresh thread (reference), then on MockApiBech32(\"juno\") Apps in the working thread "
                         "(discarded), then on fresh MockApiBech32m(\"juno\") Apps in the working thread; predicate: reference and final transcript "
                         "are identical line by line; the final transcript also equals the model")

_STK_RULE = ("; slice wasm-stk: the same trees on an App with staking set up (bonded denom d1, two validators), containing StakingMsg / DistributionMsg "
             "sent by users and emitted by contracts (contracts as delegators), StakingSudo slashes, whole-second non-decreasing block changes incl. year jumps, "
             "staking queries from inside contracts; the staking module is the Lean model of CwMt/Model/Staking.lean plugged into the engine as a router module")
for _p in ("C01", "C02", "C10"):
    PROPS[_p]["rule"] += _STK_RULE

# tie T for the placement of write caches: checklib/tr_tx.py regenerates CwMt/Gen/TxSites.lean from app.rs / wasm.rs
# on every run; theorem tx_sites_as_modelled (C01, C02) states it is the placement CwMt/Model/EngineTx.lean transcribes
for _p in ("C01", "C02"):
    PROPS[_p]["translators"] = ["tr_tx"]
    PROPS[_p]["technique"] += (" + refinement theorem: the engine written with in-place writes and early returns (EngineTx, arbitrary dirt left by "
                               "failing steps, `transactional` only where the sources have it — table regenerated from app.rs/wasm.rs on every run) "
                               "has exactly the results and persisted states of the value-semantics engine")
    PROPS[_p]["trusted_base"] = list(PROPS[_p].get("trusted_base", [])) + [
        "checklib/tr_tx.py (regex + bracket matching) extracts the transactional(..) call sites, the calls handed the cache / the base, and the "
        "calls outside the closure handed the enclosing storage; that `transactionalI` of EngineTx.lean sits at those sites is by inspection of ~250 lines"]

# tie T for two decision rules: checklib/tr_rules.py regenerates CwMt/Gen/Rules.lean (execute_submsg's reply rule, verify_attributes /
# verify_response) from wasm.rs on every run; C03.reply_rule_as_modelled / reply_on_*_is_source_rule and C13.validation_steps_as_modelled
for _p, _what in (("C03", "the reply rule of execute_submsg (reply_on variants per outcome, Reply literal, treatment of data/events)"),
                  ("C13", "the steps of verify_attributes / verify_response (what is trimmed, which conditions bail, over which parts)")):
    PROPS[_p]["translators"] = list(PROPS[_p].get("translators", [])) + [{"C03": "tr_rules_reply", "C13": "tr_rules_verify"}[_p]]
    PROPS[_p]["technique"] += " + table of " + _what + " regenerated from wasm.rs on every run and proved to be the rule the model transcribes"
    PROPS[_p]["trusted_base"] = list(PROPS[_p].get("trusted_base", [])) + [
        "checklib/tr_rules.py (regex + bracket matching) extracts " + _what + "; that the model's functions implement the tabled steps is by "
        "inspection of ~30 lines (for the mode sets it is a theorem)"]

# round 8/9: the flat byte store of the bank and wasm namespaces (Model/Json.lean, Model/Flat.lean, Proofs/Json.lean, Proofs/FlatChain.lean)
PROPS["C01"]["technique"] += (" + theorems tying the typed state to the bytes in the store (JSON text of balances / ContractData reads back, "
                              "the flat store holds exactly the records of the typed state and determines it) with the flat store compared byte for byte "
                              "(op rawdump) on every case")
PROPS["C08"]["technique"] += (" + theorems about the flat store (what the root storage holds under a contract's storage key is that contract's entry, "
                              "key families injective and pairwise disjoint) with the flat store compared byte for byte (op rawdump)")

ENGINES = [
    {"name": "wasm", "path": "lean/CwMt/Model/{Engine,Registry,Wire,Bank}.lean + lean/CwMt/Driver/Wasm.lean + harness/src/{wasm,wasm_gen,wasm_gen2}.rs",
     "serves_properties": ["C01", "C02", "C03", "C04", "C05", "C08", "C10", "C11", "C12", "C13", "C19"],
     "kind_free_text": "Lean value-semantics model of App/Router/WasmKeeper/BankKeeper with arbitrary contracts; theorems by mutual induction on fuel; "
                       "correspondence through scripted contracts on the real App"},
]
