#!/usr/bin/env python3
"""dev helper: dev_diff.py <slice> <cases> <seed> [preds…] — builds the harness against /repo, runs slice on impl and model, counts differing cases and predicate hits"""
import sys, os, subprocess
ROOT = os.path.dirname(os.path.dirname(os.path.abspath(__file__)))
sys.path.insert(0, os.path.join(ROOT, "checklib"))
import predicates
sl, n, seed = sys.argv[1], sys.argv[2], sys.argv[3]
preds = sys.argv[4:]
r = subprocess.run(["cargo", "build", "--release", "--offline"], cwd=os.path.join(ROOT, "harness"), capture_output=True, text=True)
if r.returncode != 0:
    print("BUILD FAILED", r.stderr[-1500:]); sys.exit(2)
out = os.path.join(ROOT, "work", "devdiff")
subprocess.check_call([os.path.join(ROOT, ".build/cargo/release/cwmt-harness"), "run", "--slice", sl, "--seed", seed, "--cases", n, "--out", out])
with open(out + ".ops") as fi, open(out + ".model", "w") as fo:
    subprocess.check_call([os.path.join(ROOT, "lean/.lake/build/bin/cwmt-driver"), sl], stdin=fi, stdout=fo)
def cases(p):
    cur, hdr = None, None
    for l in open(p, errors="replace").read().split("\n")[:-1]:
        if l.startswith("case "):
            if hdr is not None:
                yield hdr, cur
            hdr, cur = l, []
        else:
            cur.append(l)
    if hdr is not None:
        yield hdr, cur
ops = list(cases(out + ".ops")); imp = list(cases(out + ".impl")); mod = list(cases(out + ".model"))
nd = 0
for (h, o), (_, i), (_, m) in zip(ops, imp, mod):
    same = len(i) == len(m) and all(a == b or (a.startswith("!") and b.startswith("!")) for a, b in zip(i, m))
    if not same:
        nd += 1
print("%s: %d/%d cases differ from the model" % (sl, nd, len(ops)))
for pn in preds:
    f = getattr(predicates, pn)
    bad = 0
    for (h, o), (_, i) in zip(ops, imp):
        msg = f(o, i)
        if msg:
            bad += 1
            if bad <= 1:
                print("  ", pn, h, msg[:300])
    print("  %s: %d/%d cases flagged" % (pn, bad, len(ops)))
