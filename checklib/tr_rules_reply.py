"""tie T, C03: the reply rule of execute_submsg (see tr_rules.py)"""
import tr_rules


def translate(root, log):
    return tr_rules.translate(root, log, part="reply")
