import CwMt.Model.Basic
/-
  CwMt.Model.Bank — `BankKeeper` (/repo/src/bank.rs:59-270) and cw-utils `NativeBalance`
  (normalize, `+ Coin`, checked `- Coin`). Amounts are unbounded `Nat` (no 128-bit overflow, as the
  property's quantifier says).
-/
namespace CwMt

abbrev Addr := String

structure Coin where
  denom : String
  amount : Nat
  deriving DecidableEq, Repr, Inhabited

abbrev Coins := List Coin

/-- association list keyed by strings, kept sorted by key (BTreeMap / storage order) -/
abbrev AMap (α : Type) := List (String × α)

namespace AMap
variable {α : Type}

def get? : AMap α → String → Option α
  | [], _ => none
  | (k', v) :: m, k => if k' = k then some v else get? m k

def set : AMap α → String → α → AMap α
  | [], k, v => [(k, v)]
  | (k', v') :: m, k, v =>
    if k < k' then (k, v) :: (k', v') :: m
    else if k = k' then (k, v) :: m
    else (k', v') :: set m k v

end AMap

namespace Bank

/-- `NativeBalance += Coin`: add to the entry of that denom, else insert before the first entry whose
denom is `≥` (append if none). -/
def addCoin : Coins → Coin → Coins
  | [], c => [c]
  | x :: xs, c =>
    if x.denom = c.denom then { x with amount := x.amount + c.amount } :: xs
    else if (x :: xs).any (fun y => y.denom = c.denom) then x :: addCoin xs c
    else if c.denom ≤ x.denom then c :: x :: xs
    else x :: addCoin xs c

/-- `NativeBalance - Coin`: checked subtraction; the entry disappears when it reaches zero; a denom
that is not held is an error. -/
def subCoin : Coins → Coin → Option Coins
  | [], _ => none
  | x :: xs, c =>
    if x.denom = c.denom then
      if x.amount < c.amount then none
      else if x.amount = c.amount then some xs
      else some ({ x with amount := x.amount - c.amount } :: xs)
    else (subCoin xs c).map (x :: ·)

def subCoins : Coins → Coins → Option Coins
  | b, [] => some b
  | b, c :: cs => (subCoin b c).bind (subCoins · cs)

/-- `NativeBalance::normalize`: no zero amounts, sorted by denom, one entry per denom (sums). -/
def normalize (cs : Coins) : Coins :=
  (cs.filter (fun c => c.amount ≠ 0)).foldl addCoin []

/-- `normalize_amount`: drop zero coins, reject an empty result. -/
def normalizeAmount (cs : Coins) : Option Coins :=
  let r := cs.filter (fun c => c.amount ≠ 0)
  if r.isEmpty then none else some r

abbrev State := AMap Coins

/-- `get_balance` -/
def balance (st : State) (a : Addr) : Coins := (st.get? a).getD []

/-- `set_balance` (normalises before saving) -/
def setBalance (st : State) (a : Addr) (cs : Coins) : State := st.set a (normalize cs)

def mint (st : State) (to : Addr) (amount : Coins) : Option State :=
  (normalizeAmount amount).map fun amt =>
    setBalance st to (amt.foldl addCoin (balance st to))

def burn (st : State) (frm : Addr) (amount : Coins) : Option State :=
  (normalizeAmount amount).bind fun amt =>
    (subCoins (balance st frm) amt).map fun b => setBalance st frm b

/-- `send = burn(sender); mint(recipient)` -/
def send (st : State) (frm to : Addr) (amount : Coins) : Option State :=
  (burn st frm amount).bind fun st' => mint st' to amount

def amountOf (cs : Coins) (denom : String) : Nat :=
  match cs.find? (fun c => c.denom = denom) with
  | some c => c.amount
  | none => 0

/-- `BankQuery::Balance` -/
def queryBalance (st : State) (a : Addr) (denom : String) : Nat := amountOf (balance st a) denom

/-- total of one denom inside one coin list (every entry, as `get_supply` sums them) -/
def totalOf (cs : Coins) (denom : String) : Nat :=
  (cs.filter (fun c => c.denom = denom)).foldl (fun acc c => acc + c.amount) 0

/-- `get_supply` -/
def supply (st : State) (denom : String) : Nat :=
  st.foldl (fun acc p => acc + totalOf p.2 denom) 0

end Bank
end CwMt
