import CwMt.Model.Basic
/-
  CwMt.Model.Sha256 — SHA-256 (FIPS 180-4), executable, over byte lists. The crate derives every address and
  default checksum from it (`addr_make`, `instantiate_address` in /repo/src/addresses.rs,
  `cosmwasm_std::instantiate2_address`, `Checksum::generate` in /repo/src/checksums.rs); with this module the
  model computes those values itself instead of being told them by the implementation.
-/
namespace CwMt.Sha256

def K : Array UInt32 := #[
  0x428a2f98, 0x71374491, 0xb5c0fbcf, 0xe9b5dba5, 0x3956c25b, 0x59f111f1, 0x923f82a4, 0xab1c5ed5,
  0xd807aa98, 0x12835b01, 0x243185be, 0x550c7dc3, 0x72be5d74, 0x80deb1fe, 0x9bdc06a7, 0xc19bf174,
  0xe49b69c1, 0xefbe4786, 0x0fc19dc6, 0x240ca1cc, 0x2de92c6f, 0x4a7484aa, 0x5cb0a9dc, 0x76f988da,
  0x983e5152, 0xa831c66d, 0xb00327c8, 0xbf597fc7, 0xc6e00bf3, 0xd5a79147, 0x06ca6351, 0x14292967,
  0x27b70a85, 0x2e1b2138, 0x4d2c6dfc, 0x53380d13, 0x650a7354, 0x766a0abb, 0x81c2c92e, 0x92722c85,
  0xa2bfe8a1, 0xa81a664b, 0xc24b8b70, 0xc76c51a3, 0xd192e819, 0xd6990624, 0xf40e3585, 0x106aa070,
  0x19a4c116, 0x1e376c08, 0x2748774c, 0x34b0bcb5, 0x391c0cb3, 0x4ed8aa4a, 0x5b9cca4f, 0x682e6ff3,
  0x748f82ee, 0x78a5636f, 0x84c87814, 0x8cc70208, 0x90befffa, 0xa4506ceb, 0xbef9a3f7, 0xc67178f2]

def rotr (x : UInt32) (n : UInt32) : UInt32 := (x >>> n) ||| (x <<< (32 - n))

structure H8 where
  a : UInt32
  b : UInt32
  c : UInt32
  d : UInt32
  e : UInt32
  f : UInt32
  g : UInt32
  h : UInt32

def init : H8 :=
  ⟨0x6a09e667, 0xbb67ae85, 0x3c6ef372, 0xa54ff53a, 0x510e527f, 0x9b05688c, 0x1f83d9ab, 0x5be0cd19⟩

def be32 (b0 b1 b2 b3 : UInt8) : UInt32 :=
  (b0.toUInt32 <<< 24) ||| (b1.toUInt32 <<< 16) ||| (b2.toUInt32 <<< 8) ||| b3.toUInt32

/-- the 16 message words of one 64-byte block (missing bytes read as 0; callers pass whole blocks) -/
def wordsOf : List UInt8 → List UInt32
  | b0 :: b1 :: b2 :: b3 :: rest => be32 b0 b1 b2 b3 :: wordsOf rest
  | _ => []

/-- message schedule: extends the 16 words to 64 -/
def schedule (w : Array UInt32) : Array UInt32 := Id.run do
  let mut w := w
  for i in [16:64] do
    let w15 := w[i - 15]!
    let w2 := w[i - 2]!
    let s0 := rotr w15 7 ^^^ rotr w15 18 ^^^ (w15 >>> 3)
    let s1 := rotr w2 17 ^^^ rotr w2 19 ^^^ (w2 >>> 10)
    w := w.push (w[i - 16]! + s0 + w[i - 7]! + s1)
  return w

def compress (st : H8) (block : List UInt8) : H8 := Id.run do
  let w := schedule (wordsOf block).toArray
  let mut s := st
  for i in [0:64] do
    let S1 := rotr s.e 6 ^^^ rotr s.e 11 ^^^ rotr s.e 25
    let ch := (s.e &&& s.f) ^^^ ((~~~ s.e) &&& s.g)
    let t1 := s.h + S1 + ch + K[i]! + w[i]!
    let S0 := rotr s.a 2 ^^^ rotr s.a 13 ^^^ rotr s.a 22
    let maj := (s.a &&& s.b) ^^^ (s.a &&& s.c) ^^^ (s.b &&& s.c)
    let t2 := S0 + maj
    s := ⟨t1 + t2, s.a, s.b, s.c, s.d + t1, s.e, s.f, s.g⟩
  return ⟨st.a + s.a, st.b + s.b, st.c + s.c, st.d + s.d, st.e + s.e, st.f + s.f, st.g + s.g, st.h + s.h⟩

def be64 (n : Nat) : List UInt8 :=
  [56, 48, 40, 32, 24, 16, 8, 0].map fun s => UInt8.ofNat ((n >>> s) % 256)

/-- padding: 0x80, zeros up to 56 mod 64, the bit length as 64-bit big-endian -/
def pad (msg : List UInt8) : List UInt8 :=
  let l := msg.length
  let z := (64 - (l + 9) % 64) % 64
  msg ++ [0x80] ++ List.replicate z 0 ++ be64 (l * 8)

def blocks : Nat → List UInt8 → H8 → H8
  | 0, _, st => st
  | n + 1, bs, st => blocks n (bs.drop 64) (compress st (bs.take 64))

def bytesOf32 (x : UInt32) : List UInt8 :=
  [(x >>> 24).toUInt8, (x >>> 16).toUInt8, (x >>> 8).toUInt8, x.toUInt8]

def digest (msg : List UInt8) : List UInt8 :=
  let p := pad msg
  let st := blocks (p.length / 64) p init
  bytesOf32 st.a ++ bytesOf32 st.b ++ bytesOf32 st.c ++ bytesOf32 st.d ++
  bytesOf32 st.e ++ bytesOf32 st.f ++ bytesOf32 st.g ++ bytesOf32 st.h

theorem digest_length (msg : List UInt8) : (digest msg).length = 32 := by
  simp [digest, bytesOf32]

end CwMt.Sha256
