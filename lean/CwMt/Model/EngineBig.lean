import CwMt.Model.Engine
/-
  CwMt.Model.EngineBig — fuel-free, trace-free reading of the engine: "running this message on this state
  terminates with this outcome". `Exec ch sender msg o` etc. say that some amount of fuel suffices for the
  fuel-indexed functions of CwMt/Model/Engine.lean to finish with outcome `o` (never `outOfFuel`, which is the
  model's own artefact). The rules that characterise these four judgements compositionally — the declarative
  final-state specification of message trees of arbitrary depth — are theorems (CwMt/Proofs/EngineBig.lean,
  restated in Props/C02.lean): one rule per construct, each an `iff`, none mentions fuel or the trace.
-/
namespace CwMt
variable {E : Type}

abbrev Out (E : Type) := Outcome (AppResponse × Chain E)

/-- `Router::execute` of `msg` sent by `sender` on state `ch` terminates with outcome `o` -/
def Exec (cfg : Config E) (blk : Block) (ch : Chain E) (sender : Addr) (msg : Msg) (o : Out E) : Prop :=
  o ≠ .outOfFuel ∧ ∃ fuel, (execute cfg blk fuel ch sender msg []).1 = o

/-- `process_response` of `contract` with accumulated response `resp` and pending sub-messages `msgs` -/
def Proc (cfg : Config E) (blk : Block) (ch : Chain E) (contract : Addr) (resp : AppResponse) (msgs : List SubMsg)
    (o : Out E) : Prop :=
  o ≠ .outOfFuel ∧ ∃ fuel, (processResponse cfg blk fuel ch contract resp msgs []).1 = o

/-- `execute_submsg`: one sub-message of `contract`, including its reply -/
def Sub (cfg : Config E) (blk : Block) (ch : Chain E) (contract : Addr) (sm : SubMsg) (o : Out E) : Prop :=
  o ≠ .outOfFuel ∧ ∃ fuel, (executeSubmsg cfg blk fuel ch contract sm []).1 = o

/-- `reply` on `contract` -/
def Rep (cfg : Config E) (blk : Block) (ch : Chain E) (contract : Addr) (rp : Reply) (o : Out E) : Prop :=
  o ≠ .outOfFuel ∧ ∃ fuel, (reply cfg blk fuel ch contract rp []).1 = o

/-- result of a sub-message that succeeded with `r` and whose wanted reply ended with `o'` -/
def mergeReply (r : AppResponse) : Out E → Out E
  | .ok (rr, ch₂) => .ok ({ events := r.events ++ rr.events, data := rr.data }, ch₂)
  | other => other

/-- the custom event `reply` adds -/
def replyEvent (contract : Addr) (rp : Reply) : Event :=
  { ty := "reply", attrs := [contractAttr contract,
      ⟨"mode", match rp.result with | .ok .. => "handle_success" | .err => "handle_failure"⟩] }

end CwMt
