import CwMt.Model.Overlay
/-
  CwMt.Model.Client — whole clients of the `Storage` interface, as interaction trees.

  The Rust engine runs arbitrary code against a `&mut dyn Storage` and nests caches through

      pub fn transactional<F, T>(base: &mut dyn Storage, action: F) -> AnyResult<T>
      where F: FnOnce(&mut dyn Storage, &dyn Storage) -> AnyResult<T>
      {   let mut cache = StorageTransaction::new(base);
          let res = action(&mut cache, base)?;
          cache.prepare().commit(base);
          Ok(res) }                                     (/repo/src/transactions.rs)

  A `Client R` is one such piece of code, answering `R`: every node is one call through the
  interface, the continuation receives what the call answered.

  * `get/range/set/remove`   — calls on the storage the code was handed (`&mut cache`).
  * `getBase/rangeBase`      — reads of the second argument of the action (`read_store`, the storage
                               the cache sits on). Code that runs directly on the root store has no
                               such second storage; there the two node kinds read the root itself.
  * `sub body cont`          — `transactional(storage, body)`: `body` runs on a fresh cache over the
                               current storage, with the current storage as its read-only base;
                               `some x` = `Ok(x)` (cache committed), `none` = `Err(_)` (the `?`
                               returns early, the cache is dropped).

  Two interpreters, both by structural recursion on the tree:
  * `Client.runStack` — on the overlay machinery (`Stack`), the transcription of the Rust code;
  * `Client.runPure`  — on plain ordered maps: entering a `sub` copies the map, `some` keeps the
                        copy, `none` keeps the original (this is how CwMt/Model/Engine.lean treats
                        state). `Client.runPureRoot` is the same for code that runs directly on the
                        root store (no separate base: base reads see the current map).
-/
namespace CwMt

inductive Client : Type → Type 1 where
  | done {R : Type} (r : R) : Client R
  | get {R : Type} (k : Key) (cont : Option Val → Client R) : Client R
  | range {R : Type} (s e : Option Key) (o : Order) (cont : List (Key × Val) → Client R) : Client R
  | set {R : Type} (k : Key) (v : Val) (cont : Client R) : Client R
  | remove {R : Type} (k : Key) (cont : Client R) : Client R
  | getBase {R : Type} (k : Key) (cont : Option Val → Client R) : Client R
  | rangeBase {R : Type} (s e : Option Key) (o : Order) (cont : List (Key × Val) → Client R) :
      Client R
  | sub {R X : Type} (body : Client (Option X)) (cont : Option X → Client R) : Client R

/-- The stack beneath the top layer: what `read_store` is for code running on the top layer. The
root has nothing beneath it; by convention it is its own base. (`Stack.below` is taken by the
recursor machinery Lean generates for the inductive type, hence the name.) -/
def Stack.beneath : Stack → Stack
  | .root m => .root m
  | .layer b _ => b

namespace Client

/-- Run a client on the overlay machinery. -/
def runStack {R : Type} : Client R → Stack → R × Stack
  | done r, st => (r, st)
  | get k cont, st => (cont (st.get k)).runStack st
  | range s e o cont, st => (cont (st.range s e o)).runStack st
  | set k v cont, st => cont.runStack (st.set k v)
  | remove k cont, st => cont.runStack (st.remove k)
  | getBase k cont, st => (cont (st.beneath.get k)).runStack st
  | rangeBase s e o cont, st => (cont (st.beneath.range s e o)).runStack st
  | sub body cont, st =>
    match body.runStack st.push with                          -- StorageTransaction::new(base); action(&mut cache, base)
    | (some x, st') => (cont (some x)).runStack st'.commit    -- Ok: cache.prepare().commit(base)
    | (none, st') => (cont none).runStack st'.discard         -- Err: `?` returns, cache dropped

/-- Ordered-map semantics of a client that runs on a cache: `base` is the (unchanging) map beneath,
`cur` the map the client reads and writes. -/
def runPure {R : Type} : Client R → (base cur : Store Val) → R × Store Val
  | done r, _, cur => (r, cur)
  | get k cont, base, cur => (cont (cur.get k)).runPure base cur
  | range s e o cont, base, cur => (cont (cur.range s e o)).runPure base cur
  | set k v cont, base, cur => cont.runPure base (cur.set k v)
  | remove k cont, base, cur => cont.runPure base (cur.remove k)
  | getBase k cont, base, cur => (cont (base.get k)).runPure base cur
  | rangeBase s e o cont, base, cur => (cont (base.range s e o)).runPure base cur
  | sub body cont, base, cur =>
    match body.runPure cur cur with                           -- the body works on a copy of `cur`
    | (some x, m) => (cont (some x)).runPure base m           -- Ok: the copy replaces `cur`
    | (none, _) => (cont none).runPure base cur               -- Err: the copy is forgotten

/-- Ordered-map semantics of a client that runs directly on the root store: there is no separate
base, base reads see the current map. -/
def runPureRoot {R : Type} : Client R → (cur : Store Val) → R × Store Val
  | done r, cur => (r, cur)
  | get k cont, cur => (cont (cur.get k)).runPureRoot cur
  | range s e o cont, cur => (cont (cur.range s e o)).runPureRoot cur
  | set k v cont, cur => cont.runPureRoot (cur.set k v)
  | remove k cont, cur => cont.runPureRoot (cur.remove k)
  | getBase k cont, cur => (cont (cur.get k)).runPureRoot cur
  | rangeBase s e o cont, cur => (cont (cur.range s e o)).runPureRoot cur
  | sub body cont, cur =>
    match body.runPure cur cur with
    | (some x, m) => (cont (some x)).runPureRoot m
    | (none, _) => (cont none).runPureRoot cur

/-- The ordered-map run that corresponds to running on the stack `st`. -/
def runSpec {R : Type} (c : Client R) : Stack → R × Store Val
  | .root m => c.runPureRoot m
  | .layer b l => c.runPure (abs b) (abs (.layer b l))

end Client
end CwMt
