import CwMt.Model.Basic
/-
  CwMt.Model.Store — the specification "plain ordered map": a strictly sorted association list.
  It is also the model of cosmwasm-std's `MemoryStorage` (a `BTreeMap<Vec<u8>, Vec<u8>>`):
  `range` with inverted or equal bounds is empty, `remove` of an absent key is a no-op.
-/
namespace CwMt

abbrev Store (V : Type) := List (Key × V)

namespace Store
variable {V : Type}

def get : Store V → Key → Option V
  | [], _ => none
  | (k', v) :: m, k => if k' = k then some v else get m k

/-- sorted insert / overwrite -/
def set : Store V → Key → V → Store V
  | [], k, v => [(k, v)]
  | (k', v') :: m, k, v =>
    if k < k' then (k, v) :: (k', v') :: m
    else if k = k' then (k, v) :: m
    else (k', v') :: set m k v

def remove : Store V → Key → Store V
  | [], _ => []
  | (k', v') :: m, k => if k' = k then m else (k', v') :: remove m k

/-- `Storage::range(start, end, order)`: inclusive start, exclusive end, both optional. -/
def range (m : Store V) (s e : Option Key) (o : Order) : List (Key × V) :=
  let sel := m.filter (fun p => inBounds s e p.1)
  match o with
  | .asc => sel
  | .desc => sel.reverse

def keys (m : Store V) : List Key := m.map (·.1)

/-- strictly increasing keys -/
def Sorted (m : Store V) : Prop := m.Pairwise (fun a b => a.1 < b.1)

end Store
end CwMt
