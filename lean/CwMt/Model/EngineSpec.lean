import CwMt.Model.Registry
/-
  CwMt.Model.EngineSpec — vocabulary used by the property statements about the engine
  (definitions only; no proofs, nothing executable depends on it).
-/
namespace CwMt
variable {E : Type}

/-- result type of the four mutually recursive engine functions -/
abbrev EngineResult (E : Type) := Outcome (AppResponse × Chain E) × Trace

/-- the sender a contract is told, for the two entry points that carry one -/
def Entry.sender? : Entry → Option Addr
  | .execute i _ => some i.sender
  | .instantiate i _ => some i.sender
  | _ => none

def Entry.funds? : Entry → Option Coins
  | .execute i _ => some i.funds
  | .instantiate i _ => some i.funds
  | _ => none

def Entry.isReply : Entry → Bool
  | .reply _ => true
  | _ => false

/-- every sender shown in `new` is `top` or the callee of an earlier entry of `new` -/
def SendersFrom (top : Addr) (new : Trace) : Prop :=
  ∀ (i : Nat) (e : TraceEntry) (s : Addr), new[i]? = some e → e.entry.sender? = some s →
    s = top ∨ ∃ (j : Nat) (e' : TraceEntry), j < i ∧ new[j]? = some e' ∧ e'.callee = s

/-- the environment a contract is shown names itself and the block of the transaction -/
def EnvOK (blk : Block) (e : TraceEntry) : Prop := e.env.block = blk ∧ e.env.contract = e.callee

/-- assumption on the modules that are parameters: they leave contract storage and the contract
registry alone (bank / staking / … keep their state elsewhere) -/
def ExtFrame (cfg : Config E) : Prop :=
  (∀ k ch blk s p r ch', cfg.extExec k ch blk s p = .ok (r, ch') → ch'.cstore = ch.cstore ∧ ch'.contracts = ch.contracts) ∧
  (∀ ch blk p r ch', cfg.extSudo ch blk p = .ok (r, ch') → ch'.cstore = ch.cstore ∧ ch'.contracts = ch.contracts)

/-- does `execute_submsg` invoke `reply` for this outcome and mode? -/
def replyWanted {α : Type} : Outcome α → ReplyOn → Bool
  | .ok _, m => wantsReplyOnOk m
  | .err, m => wantsReplyOnErr m
  | _, _ => false

/-- the `SubMsgResult` delivered to `reply` for a sub-message outcome -/
def subResultOf : Outcome (AppResponse × Chain E) → SubResult
  | .ok (r, _) => .ok r.events r.data
  | _ => .err

/-- the state on which `reply` runs: the sub-message's result state if it succeeded, else the state
before it was dispatched -/
def replyState (ch : Chain E) : Outcome (AppResponse × Chain E) → Chain E
  | .ok (_, c) => c
  | _ => ch

/-- attribute-key rule of `verify_attributes` -/
def KeyOK (k : String) : Prop := rtrim k ≠ "" ∧ (rtrim k).startsWith "_" = false

end CwMt
