import CwMt.Model.Store
/-
  CwMt.Model.Prefix — length-prefixed namespaces and prefixed storage views
  (/repo/src/prefixed_storage/{length_prefixed,namespace_helpers,mod}.rs).
-/
namespace CwMt

/-- `encode_length`: 2-byte big-endian length; panics above 0xFFFF. -/
def encodeLength (n : Nat) : Outcome (List UInt8) :=
  if n > 0xFFFF then .panic else .ok [UInt8.ofNat (n / 256), UInt8.ofNat (n % 256)]

/-- `to_length_prefixed` -/
def toLP (ns : List UInt8) : Outcome Key :=
  (encodeLength ns.length).map (· ++ ns)

/-- `to_length_prefixed_nested` -/
def toLPNested : List (List UInt8) → Outcome Key
  | [] => .ok []
  | ns :: rest => (toLP ns).bind fun a => (toLPNested rest).map fun b => a ++ b

/-- `namespace_upper_bound`: same length, trailing 255s zeroed, first non-255 from the right
incremented; all-255 (or empty) input wraps to all zeros (resp. empty). Processed on the reversed
list. -/
def upperRev : List UInt8 → List UInt8
  | [] => []
  | b :: rest => if b = 255 then 0 :: upperRev rest else (b + 1) :: rest

def namespaceUpperBound (input : Key) : Key := (upperRev input.reverse).reverse

def allFF (pfx : Key) : Bool := pfx.all (· == 255)

/-- `starts_with` -/
def hasPrefix (pfx k : Key) : Bool := pfx.isPrefixOf k

/-- `trim`: `key[namespace.len()..]`, panics when the key is shorter than the namespace. -/
def trim (pfx k : Key) : Outcome Key :=
  if k.length < pfx.length then .panic else .ok (k.drop pfx.length)

namespace View

def get (base : Store Val) (pfx k : Key) : Option Val := base.get (pfx ++ k)
def set (base : Store Val) (pfx k : Key) (v : Val) : Store Val := base.set (pfx ++ k) v
def remove (base : Store Val) (pfx k : Key) : Store Val := base.remove (pfx ++ k)

/-- lower bound handed to the base by `range_with_prefix` -/
def rawStart (pfx : Key) (s : Option Key) : Key :=
  match s with
  | some s => pfx ++ s
  | none => pfx

/-- upper bound handed to the base by `range_with_prefix` (no bound when the namespace is empty or
all 0xFF) -/
def rawEnd (pfx : Key) (e : Option Key) : Option Key :=
  match e with
  | some e => some (pfx ++ e)
  | none => if allFF pfx then none else some (namespaceUpperBound pfx)

/-- `range_with_prefix`: bounded base range, entries outside the namespace skipped, prefix trimmed. -/
def range (base : Store Val) (pfx : Key) (s e : Option Key) (o : Order) : List (Key × Val) :=
  ((base.range (some (rawStart pfx s)) (rawEnd pfx e) o).filter (fun p => hasPrefix pfx p.1)).map
    (fun p => (p.1.drop pfx.length, p.2))

end View

/-- The specification of a view: the base entries under the prefix, prefix stripped. -/
def window (pfx : Key) (base : Store Val) : Store Val :=
  (base.filter (fun p => hasPrefix pfx p.1)).map (fun p => (p.1.drop pfx.length, p.2))

end CwMt
