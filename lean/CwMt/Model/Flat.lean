import CwMt.Model.Json
import CwMt.Model.Store
/-
  CwMt.Model.Flat — the ONE byte store the typed chain state stands for.

  `flatten ch` lists, in key order, the raw records that the bank and the wasm module keep in the root storage for the
  state `ch` (the staking / distribution components `ch.ext` are not flattened):

    00 04 "bank" 00 08 "balances" ‖ address                     ↦ JSON of the balance        (bank.rs, `BALANCES`)
    00 04 "wasm" 00 09 "contracts" ‖ address                    ↦ JSON of the `ContractData`  (wasm.rs, `CONTRACTS`)
    00 04 "wasm" len("contract_data/"‖address) … ‖ key          ↦ value                      (contract storage)

  The wasm driver answers `rawdump` with this store in hex; the harness answers with the real root storage restricted to
  the two namespaces, so the comparison is byte for byte (keys, JSON text, contract values).
-/
namespace CwMt.Flat
variable {E : Type}

def lp (s : List UInt8) : List UInt8 := [UInt8.ofNat (s.length / 256), UInt8.ofNat (s.length % 256)] ++ s
def utf8 (s : String) : List UInt8 := s.toUTF8.toList

def bankKey (a : Addr) : Key := lp (utf8 "bank") ++ lp (utf8 "balances") ++ utf8 a
def contractKey (a : Addr) : Key := lp (utf8 "wasm") ++ lp (utf8 "contracts") ++ utf8 a
def storeKey (a : Addr) (k : Key) : Key := lp (utf8 "wasm") ++ lp (utf8 ("contract_data/" ++ a)) ++ k

/-- the raw records of the bank, the contract registry and the contracts' own stores, in this order -/
def records (ch : Chain E) : List (Key × Val) :=
  ch.bank.map (fun p => (bankKey p.1, Json.balancesJson p.2)) ++
  (ch.contracts.map (fun p => (contractKey p.1, Json.contractJson p.2)) ++
   ch.cstore.flatMap (fun p => p.2.map fun kv => (storeKey p.1 kv.1, kv.2)))

/-- writing the records one after another into an empty store -/
def writeAll (l : List (Key × Val)) (s : Store Val) : Store Val := l.foldl (fun s r => s.set r.1 r.2) s

def flatten (ch : Chain E) : Store Val := writeAll (records ch) []

/-- the well-formedness `Proofs/FlatChain.lean` asks of a typed state, as a check the driver runs on every state it flattens:
no address twice in the ledger, the registry or the map of contract stores; every contract store strictly sorted; contract
addresses short enough for the 2-byte length prefix -/
def wfCheck (ch : Chain E) : Bool :=
  decide ((ch.bank.map (·.1)).Nodup) && decide ((ch.contracts.map (·.1)).Nodup) && decide ((ch.cstore.map (·.1)).Nodup) &&
  ch.cstore.all fun p => decide (p.2.Pairwise fun a b => a.1 < b.1) && decide ((utf8 p.1).length ≤ 65521)

end CwMt.Flat
