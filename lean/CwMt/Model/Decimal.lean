/-
  CwMt.Model.Decimal — cosmwasm-std 2.2.2 `Decimal` (src/math/decimal.rs) on unbounded `Nat` atomics.

  A `Decimal` is a `Uint128` of atomics with 18 fractional digits. Every operator below was read in the
  source and run on the real type (harness slice `staking`, and the table in CwMt/Driver/Staking.lean `dec` op):
    * `a * b`            = `a.0.full_mul(b.0) / 10^18`                      (floor)        decimal.rs:651-662
    * `a / b`            = `checked_from_ratio(a.0, b.0)` = `a.0 * 10^18 / b.0` (floor; panics on b = 0) decimal.rs:677-687
    * `a / n : Uint128`  = `Decimal(a.0 / n)`                               (floor)        decimal.rs:698-703
    * `from_ratio(n, 1)` = `n * 10^18`                                                     decimal.rs:174-200
    * `a + b`, `a - b`   = on atomics (`-` panics on underflow: callers are guarded)       decimal.rs:615-637
    * `n.mul_floor(d)`   = `n.full_mul(d.0) / 10^18`                        (floor)        fraction.rs:50-70
    * `Uint128::new(1).mul_floor(d)` = `d.0 / 10^18`  (`Dec.floor`)
  The literal 10^18 is always the FIRST factor of a product with a variable (`ONE * n`): `Nat.mul` recurses on its
  second argument, so the kernel's evaluator gets stuck on the variable at once instead of peeling the literal.
  Overflow (the `panic!("attempt to multiply with overflow")` arms) is outside the model: amounts are `Nat`
  (DESIGN.md R6; the generators keep every intermediate far below 2^128).
-/
namespace CwMt

structure Dec where
  atomics : Nat
  deriving DecidableEq, Repr, Inhabited

namespace Dec

/-- `DECIMAL_FRACTIONAL` = 10^18 -/
def ONE : Nat := 1000000000000000000

def zero : Dec := ⟨0⟩
def one : Dec := ⟨ONE⟩

/-- `Decimal::from_ratio(n, 1u128)` -/
def ofNat (n : Nat) : Dec := ⟨ONE * n⟩

def add (a b : Dec) : Dec := ⟨a.atomics + b.atomics⟩

/-- `a - b`; the Rust operator panics when `b > a`, every call site of the model guards it -/
def sub (a b : Dec) : Dec := ⟨a.atomics - b.atomics⟩

/-- `Decimal * Decimal` (rounds down) -/
def mul (a b : Dec) : Dec := ⟨a.atomics * b.atomics / ONE⟩

/-- `Decimal / Decimal` (rounds down; the Rust operator panics on a zero divisor, call sites guard it) -/
def div (a b : Dec) : Dec := ⟨ONE * a.atomics / b.atomics⟩

/-- `Decimal / Uint128` (rounds down) -/
def divNat (a : Dec) (n : Nat) : Dec := ⟨a.atomics / n⟩

/-- `Uint128::new(1).mul_floor(d)`: whole tokens of `d` -/
def floor (a : Dec) : Nat := a.atomics / ONE

/-- `Uint128::mul_floor(n, d)` -/
def mulFloor (n : Nat) (d : Dec) : Nat := n * d.atomics / ONE

def isZero (a : Dec) : Bool := a.atomics == 0

instance : LE Dec := ⟨fun a b => a.atomics ≤ b.atomics⟩
instance : LT Dec := ⟨fun a b => a.atomics < b.atomics⟩
instance (a b : Dec) : Decidable (a ≤ b) := inferInstanceAs (Decidable (a.atomics ≤ b.atomics))
instance (a b : Dec) : Decidable (a < b) := inferInstanceAs (Decidable (a.atomics < b.atomics))

end Dec
end CwMt
