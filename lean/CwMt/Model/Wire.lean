import CwMt.Model.Basic
/-
  CwMt.Model.Wire — protobuf encoding of `ExecuteResponse` / `InstantiateResponse`
  (/repo/src/wasm.rs:1312-1346; prost: a field holding its default value is omitted).
  `Validate`: `verify_attributes` / `verify_response` (/repo/src/wasm.rs:458-487) with Rust's
  `str::trim` (Unicode White_Space) and UTF-8 byte length.
-/
namespace CwMt

/-- base-128 varint, little-endian groups; `fuel` bounds the recursion (`n < 128^fuel`) -/
def varintAux : Nat → Nat → List UInt8
  | 0, _ => []
  | fuel + 1, n => if n < 128 then [UInt8.ofNat n] else UInt8.ofNat (n % 128 + 128) :: varintAux fuel (n / 128)

def varint (n : Nat) : List UInt8 := varintAux 10 n

/-- length-delimited field with the given tag byte; omitted when empty -/
def lenField (tag : UInt8) (bs : List UInt8) : List UInt8 :=
  if bs.isEmpty then [] else tag :: varint bs.length ++ bs

/-- `encode_response_data` body: `ExecuteResponse { data }` -/
def encodeExecuteResponse (data : List UInt8) : List UInt8 := lenField 0x0a data

/-- `instantiate_response`: `InstantiateResponse { address, data }` -/
def encodeInstantiateResponse (addr : String) (data : List UInt8) : List UInt8 :=
  lenField 0x0a addr.toUTF8.toList ++ lenField 0x12 data

/-- Unicode `White_Space` (what `char::is_whitespace`, hence `str::trim`, uses) -/
def isWhite (c : Char) : Bool :=
  let n := c.toNat
  (0x9 ≤ n && n ≤ 0xD) || n == 0x20 || n == 0x85 || n == 0xA0 || n == 0x1680 ||
  (0x2000 ≤ n && n ≤ 0x200A) || n == 0x2028 || n == 0x2029 || n == 0x202F || n == 0x205F || n == 0x3000

def trimChars (cs : List Char) : List Char :=
  ((cs.dropWhile isWhite).reverse.dropWhile isWhite).reverse

def rtrim (s : String) : String := String.ofList (trimChars s.toList)

end CwMt

namespace CwMt

/-- decode one varint; returns value and rest -/
def unvarintAux : Nat → List UInt8 → Nat → Nat → Option (Nat × List UInt8)
  | 0, _, _, _ => none
  | _ + 1, [], _, _ => none
  | fuel + 1, b :: rest, shift, acc =>
    let v := acc + (b.toNat % 128) * 2 ^ shift
    if b.toNat < 128 then some (v, rest) else unvarintAux fuel rest (shift + 7) v

def unvarint (bs : List UInt8) : Option (Nat × List UInt8) := unvarintAux 10 bs 0 0

/-- reads an optional length-delimited field with the given tag at the head of `bs` -/
def takeField (tag : UInt8) (bs : List UInt8) : Option (List UInt8 × List UInt8) :=
  match bs with
  | t :: rest =>
    if t = tag then
      match unvarint rest with
      | some (n, rest') => if n ≤ rest'.length then some (rest'.take n, rest'.drop n) else none
      | none => none
    else some ([], bs)
  | [] => some ([], [])

/-- inverse of `encodeExecuteResponse` -/
def decodeExecuteResponse (bs : List UInt8) : Option (List UInt8) :=
  match takeField 0x0a bs with
  | some (d, []) => some d
  | _ => none

/-- inverse of `encodeInstantiateResponse` (address as bytes) -/
def decodeInstantiateResponse (bs : List UInt8) : Option (List UInt8 × List UInt8) :=
  match takeField 0x0a bs with
  | some (a, rest) =>
    match takeField 0x12 rest with
    | some (d, []) => some (a, d)
    | _ => none
  | none => none

end CwMt
