/-
  CwMt.Model.TxSite — where the Rust sources create write caches, as a table.

  `TxSite` is one call `transactional(storage, |cache, base| body)` in non-test code of /repo/src/app.rs or
  /repo/src/wasm.rs: the enclosing function, the storage expression the cache is layered on, the calls inside
  the closure that are handed the cache / the read-only base, and the calls of the enclosing function
  *outside* the closure that are handed the same storage. The table of the current sources is regenerated on
  every run (checklib/tr_tx.py → CwMt/Gen/TxSites.lean); `expectedTxSites` is the placement that
  CwMt/Model/EngineTx.lean transcribes (`transactionalI` occurs in `AppI.executeMulti`, `AppI.wasmSudo`,
  `AppI.sudo`, `executeSubmsgI` and `callContractI`, and nowhere else).
-/
namespace CwMt

structure TxSite where
  file : String
  fn : String
  storage : String
  cache : List String
  base : List String
  outer : List String
  deriving DecidableEq, Repr

def expectedTxSites : List TxSite := [
  -- AppI.executeMulti: the message loop runs on the cache
  { file := "app.rs", fn := "execute_multi", storage := "&mut *storage",
    cache := ["router.execute"], base := [], outer := [] },
  -- AppI.wasmSudo
  { file := "app.rs", fn := "wasm_sudo", storage := "&mut *storage",
    cache := ["router.wasm.sudo"], base := [], outer := [] },
  -- AppI.sudo
  { file := "app.rs", fn := "sudo", storage := "&mut *storage",
    cache := ["router.sudo"], base := [], outer := [] },
  -- executeSubmsgI: the sub-message runs on the cache, both reply calls on the dispatcher's storage
  { file := "wasm.rs", fn := "execute_submsg", storage := "storage",
    cache := ["router.execute"], base := [], outer := ["self.reply", "self.reply"] },
  -- callContractI: the contract's window is opened on the cache, its querier reads the storage beneath
  { file := "wasm.rs", fn := "with_storage", storage := "storage",
    cache := ["self.contract_storage_mut"], base := ["RouterQuerier::new"], outer := ["self.contract_data"] }
]

end CwMt
