import CwMt.Model.Engine
/-
  CwMt.Model.EngineTx — the same engine as CwMt/Model/Engine.lean, written the way the Rust code is
  written: every function works on "the storage it was handed" (`&mut dyn Storage`), writes into it as
  it goes, and on `Err` simply returns — leaving whatever it had already written ("dirt") in that
  storage. Nothing is undone by the functions themselves. The only thing that ever discards writes is

      transactional(storage, |cache, _| body)      (/repo/src/transactions.rs)

  which hands `body` a fresh cache, commits the cache on `Ok` and drops it otherwise. It is used in
  exactly four kinds of places, and `transactionalI` below appears in exactly those:

      App::execute_multi / App::sudo / App::wasm_sudo   (app.rs)            — once per top-level call
      WasmKeeper::execute_submsg                          (wasm.rs:837)       — once per sub-message
      WasmKeeper::with_storage                            (wasm.rs:1212)      — once per contract call

  Where the Rust code can return early with writes already made, this model returns a dirty state:
    * `send` (funds moved) succeeded, the contract call then failed;
    * `register_contract` saved the new contract, `send` or `instantiate` then failed;
    * `Migrate` saved the new code id, `migrate` then failed;
    * `with_storage` committed the contract's writes, `verify_response` then rejected the response;
    * a sub-message was committed, its `reply` then failed; an earlier sibling was committed, a later failed;
    * a contract entry point, the bank or another module failed half-way through its own writes — what
      they leave behind is arbitrary and given by the parameter `Dirt`.
  Nothing here is assumed about `Dirt`: the theorems in CwMt/Proofs/EngineTx.lean hold for every one.

  A state at this level is still a `Chain E` (what the current storage *shows*); that a stack of
  `StorageTransaction` caches shows exactly such snapshots, with commit = "the snapshot replaces the
  one beneath" and drop = "the one beneath is what it was", is C06 (`client_refines`).
-/
namespace CwMt
variable {E : Type}

/-- What failing code leaves behind in the storage it was writing to. Arbitrary. -/
structure Dirt (E : Type) where
  /-- contents of a contract's window after its entry point failed (or panicked) half-way -/
  contract : Addr → Entry → Chain E → Store Val → Store Val
  /-- state after the bank or another module failed half-way through `execute` -/
  module : Chain E → Addr → Msg → Chain E
  /-- state after a module failed half-way through `sudo` -/
  sudo : Chain E → Val → Chain E

/-- result of an imperative step: the outcome, what the storage shows now, the ghost trace -/
abbrev ResI (α : Type) (E : Type) := Outcome α × Chain E × Trace

/-- `transactional(storage, body)`: `ch` is what `storage` showed when the cache was created; the body's
result carries what the *cache* shows at the end. `Ok` commits, anything else drops the cache. -/
def transactionalI {α : Type} (ch : Chain E) (r : ResI α E) : ResI α E :=
  match r with
  | (.ok a, ch', tr) => (.ok a, ch', tr)
  | (.err, _, tr) => (.err, ch, tr)
  | (.panic, _, tr) => (.panic, ch, tr)
  | (.outOfFuel, _, tr) => (.outOfFuel, ch, tr)

/-- a module call (bank, staking, …) writing straight into the storage it was handed -/
def moduleI (d : Dirt E) (ch : Chain E) (sender : Addr) (m : Msg)
    (r : Outcome (AppResponse × Chain E)) : Outcome AppResponse × Chain E :=
  match r with
  | .ok (a, ch') => (.ok a, ch')
  | .err => (.err, d.module ch sender m)
  | .panic => (.panic, d.module ch sender m)
  | .outOfFuel => (.outOfFuel, ch)

/-- `WasmKeeper::send` -/
def sendFundsI (d : Dirt E) (ch : Chain E) (sender : Addr) (recipient : String) (funds : Coins) :
    Outcome Unit × Chain E :=
  if funds.isEmpty then (.ok (), ch)
  else match moduleI d ch sender (.bankSend recipient funds) (bankExecute ch sender (.bankSend recipient funds)) with
    | (.ok _, ch') => (.ok (), ch')
    | (.err, ch') => (.err, ch')
    | (.panic, ch') => (.panic, ch')
    | (.outOfFuel, ch') => (.outOfFuel, ch')

/-- `call_* = verify_response(with_storage(..))`: the contract runs on a cache (`with_storage` is
`transactional`); the cache is committed when the entry point returns `Ok`, and only *then* is the
response validated — a rejected response leaves the contract's writes in the enclosing storage. -/
def callContractI (cfg : Config E) (d : Dirt E) (blk : Block) (ch : Chain E) (addr : Addr) (en : Entry)
    (tr : Trace) : ResI Response E :=
  match ch.contracts.get? addr with
  | none => (.err, ch, tr)
  | some cd =>
    match contractCode? cfg cd.codeId with
    | none => (.err, ch, tr)
    | some code =>
      let own := (ch.cstore.get? addr).getD []
      let env := contractEnv blk addr
      let (res, note) := code.run en env ch own
      let tr' := tr ++ [{ callee := addr, entry := en, env := env, note := note }]
      let dirty : Chain E := { ch with cstore := ch.cstore.set addr (d.contract addr en ch own) }
      let inner : ResI Response E := transactionalI ch
        (match res with
         | .ok (resp, own') => (.ok resp, { ch with cstore := ch.cstore.set addr own' }, tr')
         | .err => (.err, dirty, tr')
         | .panic => (.panic, dirty, tr')
         | .outOfFuel => (.outOfFuel, ch, tr'))
      match inner with
      | (.ok resp, ch', tr'') => if responseOk resp then (.ok resp, ch', tr'') else (.err, ch', tr'')
      | other => other

mutual

/-- `Router::execute` on the storage it was handed -/
def executeI (cfg : Config E) (d : Dirt E) (blk : Block) : Nat → Chain E → Addr → Msg → Trace →
    ResI AppResponse E
  | 0, ch, _, _, tr => (.outOfFuel, ch, tr)
  | fuel + 1, ch, sender, msg, tr =>
    match msg with
    | .bankSend .. | .bankBurn .. =>
      let r := moduleI d ch sender msg (bankExecute ch sender msg)
      (r.1, r.2, tr)
    | .ext kind payload =>
      let r := moduleI d ch sender msg (cfg.extExec kind ch blk sender payload)
      (r.1, r.2, tr)
    | .wasmUpdateAdmin contract admin =>
      match updateAdmin cfg ch sender contract (some admin) with
      | .ok (a, ch') => (.ok a, ch', tr)
      | .err => (.err, ch, tr)
      | .panic => (.panic, ch, tr)
      | .outOfFuel => (.outOfFuel, ch, tr)
    | .wasmClearAdmin contract =>
      match updateAdmin cfg ch sender contract none with
      | .ok (a, ch') => (.ok a, ch', tr)
      | .err => (.err, ch, tr)
      | .panic => (.panic, ch, tr)
      | .outOfFuel => (.outOfFuel, ch, tr)
    | .wasmExecute contract m funds =>
      if !cfg.validAddr contract then (.err, ch, tr) else
      match sendFundsI d ch sender contract funds with
      | (.ok _, ch1) =>
        match callContractI cfg d blk ch1 contract (.execute ⟨sender, funds⟩ m) tr with
        | (.ok resp, ch2, tr1) =>
          let custom : Event := { ty := "execute", attrs := [contractAttr contract] }
          let (ar, msgs) := buildAppResponse contract custom resp
          match processResponseI cfg d blk fuel ch2 contract ar msgs tr1 with
          | (.ok r, ch3, tr2) => (.ok { r with data := r.data.map encodeExecuteResponse }, ch3, tr2)
          | other => other
        | (.err, ch2, tr1) => (.err, ch2, tr1)
        | (.panic, ch2, tr1) => (.panic, ch2, tr1)
        | (.outOfFuel, ch2, tr1) => (.outOfFuel, ch2, tr1)
      | (.err, ch1) => (.err, ch1, tr)
      | (.panic, ch1) => (.panic, ch1, tr)
      | (.outOfFuel, ch1) => (.outOfFuel, ch1, tr)
    | .wasmInstantiate admin codeId m funds label salt =>
      if label.isEmpty then (.err, ch, tr) else
      match registerContract cfg ch codeId sender admin label blk.height salt with
      | .ok (addr, ch0) =>
        match sendFundsI d ch0 sender addr funds with
        | (.ok _, ch1) =>
          match callContractI cfg d blk ch1 addr (.instantiate ⟨sender, funds⟩ m) tr with
          | (.ok resp, ch2, tr1) =>
            let custom : Event :=
              { ty := "instantiate", attrs := [contractAttr addr, ⟨"code_id", toString codeId⟩] }
            let (ar, msgs) := buildAppResponse addr custom resp
            match processResponseI cfg d blk fuel ch2 addr ar msgs tr1 with
            | (.ok r, ch3, tr2) =>
              (.ok { r with data := some (encodeInstantiateResponse addr (r.data.getD [])) }, ch3, tr2)
            | other => other
          | (.err, ch2, tr1) => (.err, ch2, tr1)
          | (.panic, ch2, tr1) => (.panic, ch2, tr1)
          | (.outOfFuel, ch2, tr1) => (.outOfFuel, ch2, tr1)
        | (.err, ch1) => (.err, ch1, tr)
        | (.panic, ch1) => (.panic, ch1, tr)
        | (.outOfFuel, ch1) => (.outOfFuel, ch1, tr)
      | .err => (.err, ch, tr)
      | .panic => (.panic, ch, tr)
      | .outOfFuel => (.outOfFuel, ch, tr)
    | .wasmMigrate contract newCodeId m =>
      if !cfg.validAddr contract then (.err, ch, tr) else
      if !codeKnown cfg newCodeId then (.err, ch, tr) else
      match ch.contracts.get? contract with
      | none => (.err, ch, tr)
      | some cd =>
        if cd.admin ≠ some sender then (.err, ch, tr) else
        let ch1 := { ch with contracts := ch.contracts.set contract { cd with codeId := newCodeId } }
        match callContractI cfg d blk ch1 contract (.migrate m) tr with
        | (.ok resp, ch2, tr1) =>
          let custom : Event :=
            { ty := "migrate", attrs := [contractAttr contract, ⟨"code_id", toString newCodeId⟩] }
          let (ar, msgs) := buildAppResponse contract custom resp
          match processResponseI cfg d blk fuel ch2 contract ar msgs tr1 with
          | (.ok r, ch3, tr2) => (.ok { r with data := r.data.map encodeExecuteResponse }, ch3, tr2)
          | other => other
        | (.err, ch2, tr1) => (.err, ch2, tr1)
        | (.panic, ch2, tr1) => (.panic, ch2, tr1)
        | (.outOfFuel, ch2, tr1) => (.outOfFuel, ch2, tr1)

/-- `process_response`: `try_fold` over the sub-messages; `?` returns at the first `Err`, with everything
the earlier siblings committed still in the storage -/
def processResponseI (cfg : Config E) (d : Dirt E) (blk : Block) : Nat → Chain E → Addr → AppResponse →
    List SubMsg → Trace → ResI AppResponse E
  | 0, ch, _, _, _, tr => (.outOfFuel, ch, tr)
  | _ + 1, ch, _, resp, [], tr => (.ok resp, ch, tr)
  | fuel + 1, ch, contract, resp, sm :: rest, tr =>
    match executeSubmsgI cfg d blk fuel ch contract sm tr with
    | (.ok sr, ch1, tr1) =>
      processResponseI cfg d blk fuel ch1 contract
        { events := resp.events ++ sr.events, data := sr.data.orElse fun _ => resp.data } rest tr1
    | other => other

/-- `execute_submsg`: the message runs inside `transactional`; the reply runs on the enclosing storage -/
def executeSubmsgI (cfg : Config E) (d : Dirt E) (blk : Block) : Nat → Chain E → Addr → SubMsg → Trace →
    ResI AppResponse E
  | 0, ch, _, _, tr => (.outOfFuel, ch, tr)
  | fuel + 1, ch, contract, sm, tr =>
    match transactionalI ch (executeI cfg d blk fuel ch contract sm.msg tr) with
    | (.ok r, ch1, tr1) =>
      if wantsReplyOnOk sm.replyOn then
        match replyI cfg d blk fuel ch1 contract ⟨sm.id, sm.payload, .ok r.events r.data⟩ tr1 with
        | (.ok rr, ch2, tr2) => (.ok { events := r.events ++ rr.events, data := rr.data }, ch2, tr2)
        | other => other
      else (.ok { r with data := none }, ch1, tr1)
    | (.err, ch0, tr1) =>
      if wantsReplyOnErr sm.replyOn then
        replyI cfg d blk fuel ch0 contract ⟨sm.id, sm.payload, .err⟩ tr1
      else (.err, ch0, tr1)
    | (.panic, ch0, tr1) => (.panic, ch0, tr1)
    | (.outOfFuel, ch0, tr1) => (.outOfFuel, ch0, tr1)

/-- `reply` -/
def replyI (cfg : Config E) (d : Dirt E) (blk : Block) : Nat → Chain E → Addr → Reply → Trace →
    ResI AppResponse E
  | 0, ch, _, _, tr => (.outOfFuel, ch, tr)
  | fuel + 1, ch, contract, rp, tr =>
    let mode := match rp.result with | .ok .. => "handle_success" | .err => "handle_failure"
    let custom : Event := { ty := "reply", attrs := [contractAttr contract, ⟨"mode", mode⟩] }
    match callContractI cfg d blk ch contract (.reply rp) tr with
    | (.ok resp, ch1, tr1) =>
      let (ar, msgs) := buildAppResponse contract custom resp
      processResponseI cfg d blk fuel ch1 contract ar msgs tr1
    | (.err, ch1, tr1) => (.err, ch1, tr1)
    | (.panic, ch1, tr1) => (.panic, ch1, tr1)
    | (.outOfFuel, ch1, tr1) => (.outOfFuel, ch1, tr1)

end

/-- `WasmKeeper::sudo` -/
def wasmSudoI (cfg : Config E) (d : Dirt E) (blk : Block) (fuel : Nat) (ch : Chain E) (contract : Addr)
    (m : Val) (tr : Trace) : ResI AppResponse E :=
  match callContractI cfg d blk ch contract (.sudo m) tr with
  | (.ok resp, ch1, tr1) =>
    let custom : Event := { ty := "sudo", attrs := [contractAttr contract] }
    let (ar, msgs) := buildAppResponse contract custom resp
    processResponseI cfg d blk fuel ch1 contract ar msgs tr1
  | (.err, ch1, tr1) => (.err, ch1, tr1)
  | (.panic, ch1, tr1) => (.panic, ch1, tr1)
  | (.outOfFuel, ch1, tr1) => (.outOfFuel, ch1, tr1)

/-- `Router::sudo` -/
def routerSudoI (cfg : Config E) (d : Dirt E) (blk : Block) (fuel : Nat) (ch : Chain E) (m : SudoMsg)
    (tr : Trace) : ResI AppResponse E :=
  match m with
  | .bankMint to amount =>
    if !cfg.validAddr to then (.err, ch, tr) else
    match Bank.mint ch.bank to amount with
    | some b => (.ok {}, { ch with bank := b }, tr)
    | none => (.err, d.sudo ch [], tr)
  | .wasm contract msg => wasmSudoI cfg d blk fuel ch contract msg tr
  | .ext payload =>
    match cfg.extSudo ch blk payload with
    | .ok (a, ch') => (.ok a, ch', tr)
    | .err => (.err, d.sudo ch payload, tr)
    | .panic => (.panic, d.sudo ch payload, tr)
    | .outOfFuel => (.outOfFuel, ch, tr)

namespace AppI

/-- the loop of `execute_multi` inside the one cache: stops at the first `Err`, earlier messages' writes
(and the failing message's dirt) still in the cache -/
def runMsgsI (cfg : Config E) (d : Dirt E) (blk : Block) (fuel : Nat) : Chain E → Addr → List Msg → Trace →
    ResI (List AppResponse) E
  | ch, _, [], tr => (.ok [], ch, tr)
  | ch, sender, m :: ms, tr =>
    match executeI cfg d blk fuel ch sender m tr with
    | (.ok r, ch1, tr1) =>
      match runMsgsI cfg d blk fuel ch1 sender ms tr1 with
      | (.ok rs, ch2, tr2) => (.ok (r :: rs), ch2, tr2)
      | other => other
    | (.err, ch1, tr1) => (.err, ch1, tr1)
    | (.panic, ch1, tr1) => (.panic, ch1, tr1)
    | (.outOfFuel, ch1, tr1) => (.outOfFuel, ch1, tr1)

/-- `App::execute_multi` -/
def executeMulti (cfg : Config E) (d : Dirt E) (blk : Block) (fuel : Nat) (ch : Chain E) (sender : Addr)
    (msgs : List Msg) : ResI (List AppResponse) E :=
  transactionalI ch (runMsgsI cfg d blk fuel ch sender msgs [])

/-- `App::sudo` -/
def sudo (cfg : Config E) (d : Dirt E) (blk : Block) (fuel : Nat) (ch : Chain E) (m : SudoMsg) :
    ResI AppResponse E :=
  transactionalI ch (routerSudoI cfg d blk fuel ch m [])

/-- `App::wasm_sudo` -/
def wasmSudo (cfg : Config E) (d : Dirt E) (blk : Block) (fuel : Nat) (ch : Chain E) (contract : Addr)
    (m : Val) : ResI AppResponse E :=
  transactionalI ch (wasmSudoI cfg d blk fuel ch contract m [])

end AppI

/-- forget the state of a failed step: the value-semantics view of an imperative result -/
def ResI.forget {α : Type} (r : ResI α E) : Outcome (α × Chain E) × Trace :=
  match r with
  | (.ok a, ch, tr) => (.ok (a, ch), tr)
  | (.err, _, tr) => (.err, tr)
  | (.panic, _, tr) => (.panic, tr)
  | (.outOfFuel, _, tr) => (.outOfFuel, tr)

end CwMt
