/-
  CwMt.Model.Basic — shared vocabulary of the executable model.
  Core Lean only (no Mathlib), so the driver links as a native executable.
-/
namespace CwMt

abbrev Key := List UInt8
abbrev Val := List UInt8

/-- Iteration order of `Storage::range` (cosmwasm_std::Order). -/
inductive Order where
  | asc
  | desc
  deriving DecidableEq, Repr, Inhabited

/-- Result of a modelled Rust call. `panic` makes `unwrap`/`expect`/`unimplemented!` sites explicit;
`outOfFuel` is the model's own artefact for fuel-indexed recursion and is never mapped to `ok`/`err`. -/
inductive Outcome (α : Type) where
  | ok (a : α)
  | err
  | panic
  | outOfFuel
  deriving Repr, DecidableEq, Inhabited

namespace Outcome

def map {α β} (f : α → β) : Outcome α → Outcome β
  | ok a => ok (f a)
  | err => err
  | panic => panic
  | outOfFuel => outOfFuel

def bind {α β} (x : Outcome α) (f : α → Outcome β) : Outcome β :=
  match x with
  | ok a => f a
  | err => err
  | panic => panic
  | outOfFuel => outOfFuel

def isOk {α} : Outcome α → Bool
  | ok _ => true
  | _ => false

end Outcome

/-- `start ≤ k` for an optional inclusive lower bound. -/
def geStart (s : Option Key) (k : Key) : Bool :=
  match s with
  | none => true
  | some s => decide (s ≤ k)

/-- `k < end` for an optional exclusive upper bound. -/
def ltEnd (e : Option Key) (k : Key) : Bool :=
  match e with
  | none => true
  | some e => decide (k < e)

def inBounds (s e : Option Key) (k : Key) : Bool := geStart s k && ltEnd e k

end CwMt
