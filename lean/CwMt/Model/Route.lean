/-
  CwMt.Model.Route — hand-written vocabulary and semantics for the two translator-tied
  properties (DESIGN.md section 5, C17 and C20; tie T).

  The *tables* (`CwMt/Gen/Router.lean`, `Gen/Lift.lean`, `Gen/Builder.lean`, `Gen/Wrapper.lean`) are
  regenerated from /repo/src on every run by checklib/tr_router.py and checklib/tr_builder.py.
  This file fixes
    * the vocabulary the tables are written in (message kinds, router fields, methods, argument
      names, builder/wrapper fields and steps; everything the translators do not recognise becomes
      the constructor `other` / `unparsed`, which no theorem accepts),
    * the semantics of a Rust `match` over an arm table (first enabled arm whose pattern is the
      variant; otherwise the `_ =>` arm),
    * the semantics of a struct rebuild step over a field table (`kept`, `param`, `reset`, `moved`),
    * a builder as a fold of steps, and `build`.
  Core Lean only (linked into cwmt-driver).
-/
namespace CwMt.Route

/-! ## C17: vocabulary -/

/-- cargo feature guarding a match arm (`#[cfg(feature = "…")]`). -/
inductive Feature where
  | none | staking | stargate | cosmwasm_2_0 | other
  deriving DecidableEq, Repr, Inhabited

/-- Which cargo features are switched on. The harness builds /repo with
`staking,stargate,cosmwasm_2_2` (the last implies `cosmwasm_2_0`). -/
structure FeatureSet where
  staking : Bool
  stargate : Bool
  cosmwasm_2_0 : Bool
  deriving DecidableEq, Repr

def FeatureSet.has (fs : FeatureSet) : Feature → Bool
  | .none => true
  | .staking => fs.staking
  | .stargate => fs.stargate
  | .cosmwasm_2_0 => fs.cosmwasm_2_0
  | .other => false

def FeatureSet.harness : FeatureSet := ⟨true, true, true⟩

/-- Variants of `CosmosMsg` / `QueryRequest` / `SudoMsg`. -/
inductive Kind where
  | wasm | bank | custom | staking | distribution | ibc | gov | stargate | any | grpc | other
  deriving DecidableEq, Repr, Inhabited

/-- Fields of `Router` (the module slots). -/
inductive Mod where
  | wasm | bank | custom | staking | distribution | ibc | gov | stargate | other
  deriving DecidableEq, Repr, Inhabited

inductive Method where
  | execute | query | sudo | execute_stargate | execute_any | query_stargate | query_grpc | other
  deriving DecidableEq, Repr, Inhabited

/-- An argument of the call in an arm body. `bound i` is the i-th variable bound by the arm's pattern,
passed as a plain identifier (i.e. unmodified); the context names are the function's own parameters
(`self` is `router`, `&querier` is `querier`); anything else is `other`. -/
inductive Arg where
  | api | storage | router | querier | block | sender | bound (i : Nat) | other
  deriving DecidableEq, Repr, Inhabited

/-- What the `_ =>` arm does. -/
inductive Fall where
  | bail | unimplemented | unreachable | panic | missing | other
  deriving DecidableEq, Repr, Inhabited

structure Arm where
  variant : Kind
  feature : Feature
  /-- number of variables bound by the pattern -/
  binders : Nat
  recv : Mod
  method : Method
  args : List Arg
  /-- the arm body is exactly `self.<recv>.<method>(<args>)`: the module's result is the arm's result -/
  direct : Bool
  deriving DecidableEq, Repr

structure MatchTable where
  /-- the scrutinee is the function's message parameter itself -/
  onParam : Bool
  /-- the function body is the `match` and nothing else (for `query`: after `let querier = self.querier(api, storage, block);`) -/
  bodyIsMatch : Bool
  arms : List Arm
  fall : Fall
  deriving DecidableEq, Repr

inductive Dispatch where
  | call (m : Mod) (meth : Method) (args : List Arg) (direct : Bool)
  | fall (f : Fall)
  | malformed
  deriving DecidableEq, Repr

/-- Semantics of the Rust `match`: arms whose `cfg` is off do not exist; the first remaining arm whose
pattern is the variant is taken; otherwise the wildcard arm. -/
def route (fs : FeatureSet) (t : MatchTable) (k : Kind) : Dispatch :=
  if !(t.onParam && t.bodyIsMatch) then .malformed else
  match t.arms.find? (fun a => fs.has a.feature && a.variant == k) with
  | some a => .call a.recv a.method a.args a.direct
  | none => .fall t.fall

/-- Number of arms (whatever their `cfg`) written for a variant. -/
def armCount (t : MatchTable) (k : Kind) : Nat := (t.arms.filter (fun a => a.variant == k)).length

def boundArgs (n : Nat) : List Arg := (List.range n).map Arg.bound

/-! ### sub-messages: which entry point emitted them -/

/-- The contract entry points that return a `Response` and hence can emit sub-messages. -/
inductive Origin where
  | instantiate | execute | migrate | sudo | reply
  deriving DecidableEq, Repr, Inhabited

def Origin.all : List Origin := [.instantiate, .execute, .migrate, .sudo, .reply]

/-- How the request that makes the contract run the entry point reaches the wasm module: `sudo` is a
`SudoMsg::Wasm` (sudo table), every other one starts from a `CosmosMsg::Wasm` (exec table; `reply` is
reached from an `execute` whose sub-message asks for a reply). -/
def Origin.viaSudo : Origin → Bool
  | .sudo => true
  | _ => false

/-- A sub-message as it is handed to the router: who is named as sender, and where it goes. -/
structure SubDispatch (A : Type) where
  sender : A
  target : Dispatch
  deriving Repr

/-- The model of sub-message dispatch: whatever entry point `o` of contract `c` returned the message,
it goes through the same `match` of `Router::execute`, with `c` as sender. (That the wasm module really
passes the contract — `process_response(…, contract_addr, …)` in all five wrappers — is an engine fact:
C05 `sender_authentic`, C17 `migrate_submessages_sent_by_contract`, and the `send-sub-from` ops.) -/
def subDispatch {A : Type} (fs : FeatureSet) (t : MatchTable) (_o : Origin) (c : A) (k : Kind) : SubDispatch A :=
  { sender := c, target := route fs t k }

/-! ### lifting (`customize_msg`) -/

inductive LiftOut where
  /-- `CosmosMsg::K(b0, …)` / `CosmosMsg::K { b0, … }` rebuilt from the given arguments -/
  | rebuild (k : Kind) (args : List Arg)
  | diverge (f : Fall)
  | other
  deriving DecidableEq, Repr

structure LiftArm where
  variant : Kind
  feature : Feature
  binders : Nat
  out : LiftOut
  deriving DecidableEq, Repr

/-- Fields of `SubMsg`. -/
inductive SubField where
  | id | payload | msg | gas_limit | reply_on | other
  deriving DecidableEq, Repr

structure LiftTable where
  /-- the function body is one `SubMsg { … }` literal whose `msg` field is `match msg.msg { … }` -/
  bodyIsRebuild : Bool
  /-- per field of the rebuilt `SubMsg` other than `msg`: is it `msg.<same field>`? -/
  subFields : List (SubField × Bool)
  arms : List LiftArm
  fall : Fall
  deriving DecidableEq, Repr

inductive Lifted where
  /-- lifted to variant `k`; `intact` = the pattern's variables are passed through as they are -/
  | msg (k : Kind) (intact : Bool)
  | diverge (f : Fall)
  | malformed
  deriving DecidableEq, Repr

def lift (fs : FeatureSet) (t : LiftTable) (k : Kind) : Lifted :=
  if !t.bodyIsRebuild then .malformed else
  match t.arms.find? (fun a => fs.has a.feature && a.variant == k) with
  | some a =>
    match a.out with
    | .rebuild k' args => .msg k' (args == boundArgs a.binders)
    | .diverge f => .diverge f
    | .other => .malformed
  | none => .diverge t.fall

def liftArmCount (t : LiftTable) (k : Kind) : Nat := (t.arms.filter (fun a => a.variant == k)).length

def subFieldKept (t : LiftTable) (f : SubField) : Bool :=
  match t.subFields.lookup f with
  | some b => b
  | none => false

/-! ### the specification side of C17 (what the property text says, per kind) -/

/-- The module an application is built with for a message kind. -/
def Kind.module : Kind → Mod
  | .wasm => .wasm | .bank => .bank | .custom => .custom | .staking => .staking
  | .distribution => .distribution | .ibc => .ibc | .gov => .gov
  | .stargate => .stargate | .any => .stargate | .grpc => .stargate | .other => .other

/-- The cargo feature without which the variant does not exist in cosmwasm-std / is not routed. -/
def Kind.feature : Kind → Feature
  | .wasm | .bank | .custom => .none
  | .staking | .distribution => .staking
  | .ibc | .gov | .stargate => .stargate
  | .any | .grpc => .cosmwasm_2_0
  | .other => .other

/-- number of payload components of the variant (`Stargate { type_url, value }` / `{ path, data }` has two) -/
def Kind.parts : Kind → Nat
  | .stargate => 2
  | _ => 1

def execKinds : List Kind := [.wasm, .bank, .custom, .staking, .distribution, .ibc, .gov, .stargate, .any]
/-- R3: the kinds the router has a module slot for. -/
def queryKinds : List Kind := [.wasm, .bank, .custom, .staking, .ibc, .stargate, .grpc]
def sudoKinds : List Kind := [.wasm, .bank, .staking]

def execMethod : Kind → Method
  | .stargate => .execute_stargate
  | .any => .execute_any
  | _ => .execute

def queryMethod : Kind → Method
  | .stargate => .query_stargate
  | .grpc => .query_grpc
  | _ => .query

/-- canonical argument lists: context handed on, sender and payload as bound by the pattern -/
def execArgs (k : Kind) : List Arg := [.api, .storage, .router, .block, .sender] ++ boundArgs k.parts
def queryArgs (k : Kind) : List Arg := [.api, .storage, .querier, .block] ++ boundArgs k.parts
def sudoArgs (k : Kind) : List Arg := [.api, .storage, .router, .block] ++ boundArgs k.parts

/-! ## C20: struct rebuild steps -/

/-- Where a field of the rebuilt struct literal comes from. The recorded expressions are for reports
only; no theorem inspects them. -/
inductive Src (F : Type) where
  /-- shorthand field bound from `self` by the destructuring, or `self.f`, for the *same* field -/
  | kept
  /-- computed from the step's `i`-th parameter (possibly boxed / wrapped: the expression is recorded) -/
  | param (i : Nat) (expr : String)
  /-- a constant expression -/
  | reset (expr : String)
  /-- taken from a *different* field of `self` -/
  | moved (src : F)
  | unparsed (expr : String)
  deriving Repr

inductive SrcTag where
  | kept | param (i : Nat) | reset | moved | unparsed | missing
  deriving DecidableEq, Repr

def Src.tag {F} : Src F → SrcTag
  | .kept => .kept
  | .param i _ => .param i
  | .reset _ => .reset
  | .moved _ => .moved
  | .unparsed _ => .unparsed

/-- One builder method: the rebuilt struct literal, field by field, and the number of parameters. -/
structure Row (F : Type) where
  params : Nat
  fields : List (F × Src F)
  deriving Repr

abbrev Table (S F : Type) := List (S × Row F)

/-- Value of a component slot. -/
inductive CVal (α : Type) where
  | supplied (a : α)
  /-- the constant expression a constructor / step wrote (e.g. `BankKeeper::new()`, `None`) -/
  | const (expr : String)
  | undef
  deriving Repr, DecidableEq

def srcOf {F} [DecidableEq F] (r : Row F) (f : F) : Option (Src F) := r.fields.lookup f

def tagOf {F} [DecidableEq F] (r : Row F) (f : F) : SrcTag :=
  match srcOf r f with
  | some s => s.tag
  | none => .missing

/-- Semantics of a struct rebuild: evaluate every field of the literal in the old state `s`;
`args i` is the value of the method's `i`-th parameter. -/
def applyRow {F α} [DecidableEq F] (r : Row F) (args : Nat → CVal α) (s : F → CVal α) : F → CVal α := fun f =>
  match srcOf r f with
  | some .kept => s f
  | some (.param i _) => args i
  | some (.reset e) => .const e
  | some (.moved g) => s g
  | some (.unparsed _) => .undef
  | none => .undef

def applyStep {S F α} [DecidableEq S] [DecidableEq F] (t : Table S F) (st : S) (args : Nat → CVal α)
    (s : F → CVal α) : F → CVal α :=
  match t.lookup st with
  | some r => applyRow r args s
  | none => fun _ => .undef

/-- A builder run: any list of single-parameter steps, left to right, from the state `init`. -/
def runSteps {S F α} [DecidableEq S] [DecidableEq F] (t : Table S F) (init : F → CVal α)
    (l : List (S × α)) : F → CVal α :=
  l.foldl (fun s p => applyStep t p.1 (fun _ => .supplied p.2) s) init

/-- A constructor: a rebuild from nothing (there is no `self`). -/
def construct {S F α} [DecidableEq S] [DecidableEq F] (t : Table S F) (ctor : S) (args : Nat → CVal α) : F → CVal α :=
  applyStep t ctor args (fun _ => .undef)

def CVal.isConst {α} : CVal α → Bool
  | .const _ => true
  | _ => false

/-- Specification: the value supplied by the last step (in list order) whose target is `f`. -/
def lastFor {S F α} [DecidableEq F] (target : S → F) (f : F) : List (S × α) → Option α
  | [] => none
  | p :: l =>
    match lastFor target f l with
    | some a => some a
    | none => if target p.1 = f then some p.2 else none

/-- Frame condition of one step row: its target field is set from its single parameter, every other
field of `fields` is kept. -/
def rowFrameOk {F} [DecidableEq F] (fields : List F) (target : F) (r : Row F) : Bool :=
  r.params == 1 && fields.all (fun f => tagOf r f == (if f = target then SrcTag.param 0 else SrcTag.kept))

/-- Frame condition of the table for the given steps: each has a row, and the row is a frame. -/
def frameOk {S F} [DecidableEq S] [DecidableEq F] (fields : List F) (target : S → F) (steps : List S)
    (t : Table S F) : Bool :=
  steps.all (fun st => match t.lookup st with
    | some r => rowFrameOk fields (target st) r
    | none => false)

/-- The executable counter-example finder: every (step, field, observed tag) that breaks the frame. -/
def frameViolations {S F} [DecidableEq S] [DecidableEq F] (fields : List F) (target : S → F) (steps : List S)
    (t : Table S F) : List (S × F × SrcTag) :=
  steps.flatMap (fun st => match t.lookup st with
    | some r => (fields.filter (fun f => tagOf r f != (if f = target st then SrcTag.param 0 else SrcTag.kept))).map
                  (fun f => (st, f, tagOf r f))
    | none => fields.map (fun f => (st, f, SrcTag.missing)))

/-! ### AppBuilder -/

inductive BField where
  | api | block | storage | bank | wasm | custom | staking | distribution | ibc | gov | stargate | other
  deriving DecidableEq, Repr, Inhabited

def BField.all : List BField :=
  [.api, .block, .storage, .bank, .wasm, .custom, .staking, .distribution, .ibc, .gov, .stargate]

inductive BStep where
  | new | new_custom
  | with_wasm | with_bank | with_api | with_storage | with_custom | with_staking | with_distribution
  | with_ibc | with_gov | with_stargate | with_block | other
  deriving DecidableEq, Repr, Inhabited

def BStep.withSteps : List BStep :=
  [.with_wasm, .with_bank, .with_api, .with_storage, .with_custom, .with_staking, .with_distribution,
   .with_ibc, .with_gov, .with_stargate, .with_block]

/-- The component a `with_*` step is for. -/
def BStep.target : BStep → BField
  | .with_wasm => .wasm | .with_bank => .bank | .with_api => .api | .with_storage => .storage
  | .with_custom => .custom | .with_staking => .staking | .with_distribution => .distribution
  | .with_ibc => .ibc | .with_gov => .gov | .with_stargate => .stargate | .with_block => .block
  | .new | .new_custom | .other => .other

/-- Statements of `AppBuilder::build`, in order. -/
inductive BuildStmt where
  /-- `let mut app = App { router: Router { … }, … };` -/
  | construct
  /-- `app.init_modules(init_fn);` -/
  | init
  /-- trailing `app` -/
  | ret
  | other
  deriving DecidableEq, Repr

/-- Arguments `App::init_modules` hands to the init function. -/
inductive InitArg where
  | router | api | storage | other
  deriving DecidableEq, Repr

structure BuildInfo where
  /-- per field of `App` / `Router` in the literal: the builder field it is moved from (`self.g`) -/
  moves : List (BField × Src BField)
  /-- fields placed inside `router: Router { … }` -/
  routerFields : List BField
  stmts : List BuildStmt
  /-- `init_modules` body is exactly `init_fn(<these>)` -/
  initArgs : List InitArg
  deriving Repr

/-- The built application: its eleven components and, per run of the init function, the storage
value it ran against. -/
structure AppModel (α : Type) where
  comp : BField → CVal α
  inits : List (CVal α)

/-- The `App { router: Router { … }, … }` literal of `build`, evaluated on the builder `b`. -/
def buildComp {α} (bi : BuildInfo) (b : BField → CVal α) : BField → CVal α := fun f =>
  match bi.moves.lookup f with
  | some .kept => b f
  | some (.moved g) => b g
  | some (.reset e) => .const e
  | _ => .undef

/-- Runs the statements of `build`. `init` before `construct`, anything after the trailing `app`, or a
missing trailing `app` gives `none` (such a body is not the one the model understands). -/
def runStmts {α} (bi : BuildInfo) (b : BField → CVal α) : List BuildStmt → Option (AppModel α) → Option (AppModel α)
  | [.ret], some a => some a
  | .construct :: rest, none => runStmts bi b rest (some ⟨buildComp bi b, []⟩)
  | .init :: rest, some a =>
    if bi.initArgs == [.router, .api, .storage] then
      runStmts bi b rest (some ⟨a.comp, a.inits ++ [a.comp .storage]⟩)
    else none
  | _, _ => none

/-- Semantics of `AppBuilder::build`. -/
def runBuild {α} (bi : BuildInfo) (b : BField → CVal α) : Option (AppModel α) := runStmts bi b bi.stmts none

/-! ### ContractWrapper -/

inductive WField where
  | execute_fn | instantiate_fn | query_fn | sudo_fn | reply_fn | migrate_fn | checksum | other
  deriving DecidableEq, Repr, Inhabited

def WField.all : List WField :=
  [.execute_fn, .instantiate_fn, .query_fn, .sudo_fn, .reply_fn, .migrate_fn, .checksum]

inductive WStep where
  | new | new_with_empty
  | with_sudo | with_sudo_empty | with_reply | with_reply_empty | with_migrate | with_migrate_empty
  | with_checksum | other
  deriving DecidableEq, Repr, Inhabited

def WStep.withSteps : List WStep :=
  [.with_sudo, .with_sudo_empty, .with_reply, .with_reply_empty, .with_migrate, .with_migrate_empty, .with_checksum]

def WStep.target : WStep → WField
  | .with_sudo | .with_sudo_empty => .sudo_fn
  | .with_reply | .with_reply_empty => .reply_fn
  | .with_migrate | .with_migrate_empty => .migrate_fn
  | .with_checksum => .checksum
  | .new | .new_with_empty | .other => .other

/-- Constructor frame: the three mandatory entry points come from parameters 0,1,2; the four optional
slots are constants. -/
def ctorOk (r : Row WField) : Bool :=
  r.params == 3 &&
  tagOf r .execute_fn == .param 0 && tagOf r .instantiate_fn == .param 1 && tagOf r .query_fn == .param 2 &&
  tagOf r .sudo_fn == .reset && tagOf r .reply_fn == .reset && tagOf r .migrate_fn == .reset &&
  tagOf r .checksum == .reset

end CwMt.Route
