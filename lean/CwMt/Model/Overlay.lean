import CwMt.Model.Store
/-
  CwMt.Model.Overlay — model of `StorageTransaction` / `RepLog` / `MergeOverlay` / `transactional`
  (/repo/src/transactions.rs:14-247), transcribed arm by arm.

  * `local_state : BTreeMap<Vec<u8>, Delta>`  ↦  `Layer.loc : Store Delta` (sorted association list)
  * `rep_log : RepLog`                          ↦  `Layer.log : List Op` (append order)
  * `storage : &dyn Storage` (the base)         ↦  the rest of the `Stack`
  * `MergeOverlay::{next, pick_match, take_left}` ↦ `merge` (the recursive call of `take_left` into
    `next` on a `Delete` is the `.del` arms that continue with `merge`).
-/
namespace CwMt

inductive Delta where
  | set (v : Val)
  | del
  deriving DecidableEq, Repr, Inhabited

inductive Op where
  | set (k : Key) (v : Val)
  | del (k : Key)
  deriving DecidableEq, Repr, Inhabited

def Op.key : Op → Key
  | .set k _ => k
  | .del k => k

/-- `Op::to_delta` -/
def Op.toDelta : Op → Delta
  | .set _ v => .set v
  | .del _ => .del

structure Layer where
  loc : Store Delta := []
  log : List Op := []
  deriving Repr, Inhabited

/-- a stack of write-caches over a root `MemoryStorage`; any depth -/
inductive Stack where
  | root (m : Store Val)
  | layer (base : Stack) (l : Layer)
  deriving Repr, Inhabited

/-- "`a` is yielded before `b`" in iteration order `o` (the `lkey.cmp(&rkey)` / `rkey.cmp(&lkey)`
of `pick_match` being `Less`). -/
def before (o : Order) (a b : Key) : Bool :=
  match o with
  | .asc => decide (a < b)
  | .desc => decide (b < a)

/-- `MergeOverlay` as a function of the two remaining streams: left = local deltas (already
restricted to the bounds and put in iteration order), right = the base's range. -/
def merge (o : Order) : List (Key × Delta) → List (Key × Val) → List (Key × Val)
  | [], r => r                                            -- (None, Some(_)) => right.next(); (None, None) => None
  | (lk, .set v) :: l, [] => (lk, v) :: merge o l []      -- (Some(_), None) => take_left: Set
  | (_, .del) :: l, [] => merge o l []                    -- (Some(_), None) => take_left: Delete => self.next()
  | (lk, d) :: l, (rk, rv) :: r =>
    if lk = rk then                                       -- Ordering::Equal => drop right, take_left
      match d with
      | .set v => (lk, v) :: merge o l r
      | .del => merge o l r
    else if before o lk rk then                           -- Ordering::Less => take_left
      match d with
      | .set v => (lk, v) :: merge o l ((rk, rv) :: r)
      | .del => merge o l ((rk, rv) :: r)
    else                                                  -- Ordering::Greater => right.next()
      (rk, rv) :: merge o ((lk, d) :: l) r
termination_by l r => l.length + r.length

/-- The `local` iterator of `StorageTransaction::range`: `BTreeMap::range` panics when
`start > end`, so the code short-circuits that case to the empty iterator; otherwise the bounded
range in the requested direction. -/
def localRange (loc : Store Delta) (s e : Option Key) (o : Order) : List (Key × Delta) :=
  match s, e with
  | some s', some e' => if e' < s' then [] else loc.range s e o
  | _, _ => loc.range s e o

namespace Stack

def get : Stack → Key → Option Val
  | root m, k => m.get k
  | layer b l, k =>
    match l.loc.get k with
    | some (.set v) => some v
    | some .del => none
    | none => b.get k

def range : Stack → Option Key → Option Key → Order → List (Key × Val)
  | root m, s, e, o => m.range s e o
  | layer b l, s, e, o => merge o (localRange l.loc s e o) (b.range s e o)

def set : Stack → Key → Val → Stack
  | root m, k, v => root (m.set k v)
  | layer b l, k, v => layer b { loc := l.loc.set k (.set v), log := l.log ++ [.set k v] }

def remove : Stack → Key → Stack
  | root m, k => root (m.remove k)
  | layer b l, k => layer b { loc := l.loc.set k .del, log := l.log ++ [.del k] }

/-- `Op::apply` -/
def applyOp (st : Stack) : Op → Stack
  | .set k v => st.set k v
  | .del k => st.remove k

/-- `RepLog::commit`: replay in order -/
def applyLog (st : Stack) (log : List Op) : Stack := log.foldl applyOp st

/-- `StorageTransaction::new(base)` -/
def push (st : Stack) : Stack := layer st {}

/-- `cache.prepare().commit(base)` -/
def commit : Stack → Stack
  | root m => root m
  | layer b l => b.applyLog l.log

/-- dropping the cache -/
def discard : Stack → Stack
  | root m => root m
  | layer b _ => b

def depth : Stack → Nat
  | root _ => 0
  | layer b _ => b.depth + 1

def rootStore : Stack → Store Val
  | root m => m
  | layer b _ => b.rootStore

end Stack

/-- apply one recorded delta to a plain map -/
def applyDelta (m : Store Val) (k : Key) : Delta → Store Val
  | .set v => m.set k v
  | .del => m.remove k

/-- The ordered map a stack denotes: the root with every layer's deltas applied bottom-up. -/
def abs : Stack → Store Val
  | .root m => m
  | .layer b l => l.loc.foldl (fun m p => applyDelta m p.1 p.2) (abs b)

end CwMt
