import CwMt.Model.Store
import CwMt.Model.Bank
import CwMt.Model.Wire
/-
  CwMt.Model.Engine — the message-processing engine of the simulator:
  `App::{execute_multi, execute, sudo, wasm_sudo}` (/repo/src/app.rs:439-504), `Router::{execute,
  sudo}` dispatch (app.rs:645-725), `BankKeeper` as a module (bank.rs:184-290) and
  `WasmKeeper::{execute_wasm, process_wasm_msg_instantiate, execute_submsg, reply, build_app_response,
  process_response, register_contract, call_*, with_storage, update_admin, sudo}` (wasm.rs:206-1224).

  Value semantics: every function returns a new chain state *only* on `ok`; an error has no state,
  which is exactly what `transactional` (drop the cache on `Err`) gives the caller, and is justified
  for the real overlay machinery by C06 (`CwMt/Props/C06.lean`).  Contracts and non-bank/non-wasm
  modules are arbitrary functions.  Recursion through contract calls takes `fuel`; running out of
  fuel is the distinguished outcome `outOfFuel`.

  Ghost output: the invocation `Trace` (one entry per contract entry-point invocation, in execution
  order, including invocations inside sub-messages that are later rolled back).
-/
namespace CwMt

inductive ReplyOn where
  | always | error | success | never
  deriving DecidableEq, Repr, Inhabited

structure Attr where
  key : String
  value : String
  deriving DecidableEq, Repr, Inhabited

structure Event where
  ty : String
  attrs : List Attr
  deriving DecidableEq, Repr, Inhabited

structure Block where
  height : Nat
  time : Nat
  chainId : String
  deriving DecidableEq, Repr, Inhabited

/-- message kinds the router hands to modules other than bank and wasm -/
inductive ExtKind where
  | staking | distribution | custom | ibc | gov | stargate | any
  deriving DecidableEq, Repr, Inhabited

/-- `CosmosMsg` (message payloads of contracts are opaque bytes) -/
inductive Msg where
  | bankSend (to : String) (amount : Coins)
  | bankBurn (amount : Coins)
  | wasmExecute (contract : String) (msg : Val) (funds : Coins)
  | wasmInstantiate (admin : Option String) (codeId : Nat) (msg : Val) (funds : Coins) (label : String)
      (salt : Option Val)
  | wasmMigrate (contract : String) (newCodeId : Nat) (msg : Val)
  | wasmUpdateAdmin (contract : String) (admin : String)
  | wasmClearAdmin (contract : String)
  | ext (kind : ExtKind) (payload : Val)
  deriving DecidableEq, Repr, Inhabited

structure SubMsg where
  id : Nat
  msg : Msg
  replyOn : ReplyOn
  payload : Val
  deriving DecidableEq, Repr, Inhabited

structure Response where
  msgs : List SubMsg := []
  attrs : List Attr := []
  events : List Event := []
  data : Option Val := none
  deriving DecidableEq, Repr, Inhabited

structure AppResponse where
  events : List Event := []
  data : Option Val := none
  deriving DecidableEq, Repr, Inhabited

structure MsgInfo where
  sender : Addr
  funds : Coins
  deriving DecidableEq, Repr, Inhabited

structure Env where
  block : Block
  contract : Addr
  deriving DecidableEq, Repr, Inhabited

/-- `SubMsgResult` as delivered in `Reply` (the error text is not modelled) -/
inductive SubResult where
  | ok (events : List Event) (data : Option Val)
  | err
  deriving DecidableEq, Repr, Inhabited

structure Reply where
  id : Nat
  payload : Val
  result : SubResult
  deriving DecidableEq, Repr, Inhabited

inductive Entry where
  | execute (info : MsgInfo) (msg : Val)
  | instantiate (info : MsgInfo) (msg : Val)
  | reply (r : Reply)
  | sudo (msg : Val)
  | migrate (msg : Val)
  deriving DecidableEq, Repr, Inhabited

structure ContractData where
  codeId : Nat
  creator : Addr
  admin : Option Addr
  label : String
  created : Nat
  deriving DecidableEq, Repr, Inhabited

structure CodeData where
  creator : Addr
  checksum : Val
  sourceId : Nat
  deriving DecidableEq, Repr, Inhabited

/-- The chain state held in the root storage. `E` is the state of the modules that are parameters
(staking, distribution, custom, …). -/
structure Chain (E : Type) where
  bank : Bank.State := []
  contracts : AMap ContractData := []
  cstore : AMap (Store Val) := []
  ext : E

/-- One contract entry-point invocation as observed from outside (ghost). -/
structure TraceEntry where
  callee : Addr
  entry : Entry
  env : Env
  note : String
  deriving Repr, Inhabited

abbrev Trace := List TraceEntry

/-- A contract: an arbitrary function of the entry point, the environment, a read-only snapshot of
the chain (what its querier can see) and its own storage. It returns either an error or a response
with its new storage; `note` is an out-of-band remark (ghost). -/
structure Code (E : Type) where
  run : Entry → Env → Chain E → Store Val → Outcome (Response × Store Val) × String
  query : Val → Env → Chain E → Store Val → Outcome Val

/-- Everything that is fixed during a transaction. -/
structure Config (E : Type) where
  codes : List (Nat × CodeData)
  codeBase : List (Code E)
  /-- `Api::addr_validate` succeeds -/
  validAddr : String → Bool
  /-- `AddressGenerator::contract_address` (classic: code id, instance id) -/
  addrClassic : Nat → Nat → Outcome Addr
  /-- `AddressGenerator::predictable_contract_address` (checksum, creator, salt) -/
  addrSalted : Val → Addr → Val → Outcome Addr
  /-- modules other than bank and wasm: arbitrary state transformers -/
  extExec : ExtKind → Chain E → Block → Addr → Val → Outcome (AppResponse × Chain E)
  /-- `StakingSudo` and other non-bank non-wasm sudo messages -/
  extSudo : Chain E → Block → Val → Outcome (AppResponse × Chain E)
  /-- the D2 repair is modelled by `codeKnown`; see `codeKnown` below -/
  dummy : Unit := ()

variable {E : Type}

def codeData? (cfg : Config E) (codeId : Nat) : Option CodeData :=
  if codeId < 1 then none else cfg.codes.lookup codeId

/-- the registry check of `register_contract` / `Migrate` -/
def codeKnown (cfg : Config E) (codeId : Nat) : Bool := (cfg.codes.lookup codeId).isSome

def contractCode? (cfg : Config E) (codeId : Nat) : Option (Code E) :=
  (codeData? cfg codeId).bind fun cd => cfg.codeBase[cd.sourceId]?

/-! ### response validation (`verify_attributes`, `verify_response`) -/

def attrOk (a : Attr) : Bool :=
  let k := rtrim a.key
  !k.isEmpty && !k.startsWith "_"

def eventOk (e : Event) : Bool :=
  e.attrs.all attrOk && decide (2 ≤ (rtrim e.ty).utf8ByteSize)

def responseOk (r : Response) : Bool := r.attrs.all attrOk && r.events.all eventOk

/-! ### bank as a module -/

def coinsToString (cs : Coins) : String :=
  ",".intercalate (cs.map fun c => toString c.amount ++ c.denom)

def bankExecute (ch : Chain E) (sender : Addr) : Msg → Outcome (AppResponse × Chain E)
  | .bankSend to amount =>
    match Bank.send ch.bank sender to amount with
    | some b =>
      .ok ({ events := [{ ty := "transfer", attrs := [⟨"recipient", to⟩, ⟨"sender", sender⟩,
              ⟨"amount", coinsToString amount⟩] }], data := none }, { ch with bank := b })
    | none => .err
  | .bankBurn amount =>
    match Bank.burn ch.bank sender amount with
    | some b => .ok ({}, { ch with bank := b })
    | none => .err
  | _ => .err

/-- `WasmKeeper::send`: nothing happens for an empty coin list, otherwise a bank transfer whose
response is dropped. -/
def sendFunds (ch : Chain E) (sender : Addr) (recipient : String) (funds : Coins) : Outcome (Chain E) :=
  if funds.isEmpty then .ok ch
  else match bankExecute ch sender (.bankSend recipient funds) with
    | .ok (_, ch') => .ok ch'
    | .err => .err
    | .panic => .panic
    | .outOfFuel => .outOfFuel

/-! ### contract calls (`call_*` = `verify_response(with_storage(..))`) -/

def contractEnv (blk : Block) (addr : Addr) : Env := { block := blk, contract := addr }

/-- `with_storage` + `verify_response`: look up contract and code, run the entry point on the
contract's own window with the enclosing state as querier snapshot, keep the writes on success. -/
def callContract (cfg : Config E) (blk : Block) (ch : Chain E) (addr : Addr) (en : Entry) (tr : Trace) :
    Outcome (Response × Chain E) × Trace :=
  match ch.contracts.get? addr with
  | none => (.err, tr)
  | some cd =>
    match contractCode? cfg cd.codeId with
    | none => (.err, tr)
    | some code =>
      let own := (ch.cstore.get? addr).getD []
      let env := contractEnv blk addr
      let (res, note) := code.run en env ch own
      let tr' := tr ++ [{ callee := addr, entry := en, env := env, note := note }]
      match res with
      | .ok (resp, own') =>
        if responseOk resp then (.ok (resp, { ch with cstore := ch.cstore.set addr own' }), tr')
        else (.err, tr')
      | .err => (.err, tr')
      | .panic => (.panic, tr')
      | .outOfFuel => (.outOfFuel, tr')

/-! ### `build_app_response` -/

def contractAttr (addr : Addr) : Attr := ⟨"_contract_address", addr⟩

def buildAppResponse (addr : Addr) (custom : Event) (r : Response) : AppResponse × List SubMsg :=
  let wasmEv : List Event :=
    if r.attrs.isEmpty then [] else [{ ty := "wasm", attrs := contractAttr addr :: r.attrs }]
  let evs := r.events.map fun ev => { ty := "wasm-" ++ ev.ty, attrs := contractAttr addr :: ev.attrs }
  ({ events := custom :: (wasmEv ++ evs), data := r.data }, r.msgs)

def wantsReplyOnOk : ReplyOn → Bool
  | .always | .success => true
  | _ => false

def wantsReplyOnErr : ReplyOn → Bool
  | .always | .error => true
  | _ => false

/-! ### `register_contract` -/

def registerContract (cfg : Config E) (ch : Chain E) (codeId : Nat) (creator : Addr) (admin : Option Addr)
    (label : String) (created : Nat) (salt : Option Val) : Outcome (Addr × Chain E) :=
  if !codeKnown cfg codeId then .err else
  let instanceId := ch.contracts.length
  let addrO : Outcome Addr :=
    match salt with
    | some s =>
      match codeData? cfg codeId with
      | none => .err
      | some cd => if cfg.validAddr creator then cfg.addrSalted cd.checksum creator s else .err
    | none => cfg.addrClassic codeId instanceId
  match addrO with
  | .ok addr =>
    if (ch.contracts.get? addr).isSome then .err
    else
      let cd : ContractData :=
        { codeId := codeId, creator := creator, admin := admin, label := label, created := created }
      .ok (addr, { ch with contracts := ch.contracts.set addr cd })
  | .err => .err
  | .panic => .panic
  | .outOfFuel => .outOfFuel

/-- `update_admin` (UpdateAdmin / ClearAdmin) -/
def updateAdmin (cfg : Config E) (ch : Chain E) (sender : Addr) (contract : String)
    (newAdmin : Option String) : Outcome (AppResponse × Chain E) :=
  if !cfg.validAddr contract then .err else
  if !(match newAdmin with | some a => cfg.validAddr a | none => true) then .err else
  match ch.contracts.get? contract with
  | none => .err
  | some cd =>
    if cd.admin ≠ some sender then .err
    else .ok ({}, { ch with contracts := ch.contracts.set contract { cd with admin := newAdmin } })

/-! ### the mutually recursive core -/

mutual

/-- `Router::execute` -/
def execute (cfg : Config E) (blk : Block) : Nat → Chain E → Addr → Msg → Trace →
    Outcome (AppResponse × Chain E) × Trace
  | 0, _, _, _, tr => (.outOfFuel, tr)
  | fuel + 1, ch, sender, msg, tr =>
    match msg with
    | .bankSend .. | .bankBurn .. => (bankExecute ch sender msg, tr)
    | .ext kind payload => (cfg.extExec kind ch blk sender payload, tr)
    | .wasmUpdateAdmin contract admin => (updateAdmin cfg ch sender contract (some admin), tr)
    | .wasmClearAdmin contract => (updateAdmin cfg ch sender contract none, tr)
    | .wasmExecute contract m funds =>
      if !cfg.validAddr contract then (.err, tr) else
      match sendFunds ch sender contract funds with
      | .ok ch1 =>
        match callContract cfg blk ch1 contract (.execute ⟨sender, funds⟩ m) tr with
        | (.ok (resp, ch2), tr1) =>
          let custom : Event := { ty := "execute", attrs := [contractAttr contract] }
          let (ar, msgs) := buildAppResponse contract custom resp
          match processResponse cfg blk fuel ch2 contract ar msgs tr1 with
          | (.ok (r, ch3), tr2) => (.ok ({ r with data := r.data.map encodeExecuteResponse }, ch3), tr2)
          | other => other
        | (.err, tr1) => (.err, tr1)
        | (.panic, tr1) => (.panic, tr1)
        | (.outOfFuel, tr1) => (.outOfFuel, tr1)
      | .err => (.err, tr)
      | .panic => (.panic, tr)
      | .outOfFuel => (.outOfFuel, tr)
    | .wasmInstantiate admin codeId m funds label salt =>
      if label.isEmpty then (.err, tr) else
      match registerContract cfg ch codeId sender admin label blk.height salt with
      | .ok (addr, ch0) =>
        match sendFunds ch0 sender addr funds with
        | .ok ch1 =>
          match callContract cfg blk ch1 addr (.instantiate ⟨sender, funds⟩ m) tr with
          | (.ok (resp, ch2), tr1) =>
            let custom : Event :=
              { ty := "instantiate", attrs := [contractAttr addr, ⟨"code_id", toString codeId⟩] }
            let (ar, msgs) := buildAppResponse addr custom resp
            match processResponse cfg blk fuel ch2 addr ar msgs tr1 with
            | (.ok (r, ch3), tr2) =>
              (.ok ({ r with data := some (encodeInstantiateResponse addr (r.data.getD [])) }, ch3), tr2)
            | other => other
          | (.err, tr1) => (.err, tr1)
          | (.panic, tr1) => (.panic, tr1)
          | (.outOfFuel, tr1) => (.outOfFuel, tr1)
        | .err => (.err, tr)
        | .panic => (.panic, tr)
        | .outOfFuel => (.outOfFuel, tr)
      | .err => (.err, tr)
      | .panic => (.panic, tr)
      | .outOfFuel => (.outOfFuel, tr)
    | .wasmMigrate contract newCodeId m =>
      if !cfg.validAddr contract then (.err, tr) else
      if !codeKnown cfg newCodeId then (.err, tr) else
      match ch.contracts.get? contract with
      | none => (.err, tr)
      | some cd =>
        if cd.admin ≠ some sender then (.err, tr) else
        let ch1 := { ch with contracts := ch.contracts.set contract { cd with codeId := newCodeId } }
        match callContract cfg blk ch1 contract (.migrate m) tr with
        | (.ok (resp, ch2), tr1) =>
          let custom : Event :=
            { ty := "migrate", attrs := [contractAttr contract, ⟨"code_id", toString newCodeId⟩] }
          let (ar, msgs) := buildAppResponse contract custom resp
          match processResponse cfg blk fuel ch2 contract ar msgs tr1 with
          | (.ok (r, ch3), tr2) => (.ok ({ r with data := r.data.map encodeExecuteResponse }, ch3), tr2)
          | other => other
        | (.err, tr1) => (.err, tr1)
        | (.panic, tr1) => (.panic, tr1)
        | (.outOfFuel, tr1) => (.outOfFuel, tr1)

/-- `process_response`: fold the sub-messages in order; events are appended, data is replaced by the
last `Some`. -/
def processResponse (cfg : Config E) (blk : Block) : Nat → Chain E → Addr → AppResponse → List SubMsg →
    Trace → Outcome (AppResponse × Chain E) × Trace
  | 0, _, _, _, _, tr => (.outOfFuel, tr)
  | _ + 1, ch, _, resp, [], tr => (.ok (resp, ch), tr)
  | fuel + 1, ch, contract, resp, sm :: rest, tr =>
    match executeSubmsg cfg blk fuel ch contract sm tr with
    | (.ok (sr, ch1), tr1) =>
      processResponse cfg blk fuel ch1 contract
        { events := resp.events ++ sr.events, data := sr.data.orElse fun _ => resp.data } rest tr1
    | other => other

/-- `execute_submsg`: run the message in its own transaction; then reply according to `reply_on`. -/
def executeSubmsg (cfg : Config E) (blk : Block) : Nat → Chain E → Addr → SubMsg → Trace →
    Outcome (AppResponse × Chain E) × Trace
  | 0, _, _, _, tr => (.outOfFuel, tr)
  | fuel + 1, ch, contract, sm, tr =>
    match execute cfg blk fuel ch contract sm.msg tr with
    | (.ok (r, ch1), tr1) =>
      if wantsReplyOnOk sm.replyOn then
        match reply cfg blk fuel ch1 contract ⟨sm.id, sm.payload, .ok r.events r.data⟩ tr1 with
        | (.ok (rr, ch2), tr2) => (.ok ({ events := r.events ++ rr.events, data := rr.data }, ch2), tr2)
        | other => other
      else (.ok ({ r with data := none }, ch1), tr1)
    | (.err, tr1) =>
      -- the sub-message's cache is dropped: continue from `ch`
      if wantsReplyOnErr sm.replyOn then
        reply cfg blk fuel ch contract ⟨sm.id, sm.payload, .err⟩ tr1
      else (.err, tr1)
    | (.panic, tr1) => (.panic, tr1)
    | (.outOfFuel, tr1) => (.outOfFuel, tr1)

/-- `reply` -/
def reply (cfg : Config E) (blk : Block) : Nat → Chain E → Addr → Reply → Trace →
    Outcome (AppResponse × Chain E) × Trace
  | 0, _, _, _, tr => (.outOfFuel, tr)
  | fuel + 1, ch, contract, rp, tr =>
    let mode := match rp.result with | .ok .. => "handle_success" | .err => "handle_failure"
    let custom : Event := { ty := "reply", attrs := [contractAttr contract, ⟨"mode", mode⟩] }
    match callContract cfg blk ch contract (.reply rp) tr with
    | (.ok (resp, ch1), tr1) =>
      let (ar, msgs) := buildAppResponse contract custom resp
      processResponse cfg blk fuel ch1 contract ar msgs tr1
    | (.err, tr1) => (.err, tr1)
    | (.panic, tr1) => (.panic, tr1)
    | (.outOfFuel, tr1) => (.outOfFuel, tr1)

end

/-- `WasmKeeper::sudo` -/
def wasmSudo (cfg : Config E) (blk : Block) (fuel : Nat) (ch : Chain E) (contract : Addr) (m : Val)
    (tr : Trace) : Outcome (AppResponse × Chain E) × Trace :=
  match callContract cfg blk ch contract (.sudo m) tr with
  | (.ok (resp, ch1), tr1) =>
    let custom : Event := { ty := "sudo", attrs := [contractAttr contract] }
    let (ar, msgs) := buildAppResponse contract custom resp
    processResponse cfg blk fuel ch1 contract ar msgs tr1
  | (.err, tr1) => (.err, tr1)
  | (.panic, tr1) => (.panic, tr1)
  | (.outOfFuel, tr1) => (.outOfFuel, tr1)

/-- `SudoMsg` -/
inductive SudoMsg where
  | bankMint (to : String) (amount : Coins)
  | wasm (contract : Addr) (msg : Val)
  | ext (payload : Val)
  deriving Repr, Inhabited

/-- `Router::sudo` -/
def routerSudo (cfg : Config E) (blk : Block) (fuel : Nat) (ch : Chain E) (m : SudoMsg) (tr : Trace) :
    Outcome (AppResponse × Chain E) × Trace :=
  match m with
  | .bankMint to amount =>
    if !cfg.validAddr to then (.err, tr) else
    match Bank.mint ch.bank to amount with
    | some b => (.ok ({}, { ch with bank := b }), tr)
    | none => (.err, tr)
  | .wasm contract msg => wasmSudo cfg blk fuel ch contract msg tr
  | .ext payload => (cfg.extSudo ch blk payload, tr)

/-! ### `App` entry points: one write-cache, committed only on `Ok` -/

namespace App

/-- the messages of `execute_multi`, in order, inside the one cache -/
def runMsgs (cfg : Config E) (blk : Block) (fuel : Nat) : Chain E → Addr → List Msg → Trace →
    Outcome (List AppResponse × Chain E) × Trace
  | ch, _, [], tr => (.ok ([], ch), tr)
  | ch, sender, m :: ms, tr =>
    match execute cfg blk fuel ch sender m tr with
    | (.ok (r, ch1), tr1) =>
      match runMsgs cfg blk fuel ch1 sender ms tr1 with
      | (.ok (rs, ch2), tr2) => (.ok (r :: rs, ch2), tr2)
      | (.err, tr2) => (.err, tr2)
      | (.panic, tr2) => (.panic, tr2)
      | (.outOfFuel, tr2) => (.outOfFuel, tr2)
    | (.err, tr1) => (.err, tr1)
    | (.panic, tr1) => (.panic, tr1)
    | (.outOfFuel, tr1) => (.outOfFuel, tr1)

/-- `transactional` at the root: the new state on `ok`, the old state otherwise -/
def atomically {α : Type} (ch : Chain E) (r : Outcome (α × Chain E) × Trace) : Outcome α × Chain E × Trace :=
  match r with
  | (.ok (a, ch'), tr) => (.ok a, ch', tr)
  | (.err, tr) => (.err, ch, tr)
  | (.panic, tr) => (.panic, ch, tr)
  | (.outOfFuel, tr) => (.outOfFuel, ch, tr)

def executeMulti (cfg : Config E) (blk : Block) (fuel : Nat) (ch : Chain E) (sender : Addr)
    (msgs : List Msg) : Outcome (List AppResponse) × Chain E × Trace :=
  atomically ch (runMsgs cfg blk fuel ch sender msgs [])

/-- `Executor::execute` for `App`: `execute_multi` with one message, then `pop` -/
def execute (cfg : Config E) (blk : Block) (fuel : Nat) (ch : Chain E) (sender : Addr) (m : Msg) :
    Outcome AppResponse × Chain E × Trace :=
  match executeMulti cfg blk fuel ch sender [m] with
  | (.ok [r], ch', tr) => (.ok r, ch', tr)
  | (.ok _, ch', tr) => (.panic, ch', tr)
  | (.err, ch', tr) => (.err, ch', tr)
  | (.panic, ch', tr) => (.panic, ch', tr)
  | (.outOfFuel, ch', tr) => (.outOfFuel, ch', tr)

def sudo (cfg : Config E) (blk : Block) (fuel : Nat) (ch : Chain E) (m : SudoMsg) :
    Outcome AppResponse × Chain E × Trace :=
  atomically ch (routerSudo cfg blk fuel ch m [])

def wasmSudo (cfg : Config E) (blk : Block) (fuel : Nat) (ch : Chain E) (contract : Addr) (m : Val) :
    Outcome AppResponse × Chain E × Trace :=
  atomically ch (CwMt.wasmSudo cfg blk fuel ch contract m [])

end App

end CwMt

namespace CwMt
variable {E : Type}

/-! ### queries: no state output by type; the snapshot is passed through unchanged -/

inductive Query where
  | balance (addr : String) (denom : String)
  | allBalances (addr : String)
  | supply (denom : String)
  | wasmSmart (contract : String) (msg : Val)
  | wasmRaw (contract : String) (key : Val)
  | contractInfo (contract : String)
  | codeInfo (codeId : Nat)
  | ext (kind : ExtKind) (payload : Val)
  deriving Repr, Inhabited

inductive QueryResult where
  | amount (n : Nat)
  | coins (cs : Coins)
  | bytes (v : Val)
  | info (cd : ContractData)
  | code (codeId : Nat) (cd : CodeData)
  deriving Repr, Inhabited

/-- `Router::query` + the bank / wasm query handlers (`extQuery` stands for the other modules). -/
def query (cfg : Config E) (extQuery : ExtKind → Chain E → Block → Val → Outcome Val) (blk : Block)
    (ch : Chain E) : Query → Outcome QueryResult
  | .balance a d => if cfg.validAddr a then .ok (.amount (Bank.queryBalance ch.bank a d)) else .err
  | .allBalances a => if cfg.validAddr a then .ok (.coins (Bank.balance ch.bank a)) else .err
  | .supply d => .ok (.amount (Bank.supply ch.bank d))
  | .wasmRaw c k =>
    if cfg.validAddr c then .ok (.bytes ((((ch.cstore.get? c).getD []).get k).getD [])) else .err
  | .contractInfo c =>
    if !cfg.validAddr c then .err else
    match ch.contracts.get? c with
    | some cd => .ok (.info cd)
    | none => .err
  | .codeInfo n =>
    match codeData? cfg n with
    | some cd => .ok (.code n cd)
    | none => .err
  | .wasmSmart c m =>
    if !cfg.validAddr c then .err else
    match ch.contracts.get? c with
    | none => .err
    | some cd =>
      match contractCode? cfg cd.codeId with
      | none => .err
      | some code => (code.query m (contractEnv blk c) ch ((ch.cstore.get? c).getD [])).map .bytes
  | .ext kind payload => (extQuery kind ch blk payload).map .bytes

end CwMt
