import CwMt.Model.Engine
/-
  CwMt.Model.Registry — the in-memory code registry of `WasmKeeper`
  (`next_code_id`, `save_code`, `store_code`, `store_code_with_id`, `duplicate_code`,
  /repo/src/wasm.rs:288-328, 489-518). `codes` models `code_data : BTreeMap<u64, CodeData>`
  (sorted by id), `nsrc` models `code_base.len()`. The checksum generator is a parameter.
-/
namespace CwMt
namespace Registry

def u64Max : Nat := 18446744073709551615

abbrev Codes := List (Nat × CodeData)

/-- largest id in use (`code_data.keys().last().unwrap_or(&0)`) -/
def maxId (codes : Codes) : Nat := codes.foldl (fun m p => max m p.1) 0

/-- `next_code_id`: `checked_add(1)` on a `u64` -/
def nextCodeId (codes : Codes) : Option Nat :=
  if maxId codes + 1 > u64Max then none else some (maxId codes + 1)

/-- `BTreeMap::insert` (ordered, replacing) -/
def insert (codes : Codes) (id : Nat) (cd : CodeData) : Codes :=
  (codes.filter (·.1 < id)) ++ [(id, cd)] ++ (codes.filter (·.1 > id))

structure State where
  codes : Codes := []
  nsrc : Nat := 0
  deriving Inhabited

/-- `save_code` -/
def saveCode (st : State) (id : Nat) (creator : Addr) (checksum : Val) : State :=
  { codes := insert st.codes id { creator := creator, checksum := checksum, sourceId := st.nsrc },
    nsrc := st.nsrc + 1 }

/-- `store_code` / `store_code_with_creator`: panics when no identifier is left -/
def storeCode (st : State) (creator : Addr) (chkOf : Nat → Val) : Outcome (Nat × State) :=
  match nextCodeId st.codes with
  | none => .panic
  | some id => .ok (id, saveCode st id creator (chkOf id))

/-- `store_code_with_id` -/
def storeCodeWithId (st : State) (creator : Addr) (id : Nat) (chkOf : Nat → Val) : Outcome (Nat × State) :=
  if (st.codes.lookup id).isSome then .err
  else if id = 0 then .err
  else .ok (id, saveCode st id creator (chkOf id))

/-- `duplicate_code`: the copy shares creator, checksum and source -/
def duplicateCode (st : State) (id : Nat) : Outcome (Nat × State) :=
  if id < 1 then .err else
  match st.codes.lookup id with
  | none => .err
  | some cd =>
    match nextCodeId st.codes with
    | none => .err
    | some nid => .ok (nid, { st with codes := insert st.codes nid cd })

end Registry
end CwMt
