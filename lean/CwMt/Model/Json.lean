import CwMt.Model.Engine
/-
  CwMt.Model.Json — the JSON text under which the bank and the wasm module persist their records, and its inverse.

  `cw-storage-plus` saves with `cosmwasm_std::to_json_vec`, which is `serde_json_wasm::to_vec` (serde-json-wasm 1.0.1,
  src/ser/mod.rs): structs as `{"field":value,…}` in declaration order without whitespace, sequences as `[a,b]`,
  `u64` as a decimal number, `Uint128` as a decimal number in a string, `Option::None` as `null`, strings with the
  escapes of `serialize_str` (`\\`, `\"`, `\b \t \n \f \r`, other controls below U+0020 as `\u00XX` with upper-case
  hex digits, everything else verbatim as UTF-8).

  * `balancesJson`   — `BALANCES: Map<&Addr, NativeBalance>` (bank.rs): `NativeBalance(Vec<Coin>)`, `Coin { denom, amount }`
  * `contractJson`   — `CONTRACTS: Map<&Addr, ContractData>` (wasm.rs:61-73): `code_id, creator, admin, label, created`

  The parsers (`parseBalances`, `parseContract`) read back exactly this canonical text (what `from_json` accepts is a
  superset); `Proofs/Json.lean` proves parse ∘ print = id, hence injectivity: equal bytes in the store ⇔ equal records.
-/
namespace CwMt.Json

/- the fixed pieces of text are written as character lists (string literals do not reduce in the kernel) -/

def hexUpper (n : Nat) : Char := if n ≤ 9 then Char.ofNat (0x30 + n) else Char.ofNat (0x41 + (n - 10))

/-- `serialize_str`, one character -/
def escapeChar (c : Char) : List Char :=
  if c = '\\' then ['\\', '\\']
  else if c = '"' then ['\\', '"']
  else if c = '\x08' then ['\\', 'b']
  else if c = '\t' then ['\\', 't']
  else if c = '\n' then ['\\', 'n']
  else if c = '\x0c' then ['\\', 'f']
  else if c = '\r' then ['\\', 'r']
  else if c.toNat < 0x20 then ['\\', 'u', '0', '0', hexUpper (c.toNat / 16), hexUpper (c.toNat % 16)]
  else [c]

def escape : List Char → List Char
  | [] => []
  | c :: cs => escapeChar c ++ escape cs

def str (s : List Char) : List Char := '"' :: (escape s ++ ['"'])

def nat (n : Nat) : List Char := Nat.toDigits 10 n

def coin (c : Coin) : List Char :=
  ['{', '\"', 'd', 'e', 'n', 'o', 'm', '\"', ':'] ++ str c.denom.toList ++ [',', '\"', 'a', 'm', 'o', 'u', 'n', 't', '\"', ':', '\"'] ++ nat c.amount ++ ['\"', '}']

/-- elements separated by commas -/
def seq {α : Type} (f : α → List Char) : List α → List Char
  | [] => []
  | [a] => f a
  | a :: b :: l => f a ++ ',' :: seq f (b :: l)

def balances (cs : Coins) : List Char := '[' :: (seq coin cs ++ [']'])

def optStr : Option String → List Char
  | none => ['n', 'u', 'l', 'l']
  | some s => str s.toList

def contract (cd : ContractData) : List Char :=
  ['{', '\"', 'c', 'o', 'd', 'e', '_', 'i', 'd', '\"', ':'] ++ nat cd.codeId ++ [',', '\"', 'c', 'r', 'e', 'a', 't', 'o', 'r', '\"', ':'] ++ str cd.creator.toList ++
  [',', '\"', 'a', 'd', 'm', 'i', 'n', '\"', ':'] ++ optStr cd.admin ++ [',', '\"', 'l', 'a', 'b', 'e', 'l', '\"', ':'] ++ str cd.label.toList ++
  [',', '\"', 'c', 'r', 'e', 'a', 't', 'e', 'd', '\"', ':'] ++ nat cd.created ++ ['}']

def toBytes (cs : List Char) : List UInt8 := (String.ofList cs).toUTF8.toList

def balancesJson (cs : Coins) : List UInt8 := toBytes (balances cs)
def contractJson (cd : ContractData) : List UInt8 := toBytes (contract cd)

/-! ### reading the canonical text back -/

def unhexUpper (c : Char) : Option Nat :=
  if '0' ≤ c ∧ c ≤ '9' then some (c.toNat - 0x30)
  else if 'A' ≤ c ∧ c ≤ 'F' then some (c.toNat - 0x41 + 10)
  else none

/-- the body of a string up to and including the closing quote: (decoded, rest) -/
def parseStrBody : List Char → Option (List Char × List Char)
  | [] => none
  | '"' :: rest => some ([], rest)
  | '\\' :: '\\' :: rest => (parseStrBody rest).map fun p => ('\\' :: p.1, p.2)
  | '\\' :: '"' :: rest => (parseStrBody rest).map fun p => ('"' :: p.1, p.2)
  | '\\' :: 'b' :: rest => (parseStrBody rest).map fun p => ('\x08' :: p.1, p.2)
  | '\\' :: 't' :: rest => (parseStrBody rest).map fun p => ('\t' :: p.1, p.2)
  | '\\' :: 'n' :: rest => (parseStrBody rest).map fun p => ('\n' :: p.1, p.2)
  | '\\' :: 'f' :: rest => (parseStrBody rest).map fun p => ('\x0c' :: p.1, p.2)
  | '\\' :: 'r' :: rest => (parseStrBody rest).map fun p => ('\r' :: p.1, p.2)
  | '\\' :: 'u' :: '0' :: '0' :: h :: l :: rest =>
    match unhexUpper h, unhexUpper l with
    | some a, some b => (parseStrBody rest).map fun p => (Char.ofNat (16 * a + b) :: p.1, p.2)
    | _, _ => none
  | '\\' :: _ => none
  | c :: rest => (parseStrBody rest).map fun p => (c :: p.1, p.2)

def parseStr : List Char → Option (List Char × List Char)
  | '"' :: rest => parseStrBody rest
  | _ => none

/-- a maximal run of decimal digits -/
def parseNat (cs : List Char) : Option (Nat × List Char) :=
  let ds := cs.takeWhile Char.isDigit
  if ds.isEmpty then none else some (Nat.ofDigitChars 10 ds 0, cs.dropWhile Char.isDigit)

/-- drop a literal prefix -/
def expect : List Char → List Char → Option (List Char)
  | [], cs => some cs
  | _ :: _, [] => none
  | p :: ps, c :: cs => if p = c then expect ps cs else none

def parseCoin (cs : List Char) : Option (Coin × List Char) := do
  let r ← expect ['{', '\"', 'd', 'e', 'n', 'o', 'm', '\"', ':'] cs
  let (d, r) ← parseStr r
  let r ← expect [',', '\"', 'a', 'm', 'o', 'u', 'n', 't', '\"', ':', '\"'] r
  let (a, r) ← parseNat r
  let r ← expect ['\"', '}'] r
  pure (⟨String.ofList d, a⟩, r)

/-- the elements after the first one, up to and including `]` (fuel: the input length suffices) -/
def parseCoinsTail : Nat → List Char → Option (Coins × List Char)
  | 0, _ => none
  | _ + 1, ']' :: rest => some ([], rest)
  | fuel + 1, ',' :: rest => do
    let (c, r) ← parseCoin rest
    let (l, r) ← parseCoinsTail fuel r
    pure (c :: l, r)
  | _ + 1, _ => none

def parseBalances : List Char → Option (Coins × List Char)
  | '[' :: ']' :: rest => some ([], rest)
  | '[' :: rest => do
    let (c, r) ← parseCoin rest
    let (l, r) ← parseCoinsTail (r.length + 1) r
    pure (c :: l, r)
  | _ => none

def parseOptStr : List Char → Option (Option String × List Char)
  | 'n' :: 'u' :: 'l' :: 'l' :: rest => some (none, rest)
  | cs => (parseStr cs).map fun p => (some (String.ofList p.1), p.2)

def parseContract (cs : List Char) : Option (ContractData × List Char) := do
  let r ← expect ['{', '\"', 'c', 'o', 'd', 'e', '_', 'i', 'd', '\"', ':'] cs
  let (codeId, r) ← parseNat r
  let r ← expect [',', '\"', 'c', 'r', 'e', 'a', 't', 'o', 'r', '\"', ':'] r
  let (creator, r) ← parseStr r
  let r ← expect [',', '\"', 'a', 'd', 'm', 'i', 'n', '\"', ':'] r
  let (admin, r) ← parseOptStr r
  let r ← expect [',', '\"', 'l', 'a', 'b', 'e', 'l', '\"', ':'] r
  let (label, r) ← parseStr r
  let r ← expect [',', '\"', 'c', 'r', 'e', 'a', 't', 'e', 'd', '\"', ':'] r
  let (created, r) ← parseNat r
  let r ← expect ['}'] r
  pure (⟨codeId, String.ofList creator, admin, String.ofList label, created⟩, r)

end CwMt.Json
