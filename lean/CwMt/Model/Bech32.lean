import CwMt.Model.Basic
/-
  CwMt.Model.Bech32 — executable model of the address codecs of cw-multi-test (property C18).

  What is modelled (core Lean only, the file is linked into the native driver):

  * the `bech32` crate 0.11.0 as far as `MockApiBech` and cosmwasm-std's `MockApi` use it:
      - `Fe32::from_char` / `Fe32::to_char`          → `symOf` / `charOf`
      - `Hrp::parse`                                  → `hrpValid`
      - `HrpFe32Iter` (checksum view of the HRP)      → `hrpExpand`
      - `checksum::Engine::input_fe` on `u32`         → `step` on `BitVec 30`
        (the two top bits of the `u32` midstate are always zero: they are cleared before the shift)
      - `Checksummed` (`input_target_residue`, then the residue is unpacked) → `createChecksum`
      - `BytesToFes` / `FesToBytes`                   → `bytesToFes` / `fesToBytes`
      - `encode::<Ck>` (`encoded_length` check, lowercase HRP, separator, data, checksum) → `encode`
      - `CheckedHrpstring::new::<Ck>` (`check_characters`, `Hrp::parse`, code length, checksum
        length, residue) followed by `byte_iter`      → `decodeChecked` and `fesToBytes`
  * `MockApiBech<T>::{addr_validate, addr_canonicalize, addr_humanize, addr_make}` (src/api.rs) and
    `cosmwasm_std::testing::MockApi::{…}` (`with_prefix`), selected by `Variant`.

  Strings are `List Char`. Rust measures `s.len()` / `hrp.len()` in UTF-8 bytes; every place that
  looks at a length is reached only by pure-ASCII input (a non-ASCII character before the separator
  fails `Hrp::parse`, after it fails `Fe32::from_char`, and every error is the same observable
  `err`), so counting characters gives the same outcome.

  The regrouping functions are written over bit lists (most significant bit first): `bytesToFes`
  pads the last group with zero bits, `fesToBytes` emits a byte only when all eight bits are there
  and silently DROPS up to seven leftover bits whatever their value — that is what
  `FesToBytes::next` does (`let next1 = self.last_fe?;`), and `CheckedHrpstring::byte_iter` applies
  no padding validation (`validate_segwit_padding` is not called on this path).

  SHA-256 is a parameter `H` of `addrMake`.
-/
namespace CwMt.Bech32

/-- a field element of GF(32) = one data character -/
abbrev Sym := BitVec 5

/-! ### character set (gf32.rs `CHARS_LOWER`, `CHARS_INV`) -/

def charset : List Char :=
  ['q', 'p', 'z', 'r', 'y', '9', 'x', '8',
   'g', 'f', '2', 't', 'v', 'd', 'w', '0',
   's', '3', 'j', 'n', '5', '4', 'k', 'h',
   'c', 'e', '6', 'm', 'u', 'a', '7', 'l']

/-- `Fe32::to_char` -/
def charOf (v : Sym) : Char := charset.getD v.toNat 'q'

/-- `Fe32::from_char`: accepts both cases (the two halves of `CHARS_INV` are identical), rejects
every other character including all non-ASCII ones. -/
def symOf (c : Char) : Option Sym :=
  let i := charset.idxOf c.toLower
  if i < 32 then some (BitVec.ofNat 5 i) else none

def symsOf : List Char → Option (List Sym)
  | [] => some []
  | c :: cs =>
    match symOf c, symsOf cs with
    | some v, some vs => some (v :: vs)
    | _, _ => none

/-- `ch.is_ascii_uppercase()` for some character -/
def hasUpper (s : List Char) : Bool := s.any Char.isUpper
/-- `ch.is_ascii_lowercase()` for some character -/
def hasLower (s : List Char) : Bool := s.any Char.isLower

def lower (s : List Char) : List Char := s.map Char.toLower

/-! ### human-readable part (primitives/hrp.rs) -/

/-- `Hrp::parse(h).is_ok()`: 1..=83 characters, each in 33..=126, not mixed case -/
def hrpValid (h : List Char) : Bool :=
  !h.isEmpty && decide (h.length ≤ 83) && h.all (fun c => decide (33 ≤ c.toNat) && decide (c.toNat ≤ 126))
    && !(hasUpper h && hasLower h)

/-- `HrpFe32Iter`: high three bits of every lowercased byte, a zero, low five bits of every byte -/
def hrpExpand (h : List Char) : List Sym :=
  h.map (fun c => ((BitVec.ofNat 8 c.toLower.toNat) >>> 5).setWidth 5)
    ++ [0#5] ++ h.map (fun c => (BitVec.ofNat 8 c.toLower.toNat).setWidth 5)

/-! ### checksum (primitives/checksum.rs, primitives/mod.rs) -/

def gen0 : BitVec 30 := 0x3b6a57b2#30
def gen1 : BitVec 30 := 0x26508e6d#30
def gen2 : BitVec 30 := 0x1ea119fa#30
def gen3 : BitVec 30 := 0x3d4233dd#30
def gen4 : BitVec 30 := 0x2a1462b3#30

/-- `Engine::input_fe`: `mul_by_x_then_add(6, e)` then xor of the generator rows selected by the
symbol shifted out at the top -/
def step (r : BitVec 30) (e : Sym) : BitVec 30 :=
  let r1 := ((r &&& 0x1ffffff#30) <<< 5) ||| e.setWidth 30
  r1 ^^^ (if r.getLsbD 25 then gen0 else 0) ^^^ (if r.getLsbD 26 then gen1 else 0)
     ^^^ (if r.getLsbD 27 then gen2 else 0) ^^^ (if r.getLsbD 28 then gen3 else 0)
     ^^^ (if r.getLsbD 29 then gen4 else 0)

/-- residue after feeding `vs` into a fresh engine (`Engine::new` starts at `ONE`) -/
def polymod (vs : List Sym) : BitVec 30 := vs.foldl step 1

/-- `PackedFe32::unpack(5), …, unpack(0)` -/
def unpack6 (r : BitVec 30) : List Sym :=
  [(r >>> 25).setWidth 5, (r >>> 20).setWidth 5, (r >>> 15).setWidth 5,
   (r >>> 10).setWidth 5, (r >>> 5).setWidth 5, r.setWidth 5]

/-- `Checksummed::next` after the data ran out: `input_target_residue()`, then the six symbols of
the residue from the most significant one -/
def createChecksum (k : BitVec 30) (h : List Char) (data : List Sym) : List Sym :=
  unpack6 ((unpack6 k).foldl step (polymod (hrpExpand h ++ data)))

/-! ### 8 ↔ 5 bit regrouping (primitives/iter.rs) -/

def bits5 (v : Sym) : List Bool :=
  [v.getLsbD 4, v.getLsbD 3, v.getLsbD 2, v.getLsbD 1, v.getLsbD 0]

def bits8 (b : UInt8) : List Bool :=
  let v := b.toBitVec
  [v.getLsbD 7, v.getLsbD 6, v.getLsbD 5, v.getLsbD 4, v.getLsbD 3, v.getLsbD 2, v.getLsbD 1, v.getLsbD 0]

def mk5 (a b c d e : Bool) : Sym :=
  BitVec.ofNat 5 (16 * a.toNat + 8 * b.toNat + 4 * c.toNat + 2 * d.toNat + e.toNat)

def mk8 (a b c d e f g h : Bool) : UInt8 :=
  UInt8.ofBitVec (BitVec.ofNat 8 (128 * a.toNat + 64 * b.toNat + 32 * c.toNat + 16 * d.toNat
    + 8 * e.toNat + 4 * f.toNat + 2 * g.toNat + h.toNat))

/-- groups of five bits; an incomplete last group is padded with zero bits -/
def chunks5 : List Bool → List Sym
  | a :: b :: c :: d :: e :: rest => mk5 a b c d e :: chunks5 rest
  | [a, b, c, d] => [mk5 a b c d false]
  | [a, b, c] => [mk5 a b c false false]
  | [a, b] => [mk5 a b false false false]
  | [a] => [mk5 a false false false false]
  | [] => []

/-- groups of eight bits; an incomplete last group is dropped -/
def chunks8 : List Bool → List UInt8
  | a :: b :: c :: d :: e :: f :: g :: h :: rest => mk8 a b c d e f g h :: chunks8 rest
  | _ => []

/-- `BytesToFes` -/
def bytesToFes (bs : List UInt8) : List Sym := chunks5 (bs.flatMap bits8)

/-- `FesToBytes` (= `CheckedHrpstring::byte_iter`) -/
def fesToBytes (fs : List Sym) : List UInt8 := chunks8 (fs.flatMap bits5)

/-! ### encode / decode -/

/-- `Ck::CODE_LENGTH` for Bech32 and Bech32m -/
def codeLength : Nat := 1023

/-- `bech32::encode::<Ck>(hrp, data)` for an already parsed HRP `h`; `none` = `EncodeError::TooLong` -/
def encode (k : BitVec 30) (h : List Char) (bs : List UInt8) : Option (List Char) :=
  let fes := bytesToFes bs
  if h.length + 1 + fes.length + 6 > codeLength then none
  else some (lower h ++ '1' :: (fes ++ createChecksum k h fes).map charOf)

/-- `check_characters`' separator search: the LAST `'1'` splits HRP and data part -/
def splitLast1 : List Char → Option (List Char × List Char)
  | [] => none
  | c :: cs =>
    match splitLast1 cs with
    | some (h, d) => some (c :: h, d)
    | none => if c = '1' then some ([], cs) else none

/-- `CheckedHrpstring::new::<Ck>(s)`: the HRP as written and the data symbols without the checksum -/
def decodeChecked (k : BitVec 30) (s : List Char) : Option (List Char × List Sym) :=
  match splitLast1 s with
  | none => none                                  -- MissingSeparator
  | some (h, d) =>
    match symsOf d with
    | none => none                                -- InvalidChar
    | some syms =>
      if hasUpper s && hasLower s then none       -- MixedCase
      else if !hrpValid h then none               -- Hrp::parse
      else if s.length > codeLength then none     -- CodeLength
      else if syms.length < 6 then none           -- InvalidLength
      else if polymod (hrpExpand h ++ syms) != k then none   -- InvalidResidue
      else some (h, syms.take (syms.length - 6))

/-! ### the three `Api` implementations -/

inductive Variant where
  /-- `MockApiBech32` -/
  | bech32
  /-- `MockApiBech32m` -/
  | bech32m
  /-- `cosmwasm_std::testing::MockApi` (`MockApi::default().with_prefix(p)`) -/
  | default
  deriving DecidableEq, Repr, Inhabited

/-- `Ck::TARGET_RESIDUE` -/
def constOf : Variant → BitVec 30
  | .bech32 => 1#30
  | .bech32m => 0x2bc830a3#30
  | .default => 1#30

/-- cosmwasm-std `validate_length`; `MockApiBech` has no such check -/
def lengthOk (v : Variant) (n : Nat) : Bool :=
  match v with
  | .default => decide (1 ≤ n) && decide (n ≤ 255)
  | _ => true

/-- `s.hrp().to_string() == self.prefix` (MockApiBech) resp.
`hrp.as_bytes().eq_ignore_ascii_case(prefix.as_bytes())` (MockApi) -/
def prefixMatches (v : Variant) (h p : List Char) : Bool :=
  match v with
  | .default => lower h == lower p
  | _ => h == p

def addrCanonicalize (v : Variant) (p s : List Char) : Outcome (List UInt8) :=
  match decodeChecked (constOf v) s with
  | none => .err
  | some (h, payload) =>
    if prefixMatches v h p then
      let bs := fesToBytes payload
      if lengthOk v bs.length then .ok bs else .err
    else .err

def addrHumanize (v : Variant) (p : List Char) (bs : List UInt8) : Outcome (List Char) :=
  if !lengthOk v bs.length then .err
  else if !hrpValid p then .err
  else match encode (constOf v) p bs with
    | some s => .ok s
    | none => .err

def addrValidate (v : Variant) (p s : List Char) : Outcome (List Char) :=
  match addrCanonicalize v p s with
  | .ok bs =>
    match addrHumanize v p bs with
    | .ok n => if s != n then .err else .ok n
    | o => o
  | .err => .err
  | .panic => .panic
  | .outOfFuel => .outOfFuel

/-- `addr_make`: `Hrp::parse` failure and `encode(..).unwrap()` failure are panics. `H` stands for
SHA-256. -/
def addrMake (H : List UInt8 → List UInt8) (v : Variant) (p : List Char) (name : List UInt8) :
    Outcome (List Char) :=
  if !hrpValid p then .panic
  else match encode (constOf v) p (H name) with
    | some s => .ok s
    | none => .panic

/-! ### specification of strict decoding (reading R4 of DESIGN.md) -/

/-- the bits that `fesToBytes` drops -/
def leftover (fs : List Sym) : List Bool :=
  (fs.flatMap bits5).drop (8 * ((fs.flatMap bits5).length / 8))

/-- fewer than five padding bits, all zero -/
def strictPad (fs : List Sym) : Bool :=
  decide ((leftover fs).length < 5) && (leftover fs).all (· == false)

/-- `s` strictly decodes to `bs` under the codec `v` with prefix `p`: `s` is `p`, the separator and
a data part of lowercase charset characters, within the code length, with a correct checksum for
this variant, and the payload regroups to `bs` with fewer than five, all-zero, padding bits (and,
for the default `MockApi`, 1..=255 bytes). Written without reference to the encoder. -/
def strictDecode (v : Variant) (p s : List Char) : Option (List UInt8) :=
  match splitLast1 s with
  | none => none
  | some (h, d) =>
    match symsOf d with
    | none => none
    | some syms =>
      if h == p && hrpValid p && !hasUpper s && decide (s.length ≤ codeLength)
          && decide (6 ≤ syms.length)
          && polymod (hrpExpand p ++ syms) == constOf v
          && strictPad (syms.take (syms.length - 6))
          && lengthOk v (fesToBytes (syms.take (syms.length - 6))).length
      then some (fesToBytes (syms.take (syms.length - 6)))
      else none

end CwMt.Bech32
