import CwMt.Model.Engine
/-
  CwMt.Model.Executor — the `Executor` helper layer (/repo/src/executor.rs:80-200) on top of
  `App::execute`, together with the two response parsers of cw-utils it calls
  (`parse_instantiate_response_data`, `parse_execute_response_data`; cw-utils parse_reply.rs), transcribed
  arm by arm: a helper can fail AFTER `execute` has committed the transaction — `instantiate_contract`
  and `instantiate2_contract` return the parser's error with `?`, `execute_contract` `unwrap()`s it.
  That these late failures never happen is a theorem about the encoders of `Wire.lean` (C01, helpers).
-/
namespace CwMt

/-- `parse_protobuf_varint`: at most `VARINT_MAX_BYTES = 9` bytes, little-endian groups of 7 bits -/
def parseVarint (bs : List UInt8) : Option (Nat × List UInt8) := unvarintAux 9 bs 0 0

/-- `parse_protobuf_length_prefixed(data, field_number)`: empty input is "field absent"; otherwise the
first byte must carry this field number (`>> 3`) and wire type 2 (`& 0b11`), then a varint length, then
that many bytes; returns the field and the rest -/
def parseLP (field : Nat) (bs : List UInt8) : Option (List UInt8 × List UInt8) :=
  match bs with
  | [] => some ([], [])
  | t :: rest =>
    if t.toNat / 8 ≠ field then none
    else if t.toNat % 4 ≠ 2 then none
    else
      match parseVarint rest with
      | none => none
      | some (len, rest') => if rest'.length < len then none else some (rest'.take len, rest'.drop len)

/-- `parse_instantiate_response_data`: field 1 = contract address (bytes of a string), field 2 = data
(`None` when empty); whatever follows is ignored -/
def parseInstantiateResponseData (bs : List UInt8) : Option (List UInt8 × Option (List UInt8)) :=
  match parseLP 1 bs with
  | none => none
  | some (addr, rest) =>
    match parseLP 2 rest with
    | none => none
    | some (d, _) => some (addr, if d.isEmpty then none else some d)

/-- `parse_execute_response_data`: field 1 = data (`None` when empty) -/
def parseExecuteResponseData (bs : List UInt8) : Option (Option (List UInt8)) :=
  match parseLP 1 bs with
  | none => none
  | some (d, _) => some (if d.isEmpty then none else some d)

namespace Executor
variable {E : Type}

/-- `instantiate_contract` (salt = none) / `instantiate2_contract` (salt = some ..): `execute`, then
`parse_instantiate_response_data(res.data.unwrap_or_default())?`; returns the address bytes -/
def instantiateContract (cfg : Config E) (blk : Block) (fuel : Nat) (ch : Chain E) (sender : Addr)
    (codeId : Nat) (m : Val) (funds : Coins) (label : String) (admin : Option String) (salt : Option Val) :
    Outcome (List UInt8) × Chain E × Trace :=
  match App.execute cfg blk fuel ch sender (.wasmInstantiate admin codeId m funds label salt) with
  | (.ok r, ch', tr) =>
    match parseInstantiateResponseData (r.data.getD []) with
    | some (a, _) => (.ok a, ch', tr)
    | none => (.err, ch', tr)
  | (.err, ch', tr) => (.err, ch', tr)
  | (.panic, ch', tr) => (.panic, ch', tr)
  | (.outOfFuel, ch', tr) => (.outOfFuel, ch', tr)

/-- `execute_contract`: `execute`, then the data is replaced by what the contract returned:
`res.data.and_then(|d| parse_execute_response_data(d).unwrap().data)` -/
def executeContract (cfg : Config E) (blk : Block) (fuel : Nat) (ch : Chain E) (sender : Addr)
    (contract : String) (m : Val) (funds : Coins) : Outcome AppResponse × Chain E × Trace :=
  match App.execute cfg blk fuel ch sender (.wasmExecute contract m funds) with
  | (.ok r, ch', tr) =>
    match r.data with
    | none => (.ok r, ch', tr)
    | some d =>
      match parseExecuteResponseData d with
      | some inner => (.ok { r with data := inner }, ch', tr)
      | none => (.panic, ch', tr)
  | other => other

/-- `migrate_contract`: nothing but `execute` of the message -/
def migrateContract (cfg : Config E) (blk : Block) (fuel : Nat) (ch : Chain E) (sender : Addr)
    (contract : String) (m : Val) (newCodeId : Nat) : Outcome AppResponse × Chain E × Trace :=
  App.execute cfg blk fuel ch sender (.wasmMigrate contract newCodeId m)

/-- `send_tokens`: nothing but `execute` of `BankMsg::Send` -/
def sendTokens (cfg : Config E) (blk : Block) (fuel : Nat) (ch : Chain E) (sender : Addr)
    (recipient : String) (amount : Coins) : Outcome AppResponse × Chain E × Trace :=
  App.execute cfg blk fuel ch sender (.bankSend recipient amount)

end Executor
end CwMt
