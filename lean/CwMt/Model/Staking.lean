import CwMt.Model.Basic
import CwMt.Model.Bank
import CwMt.Model.Decimal
/-
  CwMt.Model.Staking — `StakeKeeper` + `DistributionKeeper` (/repo/src/staking.rs:1-1018) and the block
  updates of `App` (/repo/src/app.rs:407-423), over the bank model `CwMt.Bank`.

  * Storage maps (`STAKES`, `VALIDATOR_INFO`, `WITHDRAW_ADDRESS`) are association lists with unique keys
    (`KMap`, newest first); the canonical (sorted) order only exists in the driver's printer.
    `VALIDATOR_MAP` and the `VALIDATORS` deque hold the same records (add_validator writes both and rejects
    duplicates), so they are one list in insertion order.
  * `validator_info.stakers` is a `BTreeSet`: the loops over it visit every member exactly once and each visit
    touches a different `STAKES` key, so a loop is modelled as "every member has an entry, else panic" followed by
    one pass over `STAKES`.
  * `expect(..)` / `unwrap()` sites are explicit `panic` outcomes: update_rewards (staking.rs:336), slash
    (staking.rs:490 and :509), the `process_queue(..).unwrap()` of set_block/update_block (app.rs:408-423), and the
    two arithmetic panics reachable with inconsistent inputs (`Timestamp::minus_seconds` underflow when the block
    time lies before the last reward calculation; `reward - commission` underflow when a commission exceeds 1).
  * `App::execute` / `App::sudo` run inside `transactional`: `Err` leaves the whole state unchanged (`Chain.txn`).
    Block updates are not transactional.
  * 128-bit overflow is outside the model (DESIGN.md R6).
-/
namespace CwMt
namespace Staking

/-- association list with unique keys, looked up by first match -/
abbrev KMap (κ : Type) (α : Type) := List (κ × α)

namespace KMap
variable {κ α : Type} [DecidableEq κ]

def get? : KMap κ α → κ → Option α
  | [], _ => none
  | (k', v) :: m, k => if k' = k then some v else get? m k

def erase (m : KMap κ α) (k : κ) : KMap κ α := m.filter (fun p => p.1 ≠ k)

def set (m : KMap κ α) (k : κ) (v : α) : KMap κ α := (k, v) :: erase m k

def contains (m : KMap κ α) (k : κ) : Bool := (get? m k).isSome

end KMap

/-- `YEAR` (staking.rs:21) -/
def YEAR : Nat := 60 * 60 * 24 * 365

structure StakingInfo where
  bondedDenom : String
  unbondingTime : Nat
  apr : Dec
  deriving DecidableEq, Repr, Inhabited

/-- `StakingInfo::default()` (staking.rs:34-43): what `get_staking_info` answers before `setup` -/
def StakingInfo.dflt : StakingInfo := ⟨"TOKEN", 60, ⟨Dec.ONE / 10⟩⟩

structure Shares where
  stake : Dec
  rewards : Dec
  deriving DecidableEq, Repr, Inhabited

def Shares.dflt : Shares := ⟨Dec.zero, Dec.zero⟩

structure ValInfo where
  stakers : List Addr
  stake : Nat
  last : Nat
  deriving DecidableEq, Repr, Inhabited

def ValInfo.new (now : Nat) : ValInfo := ⟨[], 0, now⟩

structure Validator where
  address : String
  commission : Dec
  deriving DecidableEq, Repr, Inhabited

structure Unbonding where
  delegator : Addr
  validator : String
  amount : Nat
  payoutAt : Nat
  deriving DecidableEq, Repr, Inhabited

structure SState where
  info : StakingInfo
  validators : List Validator
  stakes : KMap (Addr × String) Shares
  vinfo : KMap String ValInfo
  queue : List Unbonding
  withdraw : KMap Addr Addr
  deriving Repr, Inhabited

def SState.init : SState := ⟨StakingInfo.dflt, [], [], [], [], []⟩

/-- `VALIDATOR_MAP.may_load` -/
def SState.validator? (s : SState) (v : String) : Option Validator :=
  s.validators.find? (fun x => x.address = v)

/-- set operations of `BTreeSet<Addr>` on a duplicate-free list -/
def setInsert (l : List Addr) (a : Addr) : List Addr := if a ∈ l then l else a :: l
def setErase (l : List Addr) (a : Addr) : List Addr := l.filter (· ≠ a)

/-- `Shares::share_of_rewards` (staking.rs:54-59): `rewards * self.stake / validator_info.stake`
(Decimal·Decimal rounded down, then Decimal / Uint128 rounded down) -/
def shareOfRewards (sh : Shares) (vi : ValInfo) (rewards : Dec) : Dec :=
  if vi.stake = 0 then Dec.zero else Dec.divNat (Dec.mul rewards sh.stake) vi.stake

/-- nanoseconds per second: every time of this model is a `Timestamp`, i.e. nanoseconds -/
def NS : Nat := 1000000000

/-- `current_time.minus_seconds(since.seconds()).seconds()` (staking.rs:281): the whole seconds of block time between
two instants, `floor(now) - floor(since)` — rewards do not see the sub-second parts -/
def elapsed (now since : Nat) : Nat := now / NS - since / NS

/-- the gross reward of `calculate_rewards`: `stake * apr * dt / YEAR` on Decimals -/
def grossReward (now since : Nat) (apr : Dec) (stake : Nat) : Dec :=
  Dec.div (Dec.mul (Dec.mul (Dec.ofNat stake) apr) (Dec.ofNat (elapsed now since))) (Dec.ofNat YEAR)

/-- `reward - reward * commission` (the subtraction panics on underflow, i.e. for a commission above 1) -/
def netReward (reward commission : Dec) : Outcome Dec :=
  if reward < Dec.mul reward commission then .panic else .ok (Dec.sub reward (Dec.mul reward commission))

/-- `calculate_rewards` (staking.rs:273-291); `Timestamp::minus_seconds(since.seconds())` panics when the whole
seconds of `since` lie after `now`
(`now < floor(since)·NS`, i.e. `now / NS < since / NS`) -/
def calcRewards (now since : Nat) (apr commission : Dec) (stake : Nat) : Outcome Dec :=
  if now / NS < since / NS then .panic else netReward (grossReward now since apr stake) commission

/-- the credit loop of `update_rewards` over the staker set -/
def creditAll (stakes : KMap (Addr × String) Shares) (v : String) (vi : ValInfo) (nr : Dec) :
    KMap (Addr × String) Shares :=
  stakes.map fun p =>
    (p.1, if p.1.2 = v ∧ p.1.1 ∈ vi.stakers then
            { p.2 with rewards := Dec.add p.2.rewards (shareOfRewards p.2 vi nr) }
          else p.2)

def allStakersExist (stakes : KMap (Addr × String) Shares) (v : String) (stakers : List Addr) : Bool :=
  stakers.all fun d => KMap.contains stakes (d, v)

/-- `update_rewards` (staking.rs:296-344) -/
def updateRewards (s : SState) (now : Nat) (v : String) : Outcome SState :=
  match KMap.get? s.vinfo v with
  | none => .err
  | some vi =>
    match s.validator? v with
    | none => .err
    | some vo =>
      if vi.last ≥ now then .ok s else
      match calcRewards now vi.last s.info.apr vo.commission vi.stake with
      | .ok nr =>
        if nr.isZero then .ok { s with vinfo := KMap.set s.vinfo v { vi with last := now } }
        else if allStakersExist s.stakes v vi.stakers then
          .ok { s with vinfo := KMap.set s.vinfo v { vi with last := now },
                       stakes := creditAll s.stakes v vi nr }
        else .panic
      | .err => .err
      | .panic => .panic
      | .outOfFuel => .outOfFuel

/-- `VALIDATOR_INFO.may_load(..).unwrap_or_else(|| ValidatorInfo::new(block.time))` -/
def viOf (s : SState) (now : Nat) (v : String) : ValInfo := (KMap.get? s.vinfo v).getD (ValInfo.new now)

/-- the "save updated values" tail of `update_stake` (staking.rs:461-471) -/
def stakeSaved (s : SState) (d : Addr) (v : String) (sh' : Shares) (vi' : ValInfo) : SState :=
  if sh'.stake.isZero then
    { s with stakes := KMap.erase s.stakes (d, v),
             vinfo := KMap.set s.vinfo v { vi' with stakers := setErase vi'.stakers d } }
  else
    { s with stakes := KMap.set s.stakes (d, v) sh',
             vinfo := KMap.set s.vinfo v { vi' with stakers := setInsert vi'.stakers d } }

def curShares (s : SState) (d : Addr) (v : String) : Shares := (KMap.get? s.stakes (d, v)).getD Shares.dflt

/-- `update_stake` after its call of `update_rewards` (staking.rs:435-474) -/
def applyStake (s : SState) (now : Nat) (d : Addr) (v : String) (amount : Nat) (sub : Bool) : Outcome SState :=
  if sub then
    match KMap.get? s.stakes (d, v) with
    | none => .err
    | some sh =>
      if sh.stake < Dec.ofNat amount then .err
      else if (viOf s now v).stake < amount then .err      -- `validator_info.stake.checked_sub(amount)?`
      else .ok (stakeSaved s d v { sh with stake := Dec.sub sh.stake (Dec.ofNat amount) }
                  { viOf s now v with stake := (viOf s now v).stake - amount })
  else
    .ok (stakeSaved s d v { curShares s d v with stake := Dec.add (curShares s d v).stake (Dec.ofNat amount) }
           { viOf s now v with stake := (viOf s now v).stake + amount })

/-- `update_stake` (staking.rs:420-474) -/
def updateStake (s : SState) (now : Nat) (d : Addr) (v : String) (amount : Nat) (sub : Bool) :
    Outcome SState :=
  match updateRewards s now v with
  | .ok s1 => applyStake s1 now d v amount sub
  | .err => .err
  | .panic => .panic
  | .outOfFuel => .outOfFuel

/-- `validate_denom` -/
def denomOk (s : SState) (denom : String) : Bool := denom = s.info.bondedDenom

/-- `add_stake` / `remove_stake` (staking.rs:378-418) -/
def addStake (s : SState) (now : Nat) (d : Addr) (v : String) (c : Coin) : Outcome SState :=
  if denomOk s c.denom then updateStake s now d v c.amount false else .err

def removeStake (s : SState) (now : Nat) (d : Addr) (v : String) (c : Coin) : Outcome SState :=
  if denomOk s c.denom then updateStake s now d v c.amount true else .err

/-- the per-staker scaling of `slash` -/
def scaleAll (stakes : KMap (Addr × String) Shares) (v : String) (stakers : List Addr) (rem : Dec) :
    KMap (Addr × String) Shares :=
  stakes.map fun p =>
    (p.1, if p.1.2 = v ∧ p.1.1 ∈ stakers then { p.2 with stake := Dec.mul p.2.stake rem } else p.2)

def removeAll (stakes : KMap (Addr × String) Shares) (v : String) (stakers : List Addr) :
    KMap (Addr × String) Shares :=
  stakes.filter fun p => ¬ (p.1.2 = v ∧ p.1.1 ∈ stakers)

def slashQueue (q : List Unbonding) (v : String) (rem : Dec) : List Unbonding :=
  q.map fun u => if u.validator = v then { u with amount := Dec.mulFloor u.amount rem } else u

/-- `Decimal::one() - percentage` -/
def remOf (pct : Dec) : Dec := Dec.sub Dec.one pct

/-- the `total_shares` accumulator of `slash`: Σ of the stake atomics of the records of validator `v` owned by
`stakers` (the loop visits every member of the staker set once and loads a different record each time) -/
def sumShares (stakes : KMap (Addr × String) Shares) (v : String) (stakers : List Addr) : Nat :=
  ((stakes.filter fun p => p.1.2 = v ∧ p.1.1 ∈ stakers).map (·.2.stake.atomics)).sum

/-- `slash` after `update_rewards` and the `unwrap` (staking.rs:492-541, as fixed by c602f29): every staker's share
is scaled first (`expect` on a missing record), the validator total becomes the whole tokens of the sum of the scaled
shares, and only if that is zero all records of the validator are removed (removing the scaled records of the
stakers leaves the same list as removing the unscaled ones) -/
def applySlash (s : SState) (v : String) (vi : ValInfo) (rem : Dec) : Outcome SState :=
  if allStakersExist s.stakes v vi.stakers then
    if sumShares (scaleAll s.stakes v vi.stakers rem) v vi.stakers / Dec.ONE = 0 then
      .ok { s with stakes := removeAll s.stakes v vi.stakers,
                   queue := slashQueue s.queue v rem,
                   vinfo := KMap.set s.vinfo v { vi with stake := 0, stakers := [] } }
    else
      .ok { s with stakes := scaleAll s.stakes v vi.stakers rem,
                   queue := slashQueue s.queue v rem,
                   vinfo := KMap.set s.vinfo v
                     { vi with stake := sumShares (scaleAll s.stakes v vi.stakers rem) v vi.stakers / Dec.ONE } }
  else .panic                                 -- `expect` (staking.rs:509)

/-- `slash` (staking.rs:476-532); `percentage ≤ 1` was checked by the caller -/
def slash (s : SState) (now : Nat) (v : String) (pct : Dec) : Outcome SState :=
  match updateRewards s now v with
  | .ok s1 =>
    match KMap.get? s1.vinfo v with
    | none => .panic                              -- `.unwrap()` (staking.rs:490)
    | some vi => applySlash s1 v vi (remOf pct)
  | .err => .err
  | .panic => .panic
  | .outOfFuel => .outOfFuel

/-- Σ of the amounts still queued for `(d, v)` -/
def pendingFor (q : List Unbonding) (d : Addr) (v : String) : Nat :=
  ((q.filter fun u => u.delegator = d ∧ u.validator = v).map (·.amount)).sum

/-- the chain as far as the staking slice sees it -/
structure Chain where
  st : SState
  bank : Bank.State
  time : Nat
  height : Nat
  deriving Inhabited

/-- environment facts that are not storage: the pool address and `Api::addr_validate` -/
structure Cfg where
  pool : Addr
  valid : Addr → Bool

/-- `validator_info.stakers.remove(&delegator)` when the record exists (staking.rs:595-604) -/
def eraseStaker (m : KMap String ValInfo) (v : String) (d : Addr) : KMap String ValInfo :=
  match KMap.get? m v with
  | some vi => KMap.set m v { vi with stakers := setErase vi.stakers d }
  | none => m

/-- "remove staking entry if it is empty" (staking.rs:579-608): whole tokens of the stake plus what is still queued -/
def dropIfEmpty (s : SState) (u : Unbonding) (rest : List Unbonding) : SState :=
  match KMap.get? s.stakes (u.delegator, u.validator) with
  | some sh =>
    if sh.stake.floor + pendingFor rest u.delegator u.validator = 0 then
      { s with stakes := KMap.erase s.stakes (u.delegator, u.validator),
               vinfo := eraseStaker s.vinfo u.validator u.delegator }
    else s
  | none => s

/-- one iteration of the loop of `process_queue` for a matured entry `u`, `rest` being the remaining queue
(staking.rs:571-623) -/
def payOne (cfg : Cfg) (s : SState) (bank : Bank.State) (u : Unbonding) (rest : List Unbonding) :
    Outcome (SState × Bank.State) :=
  if u.amount = 0 then .ok (dropIfEmpty s u rest, bank)
  else
    match Bank.send bank cfg.pool u.delegator [⟨s.info.bondedDenom, u.amount⟩] with
    | some bank' => .ok (dropIfEmpty s u rest, bank')
    | none => .err

/-- `process_queue` (staking.rs:555-631): pops matured entries from the front (the queue is assumed sorted by
`payout_at`), saves the remaining queue at the end -/
def processQueue (cfg : Cfg) (now : Nat) (s : SState) (bank : Bank.State) :
    List Unbonding → Outcome (SState × Bank.State)
  | [] => .ok ({ s with queue := [] }, bank)
  | u :: rest =>
    if u.payoutAt ≤ now then
      match payOne cfg s bank u rest with
      | .ok (s', bank') => processQueue cfg now s' bank' rest
      | .err => .err
      | .panic => .panic
      | .outOfFuel => .outOfFuel
    else .ok ({ s with queue := u :: rest }, bank)

/-- `StakingMsg::Delegate` (staking.rs:662-697) -/
def delegate (cfg : Cfg) (c : Chain) (sender : Addr) (v : String) (coin : Coin) : Outcome Chain :=
  if coin.amount = 0 then .err else
  match addStake c.st c.time sender v coin with
  | .ok st =>
    match Bank.send c.bank sender cfg.pool [coin] with
    | some bank => .ok { c with st := st, bank := bank }
    | none => .err
  | .err => .err
  | .panic => .panic
  | .outOfFuel => .outOfFuel

/-- `StakingMsg::Undelegate` (staking.rs:698-735) -/
def undelegate (c : Chain) (sender : Addr) (v : String) (coin : Coin) : Outcome Chain :=
  if ¬ denomOk c.st coin.denom then .err
  else if coin.amount = 0 then .err
  else
    match removeStake c.st c.time sender v coin with
    | .ok st =>
      .ok { c with st := { st with queue := st.queue ++
              [⟨sender, v, coin.amount, c.time + NS * st.info.unbondingTime⟩] } }
    | .err => .err
    | .panic => .panic
    | .outOfFuel => .outOfFuel

/-- `StakingMsg::Redelegate` (staking.rs:736-768) -/
def redelegate (c : Chain) (sender : Addr) (src dst : String) (coin : Coin) : Outcome Chain :=
  match removeStake c.st c.time sender src coin with
  | .ok st =>
    match addStake st c.time sender dst coin with
    | .ok st => .ok { c with st := st }
    | .err => .err
    | .panic => .panic
    | .outOfFuel => .outOfFuel
  | .err => .err
  | .panic => .panic
  | .outOfFuel => .outOfFuel

/-- `StakingSudo::Slash` (staking.rs:875-883) -/
def sudoSlash (c : Chain) (v : String) (pct : Dec) : Outcome Chain :=
  if Dec.one < pct then .err
  else
    match slash c.st c.time v pct with
    | .ok st => .ok { c with st := st }
    | .err => .err
    | .panic => .panic
    | .outOfFuel => .outOfFuel

/-- `get_withdraw_address` -/
def withdrawAddr (s : SState) (d : Addr) : Addr := (KMap.get? s.withdraw d).getD d

/-- `DistributionMsg::WithdrawDelegatorReward` (staking.rs:903-924, 973-1004) -/
def withdrawRewards (cfg : Cfg) (c : Chain) (sender : Addr) (v : String) : Outcome Chain :=
  match updateRewards c.st c.time v with
  | .ok st =>
    match KMap.get? st.stakes (sender, v) with
    | none => .err
    | some sh =>
      if ¬ cfg.valid (withdrawAddr st sender) then .err        -- `BankSudo::Mint` validates the recipient
      else
        match Bank.mint c.bank (withdrawAddr st sender) [⟨st.info.bondedDenom, sh.rewards.floor⟩] with
        | some bank =>
          .ok { c with st := { st with stakes := KMap.set st.stakes (sender, v) { sh with rewards := Dec.zero } },
                       bank := bank }
        | none => .err
  | .err => .err
  | .panic => .panic
  | .outOfFuel => .outOfFuel

/-- `DistributionMsg::SetWithdrawAddress` (staking.rs:938-953, 1005-1015) -/
def setWithdraw (cfg : Cfg) (c : Chain) (sender : Addr) (a : Addr) : Outcome Chain :=
  if ¬ cfg.valid a then .err
  else if sender = a then .ok { c with st := { c.st with withdraw := KMap.erase c.st.withdraw sender } }
  else .ok { c with st := { c.st with withdraw := KMap.set c.st.withdraw sender a } }

/-- `StakeKeeper::setup` -/
def setup (c : Chain) (info : StakingInfo) : Chain := { c with st := { c.st with info := info } }

/-- `StakeKeeper::add_validator` (staking.rs:182-207) -/
def addValidator (c : Chain) (val : Validator) : Outcome Chain :=
  match c.st.validator? val.address with
  | some _ => .err
  | none =>
    .ok { c with st := { c.st with validators := c.st.validators ++ [val],
                                   vinfo := KMap.set c.st.vinfo val.address (ValInfo.new c.time) } }

/-- `App::update_block(|b| { b.time += dt; b.height += 1 })` / `App::set_block`: the block changes first, then
`process_queue(..).unwrap()` runs on the live storage (no transaction); `secs` is the step in NANOSECONDS (the
name is historical) -/
def advance (cfg : Cfg) (c : Chain) (secs : Nat) : Outcome Chain :=
  match processQueue cfg (c.time + secs) c.st c.bank c.st.queue with
  | .ok (st, bank) => .ok { st := st, bank := bank, time := c.time + secs, height := c.height + 1 }
  | .err => .panic
  | .panic => .panic
  | .outOfFuel => .outOfFuel

-- ---------------------------------------------------------------------------------------------
-- queries

/-- `get_rewards_internal` (staking.rs:244-270): whole tokens of `rewards + share of the not yet credited` -/
def shownReward (s : SState) (now : Nat) (sh : Shares) (vo : Validator) (vi : ValInfo) : Outcome Nat :=
  match calcRewards now vi.last s.info.apr vo.commission vi.stake with
  | .ok nr => .ok (Dec.add sh.rewards (shareOfRewards sh vi nr)).floor
  | .err => .err
  | .panic => .panic
  | .outOfFuel => .outOfFuel

/-- `StakingQuery::Delegation` (staking.rs:807-855): `none` = no delegation shown, else (amount, reward) -/
def queryDelegation (cfg : Cfg) (c : Chain) (d : Addr) (v : String) : Outcome (Option (Nat × Nat)) :=
  match c.st.validator? v with
  | none => .err
  | some vo =>
    if ¬ cfg.valid d then .err else
    match KMap.get? c.st.vinfo v with
    | none => .err
    | some vi =>
      match shownReward c.st c.time (curShares c.st d v) vo vi with
      | .ok r =>
        if (curShares c.st d v).stake.floor = 0 then .ok none
        else .ok (some ((curShares c.st d v).stake.floor, r))
      | .err => .err
      | .panic => .panic
      | .outOfFuel => .outOfFuel

/-- `StakingQuery::AllDelegations` (staking.rs:786-806): one entry per validator (insertion order) that has a
`STAKES` record for the delegator — also records whose whole-token amount is 0 -/
def queryAllDelegations (cfg : Cfg) (c : Chain) (d : Addr) : Outcome (List (String × Nat)) :=
  if ¬ cfg.valid d then .err else
  .ok (c.st.validators.filterMap fun vo =>
        (KMap.get? c.st.stakes (d, vo.address)).map fun sh => (vo.address, sh.stake.floor))

-- ---------------------------------------------------------------------------------------------
-- top-level operations of the slice

inductive Op where
  | delegate (sender : Addr) (v : String) (coin : Coin)
  | undelegate (sender : Addr) (v : String) (coin : Coin)
  | redelegate (sender : Addr) (src dst : String) (coin : Coin)
  | withdraw (sender : Addr) (v : String)
  | setWithdraw (sender : Addr) (a : Addr)
  | slash (v : String) (pct : Dec)
  | advance (secs : Nat)
  deriving Repr

/-- the body of an operation, before the transaction wrapper -/
def Op.run (cfg : Cfg) (c : Chain) : Op → Outcome Chain
  | .delegate a v coin => Staking.delegate cfg c a v coin
  | .undelegate a v coin => Staking.undelegate c a v coin
  | .redelegate a v1 v2 coin => Staking.redelegate c a v1 v2 coin
  | .withdraw a v => Staking.withdrawRewards cfg c a v
  | .setWithdraw a b => Staking.setWithdraw cfg c a b
  | .slash v p => Staking.sudoSlash c v p
  | .advance secs => Staking.advance cfg c secs

/-- result of a top-level call -/
inductive Res where
  | ok
  | err
  | panic
  deriving DecidableEq, Repr

/-- `App::execute` / `App::sudo` are transactional: `Err` leaves the state untouched. After a panic the `App`
is not used any more (the state component is then irrelevant; the model keeps the old one). -/
def step (cfg : Cfg) (c : Chain) (op : Op) : Chain × Res :=
  match op.run cfg c with
  | .ok c' => (c', .ok)
  | .err => (c, .err)
  | .panic => (c, .panic)
  | .outOfFuel => (c, .panic)

end Staking
end CwMt
