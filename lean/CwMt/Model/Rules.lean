/-
  CwMt.Model.Rules — two decision rules of /repo/src/wasm.rs as tables.

  `ReplyArm` is one arm of `execute_submsg`'s case distinction on the sub-message result: the `reply_on` variants for
  which `reply` is called (sorted) and the fields of the `Reply { … }` literal it builds (local variable names are canonicalised:
  `$r` is the variable bound by the arm's pattern). The table of the current sources is regenerated on every run
  (checklib/tr_rules.py → CwMt/Gen/Rules.lean); `expectedReplyArms` / `expectedVerifySteps` are what
  `Engine.executeSubmsg` and `attrOk` / `eventOk` / `responseOk` transcribe.
-/
namespace CwMt

structure ReplyArm where
  outcome : String
  modes : List String
  fields : List (String × String)
  deriving DecidableEq, Repr

def expectedReplyArms : List ReplyArm := [
  -- the sub-message succeeded: reply with its own events and data
  { outcome := "Ok", modes := ["Always", "Success"],
    fields := [("id", "id"), ("payload", "payload"), ("gas_used", "0"), ("result", "SubMsgResult::Ok"),
               ("result.events", "$r.events.clone()"), ("result.data", "$r.data.clone()")] },
  -- it failed: reply with the error
  { outcome := "Err", modes := ["Always", "Error"],
    fields := [("id", "id"), ("payload", "payload"), ("gas_used", "0"), ("result", "SubMsgResult::Err")] }
]

def expectedVerifySteps : List (String × String × String) := [
  ("verify_attributes", "for $attr", "attributes"),
  ("verify_attributes", "let $key", "$attr.key.trim()"),
  ("verify_attributes", "let $val", "$attr.value.trim()"),
  ("verify_attributes", "bail-if", "$key.is_empty()"),
  ("verify_attributes", "bail-if", "$key.starts_with('_')"),
  ("verify_response", "call", "Self::verify_attributes(&response.attributes)"),
  ("verify_response", "for $event", "response.events"),
  ("verify_response", "call", "Self::verify_attributes(&$event.attributes)"),
  ("verify_response", "let $ty", "$event.ty.trim()"),
  ("verify_response", "bail-if", "$ty.len()<2")
]

/-- the variant set of the arm for `outcome` (empty when the arm is missing) -/
def replyModes (arms : List ReplyArm) (outcome : String) : List String :=
  match arms.find? (·.outcome == outcome) with
  | some a => a.modes
  | none => []

end CwMt
