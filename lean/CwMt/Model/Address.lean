import CwMt.Model.Sha256
import CwMt.Model.Bech32
/-
  CwMt.Model.Address — how the crate derives addresses and default checksums, with SHA-256 concrete:

    classic contract address    /repo/src/addresses.rs `instantiate_address` + `contract_address`
    salted contract address     cosmwasm_std::instantiate2_address (called by `predictable_contract_address`)
    default checksum            /repo/src/checksums.rs `SimpleChecksumGenerator` = Checksum::generate("contract code {id}")
    addresses made from names   `addr_make` of MockApi / MockApiBech32 / MockApiBech32m

  The wasm driver recomputes every `bind*` declaration of a case with these functions, so the values the
  implementation declares are checked rather than trusted (slices with the default or a `MockApiBech` Api).
-/
namespace CwMt.Address
open CwMt CwMt.Bech32

def ascii (s : String) : List UInt8 := s.toUTF8.toList

/-- `hash("module", key)` of ADR-028 -/
def moduleHash (key : List UInt8) : List UInt8 :=
  Sha256.digest (Sha256.digest (ascii "module") ++ key)

/-- `instantiate_address(code_id, instance_id)`: canonical classic address -/
def classicCanonical (codeId instanceId : Nat) : List UInt8 :=
  moduleHash (ascii "wasm" ++ [0] ++ Sha256.be64 codeId ++ Sha256.be64 instanceId)

/-- `SimpleAddressGenerator::contract_address` = `api.addr_humanize(instantiate_address(..))` -/
def classicAddr (v : Variant) (pfx : List Char) (codeId instanceId : Nat) : Outcome (List Char) :=
  addrHumanize v pfx (classicCanonical codeId instanceId)

/-- `instantiate2_address(checksum, creator, salt)` (empty `msg`) -/
def instantiate2Canonical (checksum creator salt : List UInt8) : Outcome (List UInt8) :=
  if checksum.length ≠ 32 then .err
  else if salt.isEmpty || salt.length > 64 then .err
  else .ok (moduleHash (ascii "wasm" ++ [0] ++
    Sha256.be64 checksum.length ++ checksum ++ Sha256.be64 creator.length ++ creator ++
    Sha256.be64 salt.length ++ salt ++ Sha256.be64 0))

/-- `predictable_contract_address`: the creator arrives canonicalised by the Api -/
def saltedAddr (v : Variant) (pfx : List Char) (checksum : List UInt8) (creator : List Char) (salt : List UInt8) :
    Outcome (List Char) :=
  match addrCanonicalize v pfx creator with
  | .ok c =>
    match instantiate2Canonical checksum c salt with
    | .ok a => addrHumanize v pfx a
    | .err => .err
    | .panic => .panic
    | .outOfFuel => .outOfFuel
  | .err => .err
  | .panic => .panic
  | .outOfFuel => .outOfFuel

/-- `SimpleChecksumGenerator::checksum(creator, code_id)` -/
def defaultChecksum (codeId : Nat) : List UInt8 :=
  Sha256.digest (ascii ("contract code " ++ toString codeId))

/-- `addr_make(name)` with the real hash -/
def make (v : Variant) (pfx : List Char) (name : String) : Outcome (List Char) :=
  addrMake Sha256.digest v pfx (ascii name)

theorem classicCanonical_length (c i : Nat) : (classicCanonical c i).length = 32 :=
  Sha256.digest_length _

theorem defaultChecksum_length (c : Nat) : (defaultChecksum c).length = 32 :=
  Sha256.digest_length _

theorem instantiate2_length (k c s a : List UInt8) (h : instantiate2Canonical k c s = .ok a) : a.length = 32 := by
  unfold instantiate2Canonical at h
  split at h
  · cases h
  · split at h
    · cases h
    · cases h; exact Sha256.digest_length _

end CwMt.Address
