import CwMt.Model.Engine
import CwMt.Model.Rules
import CwMt.Gen.Rules
/- The reply rule and the response validation read from the current sources are the ones the engine model transcribes. -/
namespace CwMt.Rules
open CwMt

/-- how the Rust sources spell the four modes -/
def modeName : ReplyOn → String
  | .always => "Always" | .error => "Error" | .success => "Success" | .never => "Never"

theorem reply_arms_as_modelled : Gen.Rules.replyArms = expectedReplyArms := by decide

/-- the model replies after a successful sub-message exactly for the variants the sources list in the `Ok` arm -/
theorem wantsReplyOnOk_is_source_rule (m : ReplyOn) :
    wantsReplyOnOk m = (replyModes Gen.Rules.replyArms "Ok").contains (modeName m) := by
  cases m <;> decide

/-- … and after a failed one exactly for the variants listed in the `Err` arm -/
theorem wantsReplyOnErr_is_source_rule (m : ReplyOn) :
    wantsReplyOnErr m = (replyModes Gen.Rules.replyArms "Err").contains (modeName m) := by
  cases m <;> decide

end CwMt.Rules
