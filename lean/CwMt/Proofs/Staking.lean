import CwMt.Proofs.StakingBasic
import CwMt.Proofs.StakingBank
/-
  CwMt.Proofs.Staking — the invariant of the staking machine and its preservation (C14), building blocks for C15/C16.
-/
set_option linter.unusedSimpArgs false
set_option linter.unusedVariables false
namespace CwMt
namespace Staking
open KMap

def totalStake (m : KMap String ValInfo) : Nat := (m.map (·.2.stake)).sum
def queueTotal (q : List Unbonding) : Nat := (q.map (·.amount)).sum

def poolBal (cfg : Cfg) (c : Chain) : Nat := Bank.queryBalance c.bank cfg.pool c.st.info.bondedDenom

theorem totalStake_erase_le (m : KMap String ValInfo) (k : String) : totalStake (erase m k) ≤ totalStake m := by
  induction m with
  | nil => exact Nat.le_refl _
  | cons p m ih =>
    obtain ⟨k', v⟩ := p
    by_cases h : k' = k
    · simp only [erase, totalStake, List.filter_cons, ne_eq, h, not_true_eq_false, decide_false, Bool.false_eq_true,
        ite_false, List.map_cons, List.sum_cons] at ih ⊢
      omega
    · simp only [erase, totalStake, List.filter_cons, ne_eq, h, not_false_eq_true, decide_true, ite_true,
        List.map_cons, List.sum_cons] at ih ⊢
      omega

theorem totalStake_erase_get (m : KMap String ValInfo) (k : String) (old : ValInfo) (h : get? m k = some old) :
    totalStake (erase m k) + old.stake ≤ totalStake m := by
  induction m with
  | nil => simp at h
  | cons p m ih =>
    obtain ⟨k', v⟩ := p
    rw [get?_cons] at h
    by_cases h1 : k' = k
    · simp only [h1, ite_true, Option.some.injEq] at h
      subst h
      have := totalStake_erase_le m k
      simp only [erase, totalStake, List.filter_cons, ne_eq, h1, not_true_eq_false, decide_false, Bool.false_eq_true,
        ite_false, List.map_cons, List.sum_cons] at this ⊢
      omega
    · simp only [h1, ite_false] at h
      have := ih h
      simp only [erase, totalStake, List.filter_cons, ne_eq, h1, not_false_eq_true, decide_true, ite_true,
        List.map_cons, List.sum_cons] at this ⊢
      omega

theorem totalStake_set (m : KMap String ValInfo) (k : String) (old new : ValInfo) (h : get? m k = some old) :
    totalStake (KMap.set m k new) + old.stake ≤ totalStake m + new.stake := by
  have := totalStake_erase_get m k old h
  simp only [KMap.set, totalStake, List.map_cons, List.sum_cons] at this ⊢
  omega

theorem totalStake_set_new (m : KMap String ValInfo) (k : String) (new : ValInfo) :
    totalStake (KMap.set m k new) ≤ totalStake m + new.stake := by
  have := totalStake_erase_le m k
  simp only [KMap.set, totalStake, List.map_cons, List.sum_cons] at this ⊢
  omega

-- ---------------------------------------------------------------------------------------------
-- calculate_rewards

theorem netReward_ok (r c : Dec) (hc : c.atomics ≤ Dec.ONE) :
    netReward r c = .ok (Dec.sub r (Dec.mul r c)) := by
  unfold netReward
  have h : ¬ r < Dec.mul r c := by
    intro hlt
    exact Nat.lt_irrefl _ (Nat.lt_of_lt_of_le hlt (Dec.mul_le_left r c hc))
  rw [if_neg h]

theorem calcRewards_ok (now since : Nat) (apr c : Dec) (stake : Nat) (h : since ≤ now) (hc : c.atomics ≤ Dec.ONE) :
    calcRewards now since apr c stake =
      .ok (Dec.sub (grossReward now since apr stake) (Dec.mul (grossReward now since apr stake) c)) := by
  unfold calcRewards
  rw [if_neg (by omega), netReward_ok _ _ hc]

theorem calcRewards_cases (now since : Nat) (apr c : Dec) (stake : Nat) :
    calcRewards now since apr c stake = .panic ∨ ∃ nr, calcRewards now since apr c stake = .ok nr := by
  unfold calcRewards netReward
  split
  · exact Or.inl rfl
  · split
    · exact Or.inl rfl
    · exact Or.inr ⟨_, rfl⟩

-- ---------------------------------------------------------------------------------------------
-- update_rewards

/-- what a successful `update_rewards` of validator `v` may have changed -/
structure UR (s : SState) (now : Nat) (v : String) (s' : SState) : Prop where
  info : s'.info = s.info
  validators : s'.validators = s.validators
  queue : s'.queue = s.queue
  withdraw : s'.withdraw = s.withdraw
  vinfo_other : ∀ w, w ≠ v → get? s'.vinfo w = get? s.vinfo w
  vinfo_self : ∃ vi, get? s.vinfo v = some vi ∧
      get? s'.vinfo v = some { vi with last := if vi.last ≥ now then vi.last else now }
  valid : ∃ vo, s.validator? v = some vo
  total : totalStake s'.vinfo ≤ totalStake s.vinfo
  stakes : ∀ k, ∃ F : Shares → Shares, get? s'.stakes k = (get? s.stakes k).map F ∧
      (∀ sh, (F sh).stake = sh.stake) ∧ (k.2 ≠ v → ∀ sh, F sh = sh)

theorem get?_creditAll (stakes : KMap (Addr × String) Shares) (v : String) (vi : ValInfo) (nr : Dec)
    (k : Addr × String) :
    get? (creditAll stakes v vi nr) k = (get? stakes k).map fun sh =>
      if k.2 = v ∧ k.1 ∈ vi.stakers then { sh with rewards := Dec.add sh.rewards (shareOfRewards sh vi nr) } else sh := by
  unfold creditAll
  exact get?_mapVal stakes (fun k sh => if k.2 = v ∧ k.1 ∈ vi.stakers then
    { sh with rewards := Dec.add sh.rewards (shareOfRewards sh vi nr) } else sh) k

theorem updR_ok {s s' : SState} {now : Nat} {v : String} (h : updateRewards s now v = .ok s') : UR s now v s' := by
  unfold updateRewards at h
  split at h
  · simp at h
  · rename_i vi hvi
    split at h
    · simp at h
    · rename_i vo hvo
      split at h
      · rename_i hge
        simp only [Outcome.ok.injEq] at h; subst h
        refine ⟨rfl, rfl, rfl, rfl, fun _ _ => rfl, ⟨vi, hvi, ?_⟩, ⟨vo, hvo⟩, Nat.le_refl _, fun k => ⟨id, by simp, by simp, by simp⟩⟩
        simp [hge, hvi]
      · rename_i hlt
        have htot : totalStake (KMap.set s.vinfo v { vi with last := now }) ≤ totalStake s.vinfo := by
          have := totalStake_set s.vinfo v vi { vi with last := now } hvi
          simp only at this; omega
        split at h
        · rename_i nr hnr
          split at h
          · simp only [Outcome.ok.injEq] at h; subst h
            refine ⟨rfl, rfl, rfl, rfl, fun w hw => get?_set_ne _ _ hw, ⟨vi, hvi, ?_⟩, ⟨vo, hvo⟩, htot,
              fun k => ⟨id, by simp, by simp, by simp⟩⟩
            simp [hlt, get?_set_self]
          · split at h
            · simp only [Outcome.ok.injEq] at h; subst h
              refine ⟨rfl, rfl, rfl, rfl, fun w hw => get?_set_ne _ _ hw, ⟨vi, hvi, ?_⟩, ⟨vo, hvo⟩, htot, fun k => ?_⟩
              · simp [hlt, get?_set_self]
              · refine ⟨_, get?_creditAll _ v vi nr k, ?_, ?_⟩
                · intro sh; split <;> rfl
                · intro hk sh; simp [hk]
            · simp at h
        · simp at h
        · simp at h
        · simp at h

/-- `update_rewards` cannot panic when every staker has a record and the commission is at most 1 -/
theorem updR_no_panic (s : SState) (now : Nat) (v : String)
    (hst : ∀ vi d, get? s.vinfo v = some vi → d ∈ vi.stakers → (get? s.stakes (d, v)).isSome)
    (hc : ∀ vo ∈ s.validators, vo.commission.atomics ≤ Dec.ONE) :
    updateRewards s now v ≠ .panic ∧ updateRewards s now v ≠ .outOfFuel := by
  unfold updateRewards
  split
  · simp
  · rename_i vi hvi
    split
    · simp
    · rename_i vo hvo
      split
      · simp
      · rename_i hlt
        have hvo' : vo ∈ s.validators := List.mem_of_find?_eq_some hvo
        rw [calcRewards_ok now vi.last s.info.apr vo.commission vi.stake (by omega) (hc vo hvo')]
        simp only
        split
        · simp
        · split
          · simp
          · rename_i hall
            exfalso; apply hall
            simp only [allStakersExist, List.all_eq_true, contains]
            intro d hd
            exact hst vi d hvi hd

-- ---------------------------------------------------------------------------------------------
-- the storage part of the invariant: staker sets in step with the records (I1, I2), commissions at most 1

structure SInv (s : SState) : Prop where
  stakers_have : ∀ v vi d, get? s.vinfo v = some vi → d ∈ vi.stakers → (get? s.stakes (d, v)).isSome
  stakes_listed : ∀ d v sh, get? s.stakes (d, v) = some sh → ∃ vi, get? s.vinfo v = some vi ∧ d ∈ vi.stakers
  comm_le : ∀ vo ∈ s.validators, vo.commission.atomics ≤ Dec.ONE

theorem SInv_updR {s s' : SState} {now : Nat} {v : String} (hi : SInv s) (h : UR s now v s') : SInv s' := by
  obtain ⟨vi, hvi, hvi'⟩ := h.vinfo_self
  refine ⟨?_, ?_, ?_⟩
  · intro w vi2 d hw hd
    obtain ⟨F, hF, _, _⟩ := h.stakes (d, w)
    rw [hF]
    by_cases e : w = v
    · subst e
      rw [hvi'] at hw
      simp only [Option.some.injEq] at hw
      subst hw
      have := hi.stakers_have w vi d hvi hd
      cases hg : get? s.stakes (d, w) <;> simp [hg] at this ⊢
    · rw [h.vinfo_other w e] at hw
      have := hi.stakers_have w vi2 d hw hd
      cases hg : get? s.stakes (d, w) <;> simp [hg] at this ⊢
  · intro d w sh hsh
    obtain ⟨F, hF, _, _⟩ := h.stakes (d, w)
    rw [hF] at hsh
    cases hg : get? s.stakes (d, w) with
    | none => simp [hg] at hsh
    | some sh0 =>
      obtain ⟨vi2, hv2, hd⟩ := hi.stakes_listed d w sh0 hg
      by_cases e : w = v
      · subst e
        rw [hvi] at hv2
        simp only [Option.some.injEq] at hv2
        subst hv2
        exact ⟨_, hvi', hd⟩
      · exact ⟨vi2, by rw [h.vinfo_other w e]; exact hv2, hd⟩
  · intro vo hvo
    rw [h.validators] at hvo
    exact hi.comm_le vo hvo

/-- saving a changed record of `(d, v)` together with the matching staker-set update keeps I1/I2 -/
theorem SInv_stakeSaved {s : SState} (hi : SInv s) (d : Addr) (v : String) (sh' : Shares) (vi0 vi' : ValInfo)
    (hv : get? s.vinfo v = some vi0) (hst : vi'.stakers = vi0.stakers) : SInv (stakeSaved s d v sh' vi') := by
  unfold stakeSaved
  split
  · refine ⟨?_, ?_, hi.comm_le⟩
    · intro w vi2 d2 hw hd
      simp only [get?_set] at hw
      by_cases e : w = v
      · subst e
        simp only [ite_true, Option.some.injEq] at hw
        subst hw
        simp only [mem_setErase, hst] at hd
        have := hi.stakers_have w vi0 d2 hv hd.1
        have hne : (d2, w) ≠ (d, w) := by intro x; exact hd.2 (Prod.mk.inj x).1
        simpa [get?_erase, hne] using this
      · simp only [e, ite_false] at hw
        have := hi.stakers_have w vi2 d2 hw hd
        have hne : (d2, w) ≠ (d, v) := by intro x; exact e (Prod.mk.inj x).2
        simpa [get?_erase, hne] using this
    · intro d2 w sh hsh
      simp only [get?_erase] at hsh
      split at hsh
      · simp at hsh
      · rename_i hne
        obtain ⟨vi2, hv2, hd2⟩ := hi.stakes_listed d2 w sh hsh
        by_cases e : w = v
        · subst e
          rw [hv] at hv2; simp only [Option.some.injEq] at hv2; subst hv2
          refine ⟨_, get?_set_self _ _ _, ?_⟩
          simp only [mem_setErase, hst]
          exact ⟨hd2, fun x => hne (by rw [x])⟩
        · exact ⟨vi2, by simp [get?_set, e, hv2], hd2⟩
  · refine ⟨?_, ?_, hi.comm_le⟩
    · intro w vi2 d2 hw hd
      simp only [get?_set] at hw
      by_cases e : w = v
      · subst e
        simp only [ite_true, Option.some.injEq] at hw
        subst hw
        simp only [mem_setInsert, hst] at hd
        by_cases e2 : d2 = d
        · subst e2; simp [get?_set]
        · have hd' : d2 ∈ vi0.stakers := by
            rcases hd with h1 | h1
            · exact absurd h1 e2
            · exact h1
          have := hi.stakers_have w vi0 d2 hv hd'
          have hne : (d2, w) ≠ (d, w) := by intro x; exact e2 (Prod.mk.inj x).1
          simpa [get?_set, hne] using this
      · simp only [e, ite_false] at hw
        have := hi.stakers_have w vi2 d2 hw hd
        have hne : (d2, w) ≠ (d, v) := by intro x; exact e (Prod.mk.inj x).2
        simpa [get?_set, hne] using this
    · intro d2 w sh hsh
      simp only [get?_set] at hsh
      split at hsh
      · rename_i heq
        obtain ⟨rfl, rfl⟩ := Prod.mk.inj heq
        exact ⟨_, get?_set_self _ _ _, by simp [mem_setInsert]⟩
      · rename_i hne
        obtain ⟨vi2, hv2, hd2⟩ := hi.stakes_listed d2 w sh hsh
        by_cases e : w = v
        · subst e
          rw [hv] at hv2; simp only [Option.some.injEq] at hv2; subst hv2
          refine ⟨_, get?_set_self _ _ _, ?_⟩
          simp only [mem_setInsert, hst]
          exact Or.inr hd2
        · exact ⟨vi2, by simp [get?_set, e, hv2], hd2⟩

theorem viOf_of_get {s : SState} {now : Nat} {v : String} {vi : ValInfo} (h : get? s.vinfo v = some vi) :
    viOf s now v = vi := by simp [viOf, h]

theorem SInv_applyStake {s s' : SState} {now : Nat} {d : Addr} {v : String} {amount : Nat} {sub : Bool}
    (hi : SInv s) (vi0 : ValInfo) (hv : get? s.vinfo v = some vi0)
    (h : applyStake s now d v amount sub = .ok s') : SInv s' := by
  unfold applyStake at h
  rw [viOf_of_get hv] at h
  split at h
  · split at h
    · simp at h
    · split at h
      · simp at h
      · split at h
        · simp at h
        · simp only [Outcome.ok.injEq] at h; subst h
          exact SInv_stakeSaved hi d v _ vi0 _ hv rfl
  · simp only [Outcome.ok.injEq] at h; subst h
    exact SInv_stakeSaved hi d v _ vi0 _ hv rfl

/-- I1/I2 only depend on which records exist and on the staker sets -/
theorem SInv_of_same_shape {s s' : SState} (hi : SInv s)
    (hk : ∀ k, (get? s'.stakes k).isSome = (get? s.stakes k).isSome)
    (hv : ∀ w, (get? s'.vinfo w).map (·.stakers) = (get? s.vinfo w).map (·.stakers))
    (hval : s'.validators = s.validators) : SInv s' := by
  refine ⟨?_, ?_, ?_⟩
  · intro w vi2 d hw hd
    have h1 := hv w
    rw [hw] at h1
    cases hg : get? s.vinfo w with
    | none => simp [hg] at h1
    | some vi1 =>
      simp only [hg, Option.map_some, Option.some.injEq] at h1
      rw [hk]
      exact hi.stakers_have w vi1 d hg (by rw [← h1]; exact hd)
  · intro d w sh hsh
    have h1 := hk (d, w)
    rw [hsh] at h1
    cases hg : get? s.stakes (d, w) with
    | none => simp [hg] at h1
    | some sh0 =>
      obtain ⟨vi1, hv1, hd⟩ := hi.stakes_listed d w sh0 hg
      have h2 := hv w
      rw [hv1] at h2
      cases hg2 : get? s'.vinfo w with
      | none => simp [hg2] at h2
      | some vi2 =>
        simp only [hg2, Option.map_some, Option.some.injEq] at h2
        exact ⟨vi2, rfl, by rw [h2]; exact hd⟩
  · intro vo hvo
    rw [hval] at hvo
    exact hi.comm_le vo hvo

theorem get?_scaleAll (stakes : KMap (Addr × String) Shares) (v : String) (l : List Addr) (rem : Dec)
    (k : Addr × String) :
    get? (scaleAll stakes v l rem) k = (get? stakes k).map fun sh =>
      if k.2 = v ∧ k.1 ∈ l then { sh with stake := Dec.mul sh.stake rem } else sh := by
  unfold scaleAll
  exact get?_mapVal stakes (fun k sh => if k.2 = v ∧ k.1 ∈ l then { sh with stake := Dec.mul sh.stake rem } else sh) k

theorem get?_removeAll (stakes : KMap (Addr × String) Shares) (v : String) (l : List Addr) (k : Addr × String) :
    get? (removeAll stakes v l) k = if k.2 = v ∧ k.1 ∈ l then none else get? stakes k := by
  unfold removeAll
  have := get?_filterKey stakes (fun k => decide (¬ (k.2 = v ∧ k.1 ∈ l))) k
  rw [this]
  by_cases h : k.2 = v ∧ k.1 ∈ l
  · simp [h]
  · simp [h]

theorem SInv_applySlash {s s' : SState} {v : String} {vi : ValInfo} {rem : Dec} (hi : SInv s)
    (hv : get? s.vinfo v = some vi) (h : applySlash s v vi rem = .ok s') : SInv s' := by
  unfold applySlash at h
  split at h
  · simp only [Outcome.ok.injEq] at h; subst h
    refine ⟨?_, ?_, hi.comm_le⟩
    · intro w vi2 d hw hd
      simp only [get?_set] at hw
      by_cases e : w = v
      · subst e; simp only [ite_true, Option.some.injEq] at hw; subst hw; simp at hd
      · simp only [e, ite_false] at hw
        have := hi.stakers_have w vi2 d hw hd
        simpa [get?_removeAll, e] using this
    · intro d w sh hsh
      simp only [get?_removeAll] at hsh
      split at hsh
      · simp at hsh
      · rename_i hn
        obtain ⟨vi2, hv2, hd⟩ := hi.stakes_listed d w sh hsh
        by_cases e : w = v
        · subst e
          rw [hv] at hv2; simp only [Option.some.injEq] at hv2; subst hv2
          exact absurd ⟨rfl, hd⟩ hn
        · exact ⟨vi2, by simp [get?_set, e, hv2], hd⟩
  · split at h
    · simp only [Outcome.ok.injEq] at h; subst h
      apply SInv_of_same_shape hi
      · intro k; simp only [get?_scaleAll]; cases get? s.stakes k <;> rfl
      · intro w
        simp only [get?_set]
        by_cases e : w = v
        · subst e; simp [hv]
        · simp [e]
      · rfl
    · simp at h

theorem SInv_dropIfEmpty {s : SState} (hi : SInv s) (u : Unbonding) (rest : List Unbonding) :
    SInv (dropIfEmpty s u rest) := by
  unfold dropIfEmpty
  split
  · rename_i sh hsh
    split
    · obtain ⟨vi, hv, hd⟩ := hi.stakes_listed _ _ sh hsh
      have : eraseStaker s.vinfo u.validator u.delegator =
          KMap.set s.vinfo u.validator { vi with stakers := setErase vi.stakers u.delegator } := by
        simp [eraseStaker, hv]
      rw [this]
      have h0 := SInv_stakeSaved hi u.delegator u.validator ⟨Dec.zero, Dec.zero⟩ vi vi hv rfl
      simpa [stakeSaved, Dec.isZero, Dec.zero] using h0
    · exact hi
  · exact hi

theorem SInv_setRewards {s : SState} (hi : SInv s) (k : Addr × String) (sh sh' : Shares)
    (h : get? s.stakes k = some sh) : SInv { s with stakes := KMap.set s.stakes k sh' } := by
  apply SInv_of_same_shape hi
  · intro k2
    simp only [get?_set]
    by_cases e : k2 = k
    · subst e; simp [h]
    · simp [e]
  · intro w; rfl
  · rfl

-- ---------------------------------------------------------------------------------------------
-- bookkeeping facts of the storage-level operations: frame, validator totals, last-calculation times

def LastLe (s : SState) (now : Nat) : Prop := ∀ w vi, get? s.vinfo w = some vi → vi.last ≤ now

theorem LastLe_updR {s s' : SState} {now : Nat} {v : String} (hl : LastLe s now) (h : UR s now v s') :
    LastLe s' now := by
  intro w vi' hw
  obtain ⟨vi, hvi, hvi'⟩ := h.vinfo_self
  by_cases e : w = v
  · subst e
    rw [hvi'] at hw; simp only [Option.some.injEq] at hw; subst hw
    have := hl w vi hvi
    simp only; split <;> omega
  · rw [h.vinfo_other w e] at hw; exact hl w vi' hw

/-- frame and totals of `stakeSaved` -/
theorem stakeSaved_facts (s : SState) (d : Addr) (v : String) (sh' : Shares) (vi0 vi' : ValInfo)
    (hv : get? s.vinfo v = some vi0) :
    (stakeSaved s d v sh' vi').info = s.info ∧ (stakeSaved s d v sh' vi').validators = s.validators ∧
    (stakeSaved s d v sh' vi').queue = s.queue ∧ (stakeSaved s d v sh' vi').withdraw = s.withdraw ∧
    totalStake (stakeSaved s d v sh' vi').vinfo + vi0.stake ≤ totalStake s.vinfo + vi'.stake ∧
    (∀ now, LastLe s now → vi'.last ≤ now → LastLe (stakeSaved s d v sh' vi') now) := by
  unfold stakeSaved
  split
  · refine ⟨rfl, rfl, rfl, rfl, ?_, ?_⟩
    · exact totalStake_set s.vinfo v vi0 _ hv
    · intro now hl hle w vi2 hw
      simp only [get?_set] at hw
      split at hw
      · simp only [Option.some.injEq] at hw; subst hw; exact hle
      · exact hl w vi2 hw
  · refine ⟨rfl, rfl, rfl, rfl, ?_, ?_⟩
    · exact totalStake_set s.vinfo v vi0 _ hv
    · intro now hl hle w vi2 hw
      simp only [get?_set] at hw
      split at hw
      · simp only [Option.some.injEq] at hw; subst hw; exact hle
      · exact hl w vi2 hw

/-- everything the chain-level proofs need to know about a successful `update_stake` -/
structure USpec (s : SState) (now : Nat) (amount : Nat) (sub : Bool) (s' : SState) : Prop where
  sinv : SInv s → SInv s'
  info : s'.info = s.info
  validators : s'.validators = s.validators
  queue : s'.queue = s.queue
  withdraw : s'.withdraw = s.withdraw
  total_add : sub = false → totalStake s'.vinfo ≤ totalStake s.vinfo + amount
  total_sub : sub = true → totalStake s'.vinfo + amount ≤ totalStake s.vinfo
  lastle : LastLe s now → LastLe s' now

theorem UR_self' {s s' : SState} {now : Nat} {v : String} (ur : UR s now v s') :
    ∃ vi vi1, get? s.vinfo v = some vi ∧ get? s'.vinfo v = some vi1 ∧ vi1.stakers = vi.stakers ∧
      vi1.stake = vi.stake ∧ (vi.last ≤ now → vi1.last ≤ now) := by
  obtain ⟨vi, hvi, hvi1⟩ := ur.vinfo_self
  refine ⟨vi, _, hvi, hvi1, rfl, rfl, ?_⟩
  intro h; simp only; split <;> omega

theorem updateStake_spec {s s' : SState} {now : Nat} {d : Addr} {v : String} {amount : Nat} {sub : Bool}
    (h : updateStake s now d v amount sub = .ok s') : USpec s now amount sub s' := by
  unfold updateStake at h
  split at h
  · rename_i s1 h1
    have ur := updR_ok h1
    obtain ⟨vi, vi1, hvi, hvi1, hst, hstk, hlast⟩ := UR_self' ur
    unfold applyStake at h
    rw [viOf_of_get hvi1] at h
    by_cases hsub : sub = true
    · simp only [hsub, ite_true] at h
      split at h
      · simp at h
      · rename_i sh hsh
        by_cases h2 : sh.stake < Dec.ofNat amount
        · simp [h2] at h
        · by_cases h3 : vi1.stake < amount
          · simp [h2, h3] at h
          · simp only [h2, h3, ite_false, Outcome.ok.injEq] at h; subst h
            obtain ⟨f1, f2, f3, f4, f5, f6⟩ := stakeSaved_facts s1 d v
              { sh with stake := Dec.sub sh.stake (Dec.ofNat amount) } vi1
              { vi1 with stake := vi1.stake - amount } hvi1
            refine ⟨fun hi => SInv_stakeSaved (SInv_updR hi ur) d v _ vi1 _ hvi1 rfl, f1.trans ur.info,
              f2.trans ur.validators, f3.trans ur.queue, f4.trans ur.withdraw, by simp [hsub], ?_, ?_⟩
            · intro _
              have := ur.total
              simp only at f5
              omega
            · intro hl
              exact f6 now (LastLe_updR hl ur) (hlast (hl v vi hvi))
    · simp only [hsub, Bool.false_eq_true, ite_false, Outcome.ok.injEq] at h; subst h
      obtain ⟨f1, f2, f3, f4, f5, f6⟩ := stakeSaved_facts s1 d v
        { curShares s1 d v with stake := Dec.add (curShares s1 d v).stake (Dec.ofNat amount) } vi1
        { vi1 with stake := vi1.stake + amount } hvi1
      refine ⟨fun hi => SInv_stakeSaved (SInv_updR hi ur) d v _ vi1 _ hvi1 rfl, f1.trans ur.info,
        f2.trans ur.validators, f3.trans ur.queue, f4.trans ur.withdraw, ?_, by simp [hsub], ?_⟩
      · intro _
        have := ur.total
        simp only at f5
        omega
      · intro hl
        exact f6 now (LastLe_updR hl ur) (hlast (hl v vi hvi))
  · simp at h
  · simp at h
  · simp at h

theorem updateStake_no_panic (s : SState) (now : Nat) (d : Addr) (v : String) (amount : Nat) (sub : Bool)
    (hi : SInv s) : updateStake s now d v amount sub ≠ .panic ∧ updateStake s now d v amount sub ≠ .outOfFuel := by
  have := updR_no_panic s now v (fun vi d => hi.stakers_have v vi d) hi.comm_le
  unfold updateStake
  split
  · unfold applyStake
    split
    · split
      · simp
      · split
        · simp
        · split <;> simp
    · simp
  · simp
  · rename_i h; exact absurd h this.1
  · rename_i h; exact absurd h this.2

end Staking
end CwMt
