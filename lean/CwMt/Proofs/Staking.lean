import CwMt.Proofs.StakingBasic
import CwMt.Proofs.StakingBank
/-
  CwMt.Proofs.Staking — the invariant of the staking machine and its preservation (C14), building blocks for C15/C16.
-/
set_option linter.unusedSimpArgs false
set_option linter.unusedVariables false
namespace CwMt
namespace Staking
open KMap

def totalStake (m : KMap String ValInfo) : Nat := (m.map (·.2.stake)).sum
def queueTotal (q : List Unbonding) : Nat := (q.map (·.amount)).sum

def poolBal (cfg : Cfg) (c : Chain) : Nat := Bank.queryBalance c.bank cfg.pool c.st.info.bondedDenom

theorem totalStake_erase_le (m : KMap String ValInfo) (k : String) : totalStake (erase m k) ≤ totalStake m := by
  induction m with
  | nil => exact Nat.le_refl _
  | cons p m ih =>
    obtain ⟨k', v⟩ := p
    by_cases h : k' = k
    · simp only [erase, totalStake, List.filter_cons, ne_eq, h, not_true_eq_false, decide_false, Bool.false_eq_true,
        ite_false, List.map_cons, List.sum_cons] at ih ⊢
      omega
    · simp only [erase, totalStake, List.filter_cons, ne_eq, h, not_false_eq_true, decide_true, ite_true,
        List.map_cons, List.sum_cons] at ih ⊢
      omega

theorem totalStake_erase_get (m : KMap String ValInfo) (k : String) (old : ValInfo) (h : get? m k = some old) :
    totalStake (erase m k) + old.stake ≤ totalStake m := by
  induction m with
  | nil => simp at h
  | cons p m ih =>
    obtain ⟨k', v⟩ := p
    rw [get?_cons] at h
    by_cases h1 : k' = k
    · simp only [h1, ite_true, Option.some.injEq] at h
      subst h
      have := totalStake_erase_le m k
      simp only [erase, totalStake, List.filter_cons, ne_eq, h1, not_true_eq_false, decide_false, Bool.false_eq_true,
        ite_false, List.map_cons, List.sum_cons] at this ⊢
      omega
    · simp only [h1, ite_false] at h
      have := ih h
      simp only [erase, totalStake, List.filter_cons, ne_eq, h1, not_false_eq_true, decide_true, ite_true,
        List.map_cons, List.sum_cons] at this ⊢
      omega

theorem totalStake_set (m : KMap String ValInfo) (k : String) (old new : ValInfo) (h : get? m k = some old) :
    totalStake (KMap.set m k new) + old.stake ≤ totalStake m + new.stake := by
  have := totalStake_erase_get m k old h
  simp only [KMap.set, totalStake, List.map_cons, List.sum_cons] at this ⊢
  omega

theorem totalStake_set_new (m : KMap String ValInfo) (k : String) (new : ValInfo) :
    totalStake (KMap.set m k new) ≤ totalStake m + new.stake := by
  have := totalStake_erase_le m k
  simp only [KMap.set, totalStake, List.map_cons, List.sum_cons] at this ⊢
  omega

-- ---------------------------------------------------------------------------------------------
-- calculate_rewards

theorem netReward_ok (r c : Dec) (hc : c.atomics ≤ Dec.ONE) :
    netReward r c = .ok (Dec.sub r (Dec.mul r c)) := by
  unfold netReward
  have h : ¬ r < Dec.mul r c := by
    intro hlt
    exact Nat.lt_irrefl _ (Nat.lt_of_lt_of_le hlt (Dec.mul_le_left r c hc))
  rw [if_neg h]

theorem calcRewards_ok (now since : Nat) (apr c : Dec) (stake : Nat) (h : since ≤ now) (hc : c.atomics ≤ Dec.ONE) :
    calcRewards now since apr c stake =
      .ok (Dec.sub (grossReward now since apr stake) (Dec.mul (grossReward now since apr stake) c)) := by
  unfold calcRewards
  have hle : since / NS ≤ now / NS := Nat.div_le_div_right h
  rw [if_neg (by omega), netReward_ok _ _ hc]

theorem calcRewards_cases (now since : Nat) (apr c : Dec) (stake : Nat) :
    calcRewards now since apr c stake = .panic ∨ ∃ nr, calcRewards now since apr c stake = .ok nr := by
  unfold calcRewards netReward
  split
  · exact Or.inl rfl
  · split
    · exact Or.inl rfl
    · exact Or.inr ⟨_, rfl⟩

-- ---------------------------------------------------------------------------------------------
-- update_rewards

/-- what a successful `update_rewards` of validator `v` may have changed -/
structure UR (s : SState) (now : Nat) (v : String) (s' : SState) : Prop where
  info : s'.info = s.info
  validators : s'.validators = s.validators
  queue : s'.queue = s.queue
  withdraw : s'.withdraw = s.withdraw
  vinfo_other : ∀ w, w ≠ v → get? s'.vinfo w = get? s.vinfo w
  vinfo_self : ∃ vi, get? s.vinfo v = some vi ∧
      get? s'.vinfo v = some { vi with last := if vi.last ≥ now then vi.last else now }
  valid : ∃ vo, s.validator? v = some vo
  total : totalStake s'.vinfo ≤ totalStake s.vinfo
  stakes : ∀ k, ∃ F : Shares → Shares, get? s'.stakes k = (get? s.stakes k).map F ∧
      (∀ sh, (F sh).stake = sh.stake) ∧ (k.2 ≠ v → ∀ sh, F sh = sh)

theorem get?_creditAll (stakes : KMap (Addr × String) Shares) (v : String) (vi : ValInfo) (nr : Dec)
    (k : Addr × String) :
    get? (creditAll stakes v vi nr) k = (get? stakes k).map fun sh =>
      if k.2 = v ∧ k.1 ∈ vi.stakers then { sh with rewards := Dec.add sh.rewards (shareOfRewards sh vi nr) } else sh := by
  unfold creditAll
  exact get?_mapVal stakes (fun k sh => if k.2 = v ∧ k.1 ∈ vi.stakers then
    { sh with rewards := Dec.add sh.rewards (shareOfRewards sh vi nr) } else sh) k

theorem updR_ok {s s' : SState} {now : Nat} {v : String} (h : updateRewards s now v = .ok s') : UR s now v s' := by
  unfold updateRewards at h
  split at h
  · simp at h
  · rename_i vi hvi
    split at h
    · simp at h
    · rename_i vo hvo
      split at h
      · rename_i hge
        simp only [Outcome.ok.injEq] at h; subst h
        refine ⟨rfl, rfl, rfl, rfl, fun _ _ => rfl, ⟨vi, hvi, ?_⟩, ⟨vo, hvo⟩, Nat.le_refl _, fun k => ⟨id, by simp, by simp, by simp⟩⟩
        simp [hge, hvi]
      · rename_i hlt
        have htot : totalStake (KMap.set s.vinfo v { vi with last := now }) ≤ totalStake s.vinfo := by
          have := totalStake_set s.vinfo v vi { vi with last := now } hvi
          simp only at this; omega
        split at h
        · rename_i nr hnr
          split at h
          · simp only [Outcome.ok.injEq] at h; subst h
            refine ⟨rfl, rfl, rfl, rfl, fun w hw => get?_set_ne _ _ hw, ⟨vi, hvi, ?_⟩, ⟨vo, hvo⟩, htot,
              fun k => ⟨id, by simp, by simp, by simp⟩⟩
            simp [hlt, get?_set_self]
          · split at h
            · simp only [Outcome.ok.injEq] at h; subst h
              refine ⟨rfl, rfl, rfl, rfl, fun w hw => get?_set_ne _ _ hw, ⟨vi, hvi, ?_⟩, ⟨vo, hvo⟩, htot, fun k => ?_⟩
              · simp [hlt, get?_set_self]
              · refine ⟨_, get?_creditAll _ v vi nr k, ?_, ?_⟩
                · intro sh; split <;> rfl
                · intro hk sh; simp [hk]
            · simp at h
        · simp at h
        · simp at h
        · simp at h

/-- `update_rewards` cannot panic when every staker has a record and the commission is at most 1 -/
theorem updR_no_panic (s : SState) (now : Nat) (v : String)
    (hst : ∀ vi d, get? s.vinfo v = some vi → d ∈ vi.stakers → (get? s.stakes (d, v)).isSome)
    (hc : ∀ vo ∈ s.validators, vo.commission.atomics ≤ Dec.ONE) :
    updateRewards s now v ≠ .panic ∧ updateRewards s now v ≠ .outOfFuel := by
  unfold updateRewards
  split
  · simp
  · rename_i vi hvi
    split
    · simp
    · rename_i vo hvo
      split
      · simp
      · rename_i hlt
        have hvo' : vo ∈ s.validators := List.mem_of_find?_eq_some hvo
        rw [calcRewards_ok now vi.last s.info.apr vo.commission vi.stake (by omega) (hc vo hvo')]
        simp only
        split
        · simp
        · split
          · simp
          · rename_i hall
            exfalso; apply hall
            simp only [allStakersExist, List.all_eq_true, contains]
            intro d hd
            exact hst vi d hvi hd

-- ---------------------------------------------------------------------------------------------
-- the storage part of the invariant: staker sets in step with the records (I1, I2), commissions at most 1

structure SInv (s : SState) : Prop where
  stakers_have : ∀ v vi d, get? s.vinfo v = some vi → d ∈ vi.stakers → (get? s.stakes (d, v)).isSome
  stakes_listed : ∀ d v sh, get? s.stakes (d, v) = some sh → ∃ vi, get? s.vinfo v = some vi ∧ d ∈ vi.stakers
  comm_le : ∀ vo ∈ s.validators, vo.commission.atomics ≤ Dec.ONE

theorem SInv_updR {s s' : SState} {now : Nat} {v : String} (hi : SInv s) (h : UR s now v s') : SInv s' := by
  obtain ⟨vi, hvi, hvi'⟩ := h.vinfo_self
  refine ⟨?_, ?_, ?_⟩
  · intro w vi2 d hw hd
    obtain ⟨F, hF, _, _⟩ := h.stakes (d, w)
    rw [hF]
    by_cases e : w = v
    · subst e
      rw [hvi'] at hw
      simp only [Option.some.injEq] at hw
      subst hw
      have := hi.stakers_have w vi d hvi hd
      cases hg : get? s.stakes (d, w) <;> simp [hg] at this ⊢
    · rw [h.vinfo_other w e] at hw
      have := hi.stakers_have w vi2 d hw hd
      cases hg : get? s.stakes (d, w) <;> simp [hg] at this ⊢
  · intro d w sh hsh
    obtain ⟨F, hF, _, _⟩ := h.stakes (d, w)
    rw [hF] at hsh
    cases hg : get? s.stakes (d, w) with
    | none => simp [hg] at hsh
    | some sh0 =>
      obtain ⟨vi2, hv2, hd⟩ := hi.stakes_listed d w sh0 hg
      by_cases e : w = v
      · subst e
        rw [hvi] at hv2
        simp only [Option.some.injEq] at hv2
        subst hv2
        exact ⟨_, hvi', hd⟩
      · exact ⟨vi2, by rw [h.vinfo_other w e]; exact hv2, hd⟩
  · intro vo hvo
    rw [h.validators] at hvo
    exact hi.comm_le vo hvo

/-- saving a changed record of `(d, v)` together with the matching staker-set update keeps I1/I2 -/
theorem SInv_stakeSaved {s : SState} (hi : SInv s) (d : Addr) (v : String) (sh' : Shares) (vi0 vi' : ValInfo)
    (hv : get? s.vinfo v = some vi0) (hst : vi'.stakers = vi0.stakers) : SInv (stakeSaved s d v sh' vi') := by
  unfold stakeSaved
  split
  · refine ⟨?_, ?_, hi.comm_le⟩
    · intro w vi2 d2 hw hd
      simp only [get?_set] at hw
      by_cases e : w = v
      · subst e
        simp only [ite_true, Option.some.injEq] at hw
        subst hw
        simp only [mem_setErase, hst] at hd
        have := hi.stakers_have w vi0 d2 hv hd.1
        have hne : (d2, w) ≠ (d, w) := by intro x; exact hd.2 (Prod.mk.inj x).1
        simpa [get?_erase, hne] using this
      · simp only [e, ite_false] at hw
        have := hi.stakers_have w vi2 d2 hw hd
        have hne : (d2, w) ≠ (d, v) := by intro x; exact e (Prod.mk.inj x).2
        simpa [get?_erase, hne] using this
    · intro d2 w sh hsh
      simp only [get?_erase] at hsh
      split at hsh
      · simp at hsh
      · rename_i hne
        obtain ⟨vi2, hv2, hd2⟩ := hi.stakes_listed d2 w sh hsh
        by_cases e : w = v
        · subst e
          rw [hv] at hv2; simp only [Option.some.injEq] at hv2; subst hv2
          refine ⟨_, get?_set_self _ _ _, ?_⟩
          simp only [mem_setErase, hst]
          exact ⟨hd2, fun x => hne (by rw [x])⟩
        · exact ⟨vi2, by simp [get?_set, e, hv2], hd2⟩
  · refine ⟨?_, ?_, hi.comm_le⟩
    · intro w vi2 d2 hw hd
      simp only [get?_set] at hw
      by_cases e : w = v
      · subst e
        simp only [ite_true, Option.some.injEq] at hw
        subst hw
        simp only [mem_setInsert, hst] at hd
        by_cases e2 : d2 = d
        · subst e2; simp [get?_set]
        · have hd' : d2 ∈ vi0.stakers := by
            rcases hd with h1 | h1
            · exact absurd h1 e2
            · exact h1
          have := hi.stakers_have w vi0 d2 hv hd'
          have hne : (d2, w) ≠ (d, w) := by intro x; exact e2 (Prod.mk.inj x).1
          simpa [get?_set, hne] using this
      · simp only [e, ite_false] at hw
        have := hi.stakers_have w vi2 d2 hw hd
        have hne : (d2, w) ≠ (d, v) := by intro x; exact e (Prod.mk.inj x).2
        simpa [get?_set, hne] using this
    · intro d2 w sh hsh
      simp only [get?_set] at hsh
      split at hsh
      · rename_i heq
        obtain ⟨rfl, rfl⟩ := Prod.mk.inj heq
        exact ⟨_, get?_set_self _ _ _, by simp [mem_setInsert]⟩
      · rename_i hne
        obtain ⟨vi2, hv2, hd2⟩ := hi.stakes_listed d2 w sh hsh
        by_cases e : w = v
        · subst e
          rw [hv] at hv2; simp only [Option.some.injEq] at hv2; subst hv2
          refine ⟨_, get?_set_self _ _ _, ?_⟩
          simp only [mem_setInsert, hst]
          exact Or.inr hd2
        · exact ⟨vi2, by simp [get?_set, e, hv2], hd2⟩

theorem viOf_of_get {s : SState} {now : Nat} {v : String} {vi : ValInfo} (h : get? s.vinfo v = some vi) :
    viOf s now v = vi := by simp [viOf, h]

theorem SInv_applyStake {s s' : SState} {now : Nat} {d : Addr} {v : String} {amount : Nat} {sub : Bool}
    (hi : SInv s) (vi0 : ValInfo) (hv : get? s.vinfo v = some vi0)
    (h : applyStake s now d v amount sub = .ok s') : SInv s' := by
  unfold applyStake at h
  rw [viOf_of_get hv] at h
  split at h
  · split at h
    · simp at h
    · split at h
      · simp at h
      · split at h
        · simp at h
        · simp only [Outcome.ok.injEq] at h; subst h
          exact SInv_stakeSaved hi d v _ vi0 _ hv rfl
  · simp only [Outcome.ok.injEq] at h; subst h
    exact SInv_stakeSaved hi d v _ vi0 _ hv rfl

/-- I1/I2 only depend on which records exist and on the staker sets -/
theorem SInv_of_same_shape {s s' : SState} (hi : SInv s)
    (hk : ∀ k, (get? s'.stakes k).isSome = (get? s.stakes k).isSome)
    (hv : ∀ w, (get? s'.vinfo w).map (·.stakers) = (get? s.vinfo w).map (·.stakers))
    (hval : s'.validators = s.validators) : SInv s' := by
  refine ⟨?_, ?_, ?_⟩
  · intro w vi2 d hw hd
    have h1 := hv w
    rw [hw] at h1
    cases hg : get? s.vinfo w with
    | none => simp [hg] at h1
    | some vi1 =>
      simp only [hg, Option.map_some, Option.some.injEq] at h1
      rw [hk]
      exact hi.stakers_have w vi1 d hg (by rw [← h1]; exact hd)
  · intro d w sh hsh
    have h1 := hk (d, w)
    rw [hsh] at h1
    cases hg : get? s.stakes (d, w) with
    | none => simp [hg] at h1
    | some sh0 =>
      obtain ⟨vi1, hv1, hd⟩ := hi.stakes_listed d w sh0 hg
      have h2 := hv w
      rw [hv1] at h2
      cases hg2 : get? s'.vinfo w with
      | none => simp [hg2] at h2
      | some vi2 =>
        simp only [hg2, Option.map_some, Option.some.injEq] at h2
        exact ⟨vi2, rfl, by rw [h2]; exact hd⟩
  · intro vo hvo
    rw [hval] at hvo
    exact hi.comm_le vo hvo

theorem get?_scaleAll (stakes : KMap (Addr × String) Shares) (v : String) (l : List Addr) (rem : Dec)
    (k : Addr × String) :
    get? (scaleAll stakes v l rem) k = (get? stakes k).map fun sh =>
      if k.2 = v ∧ k.1 ∈ l then { sh with stake := Dec.mul sh.stake rem } else sh := by
  unfold scaleAll
  exact get?_mapVal stakes (fun k sh => if k.2 = v ∧ k.1 ∈ l then { sh with stake := Dec.mul sh.stake rem } else sh) k

theorem get?_removeAll (stakes : KMap (Addr × String) Shares) (v : String) (l : List Addr) (k : Addr × String) :
    get? (removeAll stakes v l) k = if k.2 = v ∧ k.1 ∈ l then none else get? stakes k := by
  unfold removeAll
  have := get?_filterKey stakes (fun k => decide (¬ (k.2 = v ∧ k.1 ∈ l))) k
  rw [this]
  by_cases h : k.2 = v ∧ k.1 ∈ l
  · simp [h]
  · simp [h]

theorem SInv_applySlash {s s' : SState} {v : String} {vi : ValInfo} {rem : Dec} (hi : SInv s)
    (hv : get? s.vinfo v = some vi) (h : applySlash s v vi rem = .ok s') : SInv s' := by
  unfold applySlash at h
  split at h
  · split at h
    · simp only [Outcome.ok.injEq] at h; subst h
      refine ⟨?_, ?_, hi.comm_le⟩
      · intro w vi2 d hw hd
        simp only [get?_set] at hw
        by_cases e : w = v
        · subst e; simp only [ite_true, Option.some.injEq] at hw; subst hw; simp at hd
        · simp only [e, ite_false] at hw
          have := hi.stakers_have w vi2 d hw hd
          simpa [get?_removeAll, e] using this
      · intro d w sh hsh
        simp only [get?_removeAll] at hsh
        split at hsh
        · simp at hsh
        · rename_i hn
          obtain ⟨vi2, hv2, hd⟩ := hi.stakes_listed d w sh hsh
          by_cases e : w = v
          · subst e
            rw [hv] at hv2; simp only [Option.some.injEq] at hv2; subst hv2
            exact absurd ⟨rfl, hd⟩ hn
          · exact ⟨vi2, by simp [get?_set, e, hv2], hd⟩
    · simp only [Outcome.ok.injEq] at h; subst h
      apply SInv_of_same_shape hi
      · intro k; simp only [get?_scaleAll]; cases get? s.stakes k <;> rfl
      · intro w
        simp only [get?_set]
        by_cases e : w = v
        · subst e; simp [hv]
        · simp [e]
      · rfl
  · simp at h

theorem SInv_dropIfEmpty {s : SState} (hi : SInv s) (u : Unbonding) (rest : List Unbonding) :
    SInv (dropIfEmpty s u rest) := by
  unfold dropIfEmpty
  split
  · rename_i sh hsh
    split
    · obtain ⟨vi, hv, hd⟩ := hi.stakes_listed _ _ sh hsh
      have : eraseStaker s.vinfo u.validator u.delegator =
          KMap.set s.vinfo u.validator { vi with stakers := setErase vi.stakers u.delegator } := by
        simp [eraseStaker, hv]
      rw [this]
      have h0 := SInv_stakeSaved hi u.delegator u.validator ⟨Dec.zero, Dec.zero⟩ vi vi hv rfl
      simpa [stakeSaved, Dec.isZero, Dec.zero] using h0
    · exact hi
  · exact hi

theorem SInv_setRewards {s : SState} (hi : SInv s) (k : Addr × String) (sh sh' : Shares)
    (h : get? s.stakes k = some sh) : SInv { s with stakes := KMap.set s.stakes k sh' } := by
  apply SInv_of_same_shape hi
  · intro k2
    simp only [get?_set]
    by_cases e : k2 = k
    · subst e; simp [h]
    · simp [e]
  · intro w; rfl
  · rfl

-- ---------------------------------------------------------------------------------------------
-- bookkeeping facts of the storage-level operations: frame, validator totals, last-calculation times

def LastLe (s : SState) (now : Nat) : Prop := ∀ w vi, get? s.vinfo w = some vi → vi.last ≤ now

theorem LastLe_updR {s s' : SState} {now : Nat} {v : String} (hl : LastLe s now) (h : UR s now v s') :
    LastLe s' now := by
  intro w vi' hw
  obtain ⟨vi, hvi, hvi'⟩ := h.vinfo_self
  by_cases e : w = v
  · subst e
    rw [hvi'] at hw; simp only [Option.some.injEq] at hw; subst hw
    have := hl w vi hvi
    simp only; split <;> omega
  · rw [h.vinfo_other w e] at hw; exact hl w vi' hw

/-- frame and totals of `stakeSaved` -/
theorem stakeSaved_facts (s : SState) (d : Addr) (v : String) (sh' : Shares) (vi0 vi' : ValInfo)
    (hv : get? s.vinfo v = some vi0) :
    (stakeSaved s d v sh' vi').info = s.info ∧ (stakeSaved s d v sh' vi').validators = s.validators ∧
    (stakeSaved s d v sh' vi').queue = s.queue ∧ (stakeSaved s d v sh' vi').withdraw = s.withdraw ∧
    totalStake (stakeSaved s d v sh' vi').vinfo + vi0.stake ≤ totalStake s.vinfo + vi'.stake ∧
    (∀ now, LastLe s now → vi'.last ≤ now → LastLe (stakeSaved s d v sh' vi') now) := by
  unfold stakeSaved
  split
  · refine ⟨rfl, rfl, rfl, rfl, ?_, ?_⟩
    · exact totalStake_set s.vinfo v vi0 _ hv
    · intro now hl hle w vi2 hw
      simp only [get?_set] at hw
      split at hw
      · simp only [Option.some.injEq] at hw; subst hw; exact hle
      · exact hl w vi2 hw
  · refine ⟨rfl, rfl, rfl, rfl, ?_, ?_⟩
    · exact totalStake_set s.vinfo v vi0 _ hv
    · intro now hl hle w vi2 hw
      simp only [get?_set] at hw
      split at hw
      · simp only [Option.some.injEq] at hw; subst hw; exact hle
      · exact hl w vi2 hw

/-- everything the chain-level proofs need to know about a successful `update_stake` -/
structure USpec (s : SState) (now : Nat) (amount : Nat) (sub : Bool) (s' : SState) : Prop where
  sinv : SInv s → SInv s'
  info : s'.info = s.info
  validators : s'.validators = s.validators
  queue : s'.queue = s.queue
  withdraw : s'.withdraw = s.withdraw
  total_add : sub = false → totalStake s'.vinfo ≤ totalStake s.vinfo + amount
  total_sub : sub = true → totalStake s'.vinfo + amount ≤ totalStake s.vinfo
  lastle : LastLe s now → LastLe s' now

theorem UR_self' {s s' : SState} {now : Nat} {v : String} (ur : UR s now v s') :
    ∃ vi vi1, get? s.vinfo v = some vi ∧ get? s'.vinfo v = some vi1 ∧ vi1.stakers = vi.stakers ∧
      vi1.stake = vi.stake ∧ (vi.last ≤ now → vi1.last ≤ now) := by
  obtain ⟨vi, hvi, hvi1⟩ := ur.vinfo_self
  refine ⟨vi, _, hvi, hvi1, rfl, rfl, ?_⟩
  intro h; simp only; split <;> omega

theorem updateStake_spec {s s' : SState} {now : Nat} {d : Addr} {v : String} {amount : Nat} {sub : Bool}
    (h : updateStake s now d v amount sub = .ok s') : USpec s now amount sub s' := by
  unfold updateStake at h
  split at h
  · rename_i s1 h1
    have ur := updR_ok h1
    obtain ⟨vi, vi1, hvi, hvi1, hst, hstk, hlast⟩ := UR_self' ur
    unfold applyStake at h
    rw [viOf_of_get hvi1] at h
    by_cases hsub : sub = true
    · simp only [hsub, ite_true] at h
      split at h
      · simp at h
      · rename_i sh hsh
        by_cases h2 : sh.stake < Dec.ofNat amount
        · simp [h2] at h
        · by_cases h3 : vi1.stake < amount
          · simp [h2, h3] at h
          · simp only [h2, h3, ite_false, Outcome.ok.injEq] at h; subst h
            obtain ⟨f1, f2, f3, f4, f5, f6⟩ := stakeSaved_facts s1 d v
              { sh with stake := Dec.sub sh.stake (Dec.ofNat amount) } vi1
              { vi1 with stake := vi1.stake - amount } hvi1
            refine ⟨fun hi => SInv_stakeSaved (SInv_updR hi ur) d v _ vi1 _ hvi1 rfl, f1.trans ur.info,
              f2.trans ur.validators, f3.trans ur.queue, f4.trans ur.withdraw, by simp [hsub], ?_, ?_⟩
            · intro _
              have := ur.total
              simp only at f5
              omega
            · intro hl
              exact f6 now (LastLe_updR hl ur) (hlast (hl v vi hvi))
    · simp only [hsub, Bool.false_eq_true, ite_false, Outcome.ok.injEq] at h; subst h
      obtain ⟨f1, f2, f3, f4, f5, f6⟩ := stakeSaved_facts s1 d v
        { curShares s1 d v with stake := Dec.add (curShares s1 d v).stake (Dec.ofNat amount) } vi1
        { vi1 with stake := vi1.stake + amount } hvi1
      refine ⟨fun hi => SInv_stakeSaved (SInv_updR hi ur) d v _ vi1 _ hvi1 rfl, f1.trans ur.info,
        f2.trans ur.validators, f3.trans ur.queue, f4.trans ur.withdraw, ?_, by simp [hsub], ?_⟩
      · intro _
        have := ur.total
        simp only at f5
        omega
      · intro hl
        exact f6 now (LastLe_updR hl ur) (hlast (hl v vi hvi))
  · simp at h
  · simp at h
  · simp at h

theorem updateStake_no_panic (s : SState) (now : Nat) (d : Addr) (v : String) (amount : Nat) (sub : Bool)
    (hi : SInv s) : updateStake s now d v amount sub ≠ .panic ∧ updateStake s now d v amount sub ≠ .outOfFuel := by
  have := updR_no_panic s now v (fun vi d => hi.stakers_have v vi d) hi.comm_le
  unfold updateStake
  split
  · unfold applyStake
    split
    · split
      · simp
      · split
        · simp
        · split <;> simp
    · simp
  · simp
  · rename_i h; exact absurd h this.1
  · rename_i h; exact absurd h this.2

-- ---------------------------------------------------------------------------------------------
-- Σ of the shares of a validator's records, and the invariant "validator total ≥ ⌊Σ shares⌋"

/-- Σ of the stake atomics of all records of validator `v` -/
def shareSum (stakes : KMap (Addr × String) Shares) (v : String) : Nat :=
  ((stakes.filter fun p => p.1.2 = v).map (·.2.stake.atomics)).sum

theorem shareSum_nil (v : String) : shareSum [] v = 0 := rfl

theorem shareSum_cons (p : (Addr × String) × Shares) (m : KMap (Addr × String) Shares) (v : String) :
    shareSum (p :: m) v = (if p.1.2 = v then p.2.stake.atomics else 0) + shareSum m v := by
  unfold shareSum
  by_cases h : p.1.2 = v <;> simp [List.filter_cons, h]

theorem shareSum_erase_le (m : KMap (Addr × String) Shares) (k : Addr × String) (w : String) :
    shareSum (erase m k) w ≤ shareSum m w := by
  induction m with
  | nil => exact Nat.le_refl _
  | cons p m ih =>
    by_cases h : p.1 = k
    · have : erase (p :: m) k = erase m k := by simp [erase, List.filter_cons, h]
      rw [this, shareSum_cons]; omega
    · have : erase (p :: m) k = p :: erase m k := by simp [erase, List.filter_cons, h]
      rw [this, shareSum_cons, shareSum_cons]; omega

theorem shareSum_erase_get (m : KMap (Addr × String) Shares) (k : Addr × String) (w : String) (old : Shares)
    (h : get? m k = some old) :
    shareSum (erase m k) w + (if k.2 = w then old.stake.atomics else 0) ≤ shareSum m w := by
  induction m with
  | nil => simp at h
  | cons p m ih =>
    obtain ⟨k', sh⟩ := p
    rw [get?_cons] at h
    by_cases h1 : k' = k
    · simp only [h1, ite_true, Option.some.injEq] at h
      subst h; subst h1
      have e : erase ((k', sh) :: m) k' = erase m k' := by simp [erase, List.filter_cons]
      have := shareSum_erase_le m k' w
      rw [e, shareSum_cons]; simp only; omega
    · simp only [h1, ite_false] at h
      have e : erase ((k', sh) :: m) k = (k', sh) :: erase m k := by simp [erase, List.filter_cons, h1]
      have := ih h
      rw [e, shareSum_cons, shareSum_cons]; omega

theorem shareSum_set (m : KMap (Addr × String) Shares) (k : Addr × String) (new : Shares) (w : String) :
    shareSum (KMap.set m k new) w = (if k.2 = w then new.stake.atomics else 0) + shareSum (erase m k) w := by
  unfold KMap.set; rw [shareSum_cons]

/-- a pass that keeps the stake of every record of `w` keeps the sum -/
theorem shareSum_mapVal (m : KMap (Addr × String) Shares) (F : Addr × String → Shares → Shares) (w : String)
    (hF : ∀ k sh, k.2 = w → (F k sh).stake = sh.stake) :
    shareSum (m.map fun p => (p.1, F p.1 p.2)) w = shareSum m w := by
  induction m with
  | nil => rfl
  | cons p m ih =>
    simp only [List.map_cons, shareSum_cons, ih]
    by_cases h : p.1.2 = w
    · simp [h, hF p.1 p.2 h]
    · simp [h]

theorem mem_isSome {m : KMap (Addr × String) Shares} {p : (Addr × String) × Shares} (h : p ∈ m) :
    (get? m p.1).isSome := by
  induction m with
  | nil => simp at h
  | cons q m ih =>
    obtain ⟨k', sh⟩ := q
    rw [get?_cons]
    by_cases e : k' = p.1
    · simp [e]
    · simp only [e, ite_false]
      rcases List.mem_cons.mp h with rfl | h2
      · exact absurd rfl e
      · exact ih h2

theorem le_shareSum {m : KMap (Addr × String) Shares} {d : Addr} {v : String} {sh : Shares}
    (h : get? m (d, v) = some sh) : sh.stake.atomics ≤ shareSum m v := by
  induction m with
  | nil => simp at h
  | cons p m ih =>
    obtain ⟨k', sh'⟩ := p
    rw [get?_cons] at h
    rw [shareSum_cons]
    by_cases e : k' = (d, v)
    · simp only [e, ite_true, Option.some.injEq] at h; subst h; subst e; simp
    · simp only [e, ite_false] at h
      have := ih h; omega

/-- under I2 the accumulator of `slash` (records owned by the stakers) is the sum over all records of the validator -/
theorem sumShares_eq_shareSum (m : KMap (Addr × String) Shares) (v : String) (l : List Addr)
    (h : ∀ p ∈ m, p.1.2 = v → p.1.1 ∈ l) : sumShares m v l = shareSum m v := by
  induction m with
  | nil => rfl
  | cons p m ih =>
    have ih' := ih (fun q hq => h q (List.mem_cons_of_mem _ hq))
    have hp := h p List.mem_cons_self
    unfold sumShares at ih' ⊢
    rw [shareSum_cons]
    by_cases e : p.1.2 = v
    · simp only [List.filter_cons, e, hp e, and_self, decide_true, ite_true, List.map_cons, List.sum_cons, ih']
    · simp only [List.filter_cons, e, false_and, decide_false, Bool.false_eq_true, ite_false, ih', Nat.zero_add]

theorem mem_scaleAll_key {m : KMap (Addr × String) Shares} {v : String} {l : List Addr} {rem : Dec}
    {p : (Addr × String) × Shares} (h : p ∈ scaleAll m v l rem) : ∃ q ∈ m, q.1 = p.1 := by
  simp only [scaleAll, List.mem_map] at h
  obtain ⟨q, hq, rfl⟩ := h
  exact ⟨q, hq, rfl⟩

theorem removeAll_cons (p : (Addr × String) × Shares) (m : KMap (Addr × String) Shares) (v : String) (l : List Addr) :
    removeAll (p :: m) v l = if p.1.2 = v ∧ p.1.1 ∈ l then removeAll m v l else p :: removeAll m v l := by
  unfold removeAll
  by_cases e : p.1.2 = v ∧ p.1.1 ∈ l
  · rw [if_pos e, List.filter_cons]; simp [e]
  · rw [if_neg e, List.filter_cons]; simp [e]

theorem shareSum_removeAll_other (m : KMap (Addr × String) Shares) (v w : String) (l : List Addr) (hw : w ≠ v) :
    shareSum (removeAll m v l) w = shareSum m w := by
  induction m with
  | nil => rfl
  | cons p m ih =>
    rw [removeAll_cons]
    by_cases e : p.1.2 = v ∧ p.1.1 ∈ l
    · have : ¬ p.1.2 = w := fun x => hw (x.symm.trans e.1)
      rw [if_pos e, ih, shareSum_cons, if_neg this, Nat.zero_add]
    · rw [if_neg e, shareSum_cons, shareSum_cons, ih]

theorem shareSum_removeAll_self (m : KMap (Addr × String) Shares) (v : String) (l : List Addr)
    (h : ∀ p ∈ m, p.1.2 = v → p.1.1 ∈ l) : shareSum (removeAll m v l) v = 0 := by
  induction m with
  | nil => rfl
  | cons p m ih =>
    have ih' := ih (fun q hq => h q (List.mem_cons_of_mem _ hq))
    have hp := h p List.mem_cons_self
    rw [removeAll_cons]
    by_cases e : p.1.2 = v
    · rw [if_pos ⟨e, hp e⟩, ih']
    · have : ¬ (p.1.2 = v ∧ p.1.1 ∈ l) := fun x => e x.1
      rw [if_neg this, shareSum_cons, if_neg e, ih']

/-- the validator total never falls below the whole tokens of the sum of the shares of its records -/
def TInv (s : SState) : Prop := ∀ v vi, get? s.vinfo v = some vi → shareSum s.stakes v / Dec.ONE ≤ vi.stake

theorem shareSum_creditAll (stakes : KMap (Addr × String) Shares) (v : String) (vi : ValInfo) (nr : Dec) (w : String) :
    shareSum (creditAll stakes v vi nr) w = shareSum stakes w := by
  unfold creditAll
  exact shareSum_mapVal stakes (fun k sh => if k.2 = v ∧ k.1 ∈ vi.stakers then
    { sh with rewards := Dec.add sh.rewards (shareOfRewards sh vi nr) } else sh) w
    (by intro k sh _; split <;> rfl)

theorem shareSum_scaleAll_other (stakes : KMap (Addr × String) Shares) (v : String) (l : List Addr) (rem : Dec)
    (w : String) (hw : w ≠ v) : shareSum (scaleAll stakes v l rem) w = shareSum stakes w := by
  unfold scaleAll
  exact shareSum_mapVal stakes (fun k sh => if k.2 = v ∧ k.1 ∈ l then { sh with stake := Dec.mul sh.stake rem } else sh) w
    (by intro k sh hk
        have : ¬ (k.2 = v ∧ k.1 ∈ l) := fun x => hw (hk.symm.trans x.1)
        simp [this])

/-- crediting rewards does not change any share -/
theorem updR_sums {s s' : SState} {now : Nat} {v : String} (h : updateRewards s now v = .ok s') (w : String) :
    shareSum s'.stakes w = shareSum s.stakes w := by
  unfold updateRewards at h
  split at h
  · simp at h
  · split at h
    · simp at h
    · split at h
      · simp only [Outcome.ok.injEq] at h; subst h; rfl
      · split at h
        · split at h
          · simp only [Outcome.ok.injEq] at h; subst h; rfl
          · split at h
            · simp only [Outcome.ok.injEq] at h; subst h
              exact shareSum_creditAll _ _ _ _ _
            · simp at h
        · simp at h
        · simp at h
        · simp at h

theorem UR_self'0 {s s' : SState} {now : Nat} {v : String} (ur : UR s now v s') :
    ∃ vi vi1, get? s.vinfo v = some vi ∧ get? s'.vinfo v = some vi1 ∧ vi1.stakers = vi.stakers ∧
      vi1.stake = vi.stake ∧ (vi.last ≤ now → vi1.last ≤ now) := by
  obtain ⟨vi, hvi, hvi1⟩ := ur.vinfo_self
  refine ⟨vi, _, hvi, hvi1, rfl, rfl, ?_⟩
  intro h; simp only; split <;> omega

theorem TInv_updR {s s' : SState} {now : Nat} {v : String} (ht : TInv s) (h : updateRewards s now v = .ok s') :
    TInv s' := by
  have ur := updR_ok h
  obtain ⟨vi, vi1, hvi, hvi1, _, hstk, _⟩ := UR_self'0 ur
  intro w vi2 hw
  rw [updR_sums h w]
  by_cases e : w = v
  · subst e
    rw [hvi1] at hw; simp only [Option.some.injEq] at hw; subst hw
    rw [hstk]; exact ht w vi hvi
  · rw [ur.vinfo_other w e] at hw; exact ht w vi2 hw

theorem div_add_le_of_add_le {x y a : Nat} (h : y + Dec.ONE * a ≤ x) : y / Dec.ONE + a ≤ x / Dec.ONE := by
  have h1 : (y + Dec.ONE * a) / Dec.ONE = y / Dec.ONE + a := Nat.add_mul_div_left _ _ Dec.ONE_pos
  have h2 : (y + Dec.ONE * a) / Dec.ONE ≤ x / Dec.ONE := Nat.div_le_div_right h
  omega

/-- the sums of the shares after the "save updated values" tail of `update_stake` -/
theorem shareSum_stakeSaved (s : SState) (d : Addr) (v : String) (sh' : Shares) (vi' : ValInfo) (w : String) :
    shareSum (stakeSaved s d v sh' vi').stakes w + (if w = v then (curShares s d v).stake.atomics else 0)
      ≤ shareSum s.stakes w + (if w = v then sh'.stake.atomics else 0) := by
  have hold : ∀ w, shareSum (erase s.stakes (d, v)) w + (if v = w then (curShares s d v).stake.atomics else 0)
      ≤ shareSum s.stakes w := by
    intro w
    unfold curShares
    cases hg : get? s.stakes (d, v) with
    | none =>
      have := shareSum_erase_le s.stakes (d, v) w
      simp only [Option.getD_none, Shares.dflt, Dec.zero]; split <;> omega
    | some sh =>
      have := shareSum_erase_get s.stakes (d, v) w sh hg
      simpa using this
  have := hold w
  unfold stakeSaved
  split
  · rename_i hz
    have hz' : sh'.stake.atomics = 0 := by simpa [Dec.isZero] using hz
    by_cases e : w = v
    · subst e; simp only [ite_true] at this ⊢; omega
    · have e' : ¬ v = w := fun x => e x.symm
      simp only [e, e', ite_false] at this ⊢; omega
  · simp only [shareSum_set]
    by_cases e : w = v
    · subst e; simp only [ite_true] at this ⊢; omega
    · have e' : ¬ v = w := fun x => e x.symm
      simp only [e, e', ite_false] at this ⊢; omega

theorem get?_stakeSaved_vinfo' (s : SState) (d : Addr) (v : String) (sh' : Shares) (vi' : ValInfo) (w : String) :
    get? (stakeSaved s d v sh' vi').vinfo w =
      if w = v then some { vi' with stakers := if sh'.stake.isZero then setErase vi'.stakers d else setInsert vi'.stakers d }
      else get? s.vinfo w := by
  unfold stakeSaved
  split
  · rename_i hz; simp only [get?_set, hz, ite_true]
  · rename_i hz; simp only [get?_set, hz]

/-- `update_stake` after `update_rewards` keeps `TInv`: both sides move by the same whole amount -/
theorem TInv_applyStake {s s' : SState} {now : Nat} {d : Addr} {v : String} {amount : Nat} {sub : Bool}
    (ht : TInv s) (vi0 : ValInfo) (hv : get? s.vinfo v = some vi0)
    (h : applyStake s now d v amount sub = .ok s') : TInv s' := by
  unfold applyStake at h
  rw [viOf_of_get hv] at h
  by_cases hsub : sub = true
  · simp only [hsub, ite_true] at h
    split at h
    · simp at h
    · rename_i sh hsh
      by_cases h2 : sh.stake < Dec.ofNat amount
      · simp [h2] at h
      · by_cases h3 : vi0.stake < amount
        · simp [h2, h3] at h
        · simp only [h2, h3, ite_false, Outcome.ok.injEq] at h; subst h
          intro w vi2 hw
          have hs := shareSum_stakeSaved s d v { sh with stake := Dec.sub sh.stake (Dec.ofNat amount) }
            { vi0 with stake := vi0.stake - amount } w
          rw [get?_stakeSaved_vinfo'] at hw
          by_cases e : w = v
          · subst e
            simp only [ite_true, Option.some.injEq] at hw; subst hw
            have hc : (curShares s d w).stake.atomics = sh.stake.atomics := by simp [curShares, hsh]
            have hge : Dec.ONE * amount ≤ sh.stake.atomics := Nat.le_of_not_lt h2
            simp only [ite_true, hc, Dec.sub, Dec.ofNat] at hs
            have := ht w vi0 hv
            have := div_add_le_of_add_le (x := shareSum s.stakes w) (a := amount)
              (y := shareSum (stakeSaved s d w { stake := Dec.sub sh.stake (Dec.ofNat amount), rewards := sh.rewards }
                { stakers := vi0.stakers, stake := vi0.stake - amount, last := vi0.last }).stakes w) (by
                simp only [Dec.sub, Dec.ofNat]; omega)
            simp only; omega
          · simp only [e, ite_false] at hw hs
            have := ht w vi2 hw
            have : shareSum (stakeSaved s d v { stake := Dec.sub sh.stake (Dec.ofNat amount), rewards := sh.rewards }
                { stakers := vi0.stakers, stake := vi0.stake - amount, last := vi0.last }).stakes w / Dec.ONE
                ≤ shareSum s.stakes w / Dec.ONE := Nat.div_le_div_right (by omega)
            omega
  · simp only [hsub, Bool.false_eq_true, ite_false, Outcome.ok.injEq] at h; subst h
    intro w vi2 hw
    have hs := shareSum_stakeSaved s d v
      { curShares s d v with stake := Dec.add (curShares s d v).stake (Dec.ofNat amount) }
      { vi0 with stake := vi0.stake + amount } w
    rw [get?_stakeSaved_vinfo'] at hw
    by_cases e : w = v
    · subst e
      simp only [ite_true, Option.some.injEq] at hw; subst hw
      simp only [ite_true, Dec.add, Dec.ofNat] at hs
      have := ht w vi0 hv
      have h1 : (shareSum s.stakes w + Dec.ONE * amount) / Dec.ONE = shareSum s.stakes w / Dec.ONE + amount :=
        Nat.add_mul_div_left _ _ Dec.ONE_pos
      have h2 : shareSum (stakeSaved s d w
          { stake := Dec.add (curShares s d w).stake (Dec.ofNat amount), rewards := (curShares s d w).rewards }
          { stakers := vi0.stakers, stake := vi0.stake + amount, last := vi0.last }).stakes w / Dec.ONE
          ≤ (shareSum s.stakes w + Dec.ONE * amount) / Dec.ONE := Nat.div_le_div_right (by
            simp only [Dec.add, Dec.ofNat]; omega)
      simp only; omega
    · simp only [e, ite_false] at hw hs
      have := ht w vi2 hw
      have : shareSum (stakeSaved s d v
          { stake := Dec.add (curShares s d v).stake (Dec.ofNat amount), rewards := (curShares s d v).rewards }
          { stakers := vi0.stakers, stake := vi0.stake + amount, last := vi0.last }).stakes w / Dec.ONE
          ≤ shareSum s.stakes w / Dec.ONE := Nat.div_le_div_right (by omega)
      omega

/-- I2 on list elements: every record of `v` is owned by a staker of `v` -/
theorem owners_listed {s : SState} (hi : SInv s) {v : String} {vi : ValInfo} (hv : get? s.vinfo v = some vi) :
    ∀ p ∈ s.stakes, p.1.2 = v → p.1.1 ∈ vi.stakers := by
  intro p hp hpv
  have h1 := mem_isSome hp
  cases hg : get? s.stakes p.1 with
  | none => simp [hg] at h1
  | some sh =>
    have hg' : get? s.stakes (p.1.1, p.1.2) = some sh := hg
    obtain ⟨vi2, hv2, hd⟩ := hi.stakes_listed p.1.1 p.1.2 sh hg'
    rw [hpv, hv] at hv2
    simp only [Option.some.injEq] at hv2; subst hv2; exact hd

theorem owners_listed_scaled {s : SState} (hi : SInv s) {v : String} {vi : ValInfo} (hv : get? s.vinfo v = some vi)
    (l : List Addr) (rem : Dec) : ∀ p ∈ scaleAll s.stakes v l rem, p.1.2 = v → p.1.1 ∈ vi.stakers := by
  intro p hp hpv
  obtain ⟨q, hq, e⟩ := mem_scaleAll_key hp
  have := owners_listed hi hv q hq (by rw [e]; exact hpv)
  rw [e] at this; exact this

theorem TInv_applySlash {s s' : SState} {v : String} {vi : ValInfo} {rem : Dec} (hi : SInv s) (ht : TInv s)
    (hv : get? s.vinfo v = some vi) (h : applySlash s v vi rem = .ok s') : TInv s' := by
  unfold applySlash at h
  split at h
  · split at h
    · simp only [Outcome.ok.injEq] at h; subst h
      intro w vi2 hw
      simp only [get?_set] at hw
      by_cases e : w = v
      · subst e
        simp only [ite_true, Option.some.injEq] at hw; subst hw
        simp only [shareSum_removeAll_self _ _ _ (owners_listed hi hv)]
        simp
      · simp only [e, ite_false] at hw
        simp only [shareSum_removeAll_other _ _ _ _ e]
        exact ht w vi2 hw
    · simp only [Outcome.ok.injEq] at h; subst h
      intro w vi2 hw
      simp only [get?_set] at hw
      by_cases e : w = v
      · subst e
        simp only [ite_true, Option.some.injEq] at hw; subst hw
        simp only [sumShares_eq_shareSum _ _ _ (owners_listed_scaled hi hv vi.stakers rem)]
        exact Nat.le_refl _
      · simp only [e, ite_false] at hw
        simp only [shareSum_scaleAll_other _ _ _ _ _ e]
        exact ht w vi2 hw
  · simp at h

theorem TInv_dropIfEmpty {s : SState} (hi : SInv s) (ht : TInv s) (u : Unbonding) (rest : List Unbonding) :
    TInv (dropIfEmpty s u rest) := by
  unfold dropIfEmpty
  split
  · rename_i sh hsh
    split
    · obtain ⟨vi, hv, _⟩ := hi.stakes_listed _ _ sh hsh
      have he : eraseStaker s.vinfo u.validator u.delegator =
          KMap.set s.vinfo u.validator { vi with stakers := setErase vi.stakers u.delegator } := by
        simp [eraseStaker, hv]
      intro w vi2 hw
      simp only [he, get?_set] at hw
      have hle : shareSum (erase s.stakes (u.delegator, u.validator)) w / Dec.ONE ≤ shareSum s.stakes w / Dec.ONE :=
        Nat.div_le_div_right (shareSum_erase_le _ _ _)
      split at hw
      · rename_i e
        simp only [Option.some.injEq] at hw; subst hw
        have := ht w vi (by rw [e]; exact hv)
        simp only; omega
      · have := ht w vi2 hw
        simp only; omega
    · exact ht
  · exact ht

theorem TInv_setRewards {s : SState} (ht : TInv s) (k : Addr × String) (sh : Shares) (r : Dec)
    (h : get? s.stakes k = some sh) : TInv { s with stakes := KMap.set s.stakes k { sh with rewards := r } } := by
  intro w vi hw
  have h1 := shareSum_erase_get s.stakes k w sh h
  have h2 : shareSum (KMap.set s.stakes k { sh with rewards := r }) w ≤ shareSum s.stakes w := by
    rw [shareSum_set]; simp only; omega
  have := ht w vi hw
  have : shareSum (KMap.set s.stakes k { sh with rewards := r }) w / Dec.ONE ≤ shareSum s.stakes w / Dec.ONE :=
    Nat.div_le_div_right h2
  simp only; omega

/-- consequence of `TInv`: a delegation's whole tokens never exceed the validator total; in particular a shown
(positive) delegation means a positive validator total, and the share/total ratio stays below 2 -/
theorem floor_le_total {s : SState} (ht : TInv s) {d : Addr} {v : String} {sh : Shares} {vi : ValInfo}
    (hs : get? s.stakes (d, v) = some sh) (hv : get? s.vinfo v = some vi) : sh.stake.floor ≤ vi.stake := by
  have h1 := le_shareSum hs
  have h2 := ht v vi hv
  have : sh.stake.atomics / Dec.ONE ≤ shareSum s.stakes v / Dec.ONE := Nat.div_le_div_right h1
  unfold Dec.floor; omega

theorem share_lt_total_succ {s : SState} (ht : TInv s) {d : Addr} {v : String} {sh : Shares} {vi : ValInfo}
    (hs : get? s.stakes (d, v) = some sh) (hv : get? s.vinfo v = some vi) :
    sh.stake.atomics < Dec.ONE * (vi.stake + 1) := by
  have h1 := le_shareSum hs
  have h2 := ht v vi hv
  have h3 : shareSum s.stakes v < Dec.ONE * (shareSum s.stakes v / Dec.ONE + 1) := by
    have := Nat.lt_div_mul_add (a := shareSum s.stakes v) Dec.ONE_pos
    rw [Nat.mul_add, Nat.mul_one, Nat.mul_comm]; exact this
  have h4 : Dec.ONE * (shareSum s.stakes v / Dec.ONE + 1) ≤ Dec.ONE * (vi.stake + 1) :=
    Nat.mul_le_mul_left _ (by omega)
  omega

theorem updateStake_tinv {s s' : SState} {now : Nat} {d : Addr} {v : String} {amount : Nat} {sub : Bool}
    (ht : TInv s) (h : updateStake s now d v amount sub = .ok s') : TInv s' := by
  unfold updateStake at h
  split at h
  · rename_i s1 h1
    obtain ⟨vi, vi1, _, hvi1, _⟩ := UR_self'0 (updR_ok h1)
    exact TInv_applyStake (TInv_updR ht h1) vi1 hvi1 h
  · simp at h
  · simp at h
  · simp at h

end Staking
end CwMt
