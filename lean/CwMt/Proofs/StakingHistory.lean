import CwMt.Proofs.StakingBounds
/-
  CwMt.Proofs.StakingHistory — C15 at history level: every run of the model is a trace of the reward ledger of
  `CwMt.Proofs.StakingBounds` for any delegator/validator pair whose delegation stays shown and is not re-staked.
-/
set_option linter.unusedSimpArgs false
set_option linter.unusedVariables false
namespace CwMt
namespace Staking
open KMap

-- ---------------------------------------------------------------------------------------------
-- the record of the pair under the storage-level operations

/-- what a reward update of `v` at `now` adds to the accumulator of a delegator holding `sa` atomics -/
def creditAmt (s : SState) (now : Nat) (v : String) (vo : Validator) (sa : Nat) : Nat :=
  match get? s.vinfo v with
  | some vi => if vi.last < now then creditOf vi.stake s.info.apr.atomics vo.commission.atomics sa (elapsed now vi.last) else 0
  | none => 0

/-- the record of `(d, v)` across an `update_rewards` of `v` -/
theorem updR_pair {s s1 : SState} {now : Nat} {v : String} {d : Addr} {sh : Shares} {vi : ValInfo} {vo : Validator}
    (hi : SInv s) (h : updateRewards s now v = .ok s1) (hsh : get? s.stakes (d, v) = some sh)
    (hvi : get? s.vinfo v = some vi) (hvo : s.validator? v = some vo) (hS : vi.stake ≠ 0) :
    ∃ sh1 vi1, get? s1.stakes (d, v) = some sh1 ∧ sh1.stake = sh.stake ∧
      sh1.rewards.atomics = sh.rewards.atomics + creditAmt s now v vo sh.stake.atomics ∧
      get? s1.vinfo v = some vi1 ∧ now ≤ vi1.last ∧ vi1.stake = vi.stake := by
  have ur := updR_ok h
  obtain ⟨vi0, hvi0, hvi1⟩ := ur.vinfo_self
  rw [hvi] at hvi0; simp only [Option.some.injEq] at hvi0; subst hvi0
  obtain ⟨F, hF, hFs, _⟩ := ur.stakes (d, v)
  rw [hsh] at hF
  have hcur1 : curShares s1 d v = F sh := by simp [curShares, hF]
  refine ⟨F sh, _, hF, hFs sh, ?_, hvi1, by simp only; split <;> omega, rfl⟩
  by_cases hlt : vi.last < now
  · have := (update_is_credit hi h hvi hvo hsh hlt hS).1
    rw [hcur1] at this
    rw [this]; simp [creditAmt, hvi, hlt]
  · -- no update happens
    have hs : s1 = s := by
      unfold updateRewards at h
      rw [hvi, hvo] at h
      have : vi.last ≥ now := by omega
      simp only [this, ite_true, Outcome.ok.injEq] at h
      exact h.symm
    subst hs
    rw [hsh] at hF
    simp only [Option.map_some, Option.some.injEq] at hF
    rw [← hF]; simp [creditAmt, hvi, hlt]

/-- … and across an `update_rewards` of another validator -/
theorem updR_other {s s1 : SState} {now : Nat} {w v : String} (h : updateRewards s now w = .ok s1) (hw : w ≠ v)
    (d : Addr) : get? s1.stakes (d, v) = get? s.stakes (d, v) ∧ get? s1.vinfo v = get? s.vinfo v ∧
      s1.info = s.info ∧ s1.validators = s.validators := by
  have ur := updR_ok h
  obtain ⟨F, hF, _, hid⟩ := ur.stakes (d, v)
  refine ⟨?_, ur.vinfo_other v (fun e => hw e.symm), ur.info, ur.validators⟩
  rw [hF]
  have : ∀ sh, F sh = sh := hid (fun e => hw e.symm)
  cases get? s.stakes (d, v) <;> simp [this]

theorem applyStake_shape {s s' : SState} {now : Nat} {a : Addr} {w : String} {amount : Nat} {sub : Bool}
    (h : applyStake s now a w amount sub = .ok s') :
    ∃ X Y, s' = stakeSaved s a w X Y ∧ Y.last = (viOf s now w).last := by
  unfold applyStake at h
  by_cases hsub : sub = true
  · simp only [hsub, ite_true] at h
    split at h
    · simp at h
    · rename_i sh hsh
      by_cases h2 : sh.stake < Dec.ofNat amount
      · simp [h2] at h
      · by_cases h3 : (viOf s now w).stake < amount
        · simp [h2, h3] at h
        · simp only [h2, h3, ite_false, Outcome.ok.injEq] at h
          exact ⟨_, _, h.symm, rfl⟩
  · simp only [hsub, Bool.false_eq_true, ite_false, Outcome.ok.injEq] at h
    exact ⟨_, _, h.symm, rfl⟩

/-- the record of `(d, v)` across an `update_stake` of a different pair `(a, w)`: credited iff `w = v` -/
theorem updateStake_pair {s s' : SState} {now : Nat} {a d : Addr} {w v : String} {amount : Nat} {sub : Bool}
    {sh : Shares} {vi : ValInfo} {vo : Validator}
    (hi : SInv s) (h : updateStake s now a w amount sub = .ok s') (hne : (a, w) ≠ (d, v))
    (hsh : get? s.stakes (d, v) = some sh) (hvi : get? s.vinfo v = some vi) (hvo : s.validator? v = some vo)
    (hS : vi.stake ≠ 0) :
    ∃ sh', get? s'.stakes (d, v) = some sh' ∧ sh'.stake = sh.stake ∧
      sh'.rewards.atomics = sh.rewards.atomics + (if w = v then creditAmt s now v vo sh.stake.atomics else 0) ∧
      (w = v → ∃ vi', get? s'.vinfo v = some vi' ∧ now ≤ vi'.last) ∧
      (w ≠ v → get? s'.vinfo v = some vi) ∧ s'.info = s.info ∧ s'.validators = s.validators := by
  have sp := updateStake_spec h
  unfold updateStake at h
  split at h
  · rename_i s1 h1
    obtain ⟨X, Y, rfl, hY⟩ := applyStake_shape h
    have hne' : (d, v) ≠ (a, w) := fun e => hne e.symm
    have hrec : get? (stakeSaved s1 a w X Y).stakes (d, v) = get? s1.stakes (d, v) := by
      rw [get?_stakeSaved_stakes]; simp [hne']
    by_cases e : w = v
    · subst e
      obtain ⟨sh1, vi1, r1, r2, r3, r4, r5, _⟩ := updR_pair hi h1 hsh hvi hvo hS
      refine ⟨sh1, by rw [hrec]; exact r1, r2, by simp [r3], ?_, by simp, sp.info, sp.validators⟩
      intro _
      obtain ⟨vi2, hv2, _, hl2⟩ := stakeSaved_vinfo_self s1 a w X Y
      refine ⟨vi2, hv2, ?_⟩
      rw [hl2, hY, viOf_of_get r4]; exact r5
    · obtain ⟨o1, o2, _, _⟩ := updR_other h1 e d
      refine ⟨sh, by rw [hrec, o1]; exact hsh, rfl, by simp [e], by simp [e], ?_, sp.info, sp.validators⟩
      intro _
      rw [get?_stakeSaved_vinfo _ _ _ _ _ _ (fun x => e x.symm), o2]; exact hvi
  · simp at h
  · simp at h
  · simp at h

-- ---------------------------------------------------------------------------------------------
-- the record of the pair under the operations of the chain

/-- the pair `(d, v)` holds record `sh`, its validator has info `vi` and parameters `vo` -/
structure PairAt (c : Chain) (d : Addr) (v : String) (sh : Shares) (vi : ValInfo) (vo : Validator) : Prop where
  record : get? c.st.stakes (d, v) = some sh
  vinfo : get? c.st.vinfo v = some vi
  val : c.st.validator? v = some vo
  shown : 1 ≤ sh.stake.floor

theorem PairAt.pos {c : Chain} {d : Addr} {v : String} {sh : Shares} {vi : ValInfo} {vo : Validator}
    (hp : PairAt c d v sh vi vo) (ht : TInv c.st) : vi.stake ≠ 0 := by
  have := floor_le_total ht hp.record hp.vinfo
  have := hp.shown
  omega

theorem validator?_congr {s s' : SState} (h : s'.validators = s.validators) (v : String) :
    s'.validator? v = s.validator? v := by simp [SState.validator?, h]

theorem pair_delegate {cfg : Cfg} {c c' : Chain} {a d : Addr} {w v : String} {coin : Coin}
    {sh : Shares} {vi : ValInfo} {vo : Validator} (hi : SInv c.st) (ht : TInv c.st) (hp : PairAt c d v sh vi vo)
    (hne : (a, w) ≠ (d, v)) (h : delegate cfg c a w coin = .ok c') :
    ∃ sh', get? c'.st.stakes (d, v) = some sh' ∧
      sh'.rewards.atomics = sh.rewards.atomics + (if w = v then creditAmt c.st c.time v vo sh.stake.atomics else 0) ∧
      c'.st.validator? v = some vo := by
  unfold delegate at h
  split at h
  · simp at h
  · split at h
    · rename_i st hst
      split at h
      · simp only [Outcome.ok.injEq] at h; subst h
        unfold addStake at hst
        split at hst
        · obtain ⟨sh', r1, _, r3, _, _, _, r7⟩ := updateStake_pair hi hst hne hp.record hp.vinfo hp.val (hp.pos ht)
          exact ⟨sh', r1, r3, by rw [validator?_congr r7]; exact hp.val⟩
        · simp at hst
      · simp at h
    · simp at h
    · simp at h
    · simp at h

theorem pair_undelegate {c c' : Chain} {a d : Addr} {w v : String} {coin : Coin}
    {sh : Shares} {vi : ValInfo} {vo : Validator} (hi : SInv c.st) (ht : TInv c.st) (hp : PairAt c d v sh vi vo)
    (hne : (a, w) ≠ (d, v)) (h : undelegate c a w coin = .ok c') :
    ∃ sh', get? c'.st.stakes (d, v) = some sh' ∧
      sh'.rewards.atomics = sh.rewards.atomics + (if w = v then creditAmt c.st c.time v vo sh.stake.atomics else 0) ∧
      c'.st.validator? v = some vo := by
  unfold undelegate at h
  split at h
  · simp at h
  · split at h
    · simp at h
    · split at h
      · rename_i st hst
        simp only [Outcome.ok.injEq] at h; subst h
        unfold removeStake at hst
        split at hst
        · obtain ⟨sh', r1, _, r3, _, _, _, r7⟩ := updateStake_pair hi hst hne hp.record hp.vinfo hp.val (hp.pos ht)
          exact ⟨sh', r1, r3, by
            have : ({ st with queue := st.queue ++ [⟨a, w, coin.amount, c.time + NS * st.info.unbondingTime⟩] } : SState).validator? v
                = st.validator? v := rfl
            rw [this, validator?_congr r7]; exact hp.val⟩
        · simp at hst
      · simp at h
      · simp at h
      · simp at h

theorem creditAmt_congr {s s' : SState} {now : Nat} {v : String} (vo : Validator) (sa : Nat)
    (h1 : get? s'.vinfo v = get? s.vinfo v) (h2 : s'.info = s.info) :
    creditAmt s' now v vo sa = creditAmt s now v vo sa := by
  unfold creditAmt; rw [h1, h2]

theorem creditAmt_uptodate {s : SState} {now : Nat} {v : String} {vi : ValInfo} (vo : Validator) (sa : Nat)
    (h1 : get? s.vinfo v = some vi) (h2 : now ≤ vi.last) : creditAmt s now v vo sa = 0 := by
  unfold creditAmt; rw [h1]
  have : ¬ vi.last < now := by omega
  simp [this]

theorem pair_redelegate {c c' : Chain} {a d : Addr} {w1 w2 v : String} {coin : Coin}
    {sh : Shares} {vi : ValInfo} {vo : Validator} (hi : SInv c.st) (ht : TInv c.st) (hp : PairAt c d v sh vi vo)
    (hne : a ≠ d ∨ (w1 ≠ v ∧ w2 ≠ v)) (h : redelegate c a w1 w2 coin = .ok c') :
    ∃ sh', get? c'.st.stakes (d, v) = some sh' ∧
      sh'.rewards.atomics = sh.rewards.atomics +
        (if w1 = v ∨ w2 = v then creditAmt c.st c.time v vo sh.stake.atomics else 0) ∧
      c'.st.validator? v = some vo := by
  have hne1 : (a, w1) ≠ (d, v) := by
    intro e; obtain ⟨e1, e2⟩ := Prod.mk.inj e
    rcases hne with h1 | h1
    · exact h1 e1
    · exact h1.1 e2
  have hne2 : (a, w2) ≠ (d, v) := by
    intro e; obtain ⟨e1, e2⟩ := Prod.mk.inj e
    rcases hne with h1 | h1
    · exact h1 e1
    · exact h1.2 e2
  unfold redelegate at h
  split at h
  · rename_i st1 h1
    split at h
    · rename_i st2 h2
      simp only [Outcome.ok.injEq] at h; subst h
      unfold removeStake at h1
      unfold addStake at h2
      split at h1
      · split at h2
        · have s1 := updateStake_spec h1
          obtain ⟨sh1, a1, a2, a3, a4, a5, a6, a7⟩ :=
            updateStake_pair hi h1 hne1 hp.record hp.vinfo hp.val (hp.pos ht)
          have hv1 : st1.validator? v = some vo := by rw [validator?_congr a7]; exact hp.val
          have hi1 := s1.sinv hi
          have ht1 := updateStake_tinv ht h1
          have hsh1 : 1 ≤ sh1.stake.floor := by rw [a2]; exact hp.shown
          obtain ⟨vi1, hvi1, hlast1⟩ : ∃ vi1, get? st1.vinfo v = some vi1 ∧
              ((w1 = v → c.time ≤ vi1.last) ∧ (w1 ≠ v → vi1 = vi)) := by
            by_cases e : w1 = v
            · obtain ⟨vi', hv', hl'⟩ := a4 e
              exact ⟨vi', hv', fun _ => hl', fun x => absurd e x⟩
            · exact ⟨vi, a5 e, fun x => absurd x e, fun _ => rfl⟩
          have hp1 : PairAt { c with st := st1 } d v sh1 vi1 vo := ⟨a1, hvi1, hv1, hsh1⟩
          obtain ⟨sh2, b1, _, b3, _, _, _, b7⟩ :=
            updateStake_pair hi1 h2 hne2 a1 hvi1 hv1 (hp1.pos ht1)
          refine ⟨sh2, b1, ?_, by rw [validator?_congr b7]; exact hv1⟩
          rw [b3, a3, a2]
          by_cases e1 : w1 = v
          · have hz : creditAmt st1 c.time v vo sh.stake.atomics = 0 :=
              creditAmt_uptodate vo _ hvi1 (hlast1.1 e1)
            simp [e1, hz]
          · have hc : creditAmt st1 c.time v vo sh.stake.atomics = creditAmt c.st c.time v vo sh.stake.atomics :=
              creditAmt_congr vo _ (by rw [a5 e1]; exact hp.vinfo.symm) a6
            by_cases e2 : w2 = v
            · simp [e1, e2, hc]
            · simp [e1, e2]
        · simp at h2
      · simp at h1
    · simp at h
    · simp at h
    · simp at h
  · simp at h
  · simp at h
  · simp at h

/-- a withdrawal by somebody else, or by `d` at another validator -/
theorem pair_withdraw_other {cfg : Cfg} {c c' : Chain} {a d : Addr} {w v : String}
    {sh : Shares} {vi : ValInfo} {vo : Validator} (hi : SInv c.st) (ht : TInv c.st) (hp : PairAt c d v sh vi vo)
    (hne : (a, w) ≠ (d, v)) (h : withdrawRewards cfg c a w = .ok c') :
    ∃ sh', get? c'.st.stakes (d, v) = some sh' ∧
      sh'.rewards.atomics = sh.rewards.atomics + (if w = v then creditAmt c.st c.time v vo sh.stake.atomics else 0) ∧
      c'.st.validator? v = some vo := by
  have hne' : (d, v) ≠ (a, w) := fun e => hne e.symm
  unfold withdrawRewards at h
  split at h
  · rename_i st hst
    split at h
    · simp at h
    · rename_i sh0 hsh0
      split at h
      · simp at h
      · split at h
        · simp only [Outcome.ok.injEq] at h; subst h
          by_cases e : w = v
          · subst e
            obtain ⟨sh1, vi1, r1, _, r3, _, _, _⟩ := updR_pair hi hst hp.record hp.vinfo hp.val (hp.pos ht)
            refine ⟨sh1, by simp only [get?_set_ne _ _ hne']; exact r1, by simp [r3], ?_⟩
            show st.validator? w = some vo
            rw [validator?_congr (updR_ok hst).validators]; exact hp.val
          · obtain ⟨o1, _, _, o4⟩ := updR_other hst e d
            refine ⟨sh, by simp only [get?_set_ne _ _ hne']; rw [o1]; exact hp.record, by simp [e], ?_⟩
            show st.validator? v = some vo
            rw [validator?_congr o4]; exact hp.val
        · simp at h
  · simp at h
  · simp at h
  · simp at h

/-- `d`'s own withdrawal at `v`: the accumulator is credited, its whole tokens are minted to `d`'s withdraw address,
and it is reset -/
theorem pair_withdraw_own {cfg : Cfg} {c c' : Chain} {d : Addr} {v : String}
    {sh : Shares} {vi : ValInfo} {vo : Validator} (hi : SInv c.st) (ht : TInv c.st) (hp : PairAt c d v sh vi vo)
    (h : withdrawRewards cfg c d v = .ok c') :
    ∃ sh', get? c'.st.stakes (d, v) = some sh' ∧ sh'.rewards.atomics = 0 ∧ c'.st.validator? v = some vo ∧
      Bank.mint c.bank (withdrawAddr c.st d)
        [⟨c.st.info.bondedDenom, (sh.rewards.atomics + creditAmt c.st c.time v vo sh.stake.atomics) / Dec.ONE⟩]
        = some c'.bank := by
  unfold withdrawRewards at h
  split at h
  · rename_i st hst
    have ur := updR_ok hst
    obtain ⟨sh1, vi1, r1, _, r3, _, _, _⟩ := updR_pair hi hst hp.record hp.vinfo hp.val (hp.pos ht)
    rw [r1] at h
    simp only at h
    split at h
    · simp at h
    · split at h
      · rename_i bank hb
        simp only [Outcome.ok.injEq] at h; subst h
        refine ⟨_, get?_set_self _ _ _, by simp [Dec.zero], ?_, ?_⟩
        · show st.validator? v = some vo
          rw [validator?_congr ur.validators]; exact hp.val
        · have hwa : withdrawAddr st d = withdrawAddr c.st d := by simp [withdrawAddr, ur.withdraw]
          rw [hwa, ur.info] at hb
          simp only [Dec.floor, r3] at hb
          exact hb
      · simp at h
  · simp at h
  · simp at h
  · simp at h

theorem pair_setWithdraw {cfg : Cfg} {c c' : Chain} {a b d : Addr} {v : String}
    {sh : Shares} {vi : ValInfo} {vo : Validator} (hp : PairAt c d v sh vi vo)
    (h : setWithdraw cfg c a b = .ok c') :
    get? c'.st.stakes (d, v) = some sh ∧ c'.st.validator? v = some vo := by
  unfold setWithdraw at h
  split at h
  · simp at h
  · split at h <;>
    · simp only [Outcome.ok.injEq] at h; subst h
      exact ⟨hp.record, hp.val⟩

/-- a slash: of `v` itself (credited, and the record keeps its accumulator as long as it remains), or of another
validator -/
theorem pair_slash {c c' : Chain} {d : Addr} {w v : String} {p : Dec}
    {sh : Shares} {vi : ValInfo} {vo : Validator} (hi : SInv c.st) (ht : TInv c.st) (hp : PairAt c d v sh vi vo)
    (h : sudoSlash c w p = .ok c') (hrem : (get? c'.st.stakes (d, v)).isSome) :
    ∃ sh', get? c'.st.stakes (d, v) = some sh' ∧
      sh'.rewards.atomics = sh.rewards.atomics + (if w = v then creditAmt c.st c.time v vo sh.stake.atomics else 0) ∧
      c'.st.validator? v = some vo := by
  have ef := slash_effect hi h
  have hval : c'.st.validator? v = some vo := by rw [validator?_congr ef.validators]; exact hp.val
  by_cases e : w = v
  · subst e
    unfold sudoSlash at h
    split at h
    · simp at h
    · split at h
      · rename_i st hst
        simp only [Outcome.ok.injEq] at h; subst h
        unfold slash at hst
        split at hst
        · rename_i s1 h1
          obtain ⟨sh1, vi1, r1, _, r3, r4, _, _⟩ := updR_pair hi h1 hp.record hp.vinfo hp.val (hp.pos ht)
          rw [r4] at hst
          simp only at hst
          unfold applySlash at hst
          split at hst
          · split at hst
            · simp only [Outcome.ok.injEq] at hst; subst hst
              -- everything of the validator was removed: contradicts `hrem`
              exfalso
              simp only [get?_removeAll, true_and] at hrem
              split at hrem
              · simp at hrem
              · rename_i hnot
                have hi1 := SInv_updR hi (updR_ok h1)
                obtain ⟨vi2, hv2, hd⟩ := hi1.stakes_listed d w sh1 r1
                rw [r4] at hv2; simp only [Option.some.injEq] at hv2; subst hv2
                exact hnot hd
            · simp only [Outcome.ok.injEq] at hst; subst hst
              have hrec : get? (scaleAll s1.stakes w vi1.stakers (remOf p)) (d, w) =
                  some (if w = w ∧ d ∈ vi1.stakers then { sh1 with stake := Dec.mul sh1.stake (remOf p) } else sh1) := by
                rw [get?_scaleAll, r1]; rfl
              refine ⟨_, hrec, ?_, hval⟩
              simp only [ite_true]
              split <;> exact r3
          · simp at hst
        · simp at hst
        · simp at hst
        · simp at hst
      · simp at h
      · simp at h
      · simp at h
  · have := ef.other_records (d, v) (fun x => e x.symm)
    exact ⟨sh, by rw [this]; exact hp.record, by simp [e], hval⟩

theorem dropIfEmpty_keeps (s : SState) (u : Unbonding) (rest : List Unbonding) (d : Addr) (v : String) (sh : Shares)
    (h : get? s.stakes (d, v) = some sh) (hpos : 1 ≤ sh.stake.floor) :
    get? (dropIfEmpty s u rest).stakes (d, v) = some sh ∧ (dropIfEmpty s u rest).validators = s.validators := by
  unfold dropIfEmpty
  split
  · rename_i sh0 hsh0
    split
    · rename_i hz
      refine ⟨?_, rfl⟩
      simp only [get?_erase]
      split
      · rename_i e
        rw [e, hsh0] at h
        simp only [Option.some.injEq] at h; subst h
        omega
      · exact h
    · exact ⟨h, rfl⟩
  · exact ⟨h, rfl⟩

/-- a block update keeps every record that shows at least one token -/
theorem processQueue_keeps (cfg : Cfg) (now : Nat) (d : Addr) (v : String) (sh : Shares) (hpos : 1 ≤ sh.stake.floor) :
    ∀ (q : List Unbonding) (s : SState) (bank : Bank.State) (s' : SState) (bank' : Bank.State),
      processQueue cfg now s bank q = .ok (s', bank') → get? s.stakes (d, v) = some sh →
      get? s'.stakes (d, v) = some sh ∧ s'.validators = s.validators := by
  intro q
  induction q with
  | nil =>
    intro s bank s' bank' h hs
    simp only [processQueue, Outcome.ok.injEq, Prod.mk.injEq] at h
    obtain ⟨rfl, _⟩ := h
    exact ⟨hs, rfl⟩
  | cons u rest ih =>
    intro s bank s' bank' h hs
    unfold processQueue at h
    by_cases hdue : u.payoutAt ≤ now
    · simp only [hdue, ite_true] at h
      obtain ⟨k1, k2⟩ := dropIfEmpty_keeps s u rest d v sh hs hpos
      unfold payOne at h
      by_cases hz : u.amount = 0
      · simp only [hz, ite_true] at h
        obtain ⟨r1, r2⟩ := ih _ _ _ _ h k1
        exact ⟨r1, r2.trans k2⟩
      · simp only [hz, ite_false] at h
        cases hb : Bank.send bank cfg.pool u.delegator [⟨s.info.bondedDenom, u.amount⟩] with
        | none => simp [hb] at h
        | some bank1 =>
          simp only [hb] at h
          obtain ⟨r1, r2⟩ := ih _ _ _ _ h k1
          exact ⟨r1, r2.trans k2⟩
    · simp only [hdue, ite_false, Outcome.ok.injEq, Prod.mk.injEq] at h
      obtain ⟨rfl, _⟩ := h
      exact ⟨hs, rfl⟩

theorem pair_advance {cfg : Cfg} {c c' : Chain} {secs : Nat} {d : Addr} {v : String}
    {sh : Shares} {vi : ValInfo} {vo : Validator} (hp : PairAt c d v sh vi vo)
    (h : advance cfg c secs = .ok c') :
    get? c'.st.stakes (d, v) = some sh ∧ c'.st.validator? v = some vo := by
  unfold advance at h
  split at h
  · rename_i st bank hq
    simp only [Outcome.ok.injEq] at h; subst h
    obtain ⟨r1, r2⟩ := processQueue_keeps cfg _ d v sh hp.shown _ _ _ _ _ hq hp.record
    exact ⟨r1, by rw [validator?_congr r2]; exact hp.val⟩
  · simp at h
  · simp at h
  · simp at h

-- ---------------------------------------------------------------------------------------------
-- the ledger of the pair along a run of the model

/-- the validators whose rewards an operation updates (in order) -/
def Op.updates : Op → List String
  | .delegate _ w _ => [w]
  | .undelegate _ w _ => [w]
  | .redelegate _ w1 w2 _ => [w1, w2]
  | .withdraw _ w => [w]
  | .slash w _ => [w]
  | .setWithdraw _ _ => []
  | .advance _ => []

/-- the operation changes the stake of the pair `(d, v)` other than by slashing -/
def Op.restakes (d : Addr) (v : String) : Op → Prop
  | .delegate a w _ => a = d ∧ w = v
  | .undelegate a w _ => a = d ∧ w = v
  | .redelegate a w1 w2 _ => a = d ∧ (w1 = v ∨ w2 = v)
  | _ => False

def Op.isWithdrawOf (d : Addr) (v : String) : Op → Bool
  | .withdraw a w => a = d && w = v
  | _ => false

/-- a reward update of `v` in chain `c`, as a step of the ledger of `(d, v)`: a `credit` with the validator total, the
share and the time span read off the chain — or nothing when the rewards are up to date -/
def creditL (c : Chain) (d : Addr) (v : String) (l : Ledger) : Ledger :=
  match get? c.st.vinfo v, c.st.validator? v with
  | some vi, some vo =>
    if vi.last < c.time then
      l.step c.st.info.apr.atomics vo.commission.atomics
        (.credit ⟨vi.stake, (curShares c.st d v).stake.atomics, elapsed c.time vi.last⟩)
    else l
  | _, _ => l

/-- the ledger step(s) that operation `op`, executed in chain `c`, means for the pair `(d, v)`: nothing if the
operation is rejected; a `credit` if it updates the rewards of `v`; then a `withdraw` if it is `d`'s own withdrawal -/
def trackStep (cfg : Cfg) (d : Addr) (v : String) (c : Chain) (op : Op) (l : Ledger) : Ledger :=
  if (step cfg c op).2 = .ok then
    let l1 := if v ∈ op.updates then creditL c d v l else l
    if op.isWithdrawOf d v then l1.step 0 0 .withdraw else l1
  else l

/-- the ledger of `(d, v)` along a history -/
def track (cfg : Cfg) (d : Addr) (v : String) : Chain → List Op → Ledger → Ledger
  | _, [], l => l
  | c, op :: ops, l => track cfg d v (step cfg c op).1 ops (trackStep cfg d v c op l)

/-- the delegation of `d` to `v` is shown (≥ 1 whole token) before, between and after all operations -/
def ShownAll (cfg : Cfg) (d : Addr) (v : String) : Chain → List Op → Prop
  | c, [] => 1 ≤ (stakeOf c.st d v).floor
  | c, op :: ops => 1 ≤ (stakeOf c.st d v).floor ∧ ShownAll cfg d v (step cfg c op).1 ops

instance decShownAll (cfg : Cfg) (d : Addr) (v : String) : (c : Chain) → (ops : List Op) →
    Decidable (ShownAll cfg d v c ops)
  | c, [] => inferInstanceAs (Decidable (1 ≤ (stakeOf c.st d v).floor))
  | c, op :: ops =>
    @instDecidableAnd _ _ (inferInstanceAs (Decidable (1 ≤ (stakeOf c.st d v).floor)))
      (decShownAll cfg d v (step cfg c op).1 ops)

theorem pairAt_of_shown {cfg : Cfg} {c : Chain} {d : Addr} {v : String} {vo : Validator} (hi : Inv cfg c)
    (hvo : c.st.validator? v = some vo) (hs : 1 ≤ (stakeOf c.st d v).floor) :
    ∃ sh vi, PairAt c d v sh vi vo ∧ curShares c.st d v = sh := by
  cases hg : get? c.st.stakes (d, v) with
  | none =>
    exfalso
    have : (stakeOf c.st d v).floor = 0 := by simp [stakeOf, curShares, hg, Shares.dflt, zero_floor0]
    omega
  | some sh =>
    obtain ⟨vi, hvi, _⟩ := hi.sinv.stakes_listed d v sh hg
    have hc : curShares c.st d v = sh := by simp [curShares, hg]
    refine ⟨sh, vi, ⟨hg, hvi, hvo, ?_⟩, hc⟩
    simpa [stakeOf, hc] using hs

theorem creditL_acc {c : Chain} {d : Addr} {v : String} {sh : Shares} {vi : ValInfo} {vo : Validator}
    (hp : PairAt c d v sh vi vo) (l : Ledger) :
    (creditL c d v l).acc = l.acc + creditAmt c.st c.time v vo sh.stake.atomics ∧
    (creditL c d v l).paid = l.paid ∧ (creditL c d v l).w = l.w := by
  have hc : curShares c.st d v = sh := by simp [curShares, hp.record]
  unfold creditL creditAmt
  rw [hp.vinfo, hp.val, hc]
  simp only
  split
  · simp [Ledger.step]
  · simp

theorem creditL_good {cfg : Cfg} {c : Chain} {d : Addr} {v : String} {sh : Shares} {vi : ValInfo} {vo : Validator}
    (hi : Inv cfg c) (hp : PairAt c d v sh vi vo) (l : Ledger) (hg : l.Good) : (creditL c d v l).Good := by
  have hc : curShares c.st d v = sh := by simp [curShares, hp.record]
  have hvo' : vo ∈ c.st.validators := List.mem_of_find?_eq_some hp.val
  unfold creditL
  rw [hp.vinfo, hp.val, hc]
  simp only
  split
  · exact Ledger.good_step _ _ (hi.sinv.comm_le vo hvo') l _
      (shown_event_ok hi.tinv hp.record hp.vinfo (by have := hp.shown; omega) _) hg
  · exact hg

theorem withdraw_good (l : Ledger) (hg : l.Good) : (l.step 0 0 .withdraw).Good :=
  Ledger.good_step 0 0 (Nat.zero_le _) l .withdraw trivial hg

theorem step_of_ok {cfg : Cfg} {c c' : Chain} {op : Op} (h : op.run cfg c = .ok c') : step cfg c op = (c', .ok) := by
  simp [step, h]

theorem step_of_not_ok {cfg : Cfg} {c : Chain} {op : Op} (h : ∀ c', op.run cfg c ≠ .ok c') :
    (step cfg c op).1 = c ∧ (step cfg c op).2 ≠ .ok := by
  unfold step
  split
  · rename_i c' hc; exact absurd hc (h c')
  · exact ⟨rfl, by simp⟩
  · exact ⟨rfl, by simp⟩
  · exact ⟨rfl, by simp⟩

/-- one operation of the model is the ledger step `trackStep`: the ledger's accumulator stays the accumulator of the
record, and the two C15 bounds (`Ledger.Good`) are kept -/
theorem track_step {cfg : Cfg} {c : Chain} {op : Op} {d : Addr} {v : String} {vo : Validator} {l : Ledger}
    (hi : Inv cfg c) (hnr : ¬ op.restakes d v) (hvo : c.st.validator? v = some vo)
    (hs : 1 ≤ (stakeOf c.st d v).floor) (hs' : 1 ≤ (stakeOf (step cfg c op).1.st d v).floor)
    (hg : l.Good) (hacc : l.acc = (curShares c.st d v).rewards.atomics) :
    (trackStep cfg d v c op l).Good ∧
    (trackStep cfg d v c op l).acc = (curShares (step cfg c op).1.st d v).rewards.atomics ∧
    (step cfg c op).1.st.validator? v = some vo := by
  obtain ⟨sh, vi, hp, hc⟩ := pairAt_of_shown hi hvo hs
  rw [hc] at hacc
  cases hrun : op.run cfg c with
  | ok c' =>
    have hst := step_of_ok hrun
    rw [hst] at hs' ⊢
    have hs'' : 1 ≤ (stakeOf c'.st d v).floor := hs'
    have hcond : (step cfg c op).2 = .ok := by rw [hst]
    have hrec' : ∀ sh', get? c'.st.stakes (d, v) = some sh' → curShares c'.st d v = sh' := by
      intro sh' h; simp [curShares, h]
    obtain ⟨ca, _, _⟩ := creditL_acc hp l
    have cg := creditL_good hi hp l hg
    cases op with
    | delegate a w coin =>
      have hne : (a, w) ≠ (d, v) := fun e => hnr ⟨(Prod.mk.inj e).1, (Prod.mk.inj e).2⟩
      obtain ⟨sh', r1, r2, r3⟩ := pair_delegate hi.sinv hi.tinv hp hne hrun
      simp only [trackStep, hcond, ite_true, Op.updates, Op.isWithdrawOf, List.mem_singleton, Bool.false_eq_true, ite_false]
      rw [hrec' sh' r1, r2]
      by_cases e : w = v
      · subst e; simp only [ite_true]; exact ⟨cg, by omega, r3⟩
      · have e' : ¬ v = w := fun x => e x.symm
        simp only [e, e', ite_false]; exact ⟨hg, by omega, r3⟩
    | undelegate a w coin =>
      have hne : (a, w) ≠ (d, v) := fun e => hnr ⟨(Prod.mk.inj e).1, (Prod.mk.inj e).2⟩
      obtain ⟨sh', r1, r2, r3⟩ := pair_undelegate hi.sinv hi.tinv hp hne hrun
      simp only [trackStep, hcond, ite_true, Op.updates, Op.isWithdrawOf, List.mem_singleton, Bool.false_eq_true, ite_false]
      rw [hrec' sh' r1, r2]
      by_cases e : w = v
      · subst e; simp only [ite_true]; exact ⟨cg, by omega, r3⟩
      · have e' : ¬ v = w := fun x => e x.symm
        simp only [e, e', ite_false]; exact ⟨hg, by omega, r3⟩
    | redelegate a w1 w2 coin =>
      have hne : a ≠ d ∨ (w1 ≠ v ∧ w2 ≠ v) := by
        by_cases e : a = d
        · right
          exact ⟨fun x => hnr ⟨e, Or.inl x⟩, fun x => hnr ⟨e, Or.inr x⟩⟩
        · exact Or.inl e
      obtain ⟨sh', r1, r2, r3⟩ := pair_redelegate hi.sinv hi.tinv hp hne hrun
      simp only [trackStep, hcond, ite_true, Op.updates, Op.isWithdrawOf, Bool.false_eq_true, ite_false,
        List.mem_cons, List.mem_nil_iff, or_false]
      rw [hrec' sh' r1, r2]
      by_cases e : w1 = v ∨ w2 = v
      · have e' : v = w1 ∨ v = w2 := e.imp Eq.symm Eq.symm
        simp only [e, e', ite_true]; exact ⟨cg, by omega, r3⟩
      · have e' : ¬ (v = w1 ∨ v = w2) := fun x => e (x.imp Eq.symm Eq.symm)
        simp only [e, e', ite_false]; exact ⟨hg, by omega, r3⟩
    | withdraw a w =>
      by_cases own : a = d ∧ w = v
      · obtain ⟨rfl, rfl⟩ := own
        obtain ⟨sh', r1, r2, r3, _⟩ := pair_withdraw_own hi.sinv hi.tinv hp hrun
        simp only [trackStep, hcond, ite_true, Op.updates, Op.isWithdrawOf, List.mem_singleton, and_self, decide_true,
          Bool.and_self]
        rw [hrec' sh' r1, r2]
        exact ⟨withdraw_good _ cg, by simp [Ledger.step], r3⟩
      · have hne : (a, w) ≠ (d, v) := fun e => own ⟨(Prod.mk.inj e).1, (Prod.mk.inj e).2⟩
        obtain ⟨sh', r1, r2, r3⟩ := pair_withdraw_other hi.sinv hi.tinv hp hne hrun
        have hw : (Op.withdraw a w).isWithdrawOf d v = false := by
          simp only [Op.isWithdrawOf]
          by_cases e1 : a = d
          · have : ¬ w = v := fun x => own ⟨e1, x⟩
            simp [e1, this]
          · simp [e1]
        simp only [trackStep, hcond, ite_true, Op.updates, hw, List.mem_singleton, Bool.false_eq_true, ite_false]
        rw [hrec' sh' r1, r2]
        by_cases e : w = v
        · subst e; simp only [ite_true]; exact ⟨cg, by omega, r3⟩
        · have e' : ¬ v = w := fun x => e x.symm
          simp only [e, e', ite_false]; exact ⟨hg, by omega, r3⟩
    | setWithdraw a b =>
      obtain ⟨r1, r3⟩ := pair_setWithdraw hp hrun
      simp only [trackStep, hcond, ite_true, Op.updates, Op.isWithdrawOf, List.not_mem_nil, Bool.false_eq_true, ite_false]
      rw [hrec' sh r1]
      exact ⟨hg, hacc, r3⟩
    | slash w p =>
      have hrem : (get? c'.st.stakes (d, v)).isSome := by
        cases hg' : get? c'.st.stakes (d, v) with
        | none =>
          exfalso
          have : (stakeOf c'.st d v).floor = 0 := by simp [stakeOf, curShares, hg', Shares.dflt, zero_floor0]
          omega
        | some x => rfl
      obtain ⟨sh', r1, r2, r3⟩ := pair_slash hi.sinv hi.tinv hp hrun hrem
      simp only [trackStep, hcond, ite_true, Op.updates, Op.isWithdrawOf, List.mem_singleton, Bool.false_eq_true, ite_false]
      rw [hrec' sh' r1, r2]
      by_cases e : w = v
      · subst e; simp only [ite_true]; exact ⟨cg, by omega, r3⟩
      · have e' : ¬ v = w := fun x => e x.symm
        simp only [e, e', ite_false]; exact ⟨hg, by omega, r3⟩
    | advance secs =>
      obtain ⟨r1, r3⟩ := pair_advance hp hrun
      simp only [trackStep, hcond, ite_true, Op.updates, Op.isWithdrawOf, List.not_mem_nil, Bool.false_eq_true, ite_false]
      rw [hrec' sh r1]
      exact ⟨hg, hacc, r3⟩
  | err =>
    obtain ⟨h1, h2⟩ := step_of_not_ok (cfg := cfg) (c := c) (op := op) (by intro c' h; rw [hrun] at h; simp at h)
    simp only [trackStep, h2, ite_false, h1, hc]
    exact ⟨hg, hacc, hvo⟩
  | panic =>
    obtain ⟨h1, h2⟩ := step_of_not_ok (cfg := cfg) (c := c) (op := op) (by intro c' h; rw [hrun] at h; simp at h)
    simp only [trackStep, h2, ite_false, h1, hc]
    exact ⟨hg, hacc, hvo⟩
  | outOfFuel =>
    obtain ⟨h1, h2⟩ := step_of_not_ok (cfg := cfg) (c := c) (op := op) (by intro c' h; rw [hrun] at h; simp at h)
    simp only [trackStep, h2, ite_false, h1, hc]
    exact ⟨hg, hacc, hvo⟩

theorem ShownAll.head {cfg : Cfg} {d : Addr} {v : String} {c : Chain} {ops : List Op} (h : ShownAll cfg d v c ops) :
    1 ≤ (stakeOf c.st d v).floor := by
  cases ops with
  | nil => exact h
  | cons op ops => exact h.1

/-- every run of the model is a run of the ledger: along any history that does not re-stake the pair and keeps its
delegation shown, the invariant, the validator, the ledger bounds and "ledger accumulator = record accumulator" persist -/
theorem track_run {cfg : Cfg} {d : Addr} {v : String} {vo : Validator} : ∀ (ops : List Op) (c : Chain) (l : Ledger),
    Inv cfg c → (∀ op ∈ ops, op.okFor cfg ∧ ¬ op.restakes d v) → c.st.validator? v = some vo →
    ShownAll cfg d v c ops → l.Good → l.acc = (curShares c.st d v).rewards.atomics →
    Inv cfg (runAll cfg c ops).1 ∧ (runAll cfg c ops).1.st.validator? v = some vo ∧
    1 ≤ (stakeOf (runAll cfg c ops).1.st d v).floor ∧ (track cfg d v c ops l).Good ∧
    (track cfg d v c ops l).acc = (curShares (runAll cfg c ops).1.st d v).rewards.atomics := by
  intro ops
  induction ops with
  | nil =>
    intro c l hi _ hvo hs hg hacc
    exact ⟨hi, hvo, hs, hg, hacc⟩
  | cons op ops ih =>
    intro c l hi hok hvo hs hg hacc
    obtain ⟨h1, h2⟩ := hs
    obtain ⟨t1, t2, t3⟩ := track_step hi (hok op List.mem_cons_self).2 hvo h1 h2.head hg hacc
    have hi' := step_inv hi (hok op List.mem_cons_self).1
    have := ih (step cfg c op).1 (trackStep cfg d v c op l) hi'
      (fun o ho => hok o (List.mem_cons_of_mem _ ho)) t3 h2 t1 t2
    simpa [runAll, track] using this

/-- what `d`'s own successful withdrawal adds to the ledger's `paid` is exactly what the bank mints to `d`'s withdraw
address -/
theorem own_withdraw_mints {cfg : Cfg} {c c' : Chain} {d : Addr} {v : String} {vo : Validator} {l : Ledger}
    (hi : Inv cfg c) (hvo : c.st.validator? v = some vo) (hs : 1 ≤ (stakeOf c.st d v).floor)
    (hacc : l.acc = (curShares c.st d v).rewards.atomics) (hrun : (Op.withdraw d v).run cfg c = .ok c') :
    (trackStep cfg d v c (.withdraw d v) l).w = l.w + 1 ∧
    Bank.mint c.bank (withdrawAddr c.st d)
      [⟨c.st.info.bondedDenom, (trackStep cfg d v c (.withdraw d v) l).paid - l.paid⟩] = some c'.bank := by
  obtain ⟨sh, vi, hp, hc⟩ := pairAt_of_shown hi hvo hs
  rw [hc] at hacc
  obtain ⟨_, _, _, _, hm⟩ := pair_withdraw_own hi.sinv hi.tinv hp hrun
  obtain ⟨ca, cp, cw⟩ := creditL_acc hp l
  have hcond : (step cfg c (.withdraw d v)).2 = .ok := by rw [step_of_ok hrun]
  simp only [trackStep, hcond, ite_true, Op.updates, Op.isWithdrawOf, List.mem_singleton, decide_true, Bool.and_self,
    Ledger.step, cp, cw, ca, hacc, Nat.add_sub_cancel_left]
  exact ⟨trivial, hm⟩

/-- the Delegation query at the end is one more (virtual) reward update followed by a floor -/
theorem query_is_credit {cfg : Cfg} {c : Chain} {d : Addr} {v : String} {vo : Validator} {l : Ledger}
    (hi : Inv cfg c) (hvo : c.st.validator? v = some vo) (hs : 1 ≤ (stakeOf c.st d v).floor)
    (hvalid : cfg.valid d = true) (hacc : l.acc = (curShares c.st d v).rewards.atomics) :
    queryDelegation cfg c d v = .ok (some ((stakeOf c.st d v).floor, (creditL c d v l).acc / Dec.ONE)) := by
  obtain ⟨sh, vi, hp, hc⟩ := pairAt_of_shown hi hvo hs
  obtain ⟨ca, _, _⟩ := creditL_acc hp l
  have hvo' : vo ∈ c.st.validators := List.mem_of_find?_eq_some hp.val
  have hcm := hi.sinv.comm_le vo hvo'
  have hle := hi.last_le v vi hp.vinfo
  have hcalc := calcRewards_ok c.time vi.last c.st.info.apr vo.commission vi.stake hle hcm
  have hcr := credit_eq sh hcm hle (hp.pos hi.tinv) hcalc
  have hsf : sh.stake.floor ≠ 0 := by have := hp.shown; omega
  unfold queryDelegation
  rw [hp.val, hp.vinfo, hc]
  simp only [hvalid, not_true_eq_false, ite_false, shownReward, hcalc, hsf, stakeOf]
  rw [ca, hacc, hc]
  congr 3
  simp only [Dec.floor, Dec.add, hcr, creditAmt, hp.vinfo]
  by_cases hlt : vi.last < c.time
  · simp [hlt]
  · have : elapsed c.time vi.last = 0 := by
      unfold elapsed
      exact Nat.sub_eq_zero_of_le (Nat.div_le_div_right (by omega))
    simp [hlt, this, creditOf]

/-- C15 upper and lower bound for every run of the model.

Let `a0` be the accumulator of the pair at the start, `cE` the chain after `ops`, and `lE` the ledger of the pair along
`ops` followed by the reward update that the final Delegation query performs virtually. Then the query shows
`shown = ⌊lE.acc / 10^18⌋` and, with `lE.paid` the whole tokens minted by `d`'s withdrawals (`own_withdraw_mints`),
`lE.w` their number, `lE.n` the number of crediting reward updates of `v` and `lE.exact` = `a0·P0` + Σ over those updates
of `apr · Δt · (10^18 − commission) · share` (the exact value times `P0 = 10^18·10^18·YEAR`):
    (paid + shown) tokens ≤ exact + 2·n atomics      and      exact < (paid + shown + w + 1) tokens + 4·n atomics -/
theorem model_history_bounds {cfg : Cfg} {d : Addr} {v : String} {vo : Validator} (ops : List Op) (c : Chain)
    (hi : Inv cfg c) (hok : ∀ op ∈ ops, op.okFor cfg ∧ ¬ op.restakes d v) (hvo : c.st.validator? v = some vo)
    (hshown : ShownAll cfg d v c ops) (hvalid : cfg.valid d = true) :
    ∃ lE : Ledger,
      lE = creditL (runAll cfg c ops).1 d v
            (track cfg d v c ops { acc := (curShares c.st d v).rewards.atomics,
                                   exact := (curShares c.st d v).rewards.atomics * P0 }) ∧
      queryDelegation cfg (runAll cfg c ops).1 d v =
        .ok (some ((stakeOf (runAll cfg c ops).1.st d v).floor, lE.acc / Dec.ONE)) ∧
      (lE.paid + lE.acc / Dec.ONE) * Dec.ONE * P0 ≤ lE.exact + 2 * lE.n * P0 ∧
      lE.exact < ((lE.paid + lE.acc / Dec.ONE + lE.w + 1) * Dec.ONE + 4 * lE.n) * P0 := by
  have hg0 : ({ acc := (curShares c.st d v).rewards.atomics,
                exact := (curShares c.st d v).rewards.atomics * P0 } : Ledger).Good := by
    simp [Ledger.Good]
  obtain ⟨iE, vE, sE, gE, aE⟩ := track_run (vo := vo) ops c _ hi hok hvo hshown hg0 rfl
  obtain ⟨sh, vi, hp, hc⟩ := pairAt_of_shown iE vE sE
  have gF := creditL_good iE hp _ gE
  refine ⟨_, rfl, query_is_credit iE vE sE hvalid aE, ?_, ?_⟩
  · obtain ⟨g1, _⟩ := gF
    generalize creditL (runAll cfg c ops).1 d v _ = lE at g1 ⊢
    have d1 := Nat.div_mul_le_self lE.acc Dec.ONE
    have : (lE.paid + lE.acc / Dec.ONE) * Dec.ONE * P0 ≤ (lE.paid * Dec.ONE + lE.acc) * P0 := by
      apply Nat.mul_le_mul_right
      rw [Nat.add_mul]; omega
    omega
  · obtain ⟨_, g2⟩ := gF
    generalize creditL (runAll cfg c ops).1 d v _ = lE at g2 ⊢
    have d2 := Nat.lt_div_mul_add (a := lE.acc) Dec.ONE_pos
    have hP : 0 < P0 := by unfold P0; exact Nat.mul_pos (Nat.mul_pos Dec.ONE_pos Dec.ONE_pos) YEAR_pos
    have : (lE.paid * Dec.ONE + lE.acc + lE.w * Dec.ONE + 4 * lE.n) * P0
        < ((lE.paid + lE.acc / Dec.ONE + lE.w + 1) * Dec.ONE + 4 * lE.n) * P0 := by
      apply Nat.mul_lt_mul_of_pos_right _ hP
      rw [Nat.add_mul, Nat.add_mul, Nat.add_mul, Nat.one_mul]; omega
    omega

end Staking
end CwMt
