import CwMt.Proofs.Prefix
/-
  CwMt.Proofs.Layout — the raw key layout of the chain store and byte-level disjointness of a
  contract's key space from every other module's.

  Layout (/repo/src/wasm.rs:30-33,142,156,169; bank.rs; staking.rs:111-113):
    contract storage of `a`   under  toLPNested ["wasm", "contract_data/" ++ a]
    contract registry         under  toLPNested ["wasm", "contracts"]        (cw-storage-plus `Map::new("contracts")`
                                                                              inside `prefixed(storage, b"wasm")`)
    bank / staking / distribution under toLPNested ["bank"] / ["staking"] / ["distribution"]

  First part: `String.toUTF8 … |>.toList` computes what one expects (core has no lemmas about
  `ByteArray.toList`, which is defined by well-founded recursion and does not reduce), so the
  statements can be about the string literals themselves rather than about byte lists written out by
  hand.
-/
namespace CwMt.Layout
open CwMt

/-! ### `ByteArray.toList`, `String.toUTF8` -/

theorem toList_loop_eq (bs : ByteArray) (i : Nat) (r : List UInt8) :
    ByteArray.toList.loop bs i r = r.reverse ++ bs.data.toList.drop i := by
  fun_induction ByteArray.toList.loop bs i r with
  | case1 i r h ih =>
    rw [ih]
    have hi : i < bs.data.toList.length := by rw [Array.length_toList]; exact h
    rw [List.drop_eq_getElem_cons hi]
    have hg : bs.get! i = bs.data.toList[i] := by
      show bs.data[i]! = _
      rw [getElem!_pos bs.data i (by rw [← Array.length_toList]; exact hi)]
      simp
    rw [hg]
    simp
  | case2 i r h =>
    have : bs.data.toList.length ≤ i := by rw [Array.length_toList]; exact Nat.le_of_not_lt h
    simp [List.drop_eq_nil_of_le this]

theorem byteArray_toList_eq (bs : ByteArray) : bs.toList = bs.data.toList := by
  simp [ByteArray.toList, toList_loop_eq]

theorem byteArray_toList_append (a b : ByteArray) : (a ++ b).toList = a.toList ++ b.toList := by
  simp only [byteArray_toList_eq, ByteArray.toList_data_append]

/-- the UTF-8 bytes of a concatenation are the concatenation of the UTF-8 bytes -/
theorem utf8_append (s t : String) :
    (s ++ t).toUTF8.toList = s.toUTF8.toList ++ t.toUTF8.toList := by
  simp only [String.toUTF8, String.toByteArray_append, byteArray_toList_append]

/-- the UTF-8 bytes of a string given by its characters -/
theorem utf8_ofList (l : List Char) :
    (String.ofList l).toUTF8.toList = l.flatMap String.utf8EncodeChar := by
  simp only [String.toUTF8, String.toByteArray_ofList, byteArray_toList_eq, List.utf8Encode,
    List.toList_data_toByteArray]

/-! ### the namespace literals, as bytes -/

theorem wasm_bytes : "wasm".toUTF8.toList = [119, 97, 115, 109] := by
  rw [show "wasm" = String.ofList ['w', 'a', 's', 'm'] from rfl, utf8_ofList]; decide

theorem bank_bytes : "bank".toUTF8.toList = [98, 97, 110, 107] := by
  rw [show "bank" = String.ofList ['b', 'a', 'n', 'k'] from rfl, utf8_ofList]; decide

theorem staking_bytes : "staking".toUTF8.toList = [115, 116, 97, 107, 105, 110, 103] := by
  rw [show "staking" = String.ofList ['s', 't', 'a', 'k', 'i', 'n', 'g'] from rfl, utf8_ofList]
  decide

theorem distribution_bytes : "distribution".toUTF8.toList =
    [100, 105, 115, 116, 114, 105, 98, 117, 116, 105, 111, 110] := by
  rw [show "distribution" =
    String.ofList ['d', 'i', 's', 't', 'r', 'i', 'b', 'u', 't', 'i', 'o', 'n'] from rfl, utf8_ofList]
  decide

theorem contracts_bytes : "contracts".toUTF8.toList =
    [99, 111, 110, 116, 114, 97, 99, 116, 115] := by
  rw [show "contracts" = String.ofList ['c', 'o', 'n', 't', 'r', 'a', 'c', 't', 's'] from rfl,
    utf8_ofList]
  decide

theorem contract_data_bytes : "contract_data/".toUTF8.toList =
    [99, 111, 110, 116, 114, 97, 99, 116, 95, 100, 97, 116, 97, 47] := by
  rw [show "contract_data/" =
    String.ofList ['c', 'o', 'n', 't', 'r', 'a', 'c', 't', '_', 'd', 'a', 't', 'a', '/'] from rfl,
    utf8_ofList]
  decide

/-- the storage namespace of contract `a`, as bytes: the 14 bytes of `contract_data/` and then the
bytes of the address -/
theorem contract_namespace_bytes (a : String) : ("contract_data/" ++ a).toUTF8.toList =
    [99, 111, 110, 116, 114, 97, 99, 116, 95, 100, 97, 116, 97, 47] ++ a.toUTF8.toList := by
  rw [utf8_append, contract_data_bytes]

/-- no contract's storage namespace is the registry's: byte 8 is `_` in one and `s` in the other -/
theorem contract_namespace_ne_contracts (a : String) :
    ("contract_data/" ++ a).toUTF8.toList ≠ "contracts".toUTF8.toList := by
  rw [contract_namespace_bytes, contracts_bytes]
  intro h
  have h8 := congrArg (fun l => l[8]?) h
  simp at h8

theorem wasm_ne_bank : "wasm".toUTF8.toList ≠ "bank".toUTF8.toList := by
  rw [wasm_bytes, bank_bytes]; decide

theorem wasm_ne_staking : "wasm".toUTF8.toList ≠ "staking".toUTF8.toList := by
  rw [wasm_bytes, staking_bytes]; decide

theorem wasm_ne_distribution : "wasm".toUTF8.toList ≠ "distribution".toUTF8.toList := by
  rw [wasm_bytes, distribution_bytes]; decide

/-! ### disjointness -/

/-- A raw key under a two-segment path is under no one-segment path with a different first
segment. -/
theorem two_segment_disjoint_from_module (top sub other : List UInt8) (pc pm k : Key)
    (hne : top ≠ other)
    (hc : toLPNested [top, sub] = .ok pc) (hm : toLPNested [other] = .ok pm)
    (hkc : pc <+: k) (hkm : pm <+: k) : False := by
  rcases Prefix.nested_disjoint _ _ pc pm k hc hm hkc hkm with h | h
  · have := h.length_le
    simp at this
  · simp only [List.cons_prefix_cons] at h
    exact hne h.1.symm

/-- A raw key cannot lie under two two-segment paths that differ in the second segment. -/
theorem two_segment_disjoint (top sub sub' : List UInt8) (pc pr k : Key) (hne : sub ≠ sub')
    (hc : toLPNested [top, sub] = .ok pc) (hr : toLPNested [top, sub'] = .ok pr)
    (hkc : pc <+: k) (hkr : pr <+: k) : False := by
  rcases Prefix.nested_disjoint _ _ pc pr k hc hr hkc hkr with h | h
  · simp only [List.cons_prefix_cons, true_and] at h
    exact hne h.1
  · simp only [List.cons_prefix_cons, true_and] at h
    exact hne h.1.symm

theorem contract_window_disjoint_from_bank (a : String) (pc pm k : Key)
    (hc : toLPNested [("wasm".toUTF8.toList), ("contract_data/" ++ a).toUTF8.toList] = .ok pc)
    (hm : toLPNested [("bank".toUTF8.toList)] = .ok pm) (hkc : pc <+: k) (hkm : pm <+: k) : False :=
  two_segment_disjoint_from_module _ _ _ pc pm k wasm_ne_bank hc hm hkc hkm

theorem contract_window_disjoint_from_staking (a : String) (pc pm k : Key)
    (hc : toLPNested [("wasm".toUTF8.toList), ("contract_data/" ++ a).toUTF8.toList] = .ok pc)
    (hm : toLPNested [("staking".toUTF8.toList)] = .ok pm) (hkc : pc <+: k) (hkm : pm <+: k) :
    False :=
  two_segment_disjoint_from_module _ _ _ pc pm k wasm_ne_staking hc hm hkc hkm

theorem contract_window_disjoint_from_distribution (a : String) (pc pm k : Key)
    (hc : toLPNested [("wasm".toUTF8.toList), ("contract_data/" ++ a).toUTF8.toList] = .ok pc)
    (hm : toLPNested [("distribution".toUTF8.toList)] = .ok pm) (hkc : pc <+: k) (hkm : pm <+: k) :
    False :=
  two_segment_disjoint_from_module _ _ _ pc pm k wasm_ne_distribution hc hm hkc hkm

theorem contract_window_disjoint_from_registry (a : String) (pc pr k : Key)
    (hc : toLPNested [("wasm".toUTF8.toList), ("contract_data/" ++ a).toUTF8.toList] = .ok pc)
    (hr : toLPNested [("wasm".toUTF8.toList), ("contracts".toUTF8.toList)] = .ok pr)
    (hkc : pc <+: k) (hkr : pr <+: k) : False :=
  two_segment_disjoint _ _ _ pc pr k (contract_namespace_ne_contracts a) hc hr hkc hkr

/-! ### the fixed prefixes exist (so the hypotheses above are satisfiable) -/

theorem bank_prefix : toLPNested [("bank".toUTF8.toList)] = .ok [0, 4, 98, 97, 110, 107] := by
  rw [bank_bytes]; decide

theorem staking_prefix : toLPNested [("staking".toUTF8.toList)] =
    .ok [0, 7, 115, 116, 97, 107, 105, 110, 103] := by
  rw [staking_bytes]; decide

theorem distribution_prefix : toLPNested [("distribution".toUTF8.toList)] =
    .ok [0, 12, 100, 105, 115, 116, 114, 105, 98, 117, 116, 105, 111, 110] := by
  rw [distribution_bytes]; decide

theorem registry_prefix : toLPNested [("wasm".toUTF8.toList), ("contracts".toUTF8.toList)] =
    .ok [0, 4, 119, 97, 115, 109, 0, 9, 99, 111, 110, 116, 114, 97, 99, 116, 115] := by
  rw [wasm_bytes, contracts_bytes]; decide

theorem toLP_of_le (x : List UInt8) (h : x.length ≤ 65535) :
    toLP x = .ok ([UInt8.ofNat (x.length / 256), UInt8.ofNat (x.length % 256)] ++ x) := by
  have hl : ¬ (x.length > 0xFFFF) := by omega
  simp only [toLP, encodeLength, hl, if_false, Outcome.map]

/-- every address of at most 65521 bytes has a storage prefix: `00 04 w a s m`, the 2-byte
big-endian length of the namespace, `contract_data/`, the address -/
theorem contract_prefix (a : String) (h : a.toUTF8.toList.length ≤ 65521) :
    toLPNested [("wasm".toUTF8.toList), ("contract_data/" ++ a).toUTF8.toList] =
      .ok ([0, 4, 119, 97, 115, 109] ++
        ([UInt8.ofNat ((14 + a.toUTF8.toList.length) / 256),
          UInt8.ofNat ((14 + a.toUTF8.toList.length) % 256)] ++
        ([99, 111, 110, 116, 114, 97, 99, 116, 95, 100, 97, 116, 97, 47] ++ a.toUTF8.toList))) := by
  rw [wasm_bytes, contract_namespace_bytes]
  have h4 : toLP [119, 97, 115, 109] = .ok [0, 4, 119, 97, 115, 109] := by decide
  have h2 := toLP_of_le
    ([99, 111, 110, 116, 114, 97, 99, 116, 95, 100, 97, 116, 97, 47] ++ a.toUTF8.toList)
    (by simp only [List.length_append, List.length_cons, List.length_nil]; omega)
  simp only [List.length_append, List.length_cons, List.length_nil, Nat.zero_add,
    Nat.reduceAdd] at h2
  simp only [toLPNested, h4, h2, Outcome.bind, Outcome.map, List.append_nil]

end CwMt.Layout
