import CwMt.Model.Route
/-
  Generic lemmas about struct-rebuild tables (any step type `S`, field type `F`, component type `α`):
  a table that satisfies the frame condition makes a run of steps compute "last supplied value or
  initial value" per field, and runs over permuted step lists agree when no two steps have the same
  target. Used by CwMt/Props/C20.lean with the generated tables.
-/
namespace CwMt.Route
variable {S F α : Type} [DecidableEq S] [DecidableEq F]

theorem tagOf_param {r : Row F} {f : F} {i : Nat} (h : tagOf r f = .param i) :
    ∃ e, srcOf r f = some (.param i e) := by
  unfold tagOf at h
  split at h
  · rename_i s hs
    cases s <;> simp [Src.tag] at h
    subst h
    exact ⟨_, hs⟩
  · cases h

theorem tagOf_kept {r : Row F} {f : F} (h : tagOf r f = .kept) : srcOf r f = some .kept := by
  unfold tagOf at h
  split at h
  · rename_i s hs
    cases s <;> simp [Src.tag] at h
    exact hs
  · cases h

/-- What a frame row does to a state. -/
theorem applyRow_of_frame {fields : List F} {target : F} {r : Row F} (h : rowFrameOk fields target r = true)
    (args : Nat → CVal α) (s : F → CVal α) {f : F} (hf : f ∈ fields) :
    applyRow r args s f = if f = target then args 0 else s f := by
  simp only [rowFrameOk, Bool.and_eq_true, List.all_eq_true, beq_iff_eq] at h
  have hf' := h.2 f hf
  by_cases hft : f = target
  · simp only [hft, if_true] at hf' ⊢
    obtain ⟨e, he⟩ := tagOf_param hf'
    simp [applyRow, he]
  · simp only [hft, if_false] at hf' ⊢
    simp [applyRow, tagOf_kept hf']

theorem applyStep_of_frame {fields : List F} {target : S → F} {steps : List S} {t : Table S F}
    (h : frameOk fields target steps t = true) {st : S} (hst : st ∈ steps)
    (args : Nat → CVal α) (s : F → CVal α) {f : F} (hf : f ∈ fields) :
    applyStep t st args s f = if f = target st then args 0 else s f := by
  simp only [frameOk, List.all_eq_true] at h
  have := h st hst
  unfold applyStep
  split at this
  · rename_i r hr
    simp only [hr]
    exact applyRow_of_frame this args s hf
  · cases this

/-- **Any order, any subset, repetitions**: after a run of steps every field holds the value supplied
by the last step for it, or what it held initially. -/
theorem runSteps_spec {fields : List F} {target : S → F} {steps : List S} {t : Table S F}
    (h : frameOk fields target steps t = true) (l : List (S × α)) (hl : ∀ p ∈ l, p.1 ∈ steps)
    (init : F → CVal α) {f : F} (hf : f ∈ fields) :
    runSteps t init l f = match lastFor target f l with
      | some a => .supplied a
      | none => init f := by
  induction l generalizing init with
  | nil => simp [runSteps, lastFor]
  | cons p l ih =>
    have hp : p.1 ∈ steps := hl p (List.mem_cons_self)
    have hl' : ∀ q ∈ l, q.1 ∈ steps := fun q hq => hl q (List.mem_cons_of_mem _ hq)
    have := ih hl' (applyStep t p.1 (fun _ => .supplied p.2) init)
    simp only [runSteps, List.foldl_cons] at this ⊢
    rw [this]
    simp only [lastFor]
    cases hlast : lastFor target f l with
    | some a => simp
    | none =>
      simp only
      rw [applyStep_of_frame h hp _ _ hf]
      by_cases hft : f = target p.1
      · simp [hft]
      · have : ¬ target p.1 = f := fun e => hft e.symm
        simp [hft, this]

omit [DecidableEq S] in
/-- `lastFor` in the more familiar form: the last element of the sub-list of steps for `f`. -/
theorem lastFor_eq_getLast? (target : S → F) (f : F) (l : List (S × α)) :
    lastFor target f l = ((l.filter (fun p => target p.1 = f)).getLast?).map Prod.snd := by
  induction l with
  | nil => simp [lastFor]
  | cons p l ih =>
    simp only [lastFor, ih, List.filter_cons]
    by_cases hp : target p.1 = f
    · simp only [hp, decide_true, if_true]
      cases hfl : List.filter (fun p => decide (target p.1 = f)) l with
      | nil => simp
      | cons q qs =>
        rw [List.getLast?_cons_cons]
        cases hq : (q :: qs).getLast? with
        | none => simp at hq
        | some v => simp
    · simp only [hp, decide_false, Bool.false_eq_true, if_false]
      generalize (List.filter (fun p => decide (target p.1 = f)) l).getLast? = o
      cases o <;> rfl

omit [DecidableEq S] in
/-- Swapping two adjacent steps with different targets does not change any `lastFor`. -/
theorem lastFor_perm (target : S → F) (f : F) {l₁ l₂ : List (S × α)} (hp : l₁.Perm l₂)
    (hnd : (l₁.map (fun p => target p.1)).Nodup) : lastFor target f l₁ = lastFor target f l₂ := by
  induction hp with
  | nil => rfl
  | cons x _ ih =>
    simp only [List.map_cons, List.nodup_cons] at hnd
    simp [lastFor, ih hnd.2]
  | swap x y l =>
    simp only [List.map_cons, List.nodup_cons, List.mem_cons, not_or] at hnd
    have hxy : target y.1 ≠ target x.1 := hnd.1.1
    simp only [lastFor]
    cases lastFor target f l with
    | some a => rfl
    | none =>
      by_cases hx : target x.1 = f <;> by_cases hy : target y.1 = f <;> simp [hx, hy]
      exact absurd (hy.trans hx.symm) hxy
  | trans h₁ _ ih₁ ih₂ =>
    have hnd₂ := ((h₁.map (fun p => target p.1)).nodup_iff).mp hnd
    exact (ih₁ hnd).trans (ih₂ hnd₂)

/-- **All permutations agree** (no two steps for the same component). -/
theorem runSteps_perm {fields : List F} {target : S → F} {steps : List S} {t : Table S F}
    (h : frameOk fields target steps t = true) {l₁ l₂ : List (S × α)} (hp : l₁.Perm l₂)
    (hl : ∀ p ∈ l₁, p.1 ∈ steps) (hnd : (l₁.map (fun p => target p.1)).Nodup)
    (init : F → CVal α) {f : F} (hf : f ∈ fields) :
    runSteps t init l₁ f = runSteps t init l₂ f := by
  have hl₂ : ∀ p ∈ l₂, p.1 ∈ steps := fun p hp₂ => hl p (hp.mem_iff.mpr hp₂)
  rw [runSteps_spec h l₁ hl init hf, runSteps_spec h l₂ hl₂ init hf, lastFor_perm target f hp hnd]

end CwMt.Route
