import CwMt.Proofs.Engine
import CwMt.Proofs.EngineB
/-
  CwMt.Proofs.EngineInv_Core — a generic induction principle over whole executions of the engine.

  A `StepInv` is a relation `R top ch new ch'` ("starting on `ch` with message sender `top`, the
  invocations `new` were recorded and the surviving state is `ch'`") that is closed under the
  engine's atomic steps, sequential composition, rollback (a failed sub-message's invocations stay in
  the trace but its state is dropped) and the hand-over of the sender role to an invoked contract.
  `gspecAt` shows, by the same single four-way induction on the fuel as `Engine.specAt`, that every
  successful run of `execute` / `processResponse` / `executeSubmsg` / `reply` is related by `R`.
-/
namespace CwMt.EngineInv
open CwMt CwMt.Engine
variable {E : Type}

structure StepInv (cfg : Config E) (blk : Block) where
  R : Addr → Chain E → Trace → Chain E → Prop
  trans : ∀ {top ch ch1 ch2 n1 n2}, R top ch n1 ch1 → R top ch1 n2 ch2 → R top ch (n1 ++ n2) ch2
  /-- rollback: what was recorded by a dropped sub-transaction only extends the trace -/
  skip : ∀ {top ch ch' n2} (n1 : Trace), R top ch n2 ch' → R top ch (n1 ++ n2) ch'
  refl : ∀ top ch, R top ch [] ch
  bank : ∀ {ch ch' s m r}, bankExecute ch s m = .ok (r, ch') → R s ch [] ch'
  ext : ∀ {k ch s p r ch'}, cfg.extExec k ch blk s p = .ok (r, ch') → R s ch [] ch'
  admin : ∀ {ch ch' s c a r}, updateAdmin cfg ch s c a = .ok (r, ch') → R s ch [] ch'
  funds : ∀ {ch ch' s c f}, sendFunds ch s c f = .ok ch' → R s ch [] ch'
  register : ∀ {ch ch' codeId s admin label created salt addr},
    registerContract cfg ch codeId s admin label created salt = .ok (addr, ch') → R s ch [] ch'
  migrate : ∀ {ch s c cd} (n : Nat), ch.contracts.get? c = some cd → cd.admin = some s →
    R s ch [] { ch with contracts := ch.contracts.set c { cd with codeId := n } }
  /-- an entry point of `addr` ran (only its own window changed), then `addr` acted as sender -/
  call : ∀ {top ch addr own' e n ch3}, e.callee = addr →
    R addr { ch with cstore := ch.cstore.set addr own' } n ch3 → R top ch (e :: n) ch3

section
variable {cfg : Config E} {blk : Block}

def GSpec (I : StepInv cfg blk) (top : Addr) (ch : Chain E) (tr : Trace) (res : EngineResult E) : Prop :=
  ∃ new, res.2 = tr ++ new ∧ ∀ r ch', res.1 = .ok (r, ch') → I.R top ch new ch'

variable {I : StepInv cfg blk}

theorem gspec_pure {top : Addr} {ch : Chain E} {tr : Trace} {o : Outcome (AppResponse × Chain E)}
    (h : ∀ r ch', o = .ok (r, ch') → I.R top ch [] ch') : GSpec I top ch tr (o, tr) :=
  ⟨[], by simp, h⟩

theorem gspec_fail {top : Addr} {ch : Chain E} {tr : Trace} {o : Outcome (AppResponse × Chain E)}
    (h : ∀ r ch', o ≠ .ok (r, ch')) : GSpec I top ch tr (o, tr) :=
  gspec_pure (fun r ch' ho => absurd ho (h r ch'))

theorem gspec_seq {top : Addr} {ch ch1 : Chain E} {tr tr1 : Trace} {o1 : Outcome (AppResponse × Chain E)}
    {res : EngineResult E}
    (h1 : GSpec I top ch tr (o1, tr1))
    (hch : ch1 = ch ∨ ∃ r, o1 = .ok (r, ch1))
    (h2 : GSpec I top ch1 tr1 res) : GSpec I top ch tr res := by
  obtain ⟨n1, e1, p1⟩ := h1
  obtain ⟨n2, e2, p2⟩ := h2
  simp only at e1 p1
  refine ⟨n1 ++ n2, by rw [e2, e1, List.append_assoc], ?_⟩
  intro r ch' ho
  rcases hch with h | ⟨r1, h⟩
  · subst h; exact I.skip n1 (p2 r ch' ho)
  · exact I.trans (p1 r1 ch1 h) (p2 r ch' ho)

theorem gspec_weaken {top : Addr} {ch : Chain E} {tr tr' : Trace} {o o' : Outcome (AppResponse × Chain E)}
    (h : GSpec I top ch tr (o, tr'))
    (ho : ∀ r ch', o' = .ok (r, ch') → ∃ r0, o = .ok (r0, ch')) :
    GSpec I top ch tr (o', tr') := by
  obtain ⟨n, e, p⟩ := h
  refine ⟨n, e, ?_⟩
  intro r ch' h'
  obtain ⟨r0, h0⟩ := ho r ch' h'
  exact p r0 ch' h0

theorem gspec_mapResp {top : Addr} {ch : Chain E} {tr : Trace} (f : AppResponse → AppResponse)
    {x : EngineResult E} (h : GSpec I top ch tr x) : GSpec I top ch tr (mapResp f x) := by
  obtain ⟨o, t⟩ := x
  cases o with
  | ok p =>
    obtain ⟨r, c⟩ := p
    refine gspec_weaken h ?_
    intro r' ch' h'
    simp only [Outcome.ok.injEq, Prod.mk.injEq] at h'
    exact ⟨r, by rw [h'.2]⟩
  | err => exact h
  | panic => exact h
  | outOfFuel => exact h

/-- a trace-silent step before the run -/
theorem gspec_pre {top : Addr} {ch ch1 : Chain E} {tr : Trace} {res : EngineResult E}
    (hR : I.R top ch [] ch1) (h : GSpec I top ch1 tr res) : GSpec I top ch tr res := by
  obtain ⟨n, e, p⟩ := h
  refine ⟨n, e, ?_⟩
  intro r ch' h'
  have := I.trans hR (p r ch' h')
  simpa using this

theorem gspec_callThen {fuel : Nat}
    (hP : ∀ ch c r l tr, GSpec I c ch tr (processResponse cfg blk fuel ch c r l tr))
    (top : Addr) (ch : Chain E) (addr : Addr) (en : Entry) (custom : Event) (tr : Trace) :
    GSpec I top ch tr (callThen cfg blk fuel ch addr en custom tr) := by
  unfold callThen
  rcases callContract_cases cfg blk ch addr en tr with h1 | ⟨note, o, h1, h2⟩
  · rw [h1]
    exact gspec_fail (by intro _ _ h; cases h)
  · rw [h1]
    cases o with
    | ok p =>
      obtain ⟨resp, ch2⟩ := p
      simp only []
      obtain ⟨n2, e2, p2⟩ := hP ch2 addr (buildAppResponse addr custom resp).1
        (buildAppResponse addr custom resp).2 (tr ++ [⟨addr, en, contractEnv blk addr, note⟩])
      refine ⟨⟨addr, en, contractEnv blk addr, note⟩ :: n2, by rw [e2]; simp, ?_⟩
      intro r ch' ho
      obtain ⟨own', rfl⟩ := h2 resp ch2 rfl
      exact I.call rfl (p2 r ch' ho)
    | err => exact ⟨[_], rfl, by intro _ _ h; cases h⟩
    | panic => exact ⟨[_], rfl, by intro _ _ h; cases h⟩
    | outOfFuel => exact ⟨[_], rfl, by intro _ _ h; cases h⟩

/-- One step of `execute`: either no contract is called and the result (independent of the fuel)
is one atomic step, or trace-silent steps lead to a state on which an entry point is called and its
response processed. -/
theorem execute_shapeR (I : StepInv cfg blk) (ch : Chain E) (s : Addr) (m : Msg) (tr : Trace) :
    (∃ o, (∀ fuel, execute cfg blk (fuel + 1) ch s m tr = (o, tr)) ∧
        (∀ r ch', o = .ok (r, ch') → I.R s ch [] ch')) ∨
    (∃ f ch1 addr en custom,
        (∀ fuel, execute cfg blk (fuel + 1) ch s m tr =
          mapResp f (callThen cfg blk fuel ch1 addr en custom tr)) ∧ I.R s ch [] ch1) := by
  have early : ∀ (o : Outcome (AppResponse × Chain E)), (∀ r ch', o ≠ .ok (r, ch')) →
      (∀ r ch', o = .ok (r, ch') → I.R s ch [] ch') :=
    fun o h r ch' h' => absurd h' (h r ch')
  cases m with
  | bankSend to a =>
    exact Or.inl ⟨_, fun fuel => execute_succ_bankSend cfg blk fuel ch s to a tr,
      fun r ch' h => I.bank h⟩
  | bankBurn a =>
    exact Or.inl ⟨_, fun fuel => execute_succ_bankBurn cfg blk fuel ch s a tr,
      fun r ch' h => I.bank h⟩
  | ext k p =>
    exact Or.inl ⟨_, fun fuel => execute_succ_ext cfg blk fuel ch s k p tr,
      fun r ch' h => I.ext h⟩
  | wasmUpdateAdmin c a =>
    exact Or.inl ⟨_, fun fuel => execute_succ_updateAdmin cfg blk fuel ch s c a tr,
      fun r ch' h => I.admin h⟩
  | wasmClearAdmin c =>
    exact Or.inl ⟨_, fun fuel => execute_succ_clearAdmin cfg blk fuel ch s c tr,
      fun r ch' h => I.admin h⟩
  | wasmExecute c msg funds =>
    by_cases hv : (!cfg.validAddr c) = true
    · exact Or.inl ⟨.err, fun fuel => by rw [execute_succ_wasmExecute, if_pos hv],
        early _ (by intro _ _ h; cases h)⟩
    · cases hs : sendFunds ch s c funds with
      | ok ch1 =>
        refine Or.inr ⟨fun r => { r with data := r.data.map encodeExecuteResponse }, ch1, c,
          .execute ⟨s, funds⟩ msg, { ty := "execute", attrs := [contractAttr c] }, fun fuel => ?_,
          I.funds hs⟩
        rw [execute_succ_wasmExecute, if_neg hv, hs]
      | err =>
        exact Or.inl ⟨.err, fun fuel => by rw [execute_succ_wasmExecute, if_neg hv, hs],
          early _ (by intro _ _ h; cases h)⟩
      | panic =>
        exact Or.inl ⟨.panic, fun fuel => by rw [execute_succ_wasmExecute, if_neg hv, hs],
          early _ (by intro _ _ h; cases h)⟩
      | outOfFuel =>
        exact Or.inl ⟨.outOfFuel, fun fuel => by rw [execute_succ_wasmExecute, if_neg hv, hs],
          early _ (by intro _ _ h; cases h)⟩
  | wasmInstantiate admin codeId msg funds label salt =>
    by_cases hl : label.isEmpty = true
    · exact Or.inl ⟨.err, fun fuel => by rw [execute_succ_wasmInstantiate, if_pos hl],
        early _ (by intro _ _ h; cases h)⟩
    · cases hr : registerContract cfg ch codeId s admin label blk.height salt with
      | ok p =>
        obtain ⟨addr, ch0⟩ := p
        cases hs : sendFunds ch0 s addr funds with
        | ok ch1 =>
          refine Or.inr ⟨fun r => { r with data := some (encodeInstantiateResponse addr (r.data.getD [])) },
            ch1, addr, .instantiate ⟨s, funds⟩ msg,
            { ty := "instantiate", attrs := [contractAttr addr, ⟨"code_id", toString codeId⟩] },
            fun fuel => ?_, ?_⟩
          · rw [execute_succ_wasmInstantiate, if_neg hl, hr]; simp only [hs]
          · have := I.trans (I.register hr) (I.funds hs)
            simpa using this
        | err =>
          exact Or.inl ⟨.err, fun fuel => by
            rw [execute_succ_wasmInstantiate, if_neg hl, hr]; simp only [hs],
            early _ (by intro _ _ h; cases h)⟩
        | panic =>
          exact Or.inl ⟨.panic, fun fuel => by
            rw [execute_succ_wasmInstantiate, if_neg hl, hr]; simp only [hs],
            early _ (by intro _ _ h; cases h)⟩
        | outOfFuel =>
          exact Or.inl ⟨.outOfFuel, fun fuel => by
            rw [execute_succ_wasmInstantiate, if_neg hl, hr]; simp only [hs],
            early _ (by intro _ _ h; cases h)⟩
      | err =>
        exact Or.inl ⟨.err, fun fuel => by rw [execute_succ_wasmInstantiate, if_neg hl, hr],
          early _ (by intro _ _ h; cases h)⟩
      | panic =>
        exact Or.inl ⟨.panic, fun fuel => by rw [execute_succ_wasmInstantiate, if_neg hl, hr],
          early _ (by intro _ _ h; cases h)⟩
      | outOfFuel =>
        exact Or.inl ⟨.outOfFuel, fun fuel => by rw [execute_succ_wasmInstantiate, if_neg hl, hr],
          early _ (by intro _ _ h; cases h)⟩
  | wasmMigrate c newCodeId msg =>
    by_cases hv : (!cfg.validAddr c) = true
    · exact Or.inl ⟨.err, fun fuel => by rw [execute_succ_wasmMigrate, if_pos hv],
        early _ (by intro _ _ h; cases h)⟩
    by_cases hk : (!codeKnown cfg newCodeId) = true
    · exact Or.inl ⟨.err, fun fuel => by rw [execute_succ_wasmMigrate, if_neg hv, if_pos hk],
        early _ (by intro _ _ h; cases h)⟩
    cases hg : ch.contracts.get? c with
    | none =>
      exact Or.inl ⟨.err, fun fuel => by rw [execute_succ_wasmMigrate, if_neg hv, if_neg hk, hg],
        early _ (by intro _ _ h; cases h)⟩
    | some cd =>
      by_cases ha : cd.admin ≠ some s
      · exact Or.inl ⟨.err, fun fuel => by
          rw [execute_succ_wasmMigrate, if_neg hv, if_neg hk, hg]; simp only [if_pos ha],
          early _ (by intro _ _ h; cases h)⟩
      · refine Or.inr ⟨fun r => { r with data := r.data.map encodeExecuteResponse },
          { ch with contracts := ch.contracts.set c { cd with codeId := newCodeId } }, c, .migrate msg,
          { ty := "migrate", attrs := [contractAttr c, ⟨"code_id", toString newCodeId⟩] },
          fun fuel => ?_, I.migrate newCodeId hg (Classical.not_not.mp ha)⟩
        rw [execute_succ_wasmMigrate, if_neg hv, if_neg hk, hg]; simp only [if_neg ha]

end

def GSpecAt {cfg : Config E} {blk : Block} (I : StepInv cfg blk) (fuel : Nat) : Prop :=
  (∀ ch s m tr, GSpec I s ch tr (execute cfg blk fuel ch s m tr)) ∧
  (∀ ch c r l tr, GSpec I c ch tr (processResponse cfg blk fuel ch c r l tr)) ∧
  (∀ ch c sm tr, GSpec I c ch tr (executeSubmsg cfg blk fuel ch c sm tr)) ∧
  (∀ ch c rp tr, GSpec I c ch tr (reply cfg blk fuel ch c rp tr))

theorem gspecAt {cfg : Config E} {blk : Block} (I : StepInv cfg blk) (fuel : Nat) : GSpecAt I fuel := by
  induction fuel with
  | zero =>
    refine ⟨?_, ?_, ?_, ?_⟩
    · intro ch s m tr; rw [execute_zero]; exact gspec_fail (by intro _ _ h; cases h)
    · intro ch c r l tr; rw [processResponse_zero]; exact gspec_fail (by intro _ _ h; cases h)
    · intro ch c sm tr; rw [executeSubmsg_zero]; exact gspec_fail (by intro _ _ h; cases h)
    · intro ch c rp tr; rw [reply_zero]; exact gspec_fail (by intro _ _ h; cases h)
  | succ fuel ih =>
    obtain ⟨ihE, ihP, ihS, ihR⟩ := ih
    refine ⟨?_, ?_, ?_, ?_⟩
    · intro ch s m tr
      rcases execute_shapeR I ch s m tr with ⟨o, ho, hfr⟩ | ⟨f, ch1, addr, en, custom, hf, hc⟩
      · rw [ho fuel]; exact gspec_pure hfr
      · rw [hf fuel]
        exact gspec_pre hc (gspec_mapResp f (gspec_callThen ihP s ch1 addr en custom tr))
    · intro ch c r l tr
      cases l with
      | nil =>
        rw [processResponse_succ_nil]
        exact gspec_pure (by
          intro _ _ h
          simp only [Outcome.ok.injEq, Prod.mk.injEq] at h
          rw [← h.2]; exact I.refl c ch)
      | cons sm rest =>
        rw [processResponse_succ_cons]
        have hs := ihS ch c sm tr
        rcases hx : executeSubmsg cfg blk fuel ch c sm tr with ⟨o, t⟩
        rw [hx] at hs
        cases o with
        | ok p =>
          obtain ⟨sr, ch1⟩ := p
          exact gspec_seq hs (Or.inr ⟨sr, rfl⟩) (ihP _ _ _ _ _)
        | err => exact hs
        | panic => exact hs
        | outOfFuel => exact hs
    · intro ch c sm tr
      rw [executeSubmsg_succ]
      have he := ihE ch c sm.msg tr
      rcases hx : execute cfg blk fuel ch c sm.msg tr with ⟨o, t⟩
      rw [hx] at he
      cases o with
      | ok p =>
        obtain ⟨r, ch1⟩ := p
        simp only []
        split
        · have hr := ihR ch1 c ⟨sm.id, sm.payload, .ok r.events r.data⟩ t
          rcases hy : reply cfg blk fuel ch1 c ⟨sm.id, sm.payload, .ok r.events r.data⟩ t with ⟨o2, t2⟩
          rw [hy] at hr
          have hseq := gspec_seq he (Or.inr ⟨r, rfl⟩) hr
          cases o2 with
          | ok p2 =>
            obtain ⟨rr, ch2⟩ := p2
            refine gspec_weaken hseq ?_
            intro r' ch' h'
            simp only [Outcome.ok.injEq, Prod.mk.injEq] at h'
            exact ⟨rr, by rw [h'.2]⟩
          | err => exact hseq
          | panic => exact hseq
          | outOfFuel => exact hseq
        · refine gspec_weaken he ?_
          intro r' ch' h'
          simp only [Outcome.ok.injEq, Prod.mk.injEq] at h'
          exact ⟨r, by rw [h'.2]⟩
      | err =>
        simp only []
        split
        · exact gspec_seq he (Or.inl rfl) (ihR _ _ _ _)
        · exact he
      | panic => exact he
      | outOfFuel => exact he
    · intro ch c rp tr
      rw [reply_succ]
      exact gspec_callThen ihP c ch c (.reply rp) _ tr

/-- the form used by the instances: a successful `execute` is related by `R` -/
theorem execute_related {cfg : Config E} {blk : Block} (I : StepInv cfg blk) {fuel : Nat}
    {ch ch' : Chain E} {s : Addr} {m : Msg} {tr tr' : Trace} {r : AppResponse}
    (h : execute cfg blk fuel ch s m tr = (.ok (r, ch'), tr')) :
    ∃ new, tr' = tr ++ new ∧ I.R s ch new ch' := by
  obtain ⟨new, e, p⟩ := (gspecAt I fuel).1 ch s m tr
  rw [h] at e p
  exact ⟨new, e, p r ch' rfl⟩

end CwMt.EngineInv
