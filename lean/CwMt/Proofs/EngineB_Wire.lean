import CwMt.Model.EngineSpec
/-
  CwMt.Proofs.EngineB_Wire — varint / protobuf round trips (C04) and the instance interleaving
  theorem (C19).
-/
namespace CwMt.EngineB
open CwMt

/-! ### varint -/

theorem unvarintAux_varintAux (fuel : Nat) : ∀ (n shift acc : Nat) (rest : List UInt8), n < 128 ^ (fuel + 1) →
    unvarintAux (fuel + 1) (varintAux (fuel + 1) n ++ rest) shift acc = some (acc + n * 2 ^ shift, rest) := by
  have small : ∀ (f n shift acc : Nat) (rest : List UInt8), n < 128 →
      unvarintAux (f + 1) (varintAux (f + 1) n ++ rest) shift acc = some (acc + n * 2 ^ shift, rest) := by
    intro f n shift acc rest hn
    unfold varintAux
    have h1 : (UInt8.ofNat n).toNat = n := by
      rw [UInt8.toNat_ofNat']; omega
    simp only [hn, if_true, List.cons_append, List.nil_append, unvarintAux, h1]
    have : n % 128 = n := Nat.mod_eq_of_lt hn
    simp [this]
  induction fuel with
  | zero => intro n shift acc rest h; exact small 0 n shift acc rest (by simpa using h)
  | succ fuel ih =>
    intro n shift acc rest h
    by_cases hn : n < 128
    · exact small _ n shift acc rest hn
    · unfold varintAux
      have h1 : (UInt8.ofNat (n % 128 + 128)).toNat = n % 128 + 128 := by
        rw [UInt8.toNat_ofNat']; omega
      have h2 : ¬ (n % 128 + 128 < 128) := by omega
      have h3 : (n % 128 + 128) % 128 = n % 128 := by omega
      have h4 : n / 128 < 128 ^ (fuel + 1) := by
        apply Nat.div_lt_of_lt_mul
        rw [Nat.pow_succ] at h; omega
      simp only [hn, if_false, List.cons_append, unvarintAux, h1, h2, h3]
      rw [ih (n / 128) (shift + 7) _ rest h4]
      have h5 : n % 128 * 2 ^ shift + n / 128 * 2 ^ (shift + 7) = n * 2 ^ shift := by
        have h6 : 2 ^ (shift + 7) = 128 * 2 ^ shift := by rw [Nat.pow_add]; omega
        rw [h6]
        have h7 := Nat.div_add_mod n 128
        calc n % 128 * 2 ^ shift + n / 128 * (128 * 2 ^ shift)
            = (128 * (n / 128) + n % 128) * 2 ^ shift := by
              rw [Nat.add_mul, Nat.add_comm, Nat.mul_comm 128 (n / 128), Nat.mul_assoc]
          _ = n * 2 ^ shift := by rw [h7]
      simp only [Nat.add_assoc, h5]

theorem varint_roundtrip (n : Nat) (rest : List UInt8) (h : n < 128 ^ 10) :
    unvarint (varint n ++ rest) = some (n, rest) := by
  unfold unvarint varint
  rw [unvarintAux_varintAux 9 n 0 0 rest h]
  simp

/-- reading back a length-delimited field -/
theorem takeField_lenField (tag : UInt8) (bs rest : List UInt8) (h : bs.length < 128 ^ 10)
    (hr : bs ≠ [] ∨ rest.head? ≠ some tag) :
    takeField tag (lenField tag bs ++ rest) = some (bs, rest) := by
  unfold lenField
  cases bs with
  | nil =>
    simp only [List.isEmpty_nil, if_true, List.nil_append]
    cases rest with
    | nil => rfl
    | cons t rest' =>
      have : t ≠ tag := by
        rcases hr with hr | hr
        · exact absurd rfl hr
        · intro ht; apply hr; simp [ht]
      simp [takeField, this]
  | cons b bs' =>
    simp only [List.isEmpty_cons, Bool.false_eq_true, if_false, List.cons_append, takeField, if_true,
      List.append_assoc]
    rw [varint_roundtrip _ _ h]
    simp

theorem execute_response_roundtrip (d : List UInt8) (h : d.length < 128 ^ 10) :
    decodeExecuteResponse (encodeExecuteResponse d) = some d := by
  unfold decodeExecuteResponse encodeExecuteResponse
  have := takeField_lenField 0x0a d [] h (by simp)
  rw [List.append_nil] at this
  rw [this]

theorem instantiate_response_roundtrip (addr : String) (d : List UInt8)
    (ha : addr.toUTF8.toList.length < 128 ^ 10) (hd : d.length < 128 ^ 10) :
    decodeInstantiateResponse (encodeInstantiateResponse addr d) = some (addr.toUTF8.toList, d) := by
  unfold decodeInstantiateResponse encodeInstantiateResponse
  have h2 : takeField 0x12 (lenField 0x12 d) = some (d, []) := by
    have := takeField_lenField 0x12 d [] hd (by simp)
    rwa [List.append_nil] at this
  have h1 : takeField 0x0a (lenField 0x0a addr.toUTF8.toList ++ lenField 0x12 d) =
      some (addr.toUTF8.toList, lenField 0x12 d) := by
    apply takeField_lenField _ _ _ ha
    by_cases hd0 : d = []
    · subst hd0; right; simp [lenField]
    · right
      cases d with
      | nil => exact absurd rfl hd0
      | cons x xs => simp [lenField]
  rw [h1]
  simp only [h2]

/-! ### C19 -/

section Inter
variable {σ ι ο : Type}

/-- `C19.stepTwo` (not recursive, so the two constants are identified by unfolding) -/
def stepTwo (step : σ → ι → σ × ο) (s : σ × σ) (op : Bool × ι) : (σ × σ) × ο :=
  if op.1 then let (a, o) := step s.1 op.2; ((a, s.2), o) else let (b, o) := step s.2 op.2; ((s.1, b), o)

/-- The C19 vocabulary (`runOne`, `runTwo`) is defined in the Props file, so the lemma is stated for
any pair of functions satisfying the defining equations of `C19.runOne` / `C19.runTwo`; the equations
are discharged by `rfl` at the use site. -/
theorem interleaving
    {runOne : (σ → ι → σ × ο) → σ → List ι → σ × List ο}
    {runTwo : (σ → ι → σ × ο) → σ × σ → List (Bool × ι) → (σ × σ) × List (Bool × ο)}
    (step : σ → ι → σ × ο) (s : σ × σ) (ops : List (Bool × ι))
    (h1n : ∀ s, runOne step s [] = (s, []) := by intros; rfl)
    (h1c : ∀ s i is, runOne step s (i :: is) =
      ((runOne step (step s i).1 is).1, (step s i).2 :: (runOne step (step s i).1 is).2) := by intros; rfl)
    (h2n : ∀ s, runTwo step s [] = (s, []) := by intros; rfl)
    (h2c : ∀ (s : σ × σ) (op : Bool × ι) ops, runTwo step s (op :: ops) =
      ((runTwo step (stepTwo step s op).1 ops).1,
       (op.1, (stepTwo step s op).2) :: (runTwo step (stepTwo step s op).1 ops).2) := by
        intros; rfl) :
    let own (b : Bool) := (ops.filter (·.1 == b)).map (·.2)
    (runTwo step s ops).1.1 = (runOne step s.1 (own true)).1 ∧
    (runTwo step s ops).1.2 = (runOne step s.2 (own false)).1 ∧
    ((runTwo step s ops).2.filter (·.1 == true)).map (·.2) = (runOne step s.1 (own true)).2 ∧
    ((runTwo step s ops).2.filter (·.1 == false)).map (·.2) = (runOne step s.2 (own false)).2 := by
  intro own
  induction ops generalizing s with
  | nil => simp [own, h1n, h2n]
  | cons op ops ih =>
    obtain ⟨b, i⟩ := op
    obtain ⟨s1, s2⟩ := s
    cases b
    · have := ih (s1, (step s2 i).1)
      simp only [own] at this ⊢
      simp [h2c, h1c, stepTwo] at this ⊢
      simp [this]
    · have := ih ((step s1 i).1, s2)
      simp only [own] at this ⊢
      simp [h2c, h1c, stepTwo] at this ⊢
      simp [this]

end Inter

end CwMt.EngineB
