import CwMt.Model.EngineSpec
/-
  CwMt.Proofs.EngineB_Validate — `verify_attributes` / `verify_response` (C13).
-/
namespace CwMt.EngineB
open CwMt

theorem of_mem_takeWhile {α : Type} (p : α → Bool) (l : List α) : ∀ c ∈ l.takeWhile p, p c = true := by
  induction l with
  | nil => simp
  | cons x l ih =>
    intro c hc
    by_cases hx : p x = true
    · rw [List.takeWhile_cons_of_pos hx] at hc
      rcases List.mem_cons.mp hc with rfl | hc
      · exact hx
      · exact ih c hc
    · rw [List.takeWhile_cons_of_neg hx] at hc
      exact absurd hc (by simp)

theorem head?_dropWhile_false {α : Type} (p : α → Bool) (l : List α) (c : α)
    (h : (l.dropWhile p).head? = some c) : p c = false := by
  have := List.head?_dropWhile_not p l
  rw [h] at this
  exact this

theorem trim_spec (cs : List Char) :
    ∃ pre post, cs = pre ++ trimChars cs ++ post ∧ (∀ c ∈ pre, isWhite c = true) ∧ (∀ c ∈ post, isWhite c = true) ∧
      (∀ c, (trimChars cs).head? = some c → isWhite c = false) ∧
      (∀ c, (trimChars cs).getLast? = some c → isWhite c = false) := by
  have hd : cs.dropWhile isWhite =
      trimChars cs ++ ((cs.dropWhile isWhite).reverse.takeWhile isWhite).reverse := by
    have h := @List.takeWhile_append_dropWhile _ isWhite (cs.dropWhile isWhite).reverse
    have h2 := congrArg List.reverse h
    rw [List.reverse_append, List.reverse_reverse] at h2
    exact h2.symm
  refine ⟨cs.takeWhile isWhite, ((cs.dropWhile isWhite).reverse.takeWhile isWhite).reverse, ?_, ?_, ?_, ?_, ?_⟩
  · rw [List.append_assoc, ← hd, List.takeWhile_append_dropWhile]
  · exact of_mem_takeWhile _ _
  · intro c hc
    rw [List.mem_reverse] at hc
    exact of_mem_takeWhile _ _ c hc
  · intro c hc
    apply head?_dropWhile_false isWhite cs c
    rw [hd, List.head?_append, hc]
    rfl
  · intro c hc
    unfold trimChars at hc
    rw [List.getLast?_reverse] at hc
    exact head?_dropWhile_false isWhite _ c hc

theorem attrOk_iff (a : Attr) : attrOk a = true ↔ KeyOK a.key := by
  unfold attrOk KeyOK
  simp only [Bool.and_eq_true, Bool.not_eq_true', ne_eq]
  constructor
  · rintro ⟨h1, h2⟩
    refine ⟨fun h => ?_, h2⟩
    have := String.isEmpty_iff.mpr h
    rw [this] at h1
    exact absurd h1 (by simp)
  · rintro ⟨h1, h2⟩
    refine ⟨?_, h2⟩
    cases hE : (rtrim a.key).isEmpty with
    | false => rfl
    | true => exact absurd (String.isEmpty_iff.mp hE) h1

theorem verify_iff (r : Response) :
    responseOk r = true ↔
      ((∀ a ∈ r.attrs, KeyOK a.key) ∧
       ∀ e ∈ r.events, (∀ a ∈ e.attrs, KeyOK a.key) ∧ 2 ≤ (rtrim e.ty).utf8ByteSize) := by
  unfold responseOk eventOk
  simp only [Bool.and_eq_true, List.all_eq_true, attrOk_iff, decide_eq_true_eq]

theorem attrOk_value (a : Attr) (v : String) : attrOk { a with value := v } = attrOk a := rfl

theorem values_never_matter (r : Response) (f : String → String) :
    responseOk { r with attrs := r.attrs.map fun a => { a with value := f a.value },
                        events := r.events.map fun e => { e with attrs := e.attrs.map fun a => { a with value := f a.value } } }
      = responseOk r := by
  have h1 : (attrOk ∘ fun a : Attr => ({ a with value := f a.value } : Attr)) = attrOk := by
    funext a; rfl
  have h2 : ∀ l : List Attr, (l.map fun a => ({ a with value := f a.value } : Attr)).all attrOk = l.all attrOk := by
    intro l; rw [List.all_map, h1]
  have h3 : (eventOk ∘ fun e : Event =>
      ({ e with attrs := e.attrs.map fun a => ({ a with value := f a.value } : Attr) } : Event)) = eventOk := by
    funext e
    simp only [Function.comp, eventOk, h2]
  unfold responseOk
  simp only [List.all_map, h1, h3]

end CwMt.EngineB
