import CwMt.Gen.Impure
/- The scan of the current sources for ambient state (checklib/scan_impure.py) found nothing. -/
namespace CwMt.Impure

theorem findings_nil : Gen.Impure.findings = [] := by decide

end CwMt.Impure
