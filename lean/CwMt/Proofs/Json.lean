import CwMt.Model.Json
import CwMt.Proofs.Layout
import Std.Data.String.ToNat
/- parse ∘ print = id for the JSON text of the bank's and the wasm module's records (CwMt/Model/Json.lean). -/
namespace CwMt.Json

theorem unhex_hex : ∀ n : Fin 16, unhexUpper (hexUpper n.val) = some n.val := by decide

theorem expect_append (p r : List Char) : expect p (p ++ r) = some r := by
  induction p with
  | nil => cases r <;> rfl
  | cons a p ih => simp [expect, ih]

/-! ### strings -/

theorem parseStrBody_plain (c : Char) (rest : List Char) (h1 : c ≠ '"') (h2 : c ≠ '\\') :
    parseStrBody (c :: rest) = (parseStrBody rest).map fun p => (c :: p.1, p.2) := by
  conv => lhs; unfold parseStrBody
  split <;> simp_all

theorem parseStrBody_u (tail : List Char) (h l : Char) (a b : Nat) (ha : unhexUpper h = some a) (hb : unhexUpper l = some b) :
    parseStrBody (['\\', 'u', '0', '0', h, l] ++ tail) =
      (parseStrBody tail).map fun p => (Char.ofNat (16 * a + b) :: p.1, p.2) := by
  conv => lhs; unfold parseStrBody
  simp [ha, hb]

/-- one escaped character reads back as that character -/
theorem parseStrBody_escapeChar (c : Char) (tail : List Char) :
    parseStrBody (escapeChar c ++ tail) = (parseStrBody tail).map fun p => (c :: p.1, p.2) := by
  unfold escapeChar
  split
  · next h => subst h; conv => lhs; unfold parseStrBody
              rfl
  split
  · next h => subst h; conv => lhs; unfold parseStrBody
              rfl
  split
  · next h => subst h; conv => lhs; unfold parseStrBody
              rfl
  split
  · next h => subst h; conv => lhs; unfold parseStrBody
              rfl
  split
  · next h => subst h; conv => lhs; unfold parseStrBody
              rfl
  split
  · next h => subst h; conv => lhs; unfold parseStrBody
              rfl
  split
  · next h => subst h; conv => lhs; unfold parseStrBody
              rfl
  split
  · next h1 h2 _ _ _ _ _ hlt =>
    have hd : c.toNat / 16 < 16 := by omega
    have hm : c.toNat % 16 < 16 := by omega
    rw [parseStrBody_u tail _ _ (c.toNat / 16) (c.toNat % 16) (unhex_hex ⟨_, hd⟩) (unhex_hex ⟨_, hm⟩)]
    have : 16 * (c.toNat / 16) + c.toNat % 16 = c.toNat := by omega
    rw [this, Char.ofNat_toNat]
  · next h1 h2 _ _ _ _ _ _ =>
    exact parseStrBody_plain c tail h2 h1

theorem parseStrBody_escape (s rest : List Char) : parseStrBody (escape s ++ '"' :: rest) = some (s, rest) := by
  induction s with
  | nil => simp [escape, parseStrBody]
  | cons c s ih =>
    simp only [escape, List.append_assoc]
    rw [parseStrBody_escapeChar, ih]
    rfl

theorem parseStr_str (s rest : List Char) : parseStr (str s ++ rest) = some (s, rest) := by
  simp only [str, List.cons_append, List.append_assoc, parseStr]
  exact parseStrBody_escape s rest

/-! ### numbers -/

theorem span_digits (ds rest : List Char) (hd : ∀ c ∈ ds, c.isDigit = true)
    (hr : ∀ c, rest.head? = some c → c.isDigit = false) :
    (ds ++ rest).takeWhile Char.isDigit = ds ∧ (ds ++ rest).dropWhile Char.isDigit = rest := by
  induction ds with
  | nil =>
    cases rest with
    | nil => simp
    | cons c r => simp [hr c rfl]
  | cons d ds ih =>
    have h1 : d.isDigit = true := hd d (by simp)
    have := ih (fun c hc => hd c (by simp [hc]))
    simp [h1, this]

theorem parseNat_nat (n : Nat) (rest : List Char) (hr : ∀ c, rest.head? = some c → c.isDigit = false) :
    parseNat (nat n ++ rest) = some (n, rest) := by
  have hd : ∀ c ∈ Nat.toDigits 10 n, c.isDigit = true :=
    fun c hc => Nat.isDigit_of_mem_toDigits (by omega) (by omega) hc
  obtain ⟨h1, h2⟩ := span_digits (Nat.toDigits 10 n) rest hd hr
  unfold parseNat nat
  simp only [h1, h2]
  have hne : (Nat.toDigits 10 n).isEmpty = false := by
    cases h : Nat.toDigits 10 n with
    | nil => exact absurd h Nat.toDigits_ne_nil
    | cons _ _ => rfl
  simp [hne, Nat.ofDigitChars_toDigits]

/-! ### records -/

theorem parseCoin_coin (c : Coin) (rest : List Char) : parseCoin (coin c ++ rest) = some (c, rest) := by
  unfold parseCoin coin
  simp only [List.append_assoc, expect_append, parseStr_str, Option.bind_eq_bind, Option.bind_some]
  rw [parseNat_nat c.amount _ (by intro ch h; simp at h; subst h; decide)]
  simp only [Option.bind_some, expect_append, String.ofList_toList]
  rfl

theorem parseCoinsTail_seq (cs : Coins) (rest : List Char) (fuel : Nat) (hf : cs.length < fuel) :
    parseCoinsTail fuel ((cs.map fun c => ',' :: coin c).flatten ++ ']' :: rest) = some (cs, rest) := by
  induction cs generalizing fuel with
  | nil =>
    cases fuel with
    | zero => omega
    | succ f => simp [parseCoinsTail]
  | cons c cs ih =>
    cases fuel with
    | zero => omega
    | succ f =>
      simp only [List.map_cons, List.flatten_cons, List.cons_append, List.append_assoc, parseCoinsTail]
      rw [parseCoin_coin]
      simp only [Option.bind_eq_bind, Option.bind_some]
      rw [ih f (by simp at hf; omega)]
      rfl

/-- `seq coin (c :: cs)` is the first element followed by `,element` for the others -/
theorem seq_cons (c : Coin) (cs : Coins) : seq coin (c :: cs) = coin c ++ (cs.map fun c => ',' :: coin c).flatten := by
  induction cs generalizing c with
  | nil => simp [seq]
  | cons d ds ih => simp [seq, ih d]

theorem length_le_flatten (cs : Coins) : cs.length ≤ ((cs.map fun c => ',' :: coin c).flatten).length := by
  induction cs with
  | nil => simp
  | cons c cs ih => simp only [List.map_cons, List.flatten_cons, List.length_append, List.length_cons]; omega

theorem coin_head (c : Coin) : ∃ t, coin c = '{' :: t := ⟨_, rfl⟩

theorem parseBalances_balances (cs : Coins) (rest : List Char) : parseBalances (balances cs ++ rest) = some (cs, rest) := by
  cases cs with
  | nil => simp [balances, seq, parseBalances]
  | cons c cs =>
    obtain ⟨t, ht⟩ := coin_head c
    simp only [balances, seq_cons, List.cons_append, List.append_assoc]
    have hshape : coin c ++ ((List.map (fun c => ',' :: coin c) cs).flatten ++ (']' :: rest)) =
        '{' :: (t ++ ((List.map (fun c => ',' :: coin c) cs).flatten ++ (']' :: rest))) := by rw [ht]; rfl
    have hparse : parseBalances ('[' :: '{' :: (t ++ ((List.map (fun c => ',' :: coin c) cs).flatten ++ (']' :: rest)))) =
        (do let (c, r) ← parseCoin ('{' :: (t ++ ((List.map (fun c => ',' :: coin c) cs).flatten ++ (']' :: rest))))
            let (l, r) ← parseCoinsTail (r.length + 1) r
            pure (c :: l, r)) := by
      simp [parseBalances]
    simp only [List.nil_append]
    rw [hshape, hparse, ← hshape, parseCoin_coin]
    simp only [Option.bind_eq_bind, Option.bind_some]
    rw [parseCoinsTail_seq cs rest _ (by have := length_le_flatten cs; simp only [List.length_append, List.length_cons]; omega)]
    rfl

theorem parseOptStr_optStr (o : Option String) (rest : List Char) : parseOptStr (optStr o ++ rest) = some (o, rest) := by
  cases o with
  | none => simp [optStr, parseOptStr]
  | some s =>
    simp only [optStr]
    unfold parseOptStr
    split
    · next h => simp [str] at h
    · rw [parseStr_str]; simp

theorem parseContract_contract (cd : ContractData) (rest : List Char) :
    parseContract (contract cd ++ rest) = some (cd, rest) := by
  unfold parseContract contract
  simp only [List.append_assoc, expect_append, Option.bind_eq_bind, Option.bind_some]
  rw [parseNat_nat cd.codeId _ (by intro ch h; simp at h; subst h; decide)]
  simp only [Option.bind_some, expect_append, parseStr_str, parseOptStr_optStr]
  rw [parseNat_nat cd.created _ (by intro ch h; simp at h; subst h; decide)]
  simp only [Option.bind_some, String.ofList_toList, List.cons_append, List.nil_append]
  simp [expect]

/-! ### injectivity: equal text ⇔ equal record -/

theorem balances_injective {a b : Coins} (h : balances a = balances b) : a = b := by
  have ha := parseBalances_balances a []
  have hb := parseBalances_balances b []
  rw [h, hb] at ha
  simpa using ha.symm

theorem contract_injective {a b : ContractData} (h : contract a = contract b) : a = b := by
  have ha := parseContract_contract a []
  have hb := parseContract_contract b []
  rw [h, hb] at ha
  simpa using ha.symm

theorem toBytes_injective {a b : List Char} (h : toBytes a = toBytes b) : a = b := by
  unfold toBytes at h
  rw [Layout.byteArray_toList_eq, Layout.byteArray_toList_eq] at h
  have h1 : (String.ofList a).toUTF8 = (String.ofList b).toUTF8 := by
    apply ByteArray.ext
    exact Array.ext' h
  have := String.toByteArray_inj.mp h1
  simpa using congrArg String.toList this

end CwMt.Json
