import CwMt.Proofs.Engine_Basic
/-
  CwMt.Proofs.Engine_Call — a single `callContract`, and the shape of `execute (fuel + 1)`.
-/
namespace CwMt.Engine
open CwMt
variable {E : Type}

/-- either nothing ran (unknown contract / code), or exactly one entry was appended and an `ok`
result differs from the input state only in the callee's window -/
theorem callContract_cases (cfg : Config E) (blk : Block) (ch : Chain E) (addr : Addr) (en : Entry)
    (tr : Trace) :
    callContract cfg blk ch addr en tr = (.err, tr) ∨
    ∃ note o, callContract cfg blk ch addr en tr = (o, tr ++ [⟨addr, en, contractEnv blk addr, note⟩]) ∧
      ∀ resp ch', o = .ok (resp, ch') → ∃ own', ch' = { ch with cstore := ch.cstore.set addr own' } := by
  unfold callContract
  split
  · exact Or.inl rfl
  · split
    · exact Or.inl rfl
    · rename_i cd _ code _
      right
      simp only []
      refine ⟨(code.run en (contractEnv blk addr) ch ((ch.cstore.get? addr).getD [])).2, ?_⟩
      split
      · split
        · refine ⟨_, rfl, ?_⟩
          intro resp' ch' h
          simp only [Outcome.ok.injEq, Prod.mk.injEq] at h
          exact ⟨_, h.2.symm⟩
        · exact ⟨.err, rfl, by intro _ _ h; cases h⟩
      · exact ⟨.err, rfl, by intro _ _ h; cases h⟩
      · exact ⟨.panic, rfl, by intro _ _ h; cases h⟩
      · exact ⟨.outOfFuel, rfl, by intro _ _ h; cases h⟩

/-- with contract and code present exactly one entry is appended -/
theorem callContract_known (cfg : Config E) (blk : Block) (ch : Chain E) (addr : Addr) (en : Entry)
    (tr : Trace) (cd : ContractData) (code : Code E) (hc : ch.contracts.get? addr = some cd)
    (hcode : contractCode? cfg cd.codeId = some code) :
    ∃ note o, callContract cfg blk ch addr en tr = (o, tr ++ [⟨addr, en, contractEnv blk addr, note⟩]) := by
  unfold callContract
  simp only [hc, hcode]
  refine ⟨(code.run en (contractEnv blk addr) ch ((ch.cstore.get? addr).getD [])).2, ?_⟩
  split
  · split <;> exact ⟨_, rfl⟩
  · exact ⟨_, rfl⟩
  · exact ⟨_, rfl⟩
  · exact ⟨_, rfl⟩

theorem call_touches_own_window_only (cfg : Config E) (blk : Block) (ch ch' : Chain E) (addr : Addr)
    (en : Entry) (tr tr' : Trace) (resp : Response)
    (h : callContract cfg blk ch addr en tr = (.ok (resp, ch'), tr')) :
    ch'.bank = ch.bank ∧ ch'.contracts = ch.contracts ∧
      ∀ b, b ≠ addr → ch'.cstore.get? b = ch.cstore.get? b := by
  rcases callContract_cases cfg blk ch addr en tr with h1 | ⟨note, o, h1, h2⟩
  · rw [h1] at h; cases h
  · rw [h1] at h
    simp only [Prod.mk.injEq] at h
    obtain ⟨own', rfl⟩ := h2 resp ch' h.1
    exact ⟨rfl, rfl, fun b hb => get?_set_other _ _ _ _ hb⟩

theorem call_trace (cfg : Config E) (blk : Block) (ch : Chain E) (addr : Addr) (en : Entry) (tr : Trace) :
    (∃ note, (callContract cfg blk ch addr en tr).2 = tr ++ [⟨addr, en, contractEnv blk addr, note⟩]) ∨
    ((callContract cfg blk ch addr en tr).2 = tr ∧ (callContract cfg blk ch addr en tr).1 = .err) := by
  rcases callContract_cases cfg blk ch addr en tr with h1 | ⟨note, o, h1, _⟩
  · right; rw [h1]; exact ⟨rfl, rfl⟩
  · left; exact ⟨note, by rw [h1]⟩

/-! ### state frames of the non-recursive steps -/

theorem sendFunds_frame (ch ch' : Chain E) (s : Addr) (r : String) (f : Coins)
    (h : sendFunds ch s r f = .ok ch') : ch'.cstore = ch.cstore ∧ ch'.contracts = ch.contracts := by
  unfold sendFunds at h
  split at h
  · cases h; exact ⟨rfl, rfl⟩
  · unfold bankExecute at h
    simp only [] at h
    split at h
    · rename_i heq
      split at heq
      · cases heq; cases h; exact ⟨rfl, rfl⟩
      · cases heq
    all_goals cases h

theorem bankExecute_frame (ch ch' : Chain E) (s : Addr) (m : Msg) (r : AppResponse)
    (h : bankExecute ch s m = .ok (r, ch')) : ch'.cstore = ch.cstore ∧ ch'.contracts = ch.contracts := by
  unfold bankExecute at h
  split at h
  · split at h
    · cases h; exact ⟨rfl, rfl⟩
    · cases h
  · split at h
    · cases h; exact ⟨rfl, rfl⟩
    · cases h
  · cases h

theorem updateAdmin_frame (cfg : Config E) (ch ch' : Chain E) (s : Addr) (c : String) (a : Option String)
    (r : AppResponse) (h : updateAdmin cfg ch s c a = .ok (r, ch')) : ch'.cstore = ch.cstore := by
  unfold updateAdmin at h
  repeat' (split at h)
  all_goals first | (cases h; done) | (simp only [Outcome.ok.injEq, Prod.mk.injEq] at h; rw [← h.2])

theorem registerContract_frame (cfg : Config E) (ch ch' : Chain E) (codeId : Nat) (creator : Addr)
    (admin : Option Addr) (label : String) (created : Nat) (salt : Option Val) (addr : Addr)
    (h : registerContract cfg ch codeId creator admin label created salt = .ok (addr, ch')) :
    ch'.cstore = ch.cstore ∧ ch'.bank = ch.bank := by
  unfold registerContract at h
  split at h
  · cases h
  · simp only [] at h
    split at h
    · split at h
      · cases h
      · cases h; exact ⟨rfl, rfl⟩
    all_goals cases h

/-! ### the shape of `execute (fuel + 1)` -/

/-- One step of `execute`: either a result that involves no contract call (independent of the fuel,
trace unchanged, contract storage untouched when the parameter modules respect `ExtFrame`), or a
contract call followed by response processing, on a state with the same contract storage, with an
entry point whose sender (if it carries one) is the sender of the message. -/
theorem execute_shape (cfg : Config E) (blk : Block) (ch : Chain E) (s : Addr) (m : Msg) (tr : Trace) :
    (∃ o, (∀ fuel, execute cfg blk (fuel + 1) ch s m tr = (o, tr)) ∧
        (ExtFrame cfg → ∀ r ch', o = .ok (r, ch') → ch'.cstore = ch.cstore)) ∨
    (∃ f ch1 addr en custom,
        (∀ fuel, execute cfg blk (fuel + 1) ch s m tr =
          mapResp f (callThen cfg blk fuel ch1 addr en custom tr)) ∧
        ch1.cstore = ch.cstore ∧ (∀ x, en.sender? = some x → x = s)) := by
  have early : ∀ (o : Outcome (AppResponse × Chain E)), (∀ r ch', o ≠ .ok (r, ch')) →
      (ExtFrame cfg → ∀ r ch', o = .ok (r, ch') → ch'.cstore = ch.cstore) :=
    fun o h _ r ch' h' => absurd h' (h r ch')
  cases m with
  | bankSend to a =>
    exact Or.inl ⟨_, fun fuel => execute_succ_bankSend cfg blk fuel ch s to a tr,
      fun _ r ch' h => (bankExecute_frame ch ch' s _ r h).1⟩
  | bankBurn a =>
    exact Or.inl ⟨_, fun fuel => execute_succ_bankBurn cfg blk fuel ch s a tr,
      fun _ r ch' h => (bankExecute_frame ch ch' s _ r h).1⟩
  | ext k p =>
    exact Or.inl ⟨_, fun fuel => execute_succ_ext cfg blk fuel ch s k p tr,
      fun hf r ch' h => (hf.1 k ch blk s p r ch' h).1⟩
  | wasmUpdateAdmin c a =>
    exact Or.inl ⟨_, fun fuel => execute_succ_updateAdmin cfg blk fuel ch s c a tr,
      fun _ r ch' h => updateAdmin_frame cfg ch ch' s c _ r h⟩
  | wasmClearAdmin c =>
    exact Or.inl ⟨_, fun fuel => execute_succ_clearAdmin cfg blk fuel ch s c tr,
      fun _ r ch' h => updateAdmin_frame cfg ch ch' s c _ r h⟩
  | wasmExecute c msg funds =>
    by_cases hv : (!cfg.validAddr c) = true
    · exact Or.inl ⟨.err, fun fuel => by rw [execute_succ_wasmExecute, if_pos hv],
        early _ (by intro _ _ h; cases h)⟩
    · cases hs : sendFunds ch s c funds with
      | ok ch1 =>
        refine Or.inr ⟨fun r => { r with data := r.data.map encodeExecuteResponse }, ch1, c,
          .execute ⟨s, funds⟩ msg, { ty := "execute", attrs := [contractAttr c] }, fun fuel => ?_,
          (sendFunds_frame ch ch1 s c funds hs).1, ?_⟩
        · rw [execute_succ_wasmExecute, if_neg hv, hs]
        · intro x hx; simp only [Entry.sender?, Option.some.injEq] at hx; exact hx.symm
      | err =>
        exact Or.inl ⟨.err, fun fuel => by rw [execute_succ_wasmExecute, if_neg hv, hs],
          early _ (by intro _ _ h; cases h)⟩
      | panic =>
        exact Or.inl ⟨.panic, fun fuel => by rw [execute_succ_wasmExecute, if_neg hv, hs],
          early _ (by intro _ _ h; cases h)⟩
      | outOfFuel =>
        exact Or.inl ⟨.outOfFuel, fun fuel => by rw [execute_succ_wasmExecute, if_neg hv, hs],
          early _ (by intro _ _ h; cases h)⟩
  | wasmInstantiate admin codeId msg funds label salt =>
    by_cases hl : label.isEmpty = true
    · exact Or.inl ⟨.err, fun fuel => by rw [execute_succ_wasmInstantiate, if_pos hl],
        early _ (by intro _ _ h; cases h)⟩
    · cases hr : registerContract cfg ch codeId s admin label blk.height salt with
      | ok p =>
        obtain ⟨addr, ch0⟩ := p
        cases hs : sendFunds ch0 s addr funds with
        | ok ch1 =>
          refine Or.inr ⟨fun r => { r with data := some (encodeInstantiateResponse addr (r.data.getD [])) },
            ch1, addr, .instantiate ⟨s, funds⟩ msg,
            { ty := "instantiate", attrs := [contractAttr addr, ⟨"code_id", toString codeId⟩] },
            fun fuel => ?_, ?_, ?_⟩
          · rw [execute_succ_wasmInstantiate, if_neg hl, hr]; simp only [hs]
          · rw [(sendFunds_frame ch0 ch1 s addr funds hs).1,
              (registerContract_frame cfg ch ch0 _ _ _ _ _ _ addr hr).1]
          · intro x hx; simp only [Entry.sender?, Option.some.injEq] at hx; exact hx.symm
        | err =>
          exact Or.inl ⟨.err, fun fuel => by
            rw [execute_succ_wasmInstantiate, if_neg hl, hr]; simp only [hs],
            early _ (by intro _ _ h; cases h)⟩
        | panic =>
          exact Or.inl ⟨.panic, fun fuel => by
            rw [execute_succ_wasmInstantiate, if_neg hl, hr]; simp only [hs],
            early _ (by intro _ _ h; cases h)⟩
        | outOfFuel =>
          exact Or.inl ⟨.outOfFuel, fun fuel => by
            rw [execute_succ_wasmInstantiate, if_neg hl, hr]; simp only [hs],
            early _ (by intro _ _ h; cases h)⟩
      | err =>
        exact Or.inl ⟨.err, fun fuel => by rw [execute_succ_wasmInstantiate, if_neg hl, hr],
          early _ (by intro _ _ h; cases h)⟩
      | panic =>
        exact Or.inl ⟨.panic, fun fuel => by rw [execute_succ_wasmInstantiate, if_neg hl, hr],
          early _ (by intro _ _ h; cases h)⟩
      | outOfFuel =>
        exact Or.inl ⟨.outOfFuel, fun fuel => by rw [execute_succ_wasmInstantiate, if_neg hl, hr],
          early _ (by intro _ _ h; cases h)⟩
  | wasmMigrate c newCodeId msg =>
    by_cases hv : (!cfg.validAddr c) = true
    · exact Or.inl ⟨.err, fun fuel => by rw [execute_succ_wasmMigrate, if_pos hv],
        early _ (by intro _ _ h; cases h)⟩
    by_cases hk : (!codeKnown cfg newCodeId) = true
    · exact Or.inl ⟨.err, fun fuel => by rw [execute_succ_wasmMigrate, if_neg hv, if_pos hk],
        early _ (by intro _ _ h; cases h)⟩
    cases hg : ch.contracts.get? c with
    | none =>
      exact Or.inl ⟨.err, fun fuel => by rw [execute_succ_wasmMigrate, if_neg hv, if_neg hk, hg],
        early _ (by intro _ _ h; cases h)⟩
    | some cd =>
      by_cases ha : cd.admin ≠ some s
      · exact Or.inl ⟨.err, fun fuel => by
          rw [execute_succ_wasmMigrate, if_neg hv, if_neg hk, hg]; simp only [if_pos ha],
          early _ (by intro _ _ h; cases h)⟩
      · refine Or.inr ⟨fun r => { r with data := r.data.map encodeExecuteResponse },
          { ch with contracts := ch.contracts.set c { cd with codeId := newCodeId } }, c, .migrate msg,
          { ty := "migrate", attrs := [contractAttr c, ⟨"code_id", toString newCodeId⟩] },
          fun fuel => ?_, ?_, ?_⟩
        · rw [execute_succ_wasmMigrate, if_neg hv, if_neg hk, hg]; simp only [if_neg ha]
        · rfl
        · intro x hx; simp [Entry.sender?] at hx

end CwMt.Engine
