import CwMt.Proofs.Engine
/- Order of whole executions in the ghost trace (C03). -/
namespace CwMt.EngineOrder
open CwMt CwMt.Engine
variable {E : Type}

/-! ### auxiliary facts -/

/-- the trace of `reply` (any fuel): nothing, or the `reply` invocation on the dispatcher followed by
whatever its response processing appended -/
theorem reply_trace (cfg : Config E) (blk : Block) (fuel : Nat) (ch : Chain E) (c : Addr) (rp : Reply)
    (tr : Trace) :
    (reply cfg blk fuel ch c rp tr).2 = tr ∨
    ∃ note rest, (reply cfg blk fuel ch c rp tr).2 = tr ++ [⟨c, .reply rp, contractEnv blk c, note⟩] ++ rest := by
  cases fuel with
  | zero => rw [reply_zero]; exact Or.inl rfl
  | succ fuel => rw [reply_succ]; exact callThen_trace cfg blk fuel ch c (.reply rp) _ tr

/-- a trace that is `tr` or `tr ++ [e] ++ rest` is `tr ++ seg` with `seg` empty or headed by `e` -/
theorem seg_of_trace {t tr : Trace} {c : Addr} {blk : Block} {rp : Reply}
    (h : t = tr ∨ ∃ note rest, t = tr ++ [⟨c, .reply rp, contractEnv blk c, note⟩] ++ rest) :
    ∃ seg : Trace, t = tr ++ seg ∧ ∀ e, seg.head? = some e → e.callee = c ∧ e.entry = .reply rp := by
  rcases h with h | ⟨note, rest, h⟩
  · exact ⟨[], by rw [h, List.append_nil], by intro e he; simp at he⟩
  · refine ⟨⟨c, .reply rp, contractEnv blk c, note⟩ :: rest, by rw [h, List.append_assoc]; rfl, ?_⟩
    intro e he
    simp only [List.head?_cons, Option.some.injEq] at he
    rw [← he]
    exact ⟨rfl, rfl⟩

/-- the reply segment of one sub-message: what `executeSubmsg` appends after the complete execution of
the sub-message's message -/
theorem submsg_reply_seg (cfg : Config E) (blk : Block) (fuel : Nat) (ch : Chain E) (c : Addr)
    (sm : SubMsg) (tr : Trace) :
    ∃ tReply : Trace,
      (executeSubmsg cfg blk (fuel + 1) ch c sm tr).2 = (execute cfg blk fuel ch c sm.msg tr).2 ++ tReply ∧
      ∀ e, tReply.head? = some e → e.callee = c ∧ ∃ res, e.entry = .reply ⟨sm.id, sm.payload, res⟩ := by
  rw [executeSubmsg_succ]
  generalize execute cfg blk fuel ch c sm.msg tr = x
  obtain ⟨o, t⟩ := x
  have hnil : ∃ tReply : Trace, t = t ++ tReply ∧
      ∀ e, tReply.head? = some e → e.callee = c ∧ ∃ res, e.entry = .reply ⟨sm.id, sm.payload, res⟩ :=
    ⟨[], by rw [List.append_nil], by intro e he; simp at he⟩
  cases o with
  | ok p =>
    obtain ⟨r, ch1⟩ := p
    simp only []
    split
    · obtain ⟨seg, hs, hh⟩ :=
        seg_of_trace (reply_trace cfg blk fuel ch1 c ⟨sm.id, sm.payload, .ok r.events r.data⟩ t)
      refine ⟨seg, ?_, fun e he => ⟨(hh e he).1, _, (hh e he).2⟩⟩
      rw [← hs]
      rcases reply cfg blk fuel ch1 c ⟨sm.id, sm.payload, .ok r.events r.data⟩ t with ⟨o2, t2⟩
      cases o2 <;> rfl
    · exact hnil
  | err =>
    simp only []
    split
    · obtain ⟨seg, hs, hh⟩ := seg_of_trace (reply_trace cfg blk fuel ch c ⟨sm.id, sm.payload, .err⟩ t)
      exact ⟨seg, hs, fun e he => ⟨(hh e he).1, _, (hh e he).2⟩⟩
    · exact hnil
  | panic => exact hnil
  | outOfFuel => exact hnil

/-- without contract or code nothing is called -/
theorem callContract_unknown (cfg : Config E) (blk : Block) (ch : Chain E) (addr : Addr) (en : Entry)
    (tr : Trace)
    (h : ¬ ∃ cd code, ch.contracts.get? addr = some cd ∧ contractCode? cfg cd.codeId = some code) :
    callContract cfg blk ch addr en tr = (.err, tr) := by
  unfold callContract
  cases hcd : ch.contracts.get? addr with
  | none => rfl
  | some cd =>
    simp only []
    cases hcode : contractCode? cfg cd.codeId with
    | none => rfl
    | some code => exact absurd ⟨cd, code, hcd, hcode⟩ h

theorem reply_unknown (cfg : Config E) (blk : Block) (fuel : Nat) (ch : Chain E) (c : Addr) (rp : Reply)
    (tr : Trace)
    (h : ¬ ∃ cd code, ch.contracts.get? c = some cd ∧ contractCode? cfg cd.codeId = some code) :
    reply cfg blk (fuel + 1) ch c rp tr = (.err, tr) := by
  rw [reply_succ]
  unfold callThen
  rw [callContract_unknown cfg blk ch c (.reply rp) tr h]

/-! ### the statements of C03 -/

theorem depth_first_order (cfg : Config E) (blk : Block) (fuel : Nat) (ch : Chain E) (contract : Addr)
    (resp : AppResponse) (sm : SubMsg) (rest : List SubMsg) (tr : Trace) :
    ∃ tSub tReply tRest : Trace,
      (execute cfg blk fuel ch contract sm.msg tr).2 = tr ++ tSub ∧
      (executeSubmsg cfg blk (fuel + 1) ch contract sm tr).2 = tr ++ tSub ++ tReply ∧
      (processResponse cfg blk (fuel + 2) ch contract resp (sm :: rest) tr).2 = tr ++ tSub ++ tReply ++ tRest ∧
      (∀ e, tReply.head? = some e → e.callee = contract ∧ ∃ res, e.entry = .reply ⟨sm.id, sm.payload, res⟩) ∧
      (tRest ≠ [] → (executeSubmsg cfg blk (fuel + 1) ch contract sm tr).1.isOk = true) := by
  obtain ⟨tSub, hSub⟩ := trace_grows_execute cfg blk fuel ch contract sm.msg tr
  obtain ⟨tReply, hReply, hHead⟩ := submsg_reply_seg cfg blk fuel ch contract sm tr
  rw [hSub] at hReply
  rw [processResponse_succ_cons cfg blk (fuel + 1)]
  generalize executeSubmsg cfg blk (fuel + 1) ch contract sm tr = y at hReply ⊢
  obtain ⟨o, t⟩ := y
  simp only at hReply
  cases o with
  | ok p =>
    obtain ⟨sr, ch1⟩ := p
    obtain ⟨tRest, hRest⟩ := trace_grows_processResponse cfg blk (fuel + 1) ch1 contract
      { events := resp.events ++ sr.events, data := sr.data.orElse fun _ => resp.data } rest t
    refine ⟨tSub, tReply, tRest, hSub, hReply, ?_, hHead, fun _ => rfl⟩
    simp only []
    rw [hRest, hReply]
  | err => exact ⟨tSub, tReply, [], hSub, hReply, by simp only [List.append_nil]; exact hReply, hHead,
      fun h => absurd rfl h⟩
  | panic => exact ⟨tSub, tReply, [], hSub, hReply, by simp only [List.append_nil]; exact hReply, hHead,
      fun h => absurd rfl h⟩
  | outOfFuel => exact ⟨tSub, tReply, [], hSub, hReply, by simp only [List.append_nil]; exact hReply, hHead,
      fun h => absurd rfl h⟩

theorem reply_segment_empty_iff (cfg : Config E) (blk : Block) (fuel : Nat) (ch : Chain E) (contract : Addr)
    (sm : SubMsg) (tr : Trace) :
    ((executeSubmsg cfg blk (fuel + 2) ch contract sm tr).2 = (execute cfg blk (fuel + 1) ch contract sm.msg tr).2) ↔
      ¬ (replyWanted (execute cfg blk (fuel + 1) ch contract sm.msg tr).1 sm.replyOn = true ∧
         ∃ cd code, (replyState ch (execute cfg blk (fuel + 1) ch contract sm.msg tr).1).contracts.get? contract = some cd ∧
           contractCode? cfg cd.codeId = some code) := by
  by_cases hw : replyWanted (execute cfg blk (fuel + 1) ch contract sm.msg tr).1 sm.replyOn = true
  · by_cases hk : ∃ cd code,
        (replyState ch (execute cfg blk (fuel + 1) ch contract sm.msg tr).1).contracts.get? contract = some cd ∧
          contractCode? cfg cd.codeId = some code
    · -- a reply entry is appended: the traces differ
      obtain ⟨cd, code, hc, hcode⟩ := hk
      obtain ⟨note, rest', e⟩ := reply_when_wanted cfg blk fuel ch contract sm tr
        (execute cfg blk (fuel + 1) ch contract sm.msg tr).2
        (execute cfg blk (fuel + 1) ch contract sm.msg tr).1 cd code rfl hw hc hcode
      constructor
      · intro h
        rw [h] at e
        have := congrArg List.length e
        simp only [List.length_append, List.length_cons, List.length_nil] at this
        omega
      · intro h
        exact absurd ⟨hw, cd, code, hc, hcode⟩ h
    · -- wanted, but the dispatcher (or its code) is gone: the call does not happen
      constructor
      · intro _ h; exact hk h.2
      · intro _
        rw [executeSubmsg_succ cfg blk (fuel + 1)]
        generalize execute cfg blk (fuel + 1) ch contract sm.msg tr = x at hw hk ⊢
        obtain ⟨o, t⟩ := x
        cases o with
        | ok p =>
          obtain ⟨r, ch1⟩ := p
          simp only [replyWanted] at hw
          simp only [replyState] at hk
          simp only [hw, if_true]
          rw [reply_unknown cfg blk fuel ch1 contract _ t hk]
        | err =>
          simp only [replyWanted] at hw
          simp only [replyState] at hk
          simp only [hw, if_true]
          rw [reply_unknown cfg blk fuel ch contract _ t hk]
        | panic => rfl
        | outOfFuel => rfl
  · constructor
    · intro _ h; exact hw h.1
    · intro _
      exact no_reply_unless_wanted cfg blk (fuel + 1) ch contract sm tr (by simpa using hw)

theorem body_before_submessages (cfg : Config E) (blk : Block) (fuel : Nat) (ch : Chain E) (sender : Addr)
    (c : String) (m : Val) (funds : Coins) (tr : Trace) :
    (execute cfg blk (fuel + 1) ch sender (.wasmExecute c m funds) tr).2 = tr ∨
    ∃ note rest, (execute cfg blk (fuel + 1) ch sender (.wasmExecute c m funds) tr).2 =
      tr ++ [⟨c, .execute ⟨sender, funds⟩ m, contractEnv blk c, note⟩] ++ rest := by
  rw [execute_succ_wasmExecute]
  split
  · exact Or.inl rfl
  · split
    · rw [mapResp_snd]
      exact callThen_trace cfg blk fuel _ c (.execute ⟨sender, funds⟩ m) _ tr
    · exact Or.inl rfl
    · exact Or.inl rfl
    · exact Or.inl rfl

/-! ### whole sibling lists: one reply segment per started sub-message, non-empty exactly when wanted -/

/-- `submsg_reply_seg` with the delivered result spelled out: it is the sub-message's own outcome -/
theorem submsg_reply_seg_exact (cfg : Config E) (blk : Block) (fuel : Nat) (ch : Chain E) (c : Addr)
    (sm : SubMsg) (tr : Trace) :
    ∃ tReply : Trace,
      (executeSubmsg cfg blk (fuel + 1) ch c sm tr).2 = (execute cfg blk fuel ch c sm.msg tr).2 ++ tReply ∧
      ∀ e, tReply.head? = some e → e.callee = c ∧
        e.entry = .reply ⟨sm.id, sm.payload, subResultOf (execute cfg blk fuel ch c sm.msg tr).1⟩ := by
  rw [executeSubmsg_succ]
  generalize execute cfg blk fuel ch c sm.msg tr = x
  obtain ⟨o, t⟩ := x
  have hnil : ∃ tReply : Trace, t = t ++ tReply ∧
      ∀ e, tReply.head? = some e → e.callee = c ∧ e.entry = .reply ⟨sm.id, sm.payload, subResultOf o⟩ :=
    ⟨[], by rw [List.append_nil], by intro e he; simp at he⟩
  cases o with
  | ok p =>
    obtain ⟨r, ch1⟩ := p
    simp only []
    split
    · obtain ⟨seg, hs, hh⟩ :=
        seg_of_trace (reply_trace cfg blk fuel ch1 c ⟨sm.id, sm.payload, .ok r.events r.data⟩ t)
      refine ⟨seg, ?_, fun e he => ⟨(hh e he).1, (hh e he).2⟩⟩
      rw [← hs]
      rcases reply cfg blk fuel ch1 c ⟨sm.id, sm.payload, .ok r.events r.data⟩ t with ⟨o2, t2⟩
      cases o2 <;> rfl
    · exact hnil
  | err =>
    simp only []
    split
    · obtain ⟨seg, hs, hh⟩ := seg_of_trace (reply_trace cfg blk fuel ch c ⟨sm.id, sm.payload, .err⟩ t)
      exact ⟨seg, hs, fun e he => ⟨(hh e he).1, (hh e he).2⟩⟩
    · exact hnil
  | panic => exact hnil
  | outOfFuel => exact hnil

/-- what one started sub-message contributed to the trace -/
structure SubSeg where
  sm : SubMsg
  /-- everything the sub-message's own message ran, to any depth -/
  tSub : Trace
  /-- everything its reply ran: empty, or the `reply` invocation on the dispatcher followed by that reply's sub-tree -/
  tReply : Trace

def flatSegs : List SubSeg → Trace
  | [] => []
  | s :: l => s.tSub ++ s.tReply ++ flatSegs l

/-- the facts about one segment (`n` = fuel of the sub-message's message, `n + 1` of `executeSubmsg`) -/
structure SegFacts (cfg : Config E) (blk : Block) (c : Addr) (n : Nat) (ch : Chain E) (tr : Trace) (s : SubSeg) : Prop where
  sub : (execute cfg blk n ch c s.sm.msg tr).2 = tr ++ s.tSub
  all : (executeSubmsg cfg blk (n + 1) ch c s.sm tr).2 = tr ++ s.tSub ++ s.tReply
  head : ∀ e, s.tReply.head? = some e → e.callee = c ∧
    e.entry = .reply ⟨s.sm.id, s.sm.payload, subResultOf (execute cfg blk n ch c s.sm.msg tr).1⟩
  once : 0 < n → (s.tReply = [] ↔
    ¬ (replyWanted (execute cfg blk n ch c s.sm.msg tr).1 s.sm.replyOn = true ∧
       ∃ cd code, (replyState ch (execute cfg blk n ch c s.sm.msg tr).1).contracts.get? c = some cd ∧
         contractCode? cfg cd.codeId = some code))

theorem segFacts_exists (cfg : Config E) (blk : Block) (c : Addr) (n : Nat) (ch : Chain E) (tr : Trace) (sm : SubMsg) :
    ∃ s : SubSeg, s.sm = sm ∧ SegFacts cfg blk c n ch tr s := by
  obtain ⟨tSub, hSub⟩ := trace_grows_execute cfg blk n ch c sm.msg tr
  obtain ⟨tReply, hReply, hHead⟩ := submsg_reply_seg_exact cfg blk n ch c sm tr
  rw [hSub] at hReply
  refine ⟨⟨sm, tSub, tReply⟩, rfl, hSub, hReply, hHead, ?_⟩
  intro hn
  obtain ⟨m, rfl⟩ : ∃ m, n = m + 1 := ⟨n - 1, by omega⟩
  have h := reply_segment_empty_iff cfg blk m ch c sm tr
  show tReply = [] ↔ _
  rw [← h, hReply, hSub]
  constructor
  · intro e; rw [e, List.append_nil]
  · intro e
    have := congrArg List.length e
    simp only [List.length_append] at this
    exact List.eq_nil_of_length_eq_zero (by omega)

/-- `Walk n ch sms tr segs`: `processResponse` with fuel `n`, from state `ch` and trace `tr`, starts exactly the
sub-messages of `segs` — a prefix of `sms`, in order, each after its predecessor together with its reply succeeded,
each on the state its predecessor left. -/
inductive Walk (cfg : Config E) (blk : Block) (c : Addr) : Nat → Chain E → List SubMsg → Trace → List SubSeg → Prop
  | zero (ch : Chain E) (sms : List SubMsg) (tr : Trace) : Walk cfg blk c 0 ch sms tr []
  | nil (n : Nat) (ch : Chain E) (tr : Trace) : Walk cfg blk c (n + 1) ch [] tr []
  | starved (ch : Chain E) (sm : SubMsg) (rest : List SubMsg) (tr : Trace) : Walk cfg blk c 1 ch (sm :: rest) tr []
  | stop (n : Nat) (ch : Chain E) (sm : SubMsg) (rest : List SubMsg) (tr : Trace) (s : SubSeg) :
      s.sm = sm → SegFacts cfg blk c n ch tr s →
      (executeSubmsg cfg blk (n + 1) ch c sm tr).1.isOk = false →
      Walk cfg blk c (n + 2) ch (sm :: rest) tr [s]
  | next (n : Nat) (ch : Chain E) (sm : SubMsg) (rest : List SubMsg) (tr : Trace) (s : SubSeg)
      (sr : AppResponse) (ch1 : Chain E) (segs : List SubSeg) :
      s.sm = sm → SegFacts cfg blk c n ch tr s →
      (executeSubmsg cfg blk (n + 1) ch c sm tr).1 = .ok (sr, ch1) →
      Walk cfg blk c (n + 1) ch1 rest (tr ++ s.tSub ++ s.tReply) segs →
      Walk cfg blk c (n + 2) ch (sm :: rest) tr (s :: segs)

theorem siblings_walk (cfg : Config E) (blk : Block) (c : Addr) (sms : List SubMsg) :
    ∀ (n : Nat) (ch : Chain E) (resp : AppResponse) (tr : Trace),
    ∃ segs : List SubSeg,
      Walk cfg blk c n ch sms tr segs ∧
      (processResponse cfg blk n ch c resp sms tr).2 = tr ++ flatSegs segs ∧
      ((processResponse cfg blk n ch c resp sms tr).1.isOk = true → segs.map (·.sm) = sms) := by
  induction sms with
  | nil =>
    intro n ch resp tr
    cases n with
    | zero => exact ⟨[], .zero ch [] tr, by rw [processResponse_zero]; simp [flatSegs], fun _ => rfl⟩
    | succ n => exact ⟨[], .nil n ch tr, by rw [processResponse_succ_nil]; simp [flatSegs], fun _ => rfl⟩
  | cons sm rest ih =>
    intro n ch resp tr
    match n with
    | 0 =>
      exact ⟨[], .zero ch _ tr, by rw [processResponse_zero]; simp [flatSegs],
        by rw [processResponse_zero]; intro h; cases h⟩
    | 1 =>
      refine ⟨[], .starved ch sm rest tr, ?_, ?_⟩
      · rw [processResponse_succ_cons, executeSubmsg_zero]; simp [flatSegs]
      · rw [processResponse_succ_cons, executeSubmsg_zero]; intro h; cases h
    | n + 2 =>
      obtain ⟨s, hs, hf⟩ := segFacts_exists cfg blk c n ch tr sm
      have hall := hf.all
      rw [hs] at hall
      rw [processResponse_succ_cons cfg blk (n + 1)]
      generalize hy : executeSubmsg cfg blk (n + 1) ch c sm tr = y at hall
      obtain ⟨o, t⟩ := y
      simp only at hall
      cases o with
      | ok p =>
        obtain ⟨sr, ch1⟩ := p
        obtain ⟨segs, hw, htr, hok⟩ := ih (n + 1) ch1
          { events := resp.events ++ sr.events, data := sr.data.orElse fun _ => resp.data } (tr ++ s.tSub ++ s.tReply)
        refine ⟨s :: segs, .next n ch sm rest tr s sr ch1 segs hs hf (by rw [hy]) hw, ?_, ?_⟩
        · simp only []
          rw [hall, htr]
          simp [flatSegs, List.append_assoc]
        · simp only []
          rw [hall]
          intro h
          rw [List.map_cons, hok h, hs]
      | err =>
        refine ⟨[s], .stop n ch sm rest tr s hs hf (by rw [hy]; rfl), ?_, ?_⟩
        · simp only []; rw [hall]; simp [flatSegs, List.append_assoc]
        · simp only []; intro h; cases h
      | panic =>
        refine ⟨[s], .stop n ch sm rest tr s hs hf (by rw [hy]; rfl), ?_, ?_⟩
        · simp only []; rw [hall]; simp [flatSegs, List.append_assoc]
        · simp only []; intro h; cases h
      | outOfFuel =>
        refine ⟨[s], .stop n ch sm rest tr s hs hf (by rw [hy]; rfl), ?_, ?_⟩
        · simp only []; rw [hall]; simp [flatSegs, List.append_assoc]
        · simp only []; intro h; cases h

/-- number of `reply` invocations this level made: the non-empty reply segments -/
def replyCount (segs : List SubSeg) : Nat := (segs.filter fun s => !s.tReply.isEmpty).length

end CwMt.EngineOrder
