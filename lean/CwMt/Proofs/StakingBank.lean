import CwMt.Model.Bank
/-
  CwMt.Proofs.StakingBank — the facts about the bank model (`CwMt.Bank`) that the staking proofs use:
  effect of a single-coin `send` / `mint` on `queryBalance`, and when a send succeeds.
  `BankFacts.WF` says that every stored balance shows, per denom, the sum of its entries (true for every balance written by
  `set_balance`, which normalises; preserved by `send` and `mint`).
-/
set_option linter.unusedSimpArgs false
namespace CwMt
namespace Staking
namespace BankFacts
open CwMt.Bank

def sumOf : Coins → String → Nat
  | [], _ => 0
  | c :: cs, d => (if c.denom = d then c.amount else 0) + sumOf cs d

theorem amountOf_nil (d : String) : amountOf [] d = 0 := rfl

theorem amountOf_cons (c : Coin) (cs : Coins) (d : String) :
    amountOf (c :: cs) d = if c.denom = d then c.amount else amountOf cs d := by
  unfold amountOf
  by_cases h : c.denom = d
  · simp [List.find?_cons, h]
  · simp [List.find?_cons, h]

/-- per-denom reading of a coin `c` -/
def part (c : Coin) (d : String) : Nat := if c.denom = d then c.amount else 0

theorem amountOf_eq_zero (xs : Coins) (d : String) (h : ∀ y ∈ xs, ¬ y.denom = d) : amountOf xs d = 0 := by
  induction xs with
  | nil => rfl
  | cons y ys ih =>
    rw [amountOf_cons]
    have h1 := h y List.mem_cons_self
    simp only [h1, ite_false]
    exact ih (fun z hz => h z (List.mem_cons_of_mem _ hz))

theorem amountOf_addCoin (b : Coins) (c : Coin) (d : String) :
    amountOf (addCoin b c) d = amountOf b d + part c d := by
  induction b with
  | nil => simp [addCoin, amountOf_cons, amountOf_nil, part]
  | cons x xs ih =>
    unfold addCoin
    by_cases h1 : x.denom = c.denom
    · simp only [h1, ite_true, amountOf_cons, part]
      by_cases h2 : c.denom = d
      · simp [h2]
      · simp [h2]
    · simp only [h1, ite_false]
      split
      · simp only [amountOf_cons, ih]
        by_cases h2 : x.denom = d
        · have : ¬ c.denom = d := fun e => h1 (h2.trans e.symm)
          simp [h2, part, this]
        · simp [h2]
      · split
        · simp only [amountOf_cons, part]
          by_cases h2 : c.denom = d
          · have : ¬ x.denom = d := fun e => h1 (e.trans h2.symm)
            have hn : amountOf xs d = 0 := by
              rename_i hany _
              apply amountOf_eq_zero
              intro y hy e
              apply hany
              simp only [List.any_cons, Bool.or_eq_true, decide_eq_true_eq, List.any_eq_true]
              exact Or.inr ⟨y, hy, e.trans h2.symm⟩
            simp [h2, this, hn]
          · simp [h2]
        · simp only [amountOf_cons, ih]
          by_cases h2 : x.denom = d
          · have : ¬ c.denom = d := fun e => h1 (h2.trans e.symm)
            simp [h2, part, this]
          · simp [h2]

theorem sumOf_addCoin (b : Coins) (c : Coin) (d : String) :
    sumOf (addCoin b c) d = sumOf b d + part c d := by
  induction b with
  | nil => simp [addCoin, sumOf, part]
  | cons x xs ih =>
    unfold addCoin
    by_cases h1 : x.denom = c.denom
    · simp only [h1, ite_true, sumOf, part]
      by_cases h2 : c.denom = d <;> simp [h2] <;> omega
    · simp only [h1, ite_false]
      split
      · simp only [sumOf, ih]; omega
      · split
        · simp only [sumOf, part]; omega
        · simp only [sumOf, ih]; omega

theorem amountOf_foldl_addCoin (xs acc : Coins) (d : String) :
    amountOf (xs.foldl addCoin acc) d = amountOf acc d + sumOf xs d := by
  induction xs generalizing acc with
  | nil => simp [sumOf]
  | cons x xs ih => simp only [List.foldl_cons, ih, amountOf_addCoin, sumOf, part]; omega

theorem sumOf_foldl_addCoin (xs acc : Coins) (d : String) :
    sumOf (xs.foldl addCoin acc) d = sumOf acc d + sumOf xs d := by
  induction xs generalizing acc with
  | nil => simp [sumOf]
  | cons x xs ih => simp only [List.foldl_cons, ih, sumOf_addCoin, sumOf, part]; omega

theorem sumOf_filter_nonzero (cs : Coins) (d : String) :
    sumOf (cs.filter fun c => c.amount ≠ 0) d = sumOf cs d := by
  induction cs with
  | nil => rfl
  | cons c cs ih =>
    rw [List.filter_cons]
    by_cases h : c.amount = 0
    · have hd : decide (c.amount ≠ 0) = false := by simp [h]
      rw [hd]
      simp only [Bool.false_eq_true, ite_false, sumOf, h]
      rw [ih]; simp
    · have hd : decide (c.amount ≠ 0) = true := by simp [h]
      rw [hd]
      simp only [ite_true, sumOf]
      rw [ih]

theorem amountOf_normalize (cs : Coins) (d : String) : amountOf (normalize cs) d = sumOf cs d := by
  unfold normalize
  rw [amountOf_foldl_addCoin, sumOf_filter_nonzero]; simp [amountOf_nil]

theorem sumOf_normalize (cs : Coins) (d : String) : sumOf (normalize cs) d = sumOf cs d := by
  unfold normalize
  rw [sumOf_foldl_addCoin, sumOf_filter_nonzero]; simp [sumOf]

theorem sumOf_subCoin {b b' : Coins} {c : Coin} (h : subCoin b c = some b') (d : String) :
    sumOf b' d + part c d = sumOf b d := by
  induction b generalizing b' with
  | nil => simp [subCoin] at h
  | cons x xs ih =>
    unfold subCoin at h
    by_cases h1 : x.denom = c.denom
    · simp only [h1, ite_true] at h
      split at h
      · simp at h
      · split at h
        · simp only [Option.some.injEq] at h; subst h
          simp only [sumOf, part, h1]
          by_cases h2 : c.denom = d <;> simp [h2] <;> omega
        · simp only [Option.some.injEq] at h; subst h
          simp only [sumOf, part, h1]
          by_cases h2 : c.denom = d <;> simp [h2] <;> omega
    · simp only [h1, ite_false, Option.map_eq_some_iff] at h
      obtain ⟨r, hr, rfl⟩ := h
      have := ih hr
      simp only [sumOf]; omega

theorem subCoin_isSome (b : Coins) (c : Coin) (h : c.amount ≤ amountOf b c.denom) (hpos : c.amount ≠ 0) :
    ∃ b', subCoin b c = some b' := by
  induction b with
  | nil => simp [amountOf_nil] at h; exact absurd h hpos
  | cons x xs ih =>
    unfold subCoin
    rw [amountOf_cons] at h
    by_cases h1 : x.denom = c.denom
    · simp only [h1, ite_true] at h ⊢
      split
      · omega
      · split <;> exact ⟨_, rfl⟩
    · simp only [h1, ite_false] at h ⊢
      obtain ⟨r, hr⟩ := ih h
      exact ⟨x :: r, by simp [hr]⟩

theorem subCoin_le {b b' : Coins} {c : Coin} (h : subCoin b c = some b') : c.amount ≤ amountOf b c.denom := by
  induction b generalizing b' with
  | nil => simp [subCoin] at h
  | cons x xs ih =>
    unfold subCoin at h
    rw [amountOf_cons]
    by_cases h1 : x.denom = c.denom
    · simp only [h1, ite_true] at h ⊢
      split at h
      · simp at h
      · omega
    · simp only [h1, ite_false, Option.map_eq_some_iff] at h ⊢
      obtain ⟨r, hr, _⟩ := h
      exact ih hr

-- ---------------------------------------------------------------------------------------------
-- account map

theorem get?_set {α : Type} (m : AMap α) (k k2 : String) (v : α) :
    AMap.get? (AMap.set m k v) k2 = if k2 = k then some v else AMap.get? m k2 := by
  induction m with
  | nil =>
    by_cases h : k2 = k
    · subst h; simp [AMap.set, AMap.get?]
    · have : ¬ k = k2 := fun e => h e.symm
      simp [AMap.set, AMap.get?, h, this]
  | cons p m ih =>
    obtain ⟨k', v'⟩ := p
    unfold AMap.set
    split
    · by_cases h : k2 = k
      · subst h; simp [AMap.get?]
      · have : ¬ k = k2 := fun e => h e.symm
        simp [AMap.get?, h, this]
    · split
      · rename_i _ heq
        subst heq
        by_cases h : k2 = k
        · subst h; simp [AMap.get?]
        · have : ¬ k = k2 := fun e => h e.symm
          simp [AMap.get?, h, this]
      · rename_i _ hne
        by_cases h : k2 = k
        · subst h
          have : ¬ k' = k2 := fun e => hne e.symm
          simp [AMap.get?, this, ih]
        · simp only [AMap.get?, ih, h, ite_false]

/-- every stored balance reads, per denom, as the sum of its entries -/
def WF (st : State) : Prop := ∀ a d, amountOf (balance st a) d = sumOf (balance st a) d

theorem balance_setBalance (st : State) (a a2 : Addr) (cs : Coins) :
    balance (setBalance st a cs) a2 = if a2 = a then normalize cs else balance st a2 := by
  unfold balance setBalance
  rw [get?_set]
  by_cases h : a2 = a <;> simp [h]

theorem WF_setBalance {st : State} (h : WF st) (a : Addr) (cs : Coins) : WF (setBalance st a cs) := by
  intro a2 d
  rw [balance_setBalance]
  by_cases e : a2 = a
  · simp only [e, ite_true, amountOf_normalize, sumOf_normalize]
  · simp only [e, ite_false]; exact h a2 d

theorem WF_empty : WF [] := by intro a d; rfl

/-- single-coin mint -/
theorem mint_single {st st' : State} {to : Addr} {den : String} {n : Nat}
    (h : mint st to [⟨den, n⟩] = some st') :
    n ≠ 0 ∧ st' = setBalance st to (addCoin (balance st to) ⟨den, n⟩) := by
  unfold mint normalizeAmount at h
  by_cases hn : n = 0
  · simp [hn] at h
  · simp [hn] at h
    exact ⟨hn, h.symm⟩

theorem mint_single_ok (st : State) (to : Addr) (den : String) {n : Nat} (hn : n ≠ 0) :
    mint st to [⟨den, n⟩] = some (setBalance st to (addCoin (balance st to) ⟨den, n⟩)) := by
  unfold mint normalizeAmount
  simp [hn]

theorem query_mint {st st' : State} {to : Addr} {den : String} {n : Nat} (hwf : WF st)
    (h : mint st to [⟨den, n⟩] = some st') (a : Addr) (d : String) :
    queryBalance st' a d = queryBalance st a d + (if a = to ∧ d = den then n else 0) := by
  obtain ⟨_, rfl⟩ := mint_single h
  unfold queryBalance
  rw [balance_setBalance]
  by_cases e : a = to
  · subst e
    simp only [ite_true, amountOf_normalize, sumOf_addCoin, part, true_and]
    rw [hwf a d]
    by_cases e2 : den = d
    · subst e2; simp
    · have : ¬ d = den := fun x => e2 x.symm
      simp [e2, this]
  · simp [e]

theorem WF_mint {st st' : State} {to : Addr} {den : String} {n : Nat} (hwf : WF st)
    (h : mint st to [⟨den, n⟩] = some st') : WF st' := by
  obtain ⟨_, rfl⟩ := mint_single h
  exact WF_setBalance hwf _ _

theorem burn_single {st st' : State} {frm : Addr} {den : String} {n : Nat}
    (h : burn st frm [⟨den, n⟩] = some st') :
    n ≠ 0 ∧ ∃ b', subCoin (balance st frm) ⟨den, n⟩ = some b' ∧ st' = setBalance st frm b' := by
  unfold burn normalizeAmount at h
  by_cases hn : n = 0
  · simp [hn] at h
  · simp [hn, subCoins] at h
    obtain ⟨b', hb, rfl⟩ := h
    refine ⟨hn, b', ?_, rfl⟩
    cases hs : subCoin (balance st frm) ⟨den, n⟩ with
    | none => simp [hs] at hb
    | some x => simp [hs] at hb; rw [hb]

theorem query_burn {st st' : State} {frm : Addr} {den : String} {n : Nat} (hwf : WF st)
    (h : burn st frm [⟨den, n⟩] = some st') (a : Addr) (d : String) :
    queryBalance st' a d + (if a = frm ∧ d = den then n else 0) = queryBalance st a d := by
  obtain ⟨_, b', hb, rfl⟩ := burn_single h
  unfold queryBalance
  rw [balance_setBalance]
  by_cases e : a = frm
  · subst e
    simp only [ite_true, amountOf_normalize, true_and]
    rw [hwf a d]
    have := sumOf_subCoin hb d
    simp only [part] at this
    by_cases e2 : den = d
    · subst e2; simpa using this
    · have h3 : ¬ d = den := fun x => e2 x.symm
      simpa [e2, h3] using this
  · simp [e]

theorem WF_burn {st st' : State} {frm : Addr} {den : String} {n : Nat} (hwf : WF st)
    (h : burn st frm [⟨den, n⟩] = some st') : WF st' := by
  obtain ⟨_, b', _, rfl⟩ := burn_single h
  exact WF_setBalance hwf _ _

theorem burn_single_ok (st : State) (frm : Addr) (den : String) {n : Nat} (hn : n ≠ 0)
    (hle : n ≤ queryBalance st frm den) : ∃ st', burn st frm [⟨den, n⟩] = some st' := by
  obtain ⟨b', hb⟩ := subCoin_isSome (balance st frm) ⟨den, n⟩ hle hn
  refine ⟨setBalance st frm b', ?_⟩
  unfold burn normalizeAmount
  simp [hn, subCoins, hb]

theorem burn_single_le {st st' : State} {frm : Addr} {den : String} {n : Nat}
    (h : burn st frm [⟨den, n⟩] = some st') : n ≤ queryBalance st frm den := by
  obtain ⟨_, b', hb, _⟩ := burn_single h
  exact subCoin_le hb

/-- single-coin send: succeeds exactly when the amount is non-zero and covered -/
theorem send_single_ok (st : State) (frm to : Addr) (den : String) {n : Nat} (hn : n ≠ 0)
    (hle : n ≤ queryBalance st frm den) : ∃ st', send st frm to [⟨den, n⟩] = some st' := by
  obtain ⟨s1, h1⟩ := burn_single_ok st frm den hn hle
  unfold send
  rw [h1]
  exact ⟨_, mint_single_ok s1 to den hn⟩

theorem send_single {st st' : State} {frm to : Addr} {den : String} {n : Nat}
    (h : send st frm to [⟨den, n⟩] = some st') :
    n ≠ 0 ∧ n ≤ queryBalance st frm den ∧
      ∃ s1, burn st frm [⟨den, n⟩] = some s1 ∧ mint s1 to [⟨den, n⟩] = some st' := by
  unfold send at h
  cases hb : burn st frm [⟨den, n⟩] with
  | none => simp [hb] at h
  | some s1 =>
    simp [hb] at h
    exact ⟨(burn_single hb).1, burn_single_le hb, s1, rfl, h⟩

/-- effect of a single-coin send on every observable balance -/
theorem query_send {st st' : State} {frm to : Addr} {den : String} {n : Nat} (hwf : WF st)
    (h : send st frm to [⟨den, n⟩] = some st') (a : Addr) (d : String) :
    queryBalance st' a d + (if a = frm ∧ d = den then n else 0) =
      queryBalance st a d + (if a = to ∧ d = den then n else 0) := by
  obtain ⟨_, _, s1, hb, hm⟩ := send_single h
  have h1 := query_burn hwf hb a d
  have h2 := query_mint (WF_burn hwf hb) hm a d
  omega

theorem WF_send {st st' : State} {frm to : Addr} {den : String} {n : Nat} (hwf : WF st)
    (h : send st frm to [⟨den, n⟩] = some st') : WF st' := by
  obtain ⟨_, _, s1, hb, hm⟩ := send_single h
  exact WF_mint (WF_burn hwf hb) hm

end BankFacts
end Staking
end CwMt
