import CwMt.Model.EngineTx
import CwMt.Proofs.Engine
import CwMt.Proofs.EngineTx_Basic
/- Refinement of the value-semantics engine (CwMt/Model/Engine.lean) by the engine with in-place writes
(CwMt/Model/EngineTx.lean). -/
namespace CwMt.EngineTx
open CwMt CwMt.Engine
variable {E : Type}

/-! ### the four-way induction on the fuel -/

def RefAt (cfg : Config E) (d : Dirt E) (blk : Block) (fuel : Nat) : Prop :=
  (∀ ch s m tr, (executeI cfg d blk fuel ch s m tr).forget = execute cfg blk fuel ch s m tr) ∧
  (∀ ch c r l tr, (processResponseI cfg d blk fuel ch c r l tr).forget
      = processResponse cfg blk fuel ch c r l tr) ∧
  (∀ ch c sm tr, (executeSubmsgI cfg d blk fuel ch c sm tr).forget = executeSubmsg cfg blk fuel ch c sm tr) ∧
  (∀ ch c rp tr, (replyI cfg d blk fuel ch c rp tr).forget = reply cfg blk fuel ch c rp tr)

/-- one step of `executeI` against one step of `execute`, given the sub-message processing at the
fuel below -/
theorem refines_execute_step (cfg : Config E) (d : Dirt E) (blk : Block) (fuel : Nat)
    (hP : ∀ ch c r l tr, (processResponseI cfg d blk fuel ch c r l tr).forget
        = processResponse cfg blk fuel ch c r l tr)
    (ch : Chain E) (s : Addr) (m : Msg) (tr : Trace) :
    (executeI cfg d blk (fuel + 1) ch s m tr).forget = execute cfg blk (fuel + 1) ch s m tr := by
  cases m with
  | bankSend to a =>
    rw [executeI_succ_bankSend, execute_succ_bankSend]; exact forget_moduleI _ _ _ _ _ _
  | bankBurn a =>
    rw [executeI_succ_bankBurn, execute_succ_bankBurn]; exact forget_moduleI _ _ _ _ _ _
  | ext k p =>
    rw [executeI_succ_ext, execute_succ_ext]; exact forget_moduleI _ _ _ _ _ _
  | wasmUpdateAdmin c a =>
    rw [executeI_succ_updateAdmin, execute_succ_updateAdmin]
    cases updateAdmin cfg ch s c (some a) with
    | ok p => rfl
    | _ => rfl
  | wasmClearAdmin c =>
    rw [executeI_succ_clearAdmin, execute_succ_clearAdmin]
    cases updateAdmin cfg ch s c none with
    | ok p => rfl
    | _ => rfl
  | wasmExecute c msg funds =>
    rw [executeI_succ_wasmExecute, execute_succ_wasmExecute]
    by_cases hv : (!cfg.validAddr c) = true
    · rw [if_pos hv, if_pos hv]; rfl
    · rw [if_neg hv, if_neg hv]
      rcases sendFundsI_cases d ch s c funds with ⟨ch1, h1, h2⟩ | ⟨ch1, h1, h2⟩ | ⟨ch1, h1, h2⟩ | ⟨ch1, h1, h2⟩
      · rw [h1, h2]
        simp only []
        rw [forget_mapRespI, forget_callThenI cfg d blk fuel hP]
      all_goals rw [h1, h2]; rfl
  | wasmInstantiate admin codeId msg funds label salt =>
    rw [executeI_succ_wasmInstantiate, execute_succ_wasmInstantiate]
    by_cases hl : label.isEmpty = true
    · rw [if_pos hl, if_pos hl]; rfl
    · rw [if_neg hl, if_neg hl]
      cases registerContract cfg ch codeId s admin label blk.height salt with
      | ok p =>
        obtain ⟨addr, ch0⟩ := p
        simp only []
        rcases sendFundsI_cases d ch0 s addr funds with
          ⟨ch1, h1, h2⟩ | ⟨ch1, h1, h2⟩ | ⟨ch1, h1, h2⟩ | ⟨ch1, h1, h2⟩
        · rw [h1, h2]
          simp only []
          rw [forget_mapRespI, forget_callThenI cfg d blk fuel hP]
        all_goals rw [h1, h2]; rfl
      | _ => rfl
  | wasmMigrate c newCodeId msg =>
    rw [executeI_succ_wasmMigrate, execute_succ_wasmMigrate]
    by_cases hv : (!cfg.validAddr c) = true
    · rw [if_pos hv, if_pos hv]; rfl
    rw [if_neg hv, if_neg hv]
    by_cases hk : (!codeKnown cfg newCodeId) = true
    · rw [if_pos hk, if_pos hk]; rfl
    rw [if_neg hk, if_neg hk]
    cases ch.contracts.get? c with
    | none => rfl
    | some cd =>
      simp only []
      by_cases ha : cd.admin ≠ some s
      · rw [if_pos ha, if_pos ha]; rfl
      · rw [if_neg ha, if_neg ha]
        rw [forget_mapRespI, forget_callThenI cfg d blk fuel hP]

theorem refAt (cfg : Config E) (d : Dirt E) (blk : Block) (fuel : Nat) : RefAt cfg d blk fuel := by
  induction fuel with
  | zero =>
    refine ⟨?_, ?_, ?_, ?_⟩
    · intro ch s m tr; rw [executeI_zero, execute_zero]; rfl
    · intro ch c r l tr; rw [processResponseI_zero, processResponse_zero]; rfl
    · intro ch c sm tr; rw [executeSubmsgI_zero, executeSubmsg_zero]; rfl
    · intro ch c rp tr; rw [replyI_zero, reply_zero]; rfl
  | succ fuel ih =>
    obtain ⟨ihE, ihP, ihS, ihR⟩ := ih
    refine ⟨?_, ?_, ?_, ?_⟩
    · intro ch s m tr
      exact refines_execute_step cfg d blk fuel ihP ch s m tr
    · intro ch c r l tr
      cases l with
      | nil => rw [processResponseI_succ_nil, processResponse_succ_nil]; rfl
      | cons sm rest =>
        rw [processResponseI_succ_cons, processResponse_succ_cons, ← ihS ch c sm tr]
        rcases executeSubmsgI cfg d blk fuel ch c sm tr with ⟨o, c1, t⟩
        cases o with
        | ok sr => exact ihP _ _ _ _ _
        | err => rfl
        | panic => rfl
        | outOfFuel => rfl
    · intro ch c sm tr
      rw [executeSubmsgI_succ, executeSubmsg_succ, ← ihE ch c sm.msg tr]
      rcases executeI cfg d blk fuel ch c sm.msg tr with ⟨o, c1, t⟩
      cases o with
      | ok r =>
        simp only [transactionalI, forget_ok]
        split
        · rw [← ihR c1 c ⟨sm.id, sm.payload, .ok r.events r.data⟩ t]
          rcases replyI cfg d blk fuel c1 c ⟨sm.id, sm.payload, .ok r.events r.data⟩ t with ⟨o2, c2, t2⟩
          cases o2 <;> rfl
        · rfl
      | err =>
        simp only [transactionalI, forget_err]
        split
        · exact ihR _ _ _ _
        · rfl
      | panic => rfl
      | outOfFuel => rfl
    · intro ch c rp tr
      rw [replyI_succ, reply_succ]
      exact forget_callThenI cfg d blk fuel ihP _ _ _ _ _

theorem refines (cfg : Config E) (d : Dirt E) (blk : Block) (fuel : Nat) (ch : Chain E) (tr : Trace) :
    (∀ sender m, (executeI cfg d blk fuel ch sender m tr).forget = execute cfg blk fuel ch sender m tr) ∧
    (∀ c resp msgs, (processResponseI cfg d blk fuel ch c resp msgs tr).forget
        = processResponse cfg blk fuel ch c resp msgs tr) ∧
    (∀ c sm, (executeSubmsgI cfg d blk fuel ch c sm tr).forget = executeSubmsg cfg blk fuel ch c sm tr) ∧
    (∀ c rp, (replyI cfg d blk fuel ch c rp tr).forget = reply cfg blk fuel ch c rp tr) := by
  obtain ⟨hE, hP, hS, hR⟩ := refAt cfg d blk fuel
  exact ⟨fun s m => hE ch s m tr, fun c r l => hP ch c r l tr, fun c sm => hS ch c sm tr,
    fun c rp => hR ch c rp tr⟩

/-! ### the `App` entry points -/

theorem forget_runMsgsI (cfg : Config E) (d : Dirt E) (blk : Block) (fuel : Nat) (ch : Chain E)
    (sender : Addr) (msgs : List Msg) (tr : Trace) :
    (AppI.runMsgsI cfg d blk fuel ch sender msgs tr).forget = App.runMsgs cfg blk fuel ch sender msgs tr := by
  induction msgs generalizing ch tr with
  | nil => rfl
  | cons m ms ih =>
    simp only [AppI.runMsgsI, App.runMsgs]
    rw [← (refAt cfg d blk fuel).1 ch sender m tr]
    rcases executeI cfg d blk fuel ch sender m tr with ⟨o, c1, t⟩
    cases o with
    | ok r =>
      simp only [forget_ok]
      rw [← ih c1 t]
      rcases AppI.runMsgsI cfg d blk fuel c1 sender ms t with ⟨o2, c2, t2⟩
      cases o2 <;> rfl
    | err => rfl
    | panic => rfl
    | outOfFuel => rfl

theorem forget_wasmSudoI (cfg : Config E) (d : Dirt E) (blk : Block) (fuel : Nat) (ch : Chain E)
    (c : Addr) (m : Val) (tr : Trace) :
    (wasmSudoI cfg d blk fuel ch c m tr).forget = CwMt.wasmSudo cfg blk fuel ch c m tr := by
  have h1 : wasmSudoI cfg d blk fuel ch c m tr =
      callThenI cfg d blk fuel ch c (.sudo m) { ty := "sudo", attrs := [contractAttr c] } tr := by
    simp only [wasmSudoI, callThenI]
    rfl
  have h2 : CwMt.wasmSudo cfg blk fuel ch c m tr =
      callThen cfg blk fuel ch c (.sudo m) { ty := "sudo", attrs := [contractAttr c] } tr := by
    simp only [CwMt.wasmSudo, callThen]
    rfl
  rw [h1, h2]
  exact forget_callThenI cfg d blk fuel (refAt cfg d blk fuel).2.1 _ _ _ _ _

theorem forget_routerSudoI (cfg : Config E) (d : Dirt E) (blk : Block) (fuel : Nat) (ch : Chain E)
    (m : SudoMsg) (tr : Trace) :
    (routerSudoI cfg d blk fuel ch m tr).forget = routerSudo cfg blk fuel ch m tr := by
  cases m with
  | bankMint to amount =>
    simp only [routerSudoI, routerSudo]
    by_cases hv : (!cfg.validAddr to) = true
    · rw [if_pos hv, if_pos hv]; rfl
    · rw [if_neg hv, if_neg hv]
      cases Bank.mint ch.bank to amount <;> rfl
  | wasm c msg =>
    simp only [routerSudoI, routerSudo]
    exact forget_wasmSudoI cfg d blk fuel ch c msg tr
  | ext payload =>
    simp only [routerSudoI, routerSudo]
    cases cfg.extSudo ch blk payload with
    | ok p => rfl
    | _ => rfl

theorem executeMulti_eq (cfg : Config E) (d : Dirt E) (blk : Block) (fuel : Nat) (ch : Chain E)
    (sender : Addr) (msgs : List Msg) :
    AppI.executeMulti cfg d blk fuel ch sender msgs = App.executeMulti cfg blk fuel ch sender msgs := by
  unfold AppI.executeMulti App.executeMulti
  rw [transactionalI_eq_atomically, forget_runMsgsI]

theorem sudo_eq (cfg : Config E) (d : Dirt E) (blk : Block) (fuel : Nat) (ch : Chain E) (m : SudoMsg) :
    AppI.sudo cfg d blk fuel ch m = App.sudo cfg blk fuel ch m := by
  unfold AppI.sudo App.sudo
  rw [transactionalI_eq_atomically, forget_routerSudoI]

theorem wasmSudo_eq (cfg : Config E) (d : Dirt E) (blk : Block) (fuel : Nat) (ch : Chain E)
    (c : Addr) (m : Val) :
    AppI.wasmSudo cfg d blk fuel ch c m = App.wasmSudo cfg blk fuel ch c m := by
  unfold AppI.wasmSudo App.wasmSudo
  rw [transactionalI_eq_atomically, forget_wasmSudoI]

theorem imperative_atomic (cfg : Config E) (d : Dirt E) (blk : Block) (fuel : Nat) (ch : Chain E)
    (sender : Addr) (msgs : List Msg) (r : Outcome (List AppResponse)) (ch' : Chain E) (tr : Trace)
    (h : AppI.executeMulti cfg d blk fuel ch sender msgs = (r, ch', tr)) (hr : r.isOk = false) : ch' = ch := by
  rw [executeMulti_eq] at h
  exact Engine.atomic_execute_multi cfg blk fuel ch sender msgs r ch' tr h hr

/-- the witness of `dirt_is_real`: no codes, every address valid, no other modules -/
def dirtCfg : Config Unit :=
  { codes := [], codeBase := [], validAddr := fun _ => true, addrClassic := fun _ _ => .err,
    addrSalted := fun _ _ _ => .err, extExec := fun _ _ _ _ _ => .err, extSudo := fun _ _ _ => .err }

/-- alice sends her one coin to bob, then tries to clear the admin of a contract that does not exist:
the loop returns `err` with the transfer still in the storage it was writing to -/
theorem dirt_is_real :
    ∃ (cfg : Config Unit) (d : Dirt Unit) (blk : Block) (fuel : Nat) (ch : Chain Unit) (sender : Addr)
      (msgs : List Msg) (ch' : Chain Unit) (tr : Trace),
      AppI.runMsgsI cfg d blk fuel ch sender msgs [] = (.err, ch', tr) ∧ ch'.bank ≠ ch.bank := by
  have hsend : Bank.send [("alice", [⟨"x", 1⟩])] "alice" "bob" [⟨"x", 1⟩]
      = some [("alice", []), ("bob", [⟨"x", 1⟩])] := by decide
  refine ⟨dirtCfg, ⟨fun _ _ _ s => s, fun ch _ _ => ch, fun ch _ => ch⟩, ⟨0, 0, ""⟩, 1,
    { bank := [("alice", [⟨"x", 1⟩])], ext := () }, "alice",
    [.bankSend "bob" [⟨"x", 1⟩], .wasmClearAdmin "nobody"],
    { bank := [("alice", []), ("bob", [⟨"x", 1⟩])], ext := () }, [], ?_, ?_⟩
  · simp only [AppI.runMsgsI, executeI_succ_bankSend, executeI_succ_clearAdmin, bankExecute, hsend,
      moduleI, updateAdmin, dirtCfg, AMap.get?]
    rfl
  · intro h
    have := congrArg List.length h
    simp at this

theorem failed_sub_discarded (cfg : Config E) (d : Dirt E) (blk : Block) (fuel : Nat) (ch chDirty : Chain E)
    (contract : Addr) (sm : SubMsg) (tr tr₁ : Trace)
    (h : executeI cfg d blk fuel ch contract sm.msg tr = (.err, chDirty, tr₁)) :
    executeSubmsgI cfg d blk (fuel + 1) ch contract sm tr =
      (if wantsReplyOnErr sm.replyOn then replyI cfg d blk fuel ch contract ⟨sm.id, sm.payload, .err⟩ tr₁
       else (.err, ch, tr₁)) := by
  rw [executeSubmsgI_succ, h]
  rfl

theorem committed_then_reply_fails (cfg : Config E) (d : Dirt E) (blk : Block) (fuel : Nat)
    (ch ch₁ ch₂ : Chain E) (contract : Addr) (sm : SubMsg) (tr tr₁ tr₂ : Trace) (r : AppResponse)
    (h : executeI cfg d blk fuel ch contract sm.msg tr = (.ok r, ch₁, tr₁))
    (hw : wantsReplyOnOk sm.replyOn = true)
    (hr : replyI cfg d blk fuel ch₁ contract ⟨sm.id, sm.payload, .ok r.events r.data⟩ tr₁ = (.err, ch₂, tr₂)) :
    executeSubmsgI cfg d blk (fuel + 1) ch contract sm tr = (.err, ch₂, tr₂) := by
  rw [executeSubmsgI_succ, h]
  simp only [transactionalI, hw, if_true, hr]

/-! ### C13: a rejected response — its writes are in the storage when the error is raised -/

theorem malformed_writes_then_error (cfg : Config E) (d : Dirt E) (blk : Block) (ch : Chain E) (addr : Addr)
    (en : Entry) (tr : Trace) (cd : ContractData) (code : Code E) (resp : Response) (own' : Store Val) (note : String)
    (hc : ch.contracts.get? addr = some cd) (hcode : contractCode? cfg cd.codeId = some code)
    (hrun : code.run en (contractEnv blk addr) ch ((ch.cstore.get? addr).getD []) = (.ok (resp, own'), note))
    (hbad : responseOk resp = false) :
    callContractI cfg d blk ch addr en tr =
      (.err, { ch with cstore := ch.cstore.set addr own' }, tr ++ [⟨addr, en, contractEnv blk addr, note⟩]) := by
  simp only [callContractI, hc, hcode, hrun, transactionalI, hbad]
  rfl

theorem malformed_dropped_by_cache (cfg : Config E) (d : Dirt E) (blk : Block) (ch : Chain E) (addr : Addr)
    (en : Entry) (tr : Trace) (cd : ContractData) (code : Code E) (resp : Response) (own' : Store Val) (note : String)
    (hc : ch.contracts.get? addr = some cd) (hcode : contractCode? cfg cd.codeId = some code)
    (hrun : code.run en (contractEnv blk addr) ch ((ch.cstore.get? addr).getD []) = (.ok (resp, own'), note))
    (hbad : responseOk resp = false) :
    transactionalI ch (callContractI cfg d blk ch addr en tr) =
      (.err, ch, tr ++ [⟨addr, en, contractEnv blk addr, note⟩]) := by
  rw [malformed_writes_then_error cfg d blk ch addr en tr cd code resp own' note hc hcode hrun hbad]
  rfl

end CwMt.EngineTx
