import CwMt.Model.EngineBig
import CwMt.Proofs.Engine
import CwMt.Proofs.EngineObs
/-
  CwMt.Proofs.EngineBig_Core — helpers for the rules of the fuel-free judgements:
  * `Ev g o` ("the fuel-indexed outcome `g` eventually is `o ≠ outOfFuel`") with determinism and
    stability for fuel-monotone `g`;
  * the trace-free outcome functions `execO / procO / subO / repO` (the first component of a run from the
    empty trace), their monotonicity, their independence of the trace, and their one-step equations.
-/
namespace CwMt.EngineBig
open CwMt CwMt.Engine CwMt.EngineObs
variable {E : Type}

/-! ### eventual outcomes of fuel-indexed families -/

def Ev (g : Nat → Out E) (o : Out E) : Prop := o ≠ .outOfFuel ∧ ∃ n, g n = o

def FMono (g : Nat → Out E) : Prop := ∀ n, g n ≠ .outOfFuel → g (n + 1) = g n

theorem FMono.add {g : Nat → Out E} (hm : FMono g) {n : Nat} (h : g n ≠ .outOfFuel) (k : Nat) :
    g (n + k) = g n := by
  induction k with
  | zero => rfl
  | succ k ih => rw [← Nat.add_assoc, hm (n + k) (by rw [ih]; exact h), ih]

theorem FMono.le {g : Nat → Out E} (hm : FMono g) {n m : Nat} (h : g n ≠ .outOfFuel) (hle : n ≤ m) :
    g m = g n := by
  obtain ⟨k, rfl⟩ := Nat.exists_eq_add_of_le hle
  exact hm.add h k

theorem Ev.stable {g : Nat → Out E} {o : Out E} (hm : FMono g) (h : Ev g o) : ∃ n, ∀ m, n ≤ m → g m = o := by
  obtain ⟨ho, n, rfl⟩ := h
  exact ⟨n, fun m hle => hm.le ho hle⟩

theorem Ev.det {g : Nat → Out E} {o₁ o₂ : Out E} (hm : FMono g) (h₁ : Ev g o₁) (h₂ : Ev g o₂) : o₁ = o₂ := by
  obtain ⟨n₁, s₁⟩ := h₁.stable hm
  obtain ⟨n₂, s₂⟩ := h₂.stable hm
  rw [← s₁ (max n₁ n₂) (Nat.le_max_left ..), s₂ (max n₁ n₂) (Nat.le_max_right ..)]

theorem ev_shift {g : Nat → Out E} {o : Out E} (h0 : g 0 = .outOfFuel) : Ev g o ↔ Ev (fun n => g (n + 1)) o := by
  constructor
  · rintro ⟨ho, n, hn⟩
    cases n with
    | zero => rw [h0] at hn; exact absurd hn.symm ho
    | succ n => exact ⟨ho, n, hn⟩
  · rintro ⟨ho, n, hn⟩
    exact ⟨ho, n + 1, hn⟩

theorem ev_const (c o : Out E) : Ev (fun _ => c) o ↔ (o = c ∧ o ≠ .outOfFuel) := by
  constructor
  · rintro ⟨ho, _, hn⟩; exact ⟨hn.symm, ho⟩
  · rintro ⟨rfl, ho⟩; exact ⟨ho, 0, rfl⟩

theorem ev_congr {g g' : Nat → Out E} {o : Out E} (h : ∀ n, g n = g' n) : Ev g o ↔ Ev g' o := by
  have : g = g' := funext h
  rw [this]

theorem ev_fail {g : Nat → Out E} {o : Out E} (c : Out E) (hc : c ≠ .outOfFuel) (h : ∀ n, g n = c) :
    Ev g o ↔ o = c := by
  rw [ev_congr h, ev_const]
  exact ⟨fun h => h.1, fun h => ⟨h, by rw [h]; exact hc⟩⟩

theorem ev_oof {g : Nat → Out E} {o : Out E} (h : ∀ n, g n = .outOfFuel) : Ev g o ↔ False := by
  rw [ev_congr h, ev_const]
  exact ⟨fun h => h.2 h.1, False.elim⟩

/-- post-processing of the response of an `ok` outcome -/
def mapO (f : AppResponse → AppResponse) : Out E → Out E
  | .ok (r, ch) => .ok (f r, ch)
  | other => other

theorem mapResp_fst (f : AppResponse → AppResponse) (x : EngineResult E) : (mapResp f x).1 = mapO f x.1 := by
  obtain ⟨o, t⟩ := x
  cases o with
  | ok p => obtain ⟨r, c⟩ := p; rfl
  | _ => rfl

theorem mapO_oof_iff (f : AppResponse → AppResponse) (o : Out E) : mapO f o = .outOfFuel ↔ o = .outOfFuel := by
  cases o with
  | ok p => obtain ⟨r, c⟩ := p; simp [mapO]
  | _ => simp [mapO]

theorem ev_mapO (f : AppResponse → AppResponse) (g : Nat → Out E) (o : Out E) :
    Ev (fun n => mapO f (g n)) o ↔ ∃ o', Ev g o' ∧ o = mapO f o' := by
  constructor
  · rintro ⟨ho, n, hn⟩
    refine ⟨g n, ⟨?_, n, rfl⟩, hn.symm⟩
    intro hg
    apply ho
    rw [← hn]
    exact (mapO_oof_iff f _).2 hg
  · rintro ⟨o', ⟨ho', n, hn⟩, rfl⟩
    exact ⟨fun h => ho' ((mapO_oof_iff f _).1 h), n, by rw [← hn]⟩

/-! ### the four trace-free outcome functions -/

section
variable (cfg : Config E) (blk : Block)

def execO (ch : Chain E) (s : Addr) (m : Msg) (n : Nat) : Out E := (execute cfg blk n ch s m []).1
def procO (ch : Chain E) (c : Addr) (r : AppResponse) (l : List SubMsg) (n : Nat) : Out E :=
  (processResponse cfg blk n ch c r l []).1
def subO (ch : Chain E) (c : Addr) (sm : SubMsg) (n : Nat) : Out E := (executeSubmsg cfg blk n ch c sm []).1
def repO (ch : Chain E) (c : Addr) (rp : Reply) (n : Nat) : Out E := (reply cfg blk n ch c rp []).1

theorem exec_iff_ev (ch : Chain E) (s : Addr) (m : Msg) (o : Out E) :
    Exec cfg blk ch s m o ↔ Ev (execO cfg blk ch s m) o := Iff.rfl
theorem proc_iff_ev (ch : Chain E) (c : Addr) (r : AppResponse) (l : List SubMsg) (o : Out E) :
    Proc cfg blk ch c r l o ↔ Ev (procO cfg blk ch c r l) o := Iff.rfl
theorem sub_iff_ev (ch : Chain E) (c : Addr) (sm : SubMsg) (o : Out E) :
    Sub cfg blk ch c sm o ↔ Ev (subO cfg blk ch c sm) o := Iff.rfl
theorem rep_iff_ev (ch : Chain E) (c : Addr) (rp : Reply) (o : Out E) :
    Rep cfg blk ch c rp o ↔ Ev (repO cfg blk ch c rp) o := Iff.rfl

theorem execO_mono (ch : Chain E) (s : Addr) (m : Msg) : FMono (execO cfg blk ch s m) := fun n h => by
  show (execute cfg blk (n + 1) ch s m []).1 = (execute cfg blk n ch s m []).1
  rw [(monoAt cfg blk n).1 ch s m [] h]
theorem procO_mono (ch : Chain E) (c : Addr) (r : AppResponse) (l : List SubMsg) :
    FMono (procO cfg blk ch c r l) := fun n h => by
  show (processResponse cfg blk (n + 1) ch c r l []).1 = (processResponse cfg blk n ch c r l []).1
  rw [(monoAt cfg blk n).2.1 ch c r l [] h]
theorem subO_mono (ch : Chain E) (c : Addr) (sm : SubMsg) : FMono (subO cfg blk ch c sm) := fun n h => by
  show (executeSubmsg cfg blk (n + 1) ch c sm []).1 = (executeSubmsg cfg blk n ch c sm []).1
  rw [(monoAt cfg blk n).2.2.1 ch c sm [] h]
theorem repO_mono (ch : Chain E) (c : Addr) (rp : Reply) : FMono (repO cfg blk ch c rp) := fun n h => by
  show (reply cfg blk (n + 1) ch c rp []).1 = (reply cfg blk n ch c rp []).1
  rw [(monoAt cfg blk n).2.2.2 ch c rp [] h]

/-! the outcome does not depend on the trace the run starts with -/

theorem execute_fst (n : Nat) (ch : Chain E) (s : Addr) (m : Msg) (tr : Trace) :
    (execute cfg blk n ch s m tr).1 = execO cfg blk ch s m n :=
  (trace_is_observer cfg blk n ch s m tr []).1
theorem processResponse_fst (n : Nat) (ch : Chain E) (c : Addr) (r : AppResponse) (l : List SubMsg) (tr : Trace) :
    (processResponse cfg blk n ch c r l tr).1 = procO cfg blk ch c r l n :=
  (processResponse_observer cfg blk n ch c r l tr []).1
theorem executeSubmsg_fst (n : Nat) (ch : Chain E) (c : Addr) (sm : SubMsg) (tr : Trace) :
    (executeSubmsg cfg blk n ch c sm tr).1 = subO cfg blk ch c sm n :=
  (executeSubmsg_observer cfg blk n ch c sm tr []).1
theorem reply_fst (n : Nat) (ch : Chain E) (c : Addr) (rp : Reply) (tr : Trace) :
    (reply cfg blk n ch c rp tr).1 = repO cfg blk ch c rp n :=
  (reply_observer cfg blk n ch c rp tr []).1

/-! fuel 0 -/

theorem execO_zero (ch : Chain E) (s : Addr) (m : Msg) : execO cfg blk ch s m 0 = .outOfFuel := by
  unfold execO; rw [execute_zero]
theorem procO_zero (ch : Chain E) (c : Addr) (r : AppResponse) (l : List SubMsg) :
    procO cfg blk ch c r l 0 = .outOfFuel := by
  unfold procO; rw [processResponse_zero]
theorem subO_zero (ch : Chain E) (c : Addr) (sm : SubMsg) : subO cfg blk ch c sm 0 = .outOfFuel := by
  unfold subO; rw [executeSubmsg_zero]
theorem repO_zero (ch : Chain E) (c : Addr) (rp : Reply) : repO cfg blk ch c rp 0 = .outOfFuel := by
  unfold repO; rw [reply_zero]

/-! one step -/

theorem procO_succ_nil (n : Nat) (ch : Chain E) (c : Addr) (r : AppResponse) :
    procO cfg blk ch c r [] (n + 1) = .ok (r, ch) := by
  unfold procO; rw [processResponse_succ_nil]

theorem procO_succ_cons (n : Nat) (ch : Chain E) (c : Addr) (resp : AppResponse) (sm : SubMsg)
    (rest : List SubMsg) :
    procO cfg blk ch c resp (sm :: rest) (n + 1) =
      (match subO cfg blk ch c sm n with
       | .ok (sr, ch₁) =>
         procO cfg blk ch₁ c { events := resp.events ++ sr.events, data := sr.data.orElse fun _ => resp.data } rest n
       | other => other) := by
  unfold procO subO
  rw [processResponse_succ_cons]
  rcases executeSubmsg cfg blk n ch c sm [] with ⟨o, t⟩
  cases o with
  | ok p =>
    obtain ⟨sr, ch₁⟩ := p
    exact processResponse_fst cfg blk n _ _ _ _ t
  | _ => rfl

theorem subO_succ (n : Nat) (ch : Chain E) (c : Addr) (sm : SubMsg) :
    subO cfg blk ch c sm (n + 1) =
      (match execO cfg blk ch c sm.msg n with
       | .ok (r, ch₁) =>
         if wantsReplyOnOk sm.replyOn then
           mergeReply r (repO cfg blk ch₁ c ⟨sm.id, sm.payload, .ok r.events r.data⟩ n)
         else .ok ({ r with data := none }, ch₁)
       | .err => if wantsReplyOnErr sm.replyOn then repO cfg blk ch c ⟨sm.id, sm.payload, .err⟩ n else .err
       | .panic => .panic
       | .outOfFuel => .outOfFuel) := by
  unfold subO execO
  rw [executeSubmsg_succ]
  rcases execute cfg blk n ch c sm.msg [] with ⟨o, t⟩
  cases o with
  | ok p =>
    obtain ⟨r, ch₁⟩ := p
    simp only []
    split
    · rw [← reply_fst cfg blk n ch₁ c _ t]
      rcases reply cfg blk n ch₁ c ⟨sm.id, sm.payload, .ok r.events r.data⟩ t with ⟨o₂, t₂⟩
      cases o₂ with
      | ok p₂ => obtain ⟨rr, ch₂⟩ := p₂; rfl
      | _ => rfl
    · rfl
  | err =>
    simp only []
    split
    · exact reply_fst cfg blk n ch c _ t
    · rfl
  | panic => rfl
  | outOfFuel => rfl

/-- the common tail of the wasm arms and of `reply`: the outcome of `callThen`, from any trace -/
theorem callThen_fst (n : Nat) (ch : Chain E) (addr : Addr) (en : Entry) (custom : Event) (tr : Trace) :
    (callThen cfg blk n ch addr en custom tr).1 =
      (match (callContract cfg blk ch addr en []).1 with
       | .ok (resp, ch₂) =>
         procO cfg blk ch₂ addr (buildAppResponse addr custom resp).1 (buildAppResponse addr custom resp).2 n
       | .err => .err
       | .panic => .panic
       | .outOfFuel => .outOfFuel) := by
  obtain ⟨oc, new, hc⟩ := uniform_call cfg blk ch addr en
  unfold callThen
  rw [hc tr, hc []]
  cases oc with
  | ok p =>
    obtain ⟨resp, ch₂⟩ := p
    exact processResponse_fst cfg blk n _ _ _ _ _
  | _ => rfl

theorem repO_succ (n : Nat) (ch : Chain E) (c : Addr) (rp : Reply) :
    repO cfg blk ch c rp (n + 1) =
      (match (callContract cfg blk ch c (.reply rp) []).1 with
       | .ok (resp, ch₁) =>
         procO cfg blk ch₁ c (buildAppResponse c (replyEvent c rp) resp).1
           (buildAppResponse c (replyEvent c rp) resp).2 n
       | .err => .err
       | .panic => .panic
       | .outOfFuel => .outOfFuel) := by
  unfold repO
  rw [reply_succ, callThen_fst]
  rfl

/-- the rule of `mapResp f (callThen …)`, the shape of every contract-calling arm of `execute` -/
theorem callThen_rule (f : AppResponse → AppResponse) (ch : Chain E) (addr : Addr) (en : Entry) (custom : Event)
    (o : Out E) :
    Ev (fun n => (mapResp f (callThen cfg blk n ch addr en custom [])).1) o ↔
      (match (callContract cfg blk ch addr en []).1 with
       | .ok (resp, ch₂) =>
         ∃ o', Proc cfg blk ch₂ addr (buildAppResponse addr custom resp).1 (buildAppResponse addr custom resp).2 o' ∧
           o = mapO f o'
       | .err => o = .err
       | .panic => o = .panic
       | .outOfFuel => False) := by
  rw [ev_congr (fun n => by rw [mapResp_fst, callThen_fst]), ev_mapO]
  cases hc : (callContract cfg blk ch addr en []).1 with
  | ok p =>
    obtain ⟨resp, ch₂⟩ := p
    exact Iff.rfl
  | err =>
    simp only []
    constructor
    · rintro ⟨o', h, rfl⟩
      obtain ⟨rfl, _⟩ := (ev_const _ _).1 h
      rfl
    · rintro rfl
      exact ⟨.err, (ev_const _ _).2 ⟨rfl, by simp⟩, rfl⟩
  | panic =>
    simp only []
    constructor
    · rintro ⟨o', h, rfl⟩
      obtain ⟨rfl, _⟩ := (ev_const _ _).1 h
      rfl
    · rintro rfl
      exact ⟨.panic, (ev_const _ _).2 ⟨rfl, by simp⟩, rfl⟩
  | outOfFuel =>
    simp only []
    constructor
    · rintro ⟨o', h, _⟩
      obtain ⟨rfl, h'⟩ := (ev_const _ _).1 h
      exact h' rfl
    · exact False.elim

end

end CwMt.EngineBig
