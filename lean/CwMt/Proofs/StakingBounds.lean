import CwMt.Proofs.StakingRewards
import CwMt.Proofs.StakingArith
/-
  CwMt.Proofs.StakingBounds — C15 rounding bounds of the model's reward arithmetic.
  Everything is stated with the denominators multiplied out (`Nat` only):
      P = S·10^18·10^18·YEAR        scale of one atomic
      exact value of a delegator's credit for T seconds, times P :  S·apr·T·(10^18 − c)·share
-/
set_option linter.unusedSimpArgs false
set_option linter.unusedVariables false
namespace CwMt
namespace Staking
open KMap

theorem grossReward_atomics (now since : Nat) (apr : Dec) (S : Nat) :
    (grossReward now since apr S).atomics = S * apr.atomics * (elapsed now since) / YEAR := by
  unfold grossReward
  simp only [Dec.div, Dec.mul, Dec.ofNat]
  have h1 : Dec.ONE * S * apr.atomics / Dec.ONE = S * apr.atomics := by
    rw [Nat.mul_assoc]; exact Nat.mul_div_cancel_left _ Dec.ONE_pos
  rw [h1]
  have h2 : S * apr.atomics * (Dec.ONE * (elapsed now since)) / Dec.ONE = S * apr.atomics * (elapsed now since) := by
    have : S * apr.atomics * (Dec.ONE * (elapsed now since)) = Dec.ONE * (S * apr.atomics * (elapsed now since)) := by ac_rfl
    rw [this]; exact Nat.mul_div_cancel_left _ Dec.ONE_pos
  rw [h2]
  exact Nat.mul_div_mul_left _ _ Dec.ONE_pos

/-- the credit of one reward update, in atomics, as a function of the elapsed seconds -/
def creditOf (S A c sa T : Nat) : Nat :=
  (S * A * T / YEAR - S * A * T / YEAR * c / Dec.ONE) * sa / Dec.ONE / S

/-- what `update_rewards` adds to a delegator's accumulator is `creditOf` -/
theorem credit_eq {now since : Nat} {apr c : Dec} {vi : ValInfo} {nr : Dec} (sh : Shares)
    (hc : c.atomics ≤ Dec.ONE) (hle : since ≤ now) (hS : vi.stake ≠ 0)
    (h : calcRewards now since apr c vi.stake = .ok nr) :
    (shareOfRewards sh vi nr).atomics = creditOf vi.stake apr.atomics c.atomics sh.stake.atomics (elapsed now since) := by
  rw [calcRewards_ok now since apr c vi.stake hle hc] at h
  simp only [Outcome.ok.injEq] at h
  subst h
  unfold shareOfRewards creditOf
  simp only [hS, ite_false, Dec.divNat, Dec.mul, Dec.sub, grossReward_atomics]

theorem YEAR_pos : 0 < YEAR := by decide

/-- C15 upper, one update: the credit exceeds the exact value by at most the share/total ratio (in atomics) -/
theorem credit_upper_step (S A c sa T : Nat) (hc : c ≤ Dec.ONE) :
    creditOf S A c sa T * (S * Dec.ONE * Dec.ONE * YEAR)
      ≤ S * A * T * (Dec.ONE - c) * sa + Dec.ONE * YEAR * sa :=
  Arith.credit_upper S A T c sa Dec.ONE YEAR Dec.ONE_pos hc

/-- C15 lower, one update: the credit falls short of the exact value by less than `1 + 1/S + ρ` atomics -/
theorem credit_lower_step (S A c sa T : Nat) (hS : 0 < S) (hc : c ≤ Dec.ONE) :
    S * A * T * (Dec.ONE - c) * sa
      ≤ (creditOf S A c sa T + 1) * (S * Dec.ONE * Dec.ONE * YEAR) + Dec.ONE * Dec.ONE * YEAR
        + YEAR * (Dec.ONE - c) * sa :=
  Arith.credit_lower S A T c sa Dec.ONE YEAR Dec.ONE_pos YEAR_pos hS hc

/-- C15 path independence, upper half: splitting a period of constant stake into any updates `Ts` credits at most
the exact value of the whole period plus `ρ` atomics per update -/
theorem split_upper (S A c sa : Nat) (hc : c ≤ Dec.ONE) (Ts : List Nat) :
    (Ts.map (creditOf S A c sa)).sum * (S * Dec.ONE * Dec.ONE * YEAR)
      ≤ S * A * Ts.sum * (Dec.ONE - c) * sa + Ts.length * (Dec.ONE * YEAR * sa) := by
  induction Ts with
  | nil => simp
  | cons T Ts ih =>
    have h := credit_upper_step S A c sa T hc
    simp only [List.map_cons, List.sum_cons, List.length_cons]
    rw [Nat.add_mul, Nat.mul_add (S * A), Nat.add_mul (S * A * T), Nat.add_mul (S * A * T * (Dec.ONE - c)),
      Nat.add_mul Ts.length 1, Nat.one_mul]
    omega

/-- C15 path independence, lower half: … and at least the exact value minus `(1 + 1/S + ρ)` atomics per update -/
theorem split_lower (S A c sa : Nat) (hS : 0 < S) (hc : c ≤ Dec.ONE) (Ts : List Nat) :
    S * A * Ts.sum * (Dec.ONE - c) * sa
      ≤ ((Ts.map (creditOf S A c sa)).sum + Ts.length) * (S * Dec.ONE * Dec.ONE * YEAR)
        + Ts.length * (Dec.ONE * Dec.ONE * YEAR + YEAR * (Dec.ONE - c) * sa) := by
  induction Ts with
  | nil => simp
  | cons T Ts ih =>
    have h := credit_lower_step S A c sa T hS hc
    simp only [List.map_cons, List.sum_cons, List.length_cons]
    rw [Nat.mul_add (S * A), Nat.add_mul (S * A * T), Nat.add_mul (S * A * T * (Dec.ONE - c))]
    rw [Nat.add_mul Ts.length 1 (Dec.ONE * Dec.ONE * YEAR + YEAR * (Dec.ONE - c) * sa), Nat.one_mul]
    have e1 : (creditOf S A c sa T + (Ts.map (creditOf S A c sa)).sum + (Ts.length + 1)) * (S * Dec.ONE * Dec.ONE * YEAR)
        = (creditOf S A c sa T + 1) * (S * Dec.ONE * Dec.ONE * YEAR)
          + ((Ts.map (creditOf S A c sa)).sum + Ts.length) * (S * Dec.ONE * Dec.ONE * YEAR) := by
      rw [← Nat.add_mul]; congr 1; omega
    rw [e1]
    omega

-- ---------------------------------------------------------------------------------------------
-- bounds that do not mention the validator total (using invariant I5), summed over a history of events

/-- `P0` = 10^18 · 10^18 · YEAR: one atomic of reward on the scale on which exact values are integers -/
def P0 : Nat := Dec.ONE * Dec.ONE * YEAR

/-- C15 upper, one update, under I5 (`sa ≤ 10^18·(S+1)`, `0 < S`): credit ≤ exact + 2 atomics -/
theorem credit_upper_free (S A c sa T : Nat) (hS : 0 < S) (hc : c ≤ Dec.ONE) (hsa : sa ≤ Dec.ONE * (S + 1)) :
    creditOf S A c sa T * P0 ≤ A * T * (Dec.ONE - c) * sa + 2 * P0 :=
  Arith.credit_upper_free S A T c sa Dec.ONE YEAR Dec.ONE_pos hS hc hsa

/-- C15 lower, one update, under I5: exact ≤ credit + 4 atomics -/
theorem credit_lower_free (S A c sa T : Nat) (hS : 0 < S) (hc : c ≤ Dec.ONE) (hsa : sa ≤ Dec.ONE * (S + 1)) :
    A * T * (Dec.ONE - c) * sa ≤ (creditOf S A c sa T + 4) * P0 :=
  Arith.credit_lower_free S A T c sa Dec.ONE YEAR Dec.ONE_pos YEAR_pos hS hc hsa

/-- one reward update as seen by one delegator: validator total `S` (tokens), own share `sa` (atomics), `T` seconds -/
structure Ev where
  S : Nat
  sa : Nat
  T : Nat

/-- the side conditions that the invariant guarantees for a shown delegation -/
def Ev.ok (e : Ev) : Prop := 0 < e.S ∧ e.sa ≤ Dec.ONE * (e.S + 1)

/-- the step of one delegator's reward ledger: an update that credits, or a withdrawal -/
inductive LStep where
  | credit (e : Ev)
  | withdraw

/-- the ledger: accumulator (atomics), whole tokens withdrawn, number of withdrawals, number of updates,
exact value accrued (times `P0`) -/
structure Ledger where
  acc : Nat := 0
  paid : Nat := 0
  w : Nat := 0
  n : Nat := 0
  exact : Nat := 0

def Ledger.step (A c : Nat) (l : Ledger) : LStep → Ledger
  | .credit e => { l with acc := l.acc + creditOf e.S A c e.sa e.T, n := l.n + 1,
                          exact := l.exact + A * e.T * (Dec.ONE - c) * e.sa }
  | .withdraw => { l with acc := 0, paid := l.paid + l.acc / Dec.ONE, w := l.w + 1 }

def Ledger.run (A c : Nat) (l : Ledger) (steps : List LStep) : Ledger := steps.foldl (Ledger.step A c) l

def LStep.ok : LStep → Prop
  | .credit e => e.ok
  | .withdraw => True

/-- the two C15 bounds as one invariant of the ledger:
  upper  (withdrawn tokens + accumulator) ≤ exact + 2 atomics per update
  lower  exact ≤ withdrawn + accumulator + (one token per withdrawal) + 4 atomics per update -/
def Ledger.Good (l : Ledger) : Prop :=
  (l.paid * Dec.ONE + l.acc) * P0 ≤ l.exact + 2 * l.n * P0 ∧
  l.exact ≤ (l.paid * Dec.ONE + l.acc + l.w * Dec.ONE + 4 * l.n) * P0

theorem Ledger.good_step (A c : Nat) (hc : c ≤ Dec.ONE) (l : Ledger) (st : LStep) (hok : st.ok) (hg : l.Good) :
    (l.step A c st).Good := by
  obtain ⟨g1, g2⟩ := hg
  cases st with
  | credit e =>
    obtain ⟨hS, hsa⟩ := hok
    have u := credit_upper_free e.S A c e.sa e.T hS hc hsa
    have lo := credit_lower_free e.S A c e.sa e.T hS hc hsa
    simp only [Ledger.step, Ledger.Good]
    generalize creditOf e.S A c e.sa e.T = K at u lo ⊢
    generalize A * e.T * (Dec.ONE - c) * e.sa = X at u lo ⊢
    generalize P0 = q at *
    generalize Dec.ONE = o at *
    constructor
    · have e1 : (l.paid * o + (l.acc + K)) * q = (l.paid * o + l.acc) * q + K * q := by
        rw [← Nat.add_mul, Nat.add_assoc]
      have e2 : 2 * (l.n + 1) * q = 2 * l.n * q + 2 * q := by
        rw [Nat.mul_add, Nat.mul_one, Nat.add_mul]
      omega
    · have e1 : (l.paid * o + (l.acc + K) + l.w * o + 4 * (l.n + 1)) * q
          = (l.paid * o + l.acc + l.w * o + 4 * l.n) * q + (K + 4) * q := by
        rw [← Nat.add_mul]; congr 1; omega
      omega
  | withdraw =>
    simp only [Ledger.step, Ledger.Good]
    have d1 := Nat.div_mul_le_self l.acc Dec.ONE
    have d2 := Nat.lt_div_mul_add (a := l.acc) Dec.ONE_pos
    generalize P0 = q at *
    generalize Dec.ONE = o at *
    generalize l.acc / o = r at *
    constructor
    · have : ((l.paid + r) * o + 0) * q ≤ (l.paid * o + l.acc) * q := by
        apply Nat.mul_le_mul_right
        rw [Nat.add_mul]; omega
      omega
    · have : (l.paid * o + l.acc + l.w * o + 4 * l.n) * q
          ≤ ((l.paid + r) * o + 0 + (l.w + 1) * o + 4 * l.n) * q := by
        apply Nat.mul_le_mul_right
        rw [Nat.add_mul, Nat.add_mul, Nat.one_mul]; omega
      omega

/-- C15 upper / lower over a whole history of one delegation period: any interleaving of reward updates (with their
own validator totals, shares and time spans) and withdrawals keeps
  withdrawn + pending ≤ Σ exact + 2·n atomics   and   Σ exact ≤ withdrawn + pending + w tokens + 4·n atomics -/
theorem Ledger.good_run (A c : Nat) (hc : c ≤ Dec.ONE) (steps : List LStep) (l : Ledger)
    (hok : ∀ st ∈ steps, st.ok) (hg : l.Good) : (l.run A c steps).Good := by
  induction steps generalizing l with
  | nil => exact hg
  | cons st rest ih =>
    simp only [Ledger.run, List.foldl_cons]
    exact ih (l.step A c st) (fun x hx => hok x (List.mem_cons_of_mem _ hx))
      (Ledger.good_step A c hc l st (hok st List.mem_cons_self) hg)

theorem Ledger.good_init : ({} : Ledger).Good := by simp [Ledger.Good]

-- ---------------------------------------------------------------------------------------------
-- the model's operations are ledger steps

/-- a reward update of `v` at time `now` credits a recorded delegator exactly `creditOf …` (a `credit` step of the
ledger) -/
theorem update_is_credit {s s1 : SState} {now : Nat} {v : String} {d : Addr} {vi : ValInfo} {vo : Validator}
    {sh : Shares} (hi : SInv s) (h : updateRewards s now v = .ok s1)
    (hvi : get? s.vinfo v = some vi) (hvo : s.validator? v = some vo) (hsh : get? s.stakes (d, v) = some sh)
    (hlt : vi.last < now) (hS : vi.stake ≠ 0) :
    (curShares s1 d v).rewards.atomics = sh.rewards.atomics +
        creditOf vi.stake s.info.apr.atomics vo.commission.atomics sh.stake.atomics (elapsed now vi.last) ∧
    (curShares s1 d v).stake = sh.stake := by
  have hvo' : vo ∈ s.validators := List.mem_of_find?_eq_some hvo
  have hc := hi.comm_le vo hvo'
  have hcalc := calcRewards_ok now vi.last s.info.apr vo.commission vi.stake (by omega) hc
  have hcr := credit_eq sh hc (by omega : vi.last ≤ now) hS hcalc
  obtain ⟨vi2, hv2, hd⟩ := hi.stakes_listed d v sh hsh
  rw [hvi] at hv2; simp only [Option.some.injEq] at hv2; subst hv2
  unfold updateRewards at h
  rw [hvi, hvo] at h
  simp only at h
  have hn : ¬ vi.last ≥ now := by omega
  rw [if_neg hn, hcalc] at h
  simp only at h
  split at h
  · rename_i hz
    simp only [Outcome.ok.injEq] at h; subst h
    have hz0 := Dec.eq_zero_of_isZero hz
    rw [hz0, shareOf_zero] at hcr
    have e : curShares { s with vinfo := KMap.set s.vinfo v { vi with last := now } } d v = sh := by
      simp [curShares, hsh]
    rw [e]
    exact ⟨by rw [← hcr]; simp [Dec.zero], rfl⟩
  · split at h
    · simp only [Outcome.ok.injEq] at h; subst h
      have e : curShares { s with vinfo := KMap.set s.vinfo v { vi with last := now },
                                  stakes := creditAll s.stakes v vi
                                    (Dec.sub (grossReward now vi.last s.info.apr vi.stake)
                                      (Dec.mul (grossReward now vi.last s.info.apr vi.stake) vo.commission)) } d v
          = { sh with rewards := Dec.add sh.rewards (shareOfRewards sh vi
                (Dec.sub (grossReward now vi.last s.info.apr vi.stake)
                  (Dec.mul (grossReward now vi.last s.info.apr vi.stake) vo.commission))) } := by
        simp [curShares, get?_creditAll, hsh, hd]
      rw [e]
      exact ⟨by rw [← hcr]; rfl, rfl⟩
    · simp at h

/-- … and under the invariant its side conditions hold whenever the delegation is shown (≥ 1 whole token) -/
theorem shown_event_ok {s : SState} (ht : TInv s) {d : Addr} {v : String} {sh : Shares} {vi : ValInfo}
    (hs : get? s.stakes (d, v) = some sh) (hv : get? s.vinfo v = some vi) (hpos : 0 < sh.stake.floor) (T : Nat) :
    (Ev.mk vi.stake sh.stake.atomics T).ok := by
  refine ⟨?_, Nat.le_of_lt (share_lt_total_succ ht hs hv)⟩
  have := floor_le_total ht hs hv
  simp only; omega

end Staking
end CwMt
