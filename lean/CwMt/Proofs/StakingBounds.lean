import CwMt.Proofs.StakingRewards
import CwMt.Proofs.StakingArith
/-
  CwMt.Proofs.StakingBounds — C15 rounding bounds of the model's reward arithmetic.
  Everything is stated with the denominators multiplied out (`Nat` only):
      P = S·10^18·10^18·YEAR        scale of one atomic
      exact value of a delegator's credit for T seconds, times P :  S·apr·T·(10^18 − c)·share
-/
set_option linter.unusedSimpArgs false
set_option linter.unusedVariables false
namespace CwMt
namespace Staking
open KMap

theorem grossReward_atomics (now since : Nat) (apr : Dec) (S : Nat) :
    (grossReward now since apr S).atomics = S * apr.atomics * (now - since) / YEAR := by
  unfold grossReward
  simp only [Dec.div, Dec.mul, Dec.ofNat]
  have h1 : Dec.ONE * S * apr.atomics / Dec.ONE = S * apr.atomics := by
    rw [Nat.mul_assoc]; exact Nat.mul_div_cancel_left _ Dec.ONE_pos
  rw [h1]
  have h2 : S * apr.atomics * (Dec.ONE * (now - since)) / Dec.ONE = S * apr.atomics * (now - since) := by
    have : S * apr.atomics * (Dec.ONE * (now - since)) = Dec.ONE * (S * apr.atomics * (now - since)) := by ac_rfl
    rw [this]; exact Nat.mul_div_cancel_left _ Dec.ONE_pos
  rw [h2]
  exact Nat.mul_div_mul_left _ _ Dec.ONE_pos

/-- the credit of one reward update, in atomics, as a function of the elapsed seconds -/
def creditOf (S A c sa T : Nat) : Nat :=
  (S * A * T / YEAR - S * A * T / YEAR * c / Dec.ONE) * sa / Dec.ONE / S

/-- what `update_rewards` adds to a delegator's accumulator is `creditOf` -/
theorem credit_eq {now since : Nat} {apr c : Dec} {vi : ValInfo} {nr : Dec} (sh : Shares)
    (hc : c.atomics ≤ Dec.ONE) (hle : since ≤ now) (hS : vi.stake ≠ 0)
    (h : calcRewards now since apr c vi.stake = .ok nr) :
    (shareOfRewards sh vi nr).atomics = creditOf vi.stake apr.atomics c.atomics sh.stake.atomics (now - since) := by
  rw [calcRewards_ok now since apr c vi.stake hle hc] at h
  simp only [Outcome.ok.injEq] at h
  subst h
  unfold shareOfRewards creditOf
  simp only [hS, ite_false, Dec.divNat, Dec.mul, Dec.sub, grossReward_atomics]

theorem YEAR_pos : 0 < YEAR := by decide

/-- C15 upper, one update: the credit exceeds the exact value by at most the share/total ratio (in atomics) -/
theorem credit_upper_step (S A c sa T : Nat) (hc : c ≤ Dec.ONE) :
    creditOf S A c sa T * (S * Dec.ONE * Dec.ONE * YEAR)
      ≤ S * A * T * (Dec.ONE - c) * sa + Dec.ONE * YEAR * sa :=
  Arith.credit_upper S A T c sa Dec.ONE YEAR Dec.ONE_pos hc

/-- C15 lower, one update: the credit falls short of the exact value by less than `1 + 1/S + ρ` atomics -/
theorem credit_lower_step (S A c sa T : Nat) (hS : 0 < S) (hc : c ≤ Dec.ONE) :
    S * A * T * (Dec.ONE - c) * sa
      ≤ (creditOf S A c sa T + 1) * (S * Dec.ONE * Dec.ONE * YEAR) + Dec.ONE * Dec.ONE * YEAR
        + YEAR * (Dec.ONE - c) * sa :=
  Arith.credit_lower S A T c sa Dec.ONE YEAR Dec.ONE_pos YEAR_pos hS hc

/-- C15 path independence, upper half: splitting a period of constant stake into any updates `Ts` credits at most
the exact value of the whole period plus `ρ` atomics per update -/
theorem split_upper (S A c sa : Nat) (hc : c ≤ Dec.ONE) (Ts : List Nat) :
    (Ts.map (creditOf S A c sa)).sum * (S * Dec.ONE * Dec.ONE * YEAR)
      ≤ S * A * Ts.sum * (Dec.ONE - c) * sa + Ts.length * (Dec.ONE * YEAR * sa) := by
  induction Ts with
  | nil => simp
  | cons T Ts ih =>
    have h := credit_upper_step S A c sa T hc
    simp only [List.map_cons, List.sum_cons, List.length_cons]
    rw [Nat.add_mul, Nat.mul_add (S * A), Nat.add_mul (S * A * T), Nat.add_mul (S * A * T * (Dec.ONE - c)),
      Nat.add_mul Ts.length 1, Nat.one_mul]
    omega

/-- C15 path independence, lower half: … and at least the exact value minus `(1 + 1/S + ρ)` atomics per update -/
theorem split_lower (S A c sa : Nat) (hS : 0 < S) (hc : c ≤ Dec.ONE) (Ts : List Nat) :
    S * A * Ts.sum * (Dec.ONE - c) * sa
      ≤ ((Ts.map (creditOf S A c sa)).sum + Ts.length) * (S * Dec.ONE * Dec.ONE * YEAR)
        + Ts.length * (Dec.ONE * Dec.ONE * YEAR + YEAR * (Dec.ONE - c) * sa) := by
  induction Ts with
  | nil => simp
  | cons T Ts ih =>
    have h := credit_lower_step S A c sa T hS hc
    simp only [List.map_cons, List.sum_cons, List.length_cons]
    rw [Nat.mul_add (S * A), Nat.add_mul (S * A * T), Nat.add_mul (S * A * T * (Dec.ONE - c))]
    rw [Nat.add_mul Ts.length 1 (Dec.ONE * Dec.ONE * YEAR + YEAR * (Dec.ONE - c) * sa), Nat.one_mul]
    have e1 : (creditOf S A c sa T + (Ts.map (creditOf S A c sa)).sum + (Ts.length + 1)) * (S * Dec.ONE * Dec.ONE * YEAR)
        = (creditOf S A c sa T + 1) * (S * Dec.ONE * Dec.ONE * YEAR)
          + ((Ts.map (creditOf S A c sa)).sum + Ts.length) * (S * Dec.ONE * Dec.ONE * YEAR) := by
      rw [← Nat.add_mul]; congr 1; omega
    rw [e1]
    omega

end Staking
end CwMt
