import CwMt.Model.TxSite
import CwMt.Gen.TxSites
/- The write-cache placement read from the current sources is the one CwMt/Model/EngineTx.lean transcribes. -/
namespace CwMt.TxSites
open CwMt

theorem sites_as_modelled : Gen.Tx.sites = expectedTxSites := by decide

end CwMt.TxSites
