import CwMt.Model.Bech32
/-
  Proofs about the Bech32 model (property C18).

  Part A: checksum algebra. DESIGN.md section 4 allows four bit-vector facts to be closed by
  `bv_decide` (XOR-linearity of the step, injectivity of the zero-input step, six steps from state 0
  pack six symbols, unpack ∘ pack = id). All four are proved here by bit extensionality instead
  (`step_linear`, `step_zero_inj`, `six_steps_pack`, `unpack_pack`), so that nothing in C18 depends
  on `bv_decide` / `Lean.ofReduceBool`: the axioms are propext, Classical.choice, Quot.sound only.
-/
namespace CwMt.Bech32

/-- six symbols packed into a 30-bit residue, first symbol most significant -/
def pack6 (e0 e1 e2 e3 e4 e5 : Sym) : BitVec 30 :=
  (e0.setWidth 30 <<< 25) ||| (e1.setWidth 30 <<< 20) ||| (e2.setWidth 30 <<< 15) |||
  (e3.setWidth 30 <<< 10) ||| (e4.setWidth 30 <<< 5) ||| e5.setWidth 30

/-! ### (1) the checksum step is XOR-linear in (state, input) -/

def stepA (r : BitVec 30) : BitVec 30 := (r &&& 0x1ffffff#30) <<< 5
def stepG (g : BitVec 30) (i : Nat) (r : BitVec 30) : BitVec 30 := if r.getLsbD i then g else 0

theorem step_eq_xor (r : BitVec 30) (e : Sym) :
    step r e = stepA r ^^^ e.setWidth 30 ^^^ stepG gen0 25 r ^^^ stepG gen1 26 r ^^^ stepG gen2 27 r
      ^^^ stepG gen3 28 r ^^^ stepG gen4 29 r := by
  unfold step stepG stepA
  have : ((r &&& 0x1ffffff#30) <<< 5) ||| e.setWidth 30 = ((r &&& 0x1ffffff#30) <<< 5) ^^^ e.setWidth 30 := by
    apply BitVec.eq_of_getLsbD_eq
    intro i hi
    have h : i = 0 ∨ i = 1 ∨ i = 2 ∨ i = 3 ∨ i = 4 ∨ i = 5 ∨ i = 6 ∨ i = 7 ∨ i = 8 ∨ i = 9 ∨ i = 10 ∨ i = 11 ∨ i = 12 ∨ i = 13 ∨ i = 14 ∨ i = 15 ∨ i = 16 ∨ i = 17 ∨ i = 18 ∨ i = 19 ∨ i = 20 ∨ i = 21 ∨ i = 22 ∨ i = 23 ∨ i = 24 ∨ i = 25 ∨ i = 26 ∨ i = 27 ∨ i = 28 ∨ i = 29 := by omega
    rcases h with rfl|rfl|rfl|rfl|rfl|rfl|rfl|rfl|rfl|rfl|rfl|rfl|rfl|rfl|rfl|rfl|rfl|rfl|rfl|rfl|rfl|rfl|rfl|rfl|rfl|rfl|rfl|rfl|rfl|rfl <;> simp
  rw [this]

theorem stepA_xor (a b : BitVec 30) : stepA (a ^^^ b) = stepA a ^^^ stepA b := by
  unfold stepA
  apply BitVec.eq_of_getLsbD_eq
  intro i hi
  simp only [BitVec.getLsbD_xor, BitVec.getLsbD_shiftLeft, BitVec.getLsbD_and]
  cases a.getLsbD (i - 5) <;> cases b.getLsbD (i - 5) <;> simp

theorem stepG_xor (g : BitVec 30) (i : Nat) (a b : BitVec 30) :
    stepG g i (a ^^^ b) = stepG g i a ^^^ stepG g i b := by
  unfold stepG
  rw [BitVec.getLsbD_xor]
  cases a.getLsbD i <;> cases b.getLsbD i <;> simp

theorem setWidth_xor30 (x y : Sym) : (x ^^^ y).setWidth 30 = x.setWidth 30 ^^^ y.setWidth 30 := by
  apply BitVec.eq_of_getLsbD_eq
  intro i hi
  simp

theorem step_linear (a b : BitVec 30) (x y : Sym) :
    step (a ^^^ b) (x ^^^ y) = step a x ^^^ step b y := by
  simp only [step_eq_xor, stepA_xor, stepG_xor, setWidth_xor30]
  ac_rfl

/-! ### (3) six steps from state 0 pack the six input symbols -/

theorem step_small (r : BitVec 30) (e : Sym) (h : r >>> 25 = 0) :
    step r e = (r <<< 5) ||| e.setWidth 30 := by
  have hb : ∀ j, 25 ≤ j → r.getLsbD j = false := by
    intro j hj
    by_cases hj30 : j < 30
    · have := congrArg (fun x => x.getLsbD (j - 25)) h
      simp at this
      have e : 25 + (j - 25) = j := by omega
      rw [e] at this; exact this
    · exact BitVec.getLsbD_of_ge _ _ (by omega)
  unfold step
  simp only [hb 25 (by omega), hb 26 (by omega), hb 27 (by omega), hb 28 (by omega), hb 29 (by omega)]
  simp only [Bool.false_eq_true, ↓reduceIte]
  apply BitVec.eq_of_getLsbD_eq
  intro i hi
  have h : i = 0 ∨ i = 1 ∨ i = 2 ∨ i = 3 ∨ i = 4 ∨ i = 5 ∨ i = 6 ∨ i = 7 ∨ i = 8 ∨ i = 9 ∨ i = 10 ∨ i = 11 ∨ i = 12 ∨ i = 13 ∨ i = 14 ∨ i = 15 ∨ i = 16 ∨ i = 17 ∨ i = 18 ∨ i = 19 ∨ i = 20 ∨ i = 21 ∨ i = 22 ∨ i = 23 ∨ i = 24 ∨ i = 25 ∨ i = 26 ∨ i = 27 ∨ i = 28 ∨ i = 29 := by omega
  rcases h with rfl|rfl|rfl|rfl|rfl|rfl|rfl|rfl|rfl|rfl|rfl|rfl|rfl|rfl|rfl|rfl|rfl|rfl|rfl|rfl|rfl|rfl|rfl|rfl|rfl|rfl|rfl|rfl|rfl|rfl <;> simp

theorem shr25_zero (x : BitVec 30) (h : ∀ j, j < 5 → x.getLsbD (25 + j) = false) : x >>> 25 = 0 := by
  apply BitVec.eq_of_getLsbD_eq
  intro i hi
  by_cases h5 : i < 5
  · simp [h i h5]
  · simp; exact BitVec.getLsbD_of_ge _ _ (by omega)


theorem six_steps_pack (e0 e1 e2 e3 e4 e5 : Sym) :
    [e0, e1, e2, e3, e4, e5].foldl step 0 = pack6 e0 e1 e2 e3 e4 e5 := by
  simp only [List.foldl]
  have five : ∀ j, j < 5 → (j = 0 ∨ j = 1 ∨ j = 2 ∨ j = 3 ∨ j = 4) := by intro j hj; omega
  rw [step_small 0 e0 (by decide)]
  rw [step_small _ e1 (shr25_zero _ (by intro j hj; rcases five j hj with rfl|rfl|rfl|rfl|rfl <;> simp))]
  rw [step_small _ e2 (shr25_zero _ (by intro j hj; rcases five j hj with rfl|rfl|rfl|rfl|rfl <;> simp))]
  rw [step_small _ e3 (shr25_zero _ (by intro j hj; rcases five j hj with rfl|rfl|rfl|rfl|rfl <;> simp))]
  rw [step_small _ e4 (shr25_zero _ (by intro j hj; rcases five j hj with rfl|rfl|rfl|rfl|rfl <;> simp))]
  rw [step_small _ e5 (shr25_zero _ (by intro j hj; rcases five j hj with rfl|rfl|rfl|rfl|rfl <;> simp))]
  unfold pack6
  apply BitVec.eq_of_getLsbD_eq
  intro i hi
  have h : i = 0 ∨ i = 1 ∨ i = 2 ∨ i = 3 ∨ i = 4 ∨ i = 5 ∨ i = 6 ∨ i = 7 ∨ i = 8 ∨ i = 9 ∨ i = 10 ∨ i = 11 ∨ i = 12 ∨ i = 13 ∨ i = 14 ∨ i = 15 ∨ i = 16 ∨ i = 17 ∨ i = 18 ∨ i = 19 ∨ i = 20 ∨ i = 21 ∨ i = 22 ∨ i = 23 ∨ i = 24 ∨ i = 25 ∨ i = 26 ∨ i = 27 ∨ i = 28 ∨ i = 29 := by omega
  rcases h with rfl|rfl|rfl|rfl|rfl|rfl|rfl|rfl|rfl|rfl|rfl|rfl|rfl|rfl|rfl|rfl|rfl|rfl|rfl|rfl|rfl|rfl|rfl|rfl|rfl|rfl|rfl|rfl|rfl|rfl <;> simp

/-! ### (4) unpack ∘ pack = id, and pack ∘ unpack = id -/

theorem unpack_pack (e0 e1 e2 e3 e4 e5 : Sym) :
    unpack6 (pack6 e0 e1 e2 e3 e4 e5) = [e0, e1, e2, e3, e4, e5] := by
  unfold unpack6 pack6
  simp only [List.cons.injEq, and_true]
  refine ⟨?_, ?_, ?_, ?_, ?_, ?_⟩ <;>
  · apply BitVec.eq_of_getLsbD_eq
    intro i hi
    have h : i = 0 ∨ i = 1 ∨ i = 2 ∨ i = 3 ∨ i = 4 := by omega
    rcases h with rfl|rfl|rfl|rfl|rfl <;> simp


/-! ### (2) the zero-input step is injective -/

def lowG (c0 c1 c2 c3 c4 : Bool) : BitVec 5 :=
  ((if c0 then gen0 else 0) ^^^ (if c1 then gen1 else 0) ^^^ (if c2 then gen2 else 0)
    ^^^ (if c3 then gen3 else 0) ^^^ (if c4 then gen4 else 0)).setWidth 5

theorem lowG_inj : ∀ c0 c1 c2 c3 c4 : Bool, lowG c0 c1 c2 c3 c4 = 0 →
    c0 = false ∧ c1 = false ∧ c2 = false ∧ c3 = false ∧ c4 = false := by decide

theorem step_zero_low (d : BitVec 30) :
    (step d 0).setWidth 5 = lowG (d.getLsbD 25) (d.getLsbD 26) (d.getLsbD 27) (d.getLsbD 28) (d.getLsbD 29) := by
  rw [step_eq_xor]
  unfold lowG stepG stepA
  apply BitVec.eq_of_getLsbD_eq
  intro i hi
  have h : i = 0 ∨ i = 1 ∨ i = 2 ∨ i = 3 ∨ i = 4 := by omega
  rcases h with rfl|rfl|rfl|rfl|rfl <;> simp

theorem step_zero_ker (d : BitVec 30) (h : step d 0 = 0) : d = 0 := by
  have hl := step_zero_low d
  rw [h] at hl
  have hz := lowG_inj _ _ _ _ _ hl.symm
  obtain ⟨h25, h26, h27, h28, h29⟩ := hz
  simp at h25 h26 h27 h28 h29
  have hs : d >>> 25 = 0 := by
    apply shr25_zero
    intro j hj
    have : j = 0 ∨ j = 1 ∨ j = 2 ∨ j = 3 ∨ j = 4 := by omega
    rcases this with rfl|rfl|rfl|rfl|rfl <;> simp [h25, h26, h27, h28, h29]
  rw [step_small d 0 hs] at h
  apply BitVec.eq_of_getLsbD_eq
  intro i hi
  by_cases hi25 : i < 25
  · have := congrArg (fun x => x.getLsbD (i + 5)) h
    simp at this
    simpa using this (by omega)
  · have hh : i = 25 ∨ i = 26 ∨ i = 27 ∨ i = 28 ∨ i = 29 := by omega
    rcases hh with rfl|rfl|rfl|rfl|rfl <;> simp [h25, h26, h27, h28, h29]

theorem step_zero_inj (a b : BitVec 30) (h : step a 0 = step b 0) : a = b := by
  have h1 : step (a ^^^ b) (0 ^^^ 0) = step a 0 ^^^ step b 0 := step_linear a b 0 0
  rw [h, BitVec.xor_self, BitVec.xor_self] at h1
  have h3 := step_zero_ker _ h1
  have : a ^^^ b ^^^ b = 0 ^^^ b := by rw [h3]
  simpa [BitVec.xor_assoc] using this

/-- pack ∘ unpack = id (bit extensionality, 30 positions) -/
theorem pack_unpack (r : BitVec 30) :
    pack6 ((r >>> 25).setWidth 5) ((r >>> 20).setWidth 5) ((r >>> 15).setWidth 5)
      ((r >>> 10).setWidth 5) ((r >>> 5).setWidth 5) (r.setWidth 5) = r := by
  unfold pack6
  apply BitVec.eq_of_getLsbD_eq
  intro i hi
  have h : i = 0 ∨ i = 1 ∨ i = 2 ∨ i = 3 ∨ i = 4 ∨ i = 5 ∨ i = 6 ∨ i = 7 ∨ i = 8 ∨ i = 9 ∨ i = 10 ∨ i = 11 ∨ i = 12 ∨ i = 13 ∨ i = 14 ∨ i = 15 ∨ i = 16 ∨ i = 17 ∨ i = 18 ∨ i = 19 ∨ i = 20 ∨ i = 21 ∨ i = 22 ∨ i = 23 ∨ i = 24 ∨ i = 25 ∨ i = 26 ∨ i = 27 ∨ i = 28 ∨ i = 29 := by omega
  rcases h with rfl|rfl|rfl|rfl|rfl|rfl|rfl|rfl|rfl|rfl|rfl|rfl|rfl|rfl|rfl|rfl|rfl|rfl|rfl|rfl|rfl|rfl|rfl|rfl|rfl|rfl|rfl|rfl|rfl|rfl <;> simp

theorem step_zero_zero : step 0 0 = 0 := by decide

theorem step_zero_sym : ∀ e : Sym, step 0 e = 0 → e = 0 := by decide

theorem step_inj_state (a b : BitVec 30) (x : Sym) (h : step a x = step b x) : a = b := by
  have h1 : step (a ^^^ b) (x ^^^ x) = step a x ^^^ step b x := step_linear a b x x
  rw [h, BitVec.xor_self, BitVec.xor_self] at h1
  have h2 : step (a ^^^ b) 0 = step 0 0 := by rw [step_zero_zero]; exact h1
  have h3 := step_zero_inj _ _ h2
  have : a ^^^ b ^^^ b = 0 ^^^ b := by rw [h3]
  simpa [BitVec.xor_assoc] using this

theorem step_inj_sym (a : BitVec 30) (x y : Sym) (h : step a x = step a y) : x = y := by
  have h1 : step (a ^^^ a) (x ^^^ y) = step a x ^^^ step a y := step_linear a a x y
  rw [h, BitVec.xor_self, BitVec.xor_self] at h1
  have h2 := step_zero_sym _ h1
  have : x ^^^ y ^^^ y = 0 ^^^ y := by rw [h2]
  simpa [BitVec.xor_assoc] using this

/-- feeding a list of symbols -/
def steps (r : BitVec 30) (vs : List Sym) : BitVec 30 := vs.foldl step r

theorem polymod_eq_steps (vs : List Sym) : polymod vs = steps 1 vs := rfl

theorem steps_append (r : BitVec 30) (xs ys : List Sym) :
    steps r (xs ++ ys) = steps (steps r xs) ys := by simp [steps, List.foldl_append]

theorem steps_cons (r : BitVec 30) (x : Sym) (xs : List Sym) :
    steps r (x :: xs) = steps (step r x) xs := rfl

theorem steps_inj_state (xs : List Sym) : ∀ a b, steps a xs = steps b xs → a = b := by
  induction xs with
  | nil => intro a b h; exact h
  | cons x xs ih => intro a b h; exact step_inj_state _ _ _ (ih _ _ h)

theorem steps_xor (xs : List Sym) : ∀ a b : BitVec 30,
    steps (a ^^^ b) xs = steps a (xs.map fun _ => 0) ^^^ steps b xs := by
  induction xs with
  | nil => intro a b; rfl
  | cons x xs ih =>
    intro a b
    have h : step (a ^^^ b) (0 ^^^ x) = step a 0 ^^^ step b x := step_linear a b 0 x
    simp only [List.map_cons, steps_cons]
    have e : (0 : Sym) ^^^ x = x := by simp
    rw [e] at h
    rw [h, ih]

/-- six zero steps -/
def zero6 (r : BitVec 30) : BitVec 30 := steps r [0, 0, 0, 0, 0, 0]

/-- six steps = six zero steps xor the packed inputs -/
theorem six_lin (S : BitVec 30) (e0 e1 e2 e3 e4 e5 : Sym) :
    steps S [e0, e1, e2, e3, e4, e5] = zero6 S ^^^ pack6 e0 e1 e2 e3 e4 e5 := by
  have h := steps_xor [e0, e1, e2, e3, e4, e5] S 0
  have e : S ^^^ (0 : BitVec 30) = S := by simp
  rw [e] at h
  rw [h, ← six_steps_pack]
  rfl

theorem steps_unpack6 (S r : BitVec 30) : steps S (unpack6 r) = zero6 S ^^^ r := by
  unfold unpack6
  rw [six_lin, pack_unpack]

/-- the created checksum in closed form -/
theorem createChecksum_eq (k : BitVec 30) (h : List Char) (data : List Sym) :
    createChecksum k h data = unpack6 (zero6 (polymod (hrpExpand h ++ data)) ^^^ k) := by
  unfold createChecksum
  rw [← steps_unpack6]
  rfl

theorem createChecksum_length (k : BitVec 30) (h : List Char) (data : List Sym) :
    (createChecksum k h data).length = 6 := by simp [createChecksum, unpack6]

/-- `checksum_verifies`: data followed by its checksum has the target residue -/
theorem checksum_verifies (k : BitVec 30) (h : List Char) (data : List Sym) :
    polymod (hrpExpand h ++ (data ++ createChecksum k h data)) = k := by
  rw [createChecksum_eq, ← List.append_assoc, polymod_eq_steps, steps_append, steps_unpack6,
    ← polymod_eq_steps, ← BitVec.xor_assoc, BitVec.xor_self, BitVec.zero_xor]

/-- the checksum is determined by the residue equation -/
theorem checksum_unique (k : BitVec 30) (h : List Char) (data c6 : List Sym) (hl : c6.length = 6)
    (hp : polymod (hrpExpand h ++ (data ++ c6)) = k) : c6 = createChecksum k h data := by
  match c6, hl with
  | [e0, e1, e2, e3, e4, e5], _ =>
    rw [← List.append_assoc, polymod_eq_steps, steps_append, six_lin, ← polymod_eq_steps] at hp
    rw [createChecksum_eq, ← hp, ← BitVec.xor_assoc, BitVec.xor_self, BitVec.zero_xor, unpack_pack]

/-- different target residues give different checksums for the same data -/
theorem createChecksum_const_inj (k k' : BitVec 30) (h : List Char) (data : List Sym)
    (he : createChecksum k h data = createChecksum k' h data) : k = k' := by
  have h1 := checksum_verifies k h data
  rw [he, checksum_verifies] at h1
  exact h1.symm

/-- a change of exactly one symbol changes the residue, whatever the position and the length -/
theorem single_error (S : BitVec 30) (pre post : List Sym) (a b : Sym) (hab : a ≠ b) :
    steps S (pre ++ a :: post) ≠ steps S (pre ++ b :: post) := by
  intro h
  rw [steps_append, steps_append, steps_cons, steps_cons] at h
  exact hab (step_inj_sym _ _ _ (steps_inj_state _ _ _ h))

/-! ### Part B: 8 ↔ 5 bit regrouping -/

theorem bits5_length (v : Sym) : (bits5 v).length = 5 := rfl
theorem bits8_length (b : UInt8) : (bits8 b).length = 8 := rfl

theorem mk5_bits5 : ∀ v : Sym,
    mk5 (v.getLsbD 4) (v.getLsbD 3) (v.getLsbD 2) (v.getLsbD 1) (v.getLsbD 0) = v := by decide

theorem bits5_mk5 : ∀ a b c d e : Bool, bits5 (mk5 a b c d e) = [a, b, c, d, e] := by decide

theorem mk8_bits8_bv : ∀ v : BitVec 8,
    BitVec.ofNat 8 (128 * (v.getLsbD 7).toNat + 64 * (v.getLsbD 6).toNat + 32 * (v.getLsbD 5).toNat
      + 16 * (v.getLsbD 4).toNat + 8 * (v.getLsbD 3).toNat + 4 * (v.getLsbD 2).toNat
      + 2 * (v.getLsbD 1).toNat + (v.getLsbD 0).toNat) = v := by decide

theorem mk8_bits8 (x : UInt8) :
    mk8 (x.toBitVec.getLsbD 7) (x.toBitVec.getLsbD 6) (x.toBitVec.getLsbD 5) (x.toBitVec.getLsbD 4)
      (x.toBitVec.getLsbD 3) (x.toBitVec.getLsbD 2) (x.toBitVec.getLsbD 1) (x.toBitVec.getLsbD 0) = x := by
  unfold mk8
  rw [mk8_bits8_bv]

theorem bits8_mk8 : ∀ a b c d e f g h : Bool,
    bits8 (mk8 a b c d e f g h) = [a, b, c, d, e, f, g, h] := by decide

theorem flatMap_bits5_length (fs : List Sym) : (fs.flatMap bits5).length = 5 * fs.length := by
  induction fs with
  | nil => rfl
  | cons f fs ih => simp [List.flatMap_cons, bits5_length, ih]; omega

theorem flatMap_bits8_length (bs : List UInt8) : (bs.flatMap bits8).length = 8 * bs.length := by
  induction bs with
  | nil => rfl
  | cons f fs ih => simp [List.flatMap_cons, bits8_length, ih]; omega

theorem chunks5_flatMap_bits5 (fs : List Sym) (rest : List Bool) :
    chunks5 (fs.flatMap bits5 ++ rest) = fs ++ chunks5 rest := by
  induction fs with
  | nil => rfl
  | cons f fs ih =>
    simp only [List.flatMap_cons, bits5, List.cons_append, List.nil_append, chunks5, ih, mk5_bits5]

theorem chunks8_flatMap_bits8 (bs : List UInt8) (rest : List Bool) :
    chunks8 (bs.flatMap bits8 ++ rest) = bs ++ chunks8 rest := by
  induction bs with
  | nil => rfl
  | cons f fs ih =>
    simp only [List.flatMap_cons, bits8, List.cons_append, List.nil_append, chunks8, ih, mk8_bits8]

theorem chunks8_short (l : List Bool) (h : l.length < 8) : chunks8 l = [] := by
  unfold chunks8
  split
  · simp at h; omega
  · rfl

theorem chunks5_length (l : List Bool) : (chunks5 l).length = (l.length + 4) / 5 := by
  fun_induction chunks5 l <;> simp_all <;> omega

theorem bytesToFes_length (bs : List UInt8) : (bytesToFes bs).length = (8 * bs.length + 4) / 5 := by
  rw [bytesToFes, chunks5_length, flatMap_bits8_length]

/-- regrouping back gives the bits followed by the zero padding -/
theorem flatMap_bits5_chunks5 (l : List Bool) :
    (chunks5 l).flatMap bits5 = l ++ List.replicate ((5 - l.length % 5) % 5) false := by
  fun_induction chunks5 l with
  | case1 a b c d e rest ih =>
    have : (a :: b :: c :: d :: e :: rest).length % 5 = rest.length % 5 := by simp; omega
    rw [this, List.flatMap_cons, ih, bits5_mk5]; rfl
  | case2 a b c d => simp [bits5_mk5]
  | case3 a b c => simp [bits5_mk5]
  | case4 a b => simp [bits5_mk5]
  | case5 a => simp [bits5_mk5]
  | case6 => rfl

/-- `regroup_8_5_8`: bytes → symbols → bytes is the identity -/
theorem fesToBytes_bytesToFes (bs : List UInt8) : fesToBytes (bytesToFes bs) = bs := by
  unfold fesToBytes bytesToFes
  rw [flatMap_bits5_chunks5, chunks8_flatMap_bits8, chunks8_short]
  · simp
  · simp; omega

theorem bytesToFes_inj (a b : List UInt8) (h : bytesToFes a = bytesToFes b) : a = b := by
  rw [← fesToBytes_bytesToFes a, h, fesToBytes_bytesToFes]

/-- what `chunks8` keeps -/
theorem flatMap_bits8_chunks8 (l : List Bool) :
    (chunks8 l).flatMap bits8 = l.take (8 * (l.length / 8)) := by
  fun_induction chunks8 l with
  | case1 a b c d e f g h rest ih =>
    have : (a :: b :: c :: d :: e :: f :: g :: h :: rest).length / 8 = rest.length / 8 + 1 := by
      simp; omega
    rw [this, List.flatMap_cons, ih, bits8_mk8]
    simp [Nat.mul_add]
  | case2 l hl =>
    have : l.length < 8 := by
      match l, hl with
      | [], _ => simp
      | [_], _ => simp
      | [_, _], _ => simp
      | [_, _, _], _ => simp
      | [_, _, _, _], _ => simp
      | [_, _, _, _, _], _ => simp
      | [_, _, _, _, _, _], _ => simp
      | [_, _, _, _, _, _, _], _ => simp
      | a :: b :: c :: d :: e :: f :: g :: h :: rest, hl => exact absurd rfl (hl a b c d e f g h rest)
    have : l.length / 8 = 0 := by omega
    simp [this]

theorem chunks5_pad (l : List Bool) :
    chunks5 (l ++ List.replicate ((5 - l.length % 5) % 5) false) = chunks5 l := by
  fun_induction chunks5 l with
  | case1 a b c d e rest ih =>
    have : (a :: b :: c :: d :: e :: rest).length % 5 = rest.length % 5 := by simp; omega
    rw [this]; simp only [List.cons_append, chunks5, ih]
  | case2 a b c d => simp [chunks5]
  | case3 a b c => simp [chunks5]
  | case4 a b => simp [chunks5]
  | case5 a => simp [chunks5]
  | case6 => rfl

theorem all_false_eq_replicate (l : List Bool) (h : l.all (· == false) = true) :
    l = List.replicate l.length false := by
  induction l with
  | nil => rfl
  | cons a l ih => simp at h; simp [List.replicate, h.1]; apply ih; simpa using h.2

/-- canonical padding is exactly what makes re-encoding reproduce the symbols -/
theorem bytesToFes_fesToBytes (fs : List Sym) (h : strictPad fs = true) :
    bytesToFes (fesToBytes fs) = fs := by
  unfold bytesToFes fesToBytes
  rw [flatMap_bits8_chunks8]
  have h' : (leftover fs).length < 5 ∧ (leftover fs).all (· == false) = true := by
    simpa [strictPad] using h
  unfold leftover at h'
  obtain ⟨h1, h2⟩ := h'
  obtain ⟨B, hB⟩ : ∃ B, fs.flatMap bits5 = B := ⟨_, rfl⟩
  rw [hB] at h1 h2 ⊢
  have hlen : B.length = 5 * fs.length := by rw [← hB, flatMap_bits5_length]
  have hsplit : B = B.take (8 * (B.length / 8)) ++ B.drop (8 * (B.length / 8)) := (List.take_append_drop _ _).symm
  have hL := all_false_eq_replicate _ h2
  have hk : (B.drop (8 * (B.length / 8))).length
      = (5 - (B.take (8 * (B.length / 8))).length % 5) % 5 := by
    simp only [List.length_drop, List.length_take] at h1 ⊢
    omega
  have : chunks5 B = chunks5 (B.take (8 * (B.length / 8))) := by
    conv => lhs; rw [hsplit, hL, hk]
    exact chunks5_pad _
  rw [← this, ← hB]
  have := chunks5_flatMap_bits5 fs []
  simpa [chunks5] using this

theorem strictPad_bytesToFes (bs : List UInt8) : strictPad (bytesToFes bs) = true := by
  unfold strictPad leftover bytesToFes
  rw [flatMap_bits5_chunks5]
  have hl := flatMap_bits8_length bs
  generalize bs.flatMap bits8 = B at *
  have hk : (5 - B.length % 5) % 5 < 5 := by omega
  generalize (5 - B.length % 5) % 5 = k at *
  have : 8 * ((B ++ List.replicate k false).length / 8) = B.length := by simp; omega
  rw [this]
  simp
  omega


/-! ### Part C: characters, separator search, data part -/

theorem symOf_charOf : ∀ v : Sym, symOf (charOf v) = some v := by decide
theorem charOf_ne_one : ∀ v : Sym, charOf v ≠ '1' := by decide
theorem charOf_not_upper : ∀ v : Sym, (charOf v).isUpper = false := by decide
theorem symOf_one : symOf '1' = none := by decide

theorem charOf_inj (a b : Sym) (h : charOf a = charOf b) : a = b := by
  have := symOf_charOf a
  rw [h, symOf_charOf] at this
  exact (Option.some.inj this).symm

theorem map_charOf_inj (a b : List Sym) (h : a.map charOf = b.map charOf) : a = b := by
  induction a generalizing b with
  | nil => cases b <;> simp_all
  | cons x xs ih =>
    cases b with
    | nil => simp at h
    | cons y ys =>
      simp only [List.map_cons, List.cons.injEq] at h
      rw [charOf_inj _ _ h.1, ih _ h.2]

theorem toLower_of_not_upper (c : Char) (h : c.isUpper = false) : c.toLower = c := by
  unfold Char.isUpper at h
  unfold Char.toLower
  simp only [decide_eq_false_iff_not] at h
  rw [dif_neg h]

theorem toLower_not_upper (c : Char) : c.toLower.isUpper = false := by
  unfold Char.isUpper Char.toLower
  split
  · rename_i h
    simp only [decide_eq_false_iff_not]
    rintro ⟨h1, h2⟩
    obtain ⟨h3, h4⟩ := h
    simp only [ge_iff_le, UInt32.le_iff_toNat_le, UInt32.toNat_add, UInt32.toNat_sub] at h1 h2 h3 h4
    have e1 : 'A'.val.toNat = 65 := by decide
    have e2 : 'Z'.val.toNat = 90 := by decide
    have e3 : 'a'.val.toNat = 97 := by decide
    simp only [e1, e2, e3] at h1 h2 h3 h4
    omega
  · rename_i h; simpa using h

theorem toLower_idem (c : Char) : c.toLower.toLower = c.toLower :=
  toLower_of_not_upper _ (toLower_not_upper c)

theorem symOf_some_charOf (c : Char) (v : Sym) (h : symOf c = some v) : charOf v = c.toLower := by
  unfold symOf at h
  simp only at h
  split at h
  · rename_i hlt
    have hv := Option.some.inj h
    subst hv
    have hlen : charset.length = 32 := rfl
    have hlt' : List.idxOf c.toLower charset < charset.length := by rw [hlen]; exact hlt
    unfold charOf
    have : (BitVec.ofNat 5 (List.idxOf c.toLower charset)).toNat = List.idxOf c.toLower charset := by
      simp [BitVec.toNat_ofNat]; omega
    rw [this, List.getD_eq_getElem?_getD, List.getElem?_eq_getElem hlt', Option.getD_some]
    exact List.getElem_idxOf hlt'
  · cases h

theorem symOf_ne_one (c : Char) (v : Sym) (h : symOf c = some v) : c ≠ '1' := by
  intro hc; subst hc; rw [symOf_one] at h; cases h

theorem symsOf_cons_some (c : Char) (cs : List Char) (s : List Sym) :
    symsOf (c :: cs) = some s ↔ ∃ v vs, symOf c = some v ∧ symsOf cs = some vs ∧ s = v :: vs := by
  simp only [symsOf]
  split
  · rename_i v vs h1 h2
    constructor
    · intro h; exact ⟨v, vs, h1, h2, (Option.some.inj h).symm⟩
    · rintro ⟨v', vs', h1', h2', rfl⟩
      rw [h1] at h1'; rw [h2] at h2'
      cases h1'; cases h2'; rfl
  · rename_i hno
    constructor
    · intro h; cases h
    · rintro ⟨v', vs', h1', h2', rfl⟩
      exact absurd h2' (hno v' vs' h1')

theorem symsOf_map_charOf (vs : List Sym) : symsOf (vs.map charOf) = some vs := by
  induction vs with
  | nil => rfl
  | cons v vs ih => rw [List.map_cons, symsOf_cons_some]; exact ⟨v, vs, symOf_charOf v, ih, rfl⟩

theorem symsOf_append_some (a b : List Char) (s : List Sym) :
    symsOf (a ++ b) = some s ↔ ∃ sa sb, symsOf a = some sa ∧ symsOf b = some sb ∧ s = sa ++ sb := by
  induction a generalizing s with
  | nil => simp [symsOf]
  | cons c cs ih =>
    rw [List.cons_append, symsOf_cons_some]
    constructor
    · rintro ⟨v, vs, h1, h2, rfl⟩
      obtain ⟨sa, sb, h3, h4, rfl⟩ := (ih vs).mp h2
      exact ⟨v :: sa, sb, (symsOf_cons_some _ _ _).mpr ⟨v, sa, h1, h3, rfl⟩, h4, rfl⟩
    · rintro ⟨sa, sb, h1, h2, rfl⟩
      obtain ⟨v, vs, h3, h4, rfl⟩ := (symsOf_cons_some _ _ _).mp h1
      exact ⟨v, vs ++ sb, h3, (ih _).mpr ⟨vs, sb, h4, h2, rfl⟩, rfl⟩

theorem symsOf_length (d : List Char) (s : List Sym) (h : symsOf d = some s) : s.length = d.length := by
  induction d generalizing s with
  | nil => simp [symsOf] at h; subst h; rfl
  | cons c cs ih =>
    obtain ⟨v, vs, _, h2, rfl⟩ := (symsOf_cons_some _ _ _).mp h
    simp [ih vs h2]

theorem symsOf_no_one (d : List Char) (s : List Sym) (h : symsOf d = some s) : '1' ∉ d := by
  induction d generalizing s with
  | nil => simp
  | cons c cs ih =>
    obtain ⟨v, vs, h1, h2, rfl⟩ := (symsOf_cons_some _ _ _).mp h
    simp only [List.mem_cons, not_or]
    exact ⟨fun e => symOf_ne_one c v h1 e.symm, ih vs h2⟩

theorem symsOf_lower_eq (d : List Char) (s : List Sym) (h : symsOf d = some s)
    (hu : hasUpper d = false) : d = s.map charOf := by
  induction d generalizing s with
  | nil => simp [symsOf] at h; subst h; rfl
  | cons c cs ih =>
    obtain ⟨v, vs, h1, h2, rfl⟩ := (symsOf_cons_some _ _ _).mp h
    simp only [hasUpper, List.any_cons, Bool.or_eq_false_iff] at hu
    rw [List.map_cons, symOf_some_charOf c v h1, toLower_of_not_upper c hu.1, ← ih vs h2 hu.2]

theorem hasUpper_append (a b : List Char) : hasUpper (a ++ b) = (hasUpper a || hasUpper b) := by
  simp [hasUpper]

theorem hasUpper_map_charOf (vs : List Sym) : hasUpper (vs.map charOf) = false := by
  simp [hasUpper, charOf_not_upper]

theorem one_not_mem_map_charOf (vs : List Sym) : '1' ∉ vs.map charOf := by
  simp only [List.mem_map, not_exists, not_and]
  intro v _ h; exact charOf_ne_one v h

theorem lower_eq_self (p : List Char) (h : hasUpper p = false) : lower p = p := by
  induction p with
  | nil => rfl
  | cons c cs ih =>
    simp only [hasUpper, List.any_cons, Bool.or_eq_false_iff] at h
    simp only [lower, List.map_cons, toLower_of_not_upper c h.1]
    congr 1; exact ih h.2

theorem hasUpper_lower (p : List Char) : hasUpper (lower p) = false := by
  simp [hasUpper, lower, toLower_not_upper]

theorem lower_length (p : List Char) : (lower p).length = p.length := by simp [lower]

theorem hrpExpand_lower (h : List Char) : hrpExpand (lower h) = hrpExpand h := by
  simp [hrpExpand, lower, List.map_map, Function.comp_def, toLower_idem]

theorem splitLast1_none (d : List Char) (h : '1' ∉ d) : splitLast1 d = none := by
  induction d with
  | nil => rfl
  | cons c cs ih =>
    simp only [List.mem_cons, not_or] at h
    simp only [splitLast1, ih h.2]
    rw [if_neg (fun e => h.1 e.symm)]

theorem splitLast1_append (h d : List Char) (hd : '1' ∉ d) :
    splitLast1 (h ++ '1' :: d) = some (h, d) := by
  induction h with
  | nil => simp [splitLast1, splitLast1_none d hd]
  | cons c cs ih => simp [splitLast1, ih]

theorem splitLast1_spec (s h d : List Char) (hs : splitLast1 s = some (h, d)) :
    s = h ++ '1' :: d ∧ '1' ∉ d := by
  induction s generalizing h with
  | nil => simp [splitLast1] at hs
  | cons c cs ih =>
    simp only [splitLast1] at hs
    split at hs
    · rename_i h' d' heq
      simp only [Option.some.injEq, Prod.mk.injEq] at hs
      obtain ⟨rfl, rfl⟩ := hs
      obtain ⟨h1, h2⟩ := ih h' heq
      exact ⟨by rw [h1]; rfl, h2⟩
    · rename_i heq
      split at hs
      · rename_i hc
        simp only [Option.some.injEq, Prod.mk.injEq] at hs
        obtain ⟨rfl, rfl⟩ := hs
        subst hc
        refine ⟨rfl, ?_⟩
        intro hmem
        -- a later separator would have been found
        have : ∃ a b, cs = a ++ '1' :: b ∧ '1' ∉ b := by
          clear heq ih
          induction cs with
          | nil => simp at hmem
          | cons x xs ih2 =>
            by_cases hx : '1' ∈ xs
            · obtain ⟨a, b, h1, h2⟩ := ih2 hx
              exact ⟨x :: a, b, by rw [h1]; rfl, h2⟩
            · simp only [List.mem_cons] at hmem
              rcases hmem with rfl | hmem
              · exact ⟨[], xs, rfl, hx⟩
              · exact absurd hmem hx
        obtain ⟨a, b, h1, h2⟩ := this
        rw [h1, splitLast1_append a b h2] at heq
        cases heq
      · cases hs


/-! ### Part D: encode / decode and the `Api` functions -/

/-- a prefix in the sense of reading R4: a valid HRP that is its own lowercase form -/
def ValidPrefix (p : List Char) : Prop := hrpValid p = true ∧ hasUpper p = false

instance (p : List Char) : Decidable (ValidPrefix p) := by unfold ValidPrefix; exact inferInstance

theorem encode_some_iff (k : BitVec 30) (p : List Char) (bs : List UInt8) (s : List Char) :
    encode k p bs = some s ↔
      p.length + 1 + (bytesToFes bs).length + 6 ≤ codeLength ∧
      s = lower p ++ '1' :: ((bytesToFes bs) ++ createChecksum k p (bytesToFes bs)).map charOf := by
  unfold encode
  simp only
  split
  · rename_i h; constructor
    · intro h'; cases h'
    · rintro ⟨h1, _⟩; omega
  · rename_i h; constructor
    · intro h'; exact ⟨by omega, (Option.some.inj h').symm⟩
    · rintro ⟨_, h2⟩; rw [h2]

theorem encode_length (k : BitVec 30) (p : List Char) (bs : List UInt8) (s : List Char)
    (h : encode k p bs = some s) : s.length = p.length + 1 + (bytesToFes bs).length + 6 := by
  obtain ⟨_, rfl⟩ := (encode_some_iff _ _ _ _).mp h
  simp [lower_length, createChecksum_length]; omega

theorem encode_no_upper (k : BitVec 30) (p : List Char) (bs : List UInt8) (s : List Char)
    (h : encode k p bs = some s) : hasUpper s = false := by
  obtain ⟨_, rfl⟩ := (encode_some_iff _ _ _ _).mp h
  rw [hasUpper_append, hasUpper_lower]
  have : hasUpper ('1' :: List.map charOf (bytesToFes bs ++ createChecksum k p (bytesToFes bs)))
      = hasUpper (List.map charOf (bytesToFes bs ++ createChecksum k p (bytesToFes bs))) := by
    simp [hasUpper]
  rw [this, hasUpper_map_charOf]; rfl

/-- decoding an encoded string gives back the prefix and the data symbols -/
theorem decode_encode (k : BitVec 30) (p : List Char) (bs : List UInt8) (s : List Char)
    (hp : ValidPrefix p) (h : encode k p bs = some s) :
    decodeChecked k s = some (p, bytesToFes bs) := by
  have hu := encode_no_upper _ _ _ _ h
  have hlen := encode_length _ _ _ _ h
  obtain ⟨hcl, hs⟩ := (encode_some_iff _ _ _ _).mp h
  rw [lower_eq_self p hp.2] at hs
  have hsplit : splitLast1 s = some (p, ((bytesToFes bs) ++ createChecksum k p (bytesToFes bs)).map charOf) := by
    rw [hs]; exact splitLast1_append _ _ (one_not_mem_map_charOf _)
  unfold decodeChecked
  rw [hsplit]
  simp only [symsOf_map_charOf, hu, Bool.false_and, Bool.false_eq_true, ↓reduceIte, hp.1,
    Bool.not_true, checksum_verifies, bne_self_eq_false, List.length_append,
    createChecksum_length]
  have h1 : ¬ (s.length > codeLength) := by omega
  have h2 : ¬ ((bytesToFes bs).length + 6 < 6) := by omega
  simp only [h1, h2, ↓reduceIte, Nat.add_sub_cancel, List.take_left']

theorem humanize_ok_iff (v : Variant) (p : List Char) (bs : List UInt8) (s : List Char) :
    addrHumanize v p bs = .ok s ↔
      lengthOk v bs.length = true ∧ hrpValid p = true ∧ encode (constOf v) p bs = some s := by
  unfold addrHumanize
  cases h1 : lengthOk v bs.length <;> cases h2 : hrpValid p <;> simp
  cases h3 : encode (constOf v) p bs <;> simp

theorem prefixMatches_self (v : Variant) (p : List Char) : prefixMatches v p p = true := by
  cases v <;> simp [prefixMatches]

theorem canonicalize_of_encode (v : Variant) (p : List Char) (bs : List UInt8) (s : List Char)
    (hp : ValidPrefix p) (hl : lengthOk v bs.length = true) (h : encode (constOf v) p bs = some s) :
    addrCanonicalize v p s = .ok bs := by
  unfold addrCanonicalize
  rw [decode_encode _ _ _ _ hp h]
  simp [prefixMatches_self, fesToBytes_bytesToFes, hl]

/-- `C18.roundtrip` -/
theorem roundtrip (v : Variant) (p : List Char) (bs : List UInt8) (hp : ValidPrefix p)
    (hl : lengthOk v bs.length = true)
    (hc : p.length + 1 + (8 * bs.length + 4) / 5 + 6 ≤ codeLength) :
    ∃ s, addrHumanize v p bs = .ok s ∧ addrCanonicalize v p s = .ok bs := by
  have he : ∃ s, encode (constOf v) p bs = some s := by
    refine ⟨_, (encode_some_iff _ _ _ _).mpr ⟨?_, rfl⟩⟩
    rw [bytesToFes_length]; exact hc
  obtain ⟨s, hs⟩ := he
  exact ⟨s, (humanize_ok_iff _ _ _ _).mpr ⟨hl, hp.1, hs⟩, canonicalize_of_encode _ _ _ _ hp hl hs⟩

theorem hrpValid_length (p : List Char) (h : hrpValid p = true) : 1 ≤ p.length ∧ p.length ≤ 83 := by
  unfold hrpValid at h
  simp only [Bool.and_eq_true, Bool.not_eq_eq_eq_not, Bool.not_true, decide_eq_true_eq] at h
  obtain ⟨⟨⟨h1, h2⟩, _⟩, _⟩ := h
  refine ⟨?_, h2⟩
  cases p with
  | nil => simp at h1
  | cons _ _ => simp

/-- every canonical address of 1..=64 bytes (indeed up to 255) round-trips under every valid prefix -/
theorem roundtrip_1_64 (v : Variant) (p : List Char) (bs : List UInt8) (hp : ValidPrefix p)
    (h1 : 1 ≤ bs.length) (h2 : bs.length ≤ 255) :
    ∃ s, addrHumanize v p bs = .ok s ∧ addrCanonicalize v p s = .ok bs := by
  apply roundtrip v p bs hp
  · cases v <;> simp [lengthOk, h1, h2]
  · have := hrpValid_length p hp.1
    unfold codeLength; omega

theorem canonicalize_ok_elim (v : Variant) (p s : List Char) (bs : List UInt8)
    (hc : addrCanonicalize v p s = .ok bs) : ∃ h pl, decodeChecked (constOf v) s = some (h, pl) ∧
      prefixMatches v h p = true ∧ lengthOk v (fesToBytes pl).length = true ∧ bs = fesToBytes pl := by
  unfold addrCanonicalize at hc
  split at hc
  · cases hc
  · rename_i h pl heq
    split at hc
    · rename_i h1
      simp only at hc
      split at hc
      · rename_i h2
        exact ⟨h, pl, heq, h1, h2, by cases hc; rfl⟩
      · cases hc
    · cases hc

theorem decode_some_elim (k : BitVec 30) (s h : List Char) (pl : List Sym)
    (hd : decodeChecked k s = some (h, pl)) : ∃ d syms, splitLast1 s = some (h, d) ∧
      symsOf d = some syms ∧ ¬ (hasUpper s = true ∧ hasLower s = true) ∧ hrpValid h = true ∧
      s.length ≤ codeLength ∧ 6 ≤ syms.length ∧ polymod (hrpExpand h ++ syms) = k ∧
      pl = syms.take (syms.length - 6) := by
  unfold decodeChecked at hd
  split at hd
  · cases hd
  · rename_i h' d heq
    split at hd
    · cases hd
    · rename_i syms hsy
      split at hd
      · cases hd
      · rename_i c1
        split at hd
        · cases hd
        · rename_i c2
          split at hd
          · cases hd
          · rename_i c3
            split at hd
            · cases hd
            · rename_i c4
              split at hd
              · cases hd
              · rename_i c5
                simp only [Option.some.injEq, Prod.mk.injEq] at hd
                obtain ⟨rfl, rfl⟩ := hd
                refine ⟨d, syms, heq, hsy, ?_, ?_, ?_, ?_, ?_, rfl⟩
                · simpa using c1
                · simpa using c2
                · omega
                · omega
                · simpa using c5


/-! ### Part E: validation = strict decoding -/

theorem strictDecode_some_elim (v : Variant) (p s : List Char) (bs : List UInt8)
    (h : strictDecode v p s = some bs) : ∃ d syms, splitLast1 s = some (p, d) ∧
      symsOf d = some syms ∧ hrpValid p = true ∧ hasUpper s = false ∧ s.length ≤ codeLength ∧
      6 ≤ syms.length ∧ polymod (hrpExpand p ++ syms) = constOf v ∧
      strictPad (syms.take (syms.length - 6)) = true ∧
      lengthOk v (fesToBytes (syms.take (syms.length - 6))).length = true ∧
      bs = fesToBytes (syms.take (syms.length - 6)) := by
  unfold strictDecode at h
  split at h
  · cases h
  · rename_i h' d heq
    split at h
    · cases h
    · rename_i syms hsy
      split at h
      · rename_i c
        simp only [Bool.and_eq_true, beq_iff_eq, Bool.not_eq_eq_eq_not, Bool.not_true,
          decide_eq_true_eq] at c
        obtain ⟨⟨⟨⟨⟨⟨⟨c1, c2⟩, c3⟩, c4⟩, c5⟩, c6⟩, c7⟩, c8⟩ := c
        subst c1
        exact ⟨d, syms, heq, hsy, c2, c3, c4, c5, c6, c7, c8, (Option.some.inj h).symm⟩
      · cases h

theorem strictDecode_of_encode (v : Variant) (p s : List Char) (bs : List UInt8) (hp : ValidPrefix p)
    (hl : lengthOk v bs.length = true) (h : encode (constOf v) p bs = some s) :
    strictDecode v p s = some bs := by
  have hu := encode_no_upper _ _ _ _ h
  have hlen := encode_length _ _ _ _ h
  obtain ⟨hcl, hs⟩ := (encode_some_iff _ _ _ _).mp h
  rw [lower_eq_self p hp.2] at hs
  have hsplit : splitLast1 s = some (p, ((bytesToFes bs) ++ createChecksum (constOf v) p (bytesToFes bs)).map charOf) := by
    rw [hs]; exact splitLast1_append _ _ (one_not_mem_map_charOf _)
  unfold strictDecode
  rw [hsplit]
  simp only [symsOf_map_charOf, hu, hp.1, checksum_verifies, List.length_append,
    createChecksum_length, Nat.add_sub_cancel, List.take_left', strictPad_bytesToFes,
    fesToBytes_bytesToFes, hl]
  have h1 : s.length ≤ codeLength := by omega
  simp [h1]

theorem encode_of_strictDecode (v : Variant) (p s : List Char) (bs : List UInt8)
    (h : strictDecode v p s = some bs) :
    ValidPrefix p ∧ lengthOk v bs.length = true ∧ encode (constOf v) p bs = some s := by
  obtain ⟨d, syms, hsplit, hsy, hv, hu, hlen, h6, hpoly, hpad, hl, rfl⟩ := strictDecode_some_elim _ _ _ _ h
  obtain ⟨hs, _⟩ := splitLast1_spec _ _ _ hsplit
  have hup : hasUpper p = false ∧ hasUpper d = false := by
    rw [hs, hasUpper_append] at hu
    simp only [hasUpper, List.any_cons, Bool.or_eq_false_iff] at hu
    exact ⟨hu.1, hu.2.2⟩
  have hd := symsOf_lower_eq d syms hsy hup.2
  have hsl := symsOf_length d syms hsy
  -- split the symbols into payload and checksum
  have hsplitS : syms = syms.take (syms.length - 6) ++ syms.drop (syms.length - 6) :=
    (List.take_append_drop _ _).symm
  have hc6 : (syms.drop (syms.length - 6)).length = 6 := by simp; omega
  have hck := checksum_unique (constOf v) p (syms.take (syms.length - 6)) (syms.drop (syms.length - 6)) hc6
    (by rw [← hsplitS]; exact hpoly)
  refine ⟨⟨hv, hup.1⟩, hl, ?_⟩
  rw [encode_some_iff, bytesToFes_fesToBytes _ hpad, ← hck, ← hsplitS, lower_eq_self p hup.1, ← hd]
  refine ⟨?_, hs⟩
  rw [hs] at hlen
  simp only [List.length_append, List.length_cons, List.length_take] at hlen ⊢
  omega

/-- strict decoding is exactly "is the encoding of" -/
theorem strictDecode_iff_encode (v : Variant) (p s : List Char) (bs : List UInt8) (hp : ValidPrefix p) :
    strictDecode v p s = some bs ↔ lengthOk v bs.length = true ∧ encode (constOf v) p bs = some s :=
  ⟨fun h => (encode_of_strictDecode v p s bs h).2, fun h => strictDecode_of_encode v p s bs hp h.1 h.2⟩

theorem validate_ok_elim (v : Variant) (p s s' : List Char) (h : addrValidate v p s = .ok s') :
    ∃ bs, addrCanonicalize v p s = .ok bs ∧ addrHumanize v p bs = .ok s ∧ s' = s := by
  unfold addrValidate at h
  split at h
  · rename_i bs hc
    split at h
    · rename_i n hh
      split at h
      · cases h
      · rename_i hne
        have : s = n := by simpa using hne
        cases h
        exact ⟨bs, hc, by rw [hh, this], this.symm⟩
    · rename_i o hno
      cases ho : addrHumanize v p bs with
      | ok n => exact absurd ho (hno n)
      | err => rw [ho] at h; cases h
      | panic => rw [ho] at h; cases h
      | outOfFuel => rw [ho] at h; cases h
  · cases h
  · cases h
  · cases h

theorem validate_iff_encode (v : Variant) (p s s' : List Char) (hp : ValidPrefix p) :
    addrValidate v p s = .ok s' ↔
      ∃ bs, lengthOk v bs.length = true ∧ encode (constOf v) p bs = some s ∧ s' = s := by
  constructor
  · intro h
    obtain ⟨bs, _, hh, rfl⟩ := validate_ok_elim _ _ _ _ h
    obtain ⟨h1, _, h3⟩ := (humanize_ok_iff _ _ _ _).mp hh
    exact ⟨bs, h1, h3, rfl⟩
  · rintro ⟨bs, h1, h2, rfl⟩
    unfold addrValidate
    rw [canonicalize_of_encode v p bs s' hp h1 h2]
    simp only
    rw [(humanize_ok_iff _ _ _ _).mpr ⟨h1, hp.1, h2⟩]
    simp

/-- `C18.validate_exact` -/
theorem validate_exact (v : Variant) (p s s' : List Char) (hp : ValidPrefix p) :
    addrValidate v p s = .ok s' ↔ (∃ bs, strictDecode v p s = some bs) ∧ s' = s := by
  rw [validate_iff_encode v p s s' hp]
  constructor
  · rintro ⟨bs, h1, h2, h3⟩
    exact ⟨⟨bs, (strictDecode_iff_encode v p s bs hp).mpr ⟨h1, h2⟩⟩, h3⟩
  · rintro ⟨⟨bs, h⟩, h3⟩
    obtain ⟨h1, h2⟩ := (strictDecode_iff_encode v p s bs hp).mp h
    exact ⟨bs, h1, h2, h3⟩

/-- a prefix that is not its own lowercase form, or not an HRP at all, validates nothing
(`MockApiBech`; cosmwasm-std's `MockApi` compares prefixes case-insensitively) -/
theorem validate_invalid_hrp (v : Variant) (p s s' : List Char) (hp : hrpValid p = false) :
    addrValidate v p s ≠ .ok s' := by
  intro h
  obtain ⟨bs, _, hh, _⟩ := validate_ok_elim _ _ _ _ h
  have := ((humanize_ok_iff _ _ _ _).mp hh).2.1
  rw [hp] at this; cases this

/-- the outcome of validation never is a panic, and `ok` returns the input -/
theorem validate_total (v : Variant) (p s : List Char) :
    addrValidate v p s = .ok s ∨ addrValidate v p s = .err := by
  unfold addrValidate
  cases hc : addrCanonicalize v p s with
  | ok bs =>
    simp only
    cases hh : addrHumanize v p bs with
    | ok n =>
      simp only
      by_cases e : s = n
      · subst e; simp
      · simp [e]
    | err => simp
    | panic =>
      exfalso; unfold addrHumanize at hh
      split at hh; · cases hh
      split at hh; · cases hh
      split at hh <;> cases hh
    | outOfFuel =>
      exfalso; unfold addrHumanize at hh
      split at hh; · cases hh
      split at hh; · cases hh
      split at hh <;> cases hh
  | err => simp
  | panic =>
    exfalso; unfold addrCanonicalize at hc
    split at hc; · cases hc
    split at hc
    · simp only at hc; split at hc <;> cases hc
    · cases hc
  | outOfFuel =>
    exfalso; unfold addrCanonicalize at hc
    split at hc; · cases hc
    split at hc
    · simp only at hc; split at hc <;> cases hc
    · cases hc

theorem canonicalize_total (v : Variant) (p s : List Char) :
    (∃ bs, addrCanonicalize v p s = .ok bs) ∨ addrCanonicalize v p s = .err := by
  unfold addrCanonicalize
  split
  · right; rfl
  · split
    · simp only; split
      · left; exact ⟨_, rfl⟩
      · right; rfl
    · right; rfl

theorem humanize_total (v : Variant) (p : List Char) (bs : List UInt8) :
    (∃ s, addrHumanize v p bs = .ok s) ∨ addrHumanize v p bs = .err := by
  unfold addrHumanize
  split
  · right; rfl
  · split
    · right; rfl
    · split
      · left; exact ⟨_, rfl⟩
      · right; rfl


/-! ### Part F: rejection -/

theorem validate_err_of_canonicalize_err (v : Variant) (p s : List Char)
    (h : addrCanonicalize v p s = .err) : addrValidate v p s = .err := by
  unfold addrValidate; rw [h]

theorem prefixMatches_unique (v : Variant) (h p q : List Char) (hp : ValidPrefix p) (hq : ValidPrefix q)
    (h1 : prefixMatches v h p = true) (h2 : prefixMatches v h q = true) : p = q := by
  cases v
  · simp only [prefixMatches, beq_iff_eq] at h1 h2; rw [← h1, ← h2]
  · simp only [prefixMatches, beq_iff_eq] at h1 h2; rw [← h1, ← h2]
  · simp only [prefixMatches, beq_iff_eq] at h1 h2
    rw [lower_eq_self p hp.2] at h1; rw [lower_eq_self q hq.2] at h2
    rw [← h1, ← h2]

/-- an address of one prefix is rejected under every other prefix -/
theorem rejects_other_prefix (v : Variant) (p q s : List Char) (bs : List UInt8)
    (hp : ValidPrefix p) (hq : ValidPrefix q) (hne : p ≠ q)
    (h : addrCanonicalize v p s = .ok bs) :
    addrCanonicalize v q s = .err ∧ addrValidate v q s = .err := by
  have hc : addrCanonicalize v q s = .err := by
    rcases canonicalize_total v q s with ⟨bs', h'⟩ | h'
    · exfalso
      obtain ⟨h1, pl1, hd1, hm1, _, _⟩ := canonicalize_ok_elim _ _ _ _ h
      obtain ⟨h2, pl2, hd2, hm2, _, _⟩ := canonicalize_ok_elim _ _ _ _ h'
      rw [hd1] at hd2
      simp only [Option.some.injEq, Prod.mk.injEq] at hd2
      obtain ⟨rfl, _⟩ := hd2
      exact hne (prefixMatches_unique v h1 p q hp hq hm1 hm2)
    · exact h'
  exact ⟨hc, validate_err_of_canonicalize_err _ _ _ hc⟩

/-- an address of one checksum variant is rejected under the other -/
theorem rejects_other_variant (v w : Variant) (p q s : List Char) (bs : List UInt8)
    (hne : constOf v ≠ constOf w) (h : addrCanonicalize v p s = .ok bs) :
    addrCanonicalize w q s = .err ∧ addrValidate w q s = .err := by
  have hc : addrCanonicalize w q s = .err := by
    rcases canonicalize_total w q s with ⟨bs', h'⟩ | h'
    · exfalso
      obtain ⟨h1, pl1, hd1, _, _, _⟩ := canonicalize_ok_elim _ _ _ _ h
      obtain ⟨h2, pl2, hd2, _, _, _⟩ := canonicalize_ok_elim _ _ _ _ h'
      obtain ⟨d1, sy1, hs1, hy1, _, _, _, _, hp1, _⟩ := decode_some_elim _ _ _ _ hd1
      obtain ⟨d2, sy2, hs2, hy2, _, _, _, _, hp2, _⟩ := decode_some_elim _ _ _ _ hd2
      rw [hs1] at hs2
      simp only [Option.some.injEq, Prod.mk.injEq] at hs2
      obtain ⟨rfl, rfl⟩ := hs2
      rw [hy1] at hy2; cases hy2
      exact hne (hp1.symm.trans hp2)
    · exact h'
  exact ⟨hc, validate_err_of_canonicalize_err _ _ _ hc⟩

theorem const_bech32_ne_bech32m : constOf .bech32 ≠ constOf .bech32m := by decide
theorem const_default_ne_bech32m : constOf .default ≠ constOf .bech32m := by decide

/-- mixed case is rejected by every entry point -/
theorem rejects_mixed_case (v : Variant) (p s : List Char) (hu : hasUpper s = true)
    (hl : hasLower s = true) :
    addrCanonicalize v p s = .err ∧ addrValidate v p s = .err := by
  have hc : addrCanonicalize v p s = .err := by
    rcases canonicalize_total v p s with ⟨bs', h'⟩ | h'
    · exfalso
      obtain ⟨h1, pl1, hd1, _, _, _⟩ := canonicalize_ok_elim _ _ _ _ h'
      obtain ⟨_, _, _, _, hm, _⟩ := decode_some_elim _ _ _ _ hd1
      exact hm ⟨hu, hl⟩
    · exact h'
  exact ⟨hc, validate_err_of_canonicalize_err _ _ _ hc⟩

theorem lower_mem_of_not_upper (p : List Char) (hp : hasUpper p = false) (a : Char) (ha : a ∈ p) :
    a.toLower = a := by
  apply toLower_of_not_upper
  simp only [hasUpper, List.any_eq_false] at hp
  simpa using hp a ha

theorem prefixMatches_length (v : Variant) (h p : List Char) (hm : prefixMatches v h p = true) :
    h.length = p.length := by
  cases v
  · simp only [prefixMatches, beq_iff_eq] at hm; rw [hm]
  · simp only [prefixMatches, beq_iff_eq] at hm; rw [hm]
  · simp only [prefixMatches, beq_iff_eq] at hm
    have := congrArg List.length hm
    simpa [lower] using this

/-- prefix comparison, reduced to what both comparisons imply -/
theorem prefixMatches_lower (v : Variant) (h p : List Char) (hm : prefixMatches v h p = true) :
    lower h = lower p := by
  cases v
  · simp only [prefixMatches, beq_iff_eq] at hm; rw [hm]
  · simp only [prefixMatches, beq_iff_eq] at hm; rw [hm]
  · simpa [prefixMatches] using hm

/-- `C18.single_error_detected` (decoder side): replacing one character `a` of a valid address by
any `c` that is not `a` up to ASCII case makes `addr_canonicalize` fail — at every position (HRP,
separator, data, checksum) and for every length. -/
theorem single_error_canonicalize (v : Variant) (p pre post : List Char) (a c : Char)
    (hp : ValidPrefix p) (hvalid : addrValidate v p (pre ++ a :: post) = .ok (pre ++ a :: post))
    (hc : c.toLower ≠ a) : addrCanonicalize v p (pre ++ c :: post) = .err := by
  rcases canonicalize_total v p (pre ++ c :: post) with ⟨bs', h'⟩ | h'
  case inr => exact h'
  exfalso
  -- the valid address
  obtain ⟨bs, hl, henc, _⟩ := (validate_iff_encode v p _ _ hp).mp hvalid
  obtain ⟨_, hs⟩ := (encode_some_iff _ _ _ _).mp henc
  rw [lower_eq_self p hp.2] at hs
  have hpoly := checksum_verifies (constOf v) p (bytesToFes bs)
  generalize hD : bytesToFes bs ++ createChecksum (constOf v) p (bytesToFes bs) = D at hs hpoly
  -- the corrupted string decodes
  obtain ⟨h1, pl1, hd1, hm1, _, _⟩ := canonicalize_ok_elim _ _ _ _ h'
  obtain ⟨d', syms', hsp', hsy', _, _, _, _, hpoly', _⟩ := decode_some_elim _ _ _ _ hd1
  obtain ⟨hs', hno'⟩ := splitLast1_spec _ _ _ hsp'
  have hlen1 := prefixMatches_length v h1 p hm1
  have hlow1 := prefixMatches_lower v h1 p hm1
  rw [lower_eq_self p hp.2] at hlow1
  have hx : hrpExpand h1 = hrpExpand p := by rw [← hrpExpand_lower h1, hlow1]
  rw [hx] at hpoly'
  -- where is the changed position?
  rcases List.append_eq_append_iff.mp hs with ⟨t, hpre, hrest⟩ | ⟨t, hpt, hrest⟩
  · -- `p = pre ++ t`, `a :: post = t ++ '1' :: D.map charOf`  (position inside `p ++ "1"`)
    cases t with
    | nil =>
      simp only [List.nil_append, List.cons.injEq] at hrest
      obtain ⟨rfl, rfl⟩ := hrest
      simp only [List.append_nil] at hpre
      subst hpre
      -- separator replaced
      have := List.append_inj hs' (by rw [hlen1])
      simp only [List.cons.injEq] at this
      exact hc (by rw [this.2.1]; rfl)
    | cons x t' =>
      simp only [List.cons_append, List.cons.injEq] at hrest
      obtain ⟨rfl, rfl⟩ := hrest
      -- inside the prefix: `p = pre ++ a :: t'`
      have hs'' : (pre ++ c :: t') ++ '1' :: List.map charOf D = h1 ++ '1' :: d' := by
        rw [← hs']; simp
      have := List.append_inj hs'' (by rw [hlen1, hpre]; simp)
      have hh : h1 = pre ++ c :: t' := this.1.symm
      rw [hh, hpre] at hlow1
      simp only [lower, List.map_append, List.map_cons] at hlow1
      have := List.append_inj hlow1 (by simp)
      simp only [List.cons.injEq] at this
      exact hc this.2.1
  · -- `pre = p ++ t`, `'1' :: D.map charOf = t ++ a :: post`
    cases t with
    | nil =>
      simp only [List.nil_append, List.cons.injEq] at hrest
      obtain ⟨rfl, rfl⟩ := hrest
      simp only [List.append_nil] at hpt
      subst hpt
      have := List.append_inj hs' (by rw [hlen1])
      simp only [List.cons.injEq] at this
      exact hc (by rw [this.2.1]; rfl)
    | cons x t' =>
      simp only [List.cons_append, List.cons.injEq] at hrest
      obtain ⟨rfl, hDc⟩ := hrest
      -- inside the data part: `D.map charOf = t' ++ a :: post`
      subst hpt
      have hs'' : p ++ '1' :: (t' ++ c :: post) = h1 ++ '1' :: d' := by
        rw [← hs']; simp
      have := List.append_inj hs'' (by rw [hlen1])
      simp only [List.cons.injEq, true_and] at this
      obtain ⟨_, hd'⟩ := this
      subst hd'
      obtain ⟨D1, D2', hDsplit, hm1', hm2'⟩ := List.map_eq_append_iff.mp hDc
      obtain ⟨y, D2, rfl, hy, hm3⟩ := List.map_eq_cons_iff.mp hm2'
      obtain ⟨st, sr, hst, hsr, rfl⟩ := (symsOf_append_some _ _ _).mp hsy'
      obtain ⟨x, sp, hx', hsp2, rfl⟩ := (symsOf_cons_some _ _ _).mp hsr
      rw [← hm1', symsOf_map_charOf] at hst
      rw [← hm3, symsOf_map_charOf] at hsp2
      cases hst; cases hsp2
      have hxy : x ≠ y := by
        intro e; subst e
        exact hc (by rw [← symOf_some_charOf c x hx', hy])
      rw [hDsplit] at hpoly
      have := single_error (steps 1 (hrpExpand p)) D1 D2 x y hxy
      apply this
      rw [← steps_append, ← steps_append, ← polymod_eq_steps, ← polymod_eq_steps, hpoly, hpoly']

/-- `C18.single_error_detected`: every single-character substitution of a valid address is rejected
by `addr_validate`, at every position, for every substitute character, for every length. -/
theorem single_error_validate (v : Variant) (p pre post : List Char) (a c : Char)
    (hp : ValidPrefix p) (hvalid : addrValidate v p (pre ++ a :: post) = .ok (pre ++ a :: post))
    (hc : c ≠ a) : addrValidate v p (pre ++ c :: post) = .err := by
  by_cases hcl : c.toLower = a
  · -- a pure case flip: `c` is an uppercase letter, and validation only returns lowercase strings
    rcases validate_total v p (pre ++ c :: post) with h | h
    · exfalso
      obtain ⟨bs, _, henc, _⟩ := (validate_iff_encode v p _ _ hp).mp h
      have hu := encode_no_upper _ _ _ _ henc
      rw [hasUpper_append] at hu
      simp only [hasUpper, List.any_cons, Bool.or_eq_false_iff] at hu
      exact hc (by rw [← hcl, toLower_of_not_upper c hu.2.1])
    · exact h
  · exact validate_err_of_canonicalize_err _ _ _ (single_error_canonicalize v p pre post a c hp hvalid hcl)

/-- the same with positions: `s.set i c` -/
theorem single_error_validate_set (v : Variant) (p s : List Char) (i : Nat) (c : Char) (hi : i < s.length)
    (hp : ValidPrefix p) (hvalid : addrValidate v p s = .ok s) (hc : c ≠ s[i]) :
    addrValidate v p (s.set i c) = .err := by
  have hs : s = s.take i ++ s[i] :: s.drop (i + 1) := by
    rw [List.getElem_cons_drop, List.take_append_drop]
  have hset : s.set i c = s.take i ++ c :: s.drop (i + 1) := by
    rw [List.set_eq_take_append_cons_drop, if_pos hi]
  rw [hset]
  apply single_error_validate v p _ _ s[i] c hp _ hc
  rw [← hs]; exact hvalid


/-! ### Part G: `addr_make` -/

theorem make_ok_iff (H : List UInt8 → List UInt8) (v : Variant) (p : List Char) (n : List UInt8)
    (a : List Char) :
    addrMake H v p n = .ok a ↔ hrpValid p = true ∧ encode (constOf v) p (H n) = some a := by
  unfold addrMake
  cases h2 : hrpValid p <;> simp
  cases h3 : encode (constOf v) p (H n) <;> simp

/-- `addr_make` either returns an address or panics (never an error value) -/
theorem make_ok_or_panic (H : List UInt8 → List UInt8) (v : Variant) (p : List Char) (n : List UInt8) :
    (∃ a, addrMake H v p n = .ok a) ∨ addrMake H v p n = .panic := by
  unfold addrMake
  split
  · right; rfl
  · split
    · left; exact ⟨_, rfl⟩
    · right; rfl

/-- the result depends on the name only through its digest -/
theorem make_congr (H : List UInt8 → List UInt8) (v : Variant) (p : List Char) (n n' : List UInt8)
    (h : H n = H n') : addrMake H v p n = addrMake H v p n' := by
  unfold addrMake; rw [h]

/-- `addr_make p n` is `addr_humanize p (H n)` -/
theorem make_eq_humanize (H : List UInt8 → List UInt8) (v : Variant) (p : List Char) (n : List UInt8)
    (a : List Char) (hl : lengthOk v (H n).length = true) :
    addrMake H v p n = .ok a ↔ addrHumanize v p (H n) = .ok a := by
  rw [make_ok_iff, humanize_ok_iff]
  simp [hl]

/-- with a 32-byte digest and a valid HRP `addr_make` never panics -/
theorem make_total (H : List UInt8 → List UInt8) (v : Variant) (p : List Char) (n : List UInt8)
    (hp : hrpValid p = true) (h32 : (H n).length = 32) : ∃ a, addrMake H v p n = .ok a := by
  have hlen := hrpValid_length p hp
  have : ∃ a, encode (constOf v) p (H n) = some a := by
    refine ⟨_, (encode_some_iff _ _ _ _).mpr ⟨?_, rfl⟩⟩
    rw [bytesToFes_length, h32]; unfold codeLength; omega
  obtain ⟨a, ha⟩ := this
  exact ⟨a, (make_ok_iff _ _ _ _ _).mpr ⟨hp, ha⟩⟩

/-- without a valid HRP it always panics -/
theorem make_panics (H : List UInt8 → List UInt8) (v : Variant) (p : List Char) (n : List UInt8)
    (hp : hrpValid p = false) : addrMake H v p n = .panic := by
  unfold addrMake; simp [hp]

/-- an address made from a name validates, unchanged, under its own codec -/
theorem make_valid (H : List UInt8 → List UInt8) (v : Variant) (p : List Char) (n : List UInt8)
    (a : List Char) (hp : ValidPrefix p) (hl : lengthOk v (H n).length = true)
    (h : addrMake H v p n = .ok a) : addrValidate v p a = .ok a := by
  obtain ⟨_, he⟩ := (make_ok_iff _ _ _ _ _).mp h
  exact (validate_iff_encode v p a a hp).mpr ⟨H n, hl, he, rfl⟩

theorem lengthOk_32 (v : Variant) : lengthOk v 32 = true := by cases v <;> rfl

theorem createChecksum_hrp_congr (k : BitVec 30) (p p' : List Char) (data : List Sym)
    (h : hrpExpand p = hrpExpand p') : createChecksum k p data = createChecksum k p' data := by
  unfold createChecksum; rw [h]

/-- the encoder is injective: equal strings force equal (lowercased) prefixes, equal bytes and equal
checksum constants -/
theorem encode_inj (k k' : BitVec 30) (p p' : List Char) (bs bs' : List UInt8) (a : List Char)
    (h : encode k p bs = some a) (h' : encode k' p' bs' = some a) :
    lower p = lower p' ∧ bs = bs' ∧ k = k' := by
  obtain ⟨_, hs⟩ := (encode_some_iff _ _ _ _).mp h
  obtain ⟨_, hs'⟩ := (encode_some_iff _ _ _ _).mp h'
  have e1 := splitLast1_append (lower p) _ (one_not_mem_map_charOf (bytesToFes bs ++ createChecksum k p (bytesToFes bs)))
  have e2 := splitLast1_append (lower p') _ (one_not_mem_map_charOf (bytesToFes bs' ++ createChecksum k' p' (bytesToFes bs')))
  rw [← hs] at e1; rw [← hs', e1] at e2
  simp only [Option.some.injEq, Prod.mk.injEq] at e2
  obtain ⟨hp, hd⟩ := e2
  have hd' := map_charOf_inj _ _ hd
  have := List.append_inj' hd' (by simp [createChecksum_length])
  obtain ⟨hf, hcs⟩ := this
  have hb := bytesToFes_inj _ _ hf
  subst hb
  refine ⟨hp, rfl, ?_⟩
  have hx : hrpExpand p = hrpExpand p' := by rw [← hrpExpand_lower p, hp, hrpExpand_lower]
  rw [createChecksum_hrp_congr k p p' _ hx] at hcs
  exact createChecksum_const_inj k k' p' _ hcs

/-- equal addresses come from equal prefixes and equal digests (and the same checksum constant) -/
theorem make_inj (H : List UInt8 → List UInt8) (v w : Variant) (p p' : List Char) (n n' : List UInt8)
    (a : List Char) (hp : ValidPrefix p) (hp' : ValidPrefix p')
    (h : addrMake H v p n = .ok a) (h' : addrMake H w p' n' = .ok a) :
    p = p' ∧ H n = H n' ∧ constOf v = constOf w := by
  obtain ⟨_, he⟩ := (make_ok_iff _ _ _ _ _).mp h
  obtain ⟨_, he'⟩ := (make_ok_iff _ _ _ _ _).mp h'
  obtain ⟨h1, h2, h3⟩ := encode_inj _ _ _ _ _ _ _ he he'
  rw [lower_eq_self p hp.2, lower_eq_self p' hp'.2] at h1
  exact ⟨h1, h2, h3⟩

/-- `addr_humanize` is injective as well -/
theorem humanize_inj (v : Variant) (p : List Char) (bs bs' : List UInt8) (a : List Char)
    (h : addrHumanize v p bs = .ok a) (h' : addrHumanize v p bs' = .ok a) : bs = bs' := by
  obtain ⟨_, _, he⟩ := (humanize_ok_iff _ _ _ _).mp h
  obtain ⟨_, _, he'⟩ := (humanize_ok_iff _ _ _ _).mp h'
  exact (encode_inj _ _ _ _ _ _ _ he he').2.1



/-- a humanized address validates, unchanged, under its own codec -/
theorem humanize_validates (v : Variant) (p : List Char) (bs : List UInt8) (s : List Char)
    (hp : ValidPrefix p) (h : addrHumanize v p bs = .ok s) : addrValidate v p s = .ok s := by
  obtain ⟨h1, _, h3⟩ := (humanize_ok_iff _ _ _ _).mp h
  exact (validate_iff_encode v p s s hp).mpr ⟨bs, h1, h3, rfl⟩

/-- what validation accepts canonicalizes, and humanizing the result gives the string back -/
theorem validate_roundtrip (v : Variant) (p s : List Char) (hp : ValidPrefix p)
    (h : addrValidate v p s = .ok s) :
    ∃ bs, addrCanonicalize v p s = .ok bs ∧ addrHumanize v p bs = .ok s := by
  obtain ⟨bs, h1, h2, _⟩ := (validate_iff_encode v p s s hp).mp h
  exact ⟨bs, canonicalize_of_encode v p bs s hp h1 h2, (humanize_ok_iff _ _ _ _).mpr ⟨h1, hp.1, h2⟩⟩

end CwMt.Bech32
