import CwMt.Model.Staking
/-
  CwMt.Proofs.StakingBasic — lemmas about the containers and the fixed-point operators of the staking model.
-/
set_option linter.unusedSimpArgs false
namespace CwMt
namespace Staking

namespace KMap
variable {κ α : Type} [DecidableEq κ]

@[simp] theorem get?_nil (k : κ) : get? ([] : KMap κ α) k = none := rfl

theorem get?_cons (k' k : κ) (v : α) (m : KMap κ α) :
    get? ((k', v) :: m) k = if k' = k then some v else get? m k := rfl

theorem get?_erase_self (m : KMap κ α) (k : κ) : get? (erase m k) k = none := by
  induction m with
  | nil => rfl
  | cons p m ih =>
    obtain ⟨k', v⟩ := p
    by_cases h : k' = k
    · simp [erase, List.filter_cons, h] at ih ⊢; exact ih
    · simp [erase, List.filter_cons, h, get?_cons] at ih ⊢; exact ih

theorem get?_erase_ne (m : KMap κ α) {k k2 : κ} (h : k2 ≠ k) : get? (erase m k) k2 = get? m k2 := by
  induction m with
  | nil => rfl
  | cons p m ih =>
    obtain ⟨k', v⟩ := p
    by_cases h1 : k' = k
    · subst h1
      have : ¬ k' = k2 := fun e => h e.symm
      simp [erase, List.filter_cons, get?_cons, this] at ih ⊢; exact ih
    · simp only [erase, List.filter_cons, ne_eq, h1, not_false_eq_true, decide_true, ite_true, get?_cons]
      simp only [erase] at ih
      rw [ih]

theorem get?_set_self (m : KMap κ α) (k : κ) (v : α) : get? (set m k v) k = some v := by
  simp [set, get?_cons]

theorem get?_set_ne (m : KMap κ α) {k k2 : κ} (v : α) (h : k2 ≠ k) : get? (set m k v) k2 = get? m k2 := by
  have : ¬ k = k2 := fun e => h e.symm
  simp [set, get?_cons, this, get?_erase_ne m h]

theorem get?_set (m : KMap κ α) (k k2 : κ) (v : α) :
    get? (set m k v) k2 = if k2 = k then some v else get? m k2 := by
  by_cases h : k2 = k
  · subst h; simp [get?_set_self]
  · simp [h, get?_set_ne m v h]

theorem get?_erase (m : KMap κ α) (k k2 : κ) :
    get? (erase m k) k2 = if k2 = k then none else get? m k2 := by
  by_cases h : k2 = k
  · subst h; simp [get?_erase_self]
  · simp [h, get?_erase_ne m h]

/-- a pass that rewrites values but keeps keys -/
theorem get?_mapVal (m : KMap κ α) (F : κ → α → α) (k : κ) :
    get? (m.map fun p => (p.1, F p.1 p.2)) k = (get? m k).map (F k) := by
  induction m with
  | nil => rfl
  | cons p m ih =>
    obtain ⟨k', v⟩ := p
    by_cases h : k' = k
    · subst h; simp [get?_cons]
    · simp [get?_cons, h, ih]

/-- a filter that only looks at keys -/
theorem get?_filterKey (m : KMap κ α) (P : κ → Bool) (k : κ) :
    get? (m.filter fun p => P p.1) k = if P k then get? m k else none := by
  induction m with
  | nil => simp
  | cons p m ih =>
    obtain ⟨k', v⟩ := p
    by_cases hp : P k' = true
    · by_cases h : k' = k
      · subst h; simp [List.filter_cons, hp, get?_cons]
      · simp [List.filter_cons, hp, get?_cons, h, ih]
    · by_cases h : k' = k
      · subst h; simp [List.filter_cons, hp, get?_cons, ih]
      · simp [List.filter_cons, hp, get?_cons, h, ih]

end KMap

theorem mem_setInsert {l : List Addr} {a b : Addr} : b ∈ setInsert l a ↔ b = a ∨ b ∈ l := by
  unfold setInsert
  split
  · constructor
    · intro h; exact Or.inr h
    · rintro (h | h)
      · subst h; assumption
      · exact h
  · simp

theorem mem_setErase {l : List Addr} {a b : Addr} : b ∈ setErase l a ↔ b ∈ l ∧ b ≠ a := by
  simp [setErase]

end Staking

namespace Dec

theorem ONE_pos : 0 < ONE := by decide

theorem mulFloor_le (n : Nat) (d : Dec) (h : d.atomics ≤ ONE) : mulFloor n d ≤ n := by
  unfold mulFloor
  apply Nat.div_le_of_le_mul
  rw [Nat.mul_comm ONE n]
  exact Nat.mul_le_mul_left n h

theorem mul_le_left (a b : Dec) (h : b.atomics ≤ ONE) : (mul a b).atomics ≤ a.atomics := by
  unfold mul
  apply Nat.div_le_of_le_mul
  rw [Nat.mul_comm ONE a.atomics]
  exact Nat.mul_le_mul_left _ h

theorem floor_ofNat_add (a : Dec) (n : Nat) : (add a (ofNat n)).floor = a.floor + n := by
  unfold floor add ofNat
  simp only
  rw [Nat.add_mul_div_left _ _ ONE_pos]

theorem floor_sub_ofNat (a : Dec) (n : Nat) (h : (ofNat n).atomics ≤ a.atomics) :
    (sub a (ofNat n)).floor = a.floor - n := by
  unfold floor sub ofNat at *
  simp only at *
  have h1 : a.atomics = (a.atomics - ONE * n) + ONE * n := by omega
  have key : a.atomics / ONE = (a.atomics - ONE * n) / ONE + n := by
    conv => lhs; rw [h1]
    exact Nat.add_mul_div_left _ _ ONE_pos
  rw [key, Nat.add_sub_cancel]

theorem sub_one_atomics_le (p : Dec) : (sub one p).atomics ≤ ONE := by
  unfold sub one; simp only; omega

end Dec
end CwMt
