/-
  CwMt.Proofs.StakingArith — floor-division inequalities behind the C15 rounding bounds, over plain `Nat`
  (`o` plays 10^18, `y` the year; both only need to be positive).

  One reward update credits a delegator  K = ⌊⌊N·sa / o⌋ / S⌋  atomics, where
      G = ⌊S·A·T / y⌋           gross validator reward (stake S tokens, rate A atomics, T seconds)
      N = G − ⌊G·c / o⌋          net of commission c (atomics, c ≤ o)
      sa                         the delegator's share (atomics).
  The exact value is  X = sa·A·(o−c)·T / (o²·y)  atomics. Multiplying out the denominators:
      upper :  K·(S·o·o·y) ≤ S·A·T·(o−c)·sa + o·y·sa                  i.e.  K ≤ X + ρ          (ρ = sa/(S·o))
      lower :  S·A·T·(o−c)·sa ≤ (K+1)·(S·o·o·y) + o·o·y + y·(o−c)·sa  i.e.  X ≤ K + 1 + 1/S + (1−c/o)·ρ
-/
namespace CwMt.Staking.Arith

theorem div_mul_le (a b : Nat) : a / b * b ≤ a := Nat.div_mul_le_self a b

theorem lt_div_mul_add (a : Nat) {b : Nat} (hb : 0 < b) : a < a / b * b + b := by
  have h1 := Nat.div_add_mod a b
  have h2 := Nat.mod_lt a hb
  have h3 : b * (a / b) = a / b * b := Nat.mul_comm _ _
  omega

/-- net reward times `o` is the gross reward times `(o − c)`, up to one `o` -/
theorem net_bounds (G c o : Nat) (ho : 0 < o) (hc : c ≤ o) :
    G * (o - c) ≤ (G - G * c / o) * o ∧ (G - G * c / o) * o ≤ G * (o - c) + o := by
  have f2 := div_mul_le (G * c) o
  have f2' := lt_div_mul_add (G * c) ho
  have h1 : G * c ≤ G * o := Nat.mul_le_mul_left G hc
  have h2 : (G - G * c / o) * o = G * o - G * c / o * o := Nat.sub_mul _ _ _
  have h3 : G * (o - c) = G * o - G * c := Nat.mul_sub G o c
  omega

variable (S A T c sa o y : Nat)

/-- the credit of one update never exceeds the exact value by more than the share/total ratio -/
theorem credit_upper (ho : 0 < o) (hc : c ≤ o) :
    ((S * A * T / y - S * A * T / y * c / o) * sa / o / S) * (S * o * o * y)
      ≤ S * A * T * (o - c) * sa + o * y * sa := by
  generalize hG : S * A * T / y = G
  generalize hN : G - G * c / o = N
  generalize hM : N * sa / o = M
  generalize hK : M / S = K
  have f1 : G * y ≤ S * A * T := by rw [← hG]; exact div_mul_le _ _
  have f3 : M * o ≤ N * sa := by rw [← hM]; exact div_mul_le _ _
  have f4 : K * S ≤ M := by rw [← hK]; exact div_mul_le _ _
  have fn : N * o ≤ G * (o - c) + o := by rw [← hN]; exact (net_bounds G c o ho hc).2
  -- K·S·o ≤ N·sa
  have s1 : K * S * o ≤ N * sa := Nat.le_trans (Nat.mul_le_mul_right o f4) f3
  -- K·S·o·o ≤ (G·(o−c) + o)·sa
  have s2 : K * S * o * o ≤ (G * (o - c) + o) * sa := by
    calc K * S * o * o ≤ N * sa * o := Nat.mul_le_mul_right o s1
      _ = N * o * sa := by ac_rfl
      _ ≤ (G * (o - c) + o) * sa := Nat.mul_le_mul_right sa fn
  -- times y
  calc K * (S * o * o * y) = K * S * o * o * y := by ac_rfl
    _ ≤ (G * (o - c) + o) * sa * y := Nat.mul_le_mul_right y s2
    _ = G * y * (o - c) * sa + o * y * sa := by rw [Nat.add_mul, Nat.add_mul]; congr 1 <;> ac_rfl
    _ ≤ S * A * T * (o - c) * sa + o * y * sa := by
        apply Nat.add_le_add_right
        exact Nat.mul_le_mul_right sa (Nat.mul_le_mul_right (o - c) f1)

/-- the credit of one update falls short of the exact value by less than `1 + 1/S + ρ` atomics -/
theorem credit_lower (ho : 0 < o) (hy : 0 < y) (hS : 0 < S) (hc : c ≤ o) :
    S * A * T * (o - c) * sa
      ≤ ((S * A * T / y - S * A * T / y * c / o) * sa / o / S + 1) * (S * o * o * y) + o * o * y + y * (o - c) * sa := by
  generalize hG : S * A * T / y = G
  generalize hN : G - G * c / o = N
  generalize hM : N * sa / o = M
  generalize hK : M / S = K
  have f1 : S * A * T ≤ G * y + y := by rw [← hG]; exact Nat.le_of_lt (lt_div_mul_add _ hy)
  have f3 : N * sa ≤ M * o + o := by rw [← hM]; exact Nat.le_of_lt (lt_div_mul_add _ ho)
  have f4 : M ≤ K * S + S := by rw [← hK]; exact Nat.le_of_lt (lt_div_mul_add _ hS)
  have fn : G * (o - c) ≤ N * o := by rw [← hN]; exact (net_bounds G c o ho hc).1
  -- G·(o−c)·sa·y ≤ ((K+1)·S·o + o)·o·y
  have s1 : N * sa ≤ (K + 1) * S * o + o := by
    have : M * o ≤ (K * S + S) * o := Nat.mul_le_mul_right o f4
    have e : (K + 1) * S * o = (K * S + S) * o := by rw [Nat.add_mul K 1 S, Nat.one_mul]
    omega
  have s2 : G * (o - c) * sa * y ≤ ((K + 1) * S * o + o) * o * y := by
    calc G * (o - c) * sa * y ≤ N * o * sa * y := Nat.mul_le_mul_right y (Nat.mul_le_mul_right sa fn)
      _ = N * sa * o * y := by ac_rfl
      _ ≤ ((K + 1) * S * o + o) * o * y := Nat.mul_le_mul_right y (Nat.mul_le_mul_right o s1)
  calc S * A * T * (o - c) * sa ≤ (G * y + y) * (o - c) * sa :=
        Nat.mul_le_mul_right sa (Nat.mul_le_mul_right (o - c) f1)
    _ = G * (o - c) * sa * y + y * (o - c) * sa := by
        rw [Nat.add_mul, Nat.add_mul]; congr 1; ac_rfl
    _ ≤ ((K + 1) * S * o + o) * o * y + y * (o - c) * sa := Nat.add_le_add_right s2 _
    _ = (K + 1) * (S * o * o * y) + o * o * y + y * (o - c) * sa := by
        rw [Nat.add_mul, Nat.add_mul]; congr 2; ac_rfl

/-- `credit_upper` without the validator total: when the share is below `total + 1` tokens (invariant I5) the credit
exceeds the exact value by at most 2 atomics -/
theorem credit_upper_free (ho : 0 < o) (hS : 0 < S) (hc : c ≤ o) (hsa : sa ≤ o * (S + 1)) :
    ((S * A * T / y - S * A * T / y * c / o) * sa / o / S) * (o * o * y) ≤ A * T * (o - c) * sa + 2 * (o * o * y) := by
  have h := credit_upper S A T c sa o y ho hc
  generalize (S * A * T / y - S * A * T / y * c / o) * sa / o / S = K at h ⊢
  have h2 : sa ≤ 2 * o * S := by
    have : o * (S + 1) ≤ o * (2 * S) := Nat.mul_le_mul_left o (by omega)
    have e : o * (2 * S) = 2 * o * S := by ac_rfl
    omega
  have h3 : o * y * sa ≤ S * (2 * (o * o * y)) := by
    calc o * y * sa ≤ o * y * (2 * o * S) := Nat.mul_le_mul_left _ h2
      _ = S * (2 * (o * o * y)) := by ac_rfl
  have h4 : S * (K * (o * o * y)) ≤ S * (A * T * (o - c) * sa + 2 * (o * o * y)) := by
    calc S * (K * (o * o * y)) = K * (S * o * o * y) := by ac_rfl
      _ ≤ S * A * T * (o - c) * sa + o * y * sa := h
      _ ≤ S * A * T * (o - c) * sa + S * (2 * (o * o * y)) := Nat.add_le_add_left h3 _
      _ = S * (A * T * (o - c) * sa + 2 * (o * o * y)) := by rw [Nat.mul_add]; congr 1; ac_rfl
  exact Nat.le_of_mul_le_mul_left h4 hS

/-- `credit_lower` without the validator total: the credit falls short of the exact value by at most 4 atomics -/
theorem credit_lower_free (ho : 0 < o) (hy : 0 < y) (hS : 0 < S) (hc : c ≤ o) (hsa : sa ≤ o * (S + 1)) :
    A * T * (o - c) * sa ≤ ((S * A * T / y - S * A * T / y * c / o) * sa / o / S + 4) * (o * o * y) := by
  have h := credit_lower S A T c sa o y ho hy hS hc
  generalize (S * A * T / y - S * A * T / y * c / o) * sa / o / S = K at h ⊢
  have h2 : sa ≤ 2 * o * S := by
    have : o * (S + 1) ≤ o * (2 * S) := Nat.mul_le_mul_left o (by omega)
    have e : o * (2 * S) = 2 * o * S := by ac_rfl
    omega
  have h3 : y * (o - c) * sa ≤ S * (2 * (o * o * y)) := by
    calc y * (o - c) * sa ≤ y * o * (2 * o * S) :=
          Nat.mul_le_mul (Nat.mul_le_mul_left y (Nat.sub_le o c)) h2
      _ = S * (2 * (o * o * y)) := by ac_rfl
  have h5 : o * o * y ≤ S * (o * o * y) := Nat.le_mul_of_pos_left _ hS
  have h4 : S * (A * T * (o - c) * sa) ≤ S * ((K + 4) * (o * o * y)) := by
    calc S * (A * T * (o - c) * sa) = S * A * T * (o - c) * sa := by ac_rfl
      _ ≤ (K + 1) * (S * o * o * y) + o * o * y + y * (o - c) * sa := h
      _ ≤ (K + 1) * (S * o * o * y) + S * (o * o * y) + S * (2 * (o * o * y)) :=
          Nat.add_le_add (Nat.add_le_add_left h5 _) h3
      _ = S * ((K + 4) * (o * o * y)) := by
          have e1 : (K + 1) * (S * o * o * y) = S * ((K + 1) * (o * o * y)) := by ac_rfl
          rw [e1, ← Nat.mul_add, ← Nat.mul_add]; congr 1
          rw [Nat.add_mul K 4, Nat.add_mul K 1, Nat.one_mul]; omega
  exact Nat.le_of_mul_le_mul_left h4 hS

end CwMt.Staking.Arith
