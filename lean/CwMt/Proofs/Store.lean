import CwMt.Model.Store
/-
  CwMt.Proofs.Store — lemmas about the specification ordered map (`Store`).
-/
namespace CwMt

/-! ### order facts on keys (`List UInt8`, lexicographic) -/
namespace Key

theorem lt_irrefl (a : Key) : ¬ a < a := List.lt_irrefl a
theorem lt_trans {a b c : Key} : a < b → b < c → a < c := List.lt_trans
theorem lt_asymm {a b : Key} : a < b → ¬ b < a := List.lt_asymm
theorem not_lt {a b : Key} : ¬ a < b ↔ b ≤ a := List.not_lt
theorem not_le {a b : Key} : ¬ a ≤ b ↔ b < a := List.not_le
theorem le_iff_lt_or_eq {a b : Key} : a ≤ b ↔ a < b ∨ a = b := List.le_iff_lt_or_eq
theorem lt_trichotomy (a b : Key) : a < b ∨ a = b ∨ b < a := by
  rcases Std.lt_trichotomy a b with h | h | h <;> simp [h]
theorem ne_of_lt {a b : Key} (h : a < b) : a ≠ b := by
  intro e; subst e; exact lt_irrefl a h
theorem lt_of_le_of_lt {a b c : Key} : a ≤ b → b < c → a < c := List.lt_of_le_of_lt
theorem lt_of_lt_of_le {a b c : Key} (h₁ : a < b) (h₂ : b ≤ c) : a < c := by
  rcases le_iff_lt_or_eq.mp h₂ with h | h
  · exact lt_trans h₁ h
  · exact h ▸ h₁

end Key

/-! ### generic: strictly monotone lists are determined by their members -/

theorem pairwise_ext {α : Type} {r : α → α → Prop} (irrefl : ∀ a, ¬ r a a)
    (asymm : ∀ a b, r a b → ¬ r b a) :
    ∀ (l₁ l₂ : List α), l₁.Pairwise r → l₂.Pairwise r → (∀ x, x ∈ l₁ ↔ x ∈ l₂) → l₁ = l₂
  | [], [], _, _, _ => rfl
  | [], b :: l₂, _, _, h => by have := (h b).mpr (by simp); simp at this
  | a :: l₁, [], _, _, h => by have := (h a).mp (by simp); simp at this
  | a :: l₁, b :: l₂, h₁, h₂, h => by
    rw [List.pairwise_cons] at h₁ h₂
    have hab : a = b := by
      have ha := (h a).mp (by simp)
      have hb := (h b).mpr (by simp)
      rw [List.mem_cons] at ha hb
      rcases ha with ha | ha
      · exact ha
      · rcases hb with hb | hb
        · exact hb.symm
        · exact absurd (h₁.1 b hb) (asymm _ _ (h₂.1 a ha))
    subst hab
    have ht : l₁ = l₂ := by
      apply pairwise_ext irrefl asymm l₁ l₂ h₁.2 h₂.2
      intro x
      constructor
      · intro hx
        have := (h x).mp (List.mem_cons_of_mem _ hx)
        rw [List.mem_cons] at this
        rcases this with e | e
        · subst e; exact absurd (h₁.1 x hx) (irrefl x)
        · exact e
      · intro hx
        have := (h x).mpr (List.mem_cons_of_mem _ hx)
        rw [List.mem_cons] at this
        rcases this with e | e
        · subst e; exact absurd (h₂.1 x hx) (irrefl x)
        · exact e
    rw [ht]

namespace Store
variable {V : Type}

theorem sorted_nil : Sorted ([] : Store V) := List.Pairwise.nil

theorem sorted_cons {k : Key} {v : V} {m : Store V} :
    Sorted ((k, v) :: m) ↔ (∀ p ∈ m, k < p.1) ∧ Sorted m := by
  unfold Sorted; rw [List.pairwise_cons]

instance instDecidableSorted (m : Store V) : Decidable m.Sorted :=
  inferInstanceAs (Decidable (List.Pairwise (fun a b => a.1 < b.1) m))

/-! ### get -/

theorem get_eq_none_of_lt {m : Store V} {k : Key} (h : ∀ p ∈ m, k < p.1) : m.get k = none := by
  induction m with
  | nil => rfl
  | cons p m ih =>
    obtain ⟨k', v'⟩ := p
    have h1 : k < k' := h (k', v') (by simp)
    have h2 : k' ≠ k := fun e => Key.lt_irrefl k (e ▸ h1)
    simp only [get, h2, if_false]
    exact ih (fun p hp => h p (List.mem_cons_of_mem _ hp))

theorem mem_of_get_eq_some {m : Store V} {k : Key} {v : V} (h : m.get k = some v) : (k, v) ∈ m := by
  induction m with
  | nil => simp [get] at h
  | cons p m ih =>
    obtain ⟨k', v'⟩ := p
    simp only [get] at h
    split at h
    · next e => simp at h; subst e; subst h; simp
    · exact List.mem_cons_of_mem _ (ih h)

theorem get_eq_some_of_mem {m : Store V} (hs : m.Sorted) {k : Key} {v : V} (h : (k, v) ∈ m) :
    m.get k = some v := by
  induction m with
  | nil => simp at h
  | cons p m ih =>
    obtain ⟨k', v'⟩ := p
    rw [sorted_cons] at hs
    rw [List.mem_cons] at h
    rcases h with h | h
    · injection h with h1 h2; subst h1; subst h2; simp [get]
    · have h1 : k' < k := hs.1 _ h
      have h2 : k' ≠ k := Key.ne_of_lt h1
      simp only [get, h2, if_false]
      exact ih hs.2 h

theorem get_eq_some_iff {m : Store V} (hs : m.Sorted) {k : Key} {v : V} :
    m.get k = some v ↔ (k, v) ∈ m := ⟨mem_of_get_eq_some, get_eq_some_of_mem hs⟩

theorem get_eq_none_iff {m : Store V} {k : Key} : m.get k = none ↔ k ∉ m.keys := by
  induction m with
  | nil => simp [get, keys]
  | cons p m ih =>
    obtain ⟨k', v'⟩ := p
    simp only [get, keys, List.map_cons, List.mem_cons, not_or]
    by_cases e : k' = k
    · simp [e]
    · simp only [e, if_false]
      rw [ih]
      simp only [keys]
      constructor
      · intro h; exact ⟨fun e' => e e'.symm, h⟩
      · intro h; exact h.2

theorem mem_keys_iff {m : Store V} {k : Key} : k ∈ m.keys ↔ ∃ v, (k, v) ∈ m := by
  simp [keys]

/-- Extensionality: strictly sorted stores with the same `get` are equal. -/
theorem ext_get {m₁ m₂ : Store V} (h₁ : m₁.Sorted) (h₂ : m₂.Sorted)
    (h : ∀ k, m₁.get k = m₂.get k) : m₁ = m₂ := by
  apply pairwise_ext (r := fun (a b : Key × V) => a.1 < b.1)
    (fun a => Key.lt_irrefl a.1) (fun a b => Key.lt_asymm) m₁ m₂ h₁ h₂
  intro ⟨k, v⟩
  rw [← get_eq_some_iff h₁, ← get_eq_some_iff h₂, h k]

/-! ### set -/

theorem mem_set {m : Store V} (hs : m.Sorted) (k : Key) (v : V) (p : Key × V) :
    p ∈ m.set k v ↔ p = (k, v) ∨ (p ∈ m ∧ p.1 ≠ k) := by
  induction m with
  | nil => simp [set]
  | cons q m ih =>
    obtain ⟨k', v'⟩ := q
    rw [sorted_cons] at hs
    simp only [set]
    by_cases h1 : k < k'
    · simp only [h1, if_true, List.mem_cons]
      constructor
      · rintro (h | h | h)
        · exact Or.inl h
        · subst h; exact Or.inr ⟨Or.inl rfl, fun e => Key.lt_irrefl k (by have e' : k' = k := e; rw [e'] at h1; exact h1)⟩
        · refine Or.inr ⟨Or.inr h, fun e => ?_⟩
          have := hs.1 p h
          exact Key.lt_asymm h1 (e ▸ this)
      · rintro (h | ⟨h | h, _⟩)
        · exact Or.inl h
        · exact Or.inr (Or.inl h)
        · exact Or.inr (Or.inr h)
    · simp only [h1, if_false]
      by_cases h2 : k = k'
      · subst h2
        simp only [if_true, List.mem_cons]
        constructor
        · rintro (h | h)
          · exact Or.inl h
          · exact Or.inr ⟨Or.inr h, fun e => Key.lt_irrefl k (e ▸ hs.1 p h)⟩
        · rintro (h | ⟨h | h, hne⟩)
          · exact Or.inl h
          · subst h; exact absurd rfl hne
          · exact Or.inr h
      · simp only [h2, if_false, List.mem_cons]
        rw [ih hs.2]
        constructor
        · rintro (h | h | ⟨h, hne⟩)
          · subst h; exact Or.inr ⟨Or.inl rfl, fun e => h2 e.symm⟩
          · exact Or.inl h
          · exact Or.inr ⟨Or.inr h, hne⟩
        · rintro (h | ⟨h | h, hne⟩)
          · exact Or.inr (Or.inl h)
          · exact Or.inl h
          · exact Or.inr (Or.inr ⟨h, hne⟩)

theorem sorted_set {m : Store V} (hs : m.Sorted) (k : Key) (v : V) : (m.set k v).Sorted := by
  induction m with
  | nil => simp [set, Sorted]
  | cons q m ih =>
    obtain ⟨k', v'⟩ := q
    have hs' := hs
    rw [sorted_cons] at hs
    simp only [set]
    by_cases h1 : k < k'
    · simp only [h1, if_true]
      rw [sorted_cons]
      refine ⟨?_, hs'⟩
      intro p hp
      rw [List.mem_cons] at hp
      rcases hp with hp | hp
      · subst hp; exact h1
      · exact Key.lt_trans h1 (hs.1 p hp)
    · simp only [h1, if_false]
      by_cases h2 : k = k'
      · subst h2
        simp only [if_true]
        rw [sorted_cons]; exact hs
      · simp only [h2, if_false]
        rw [sorted_cons]
        refine ⟨?_, ih hs.2⟩
        intro p hp
        rw [mem_set hs.2] at hp
        rcases hp with hp | ⟨hp, _⟩
        · subst hp
          rcases Key.lt_trichotomy k k' with h | h | h
          · exact absurd h h1
          · exact absurd h h2
          · exact h
        · exact hs.1 p hp

theorem get_set (m : Store V) (hs : m.Sorted) (k k' : Key) (v : V) :
    (m.set k v).get k' = if k' = k then some v else m.get k' := by
  by_cases e : k' = k
  · subst e
    simp only [if_true]
    rw [get_eq_some_iff (sorted_set hs _ _), mem_set hs]
    exact Or.inl rfl
  · simp only [e, if_false]
    cases hg : m.get k' with
    | none =>
      rw [get_eq_none_iff, mem_keys_iff] at *
      rintro ⟨w, hw⟩
      rw [mem_set hs] at hw
      rcases hw with hw | ⟨hw, _⟩
      · injection hw with h1; exact e h1
      · exact hg ⟨w, hw⟩
    | some w =>
      rw [get_eq_some_iff hs] at hg
      rw [get_eq_some_iff (sorted_set hs _ _), mem_set hs]
      exact Or.inr ⟨hg, e⟩

/-! ### remove -/

theorem mem_remove {m : Store V} (hs : m.Sorted) (k : Key) (p : Key × V) :
    p ∈ m.remove k ↔ p ∈ m ∧ p.1 ≠ k := by
  induction m with
  | nil => simp [remove]
  | cons q m ih =>
    obtain ⟨k', v'⟩ := q
    rw [sorted_cons] at hs
    simp only [remove]
    by_cases h1 : k' = k
    · subst h1
      simp only [if_true, List.mem_cons]
      constructor
      · intro h; exact ⟨Or.inr h, fun e => Key.lt_irrefl k' (e ▸ hs.1 p h)⟩
      · rintro ⟨h | h, hne⟩
        · subst h; exact absurd rfl hne
        · exact h
    · simp only [h1, if_false, List.mem_cons]
      rw [ih hs.2]
      constructor
      · rintro (h | ⟨h, hne⟩)
        · subst h; exact ⟨Or.inl rfl, h1⟩
        · exact ⟨Or.inr h, hne⟩
      · rintro ⟨h | h, hne⟩
        · exact Or.inl h
        · exact Or.inr ⟨h, hne⟩

theorem sorted_remove {m : Store V} (hs : m.Sorted) (k : Key) : (m.remove k).Sorted := by
  induction m with
  | nil => simp [remove, Sorted]
  | cons q m ih =>
    obtain ⟨k', v'⟩ := q
    rw [sorted_cons] at hs
    simp only [remove]
    by_cases h1 : k' = k
    · simp only [h1, if_true]; exact hs.2
    · simp only [h1, if_false]
      rw [sorted_cons]
      refine ⟨?_, ih hs.2⟩
      intro p hp
      rw [mem_remove hs.2] at hp
      exact hs.1 p hp.1

theorem get_remove (m : Store V) (hs : m.Sorted) (k k' : Key) :
    (m.remove k).get k' = if k' = k then none else m.get k' := by
  by_cases e : k' = k
  · subst e
    simp only [if_true]
    rw [get_eq_none_iff, mem_keys_iff]
    rintro ⟨w, hw⟩
    rw [mem_remove hs] at hw
    exact hw.2 rfl
  · simp only [e, if_false]
    cases hg : m.get k' with
    | none =>
      rw [get_eq_none_iff, mem_keys_iff] at *
      rintro ⟨w, hw⟩
      rw [mem_remove hs] at hw
      exact hg ⟨w, hw.1⟩
    | some w =>
      rw [get_eq_some_iff hs] at hg
      rw [get_eq_some_iff (sorted_remove hs _), mem_remove hs]
      exact ⟨hg, e⟩

/-! ### filter / range -/

theorem sorted_filter {m : Store V} (hs : m.Sorted) (f : Key × V → Bool) : Sorted (m.filter f) :=
  List.Pairwise.filter f hs

theorem mem_range' (m : Store V) (s e : Option Key) (o : Order) (p : Key × V) :
    p ∈ m.range s e o ↔ (p ∈ m ∧ inBounds s e p.1 = true) := by
  cases o <;> simp [range]

theorem mem_range (m : Store V) (hs : m.Sorted) (s e : Option Key) (o : Order) (k : Key) (v : V) :
    (k, v) ∈ m.range s e o ↔ (inBounds s e k = true ∧ m.get k = some v) := by
  rw [mem_range', get_eq_some_iff hs]
  exact And.comm

theorem range_asc (m : Store V) (s e : Option Key) :
    m.range s e .asc = m.filter (fun p => inBounds s e p.1) := rfl

theorem range_desc (m : Store V) (s e : Option Key) :
    m.range s e .desc = (m.filter (fun p => inBounds s e p.1)).reverse := rfl

theorem range_asc_sorted {m : Store V} (hs : m.Sorted) (s e : Option Key) :
    (m.range s e .asc).Pairwise (fun a b => a.1 < b.1) := sorted_filter hs _

theorem range_desc_sorted {m : Store V} (hs : m.Sorted) (s e : Option Key) :
    (m.range s e .desc).Pairwise (fun a b => b.1 < a.1) := by
  rw [range_desc, List.pairwise_reverse]
  exact sorted_filter hs _

/-- inverted (or equal) bounds select nothing -/
theorem inBounds_inverted {s e : Key} (h : e ≤ s) (k : Key) : inBounds (some s) (some e) k = false := by
  simp only [inBounds, geStart, ltEnd, Bool.and_eq_false_iff, decide_eq_false_iff_not]
  by_cases h1 : s ≤ k
  · right
    intro h2
    exact Key.lt_irrefl k (Key.lt_of_lt_of_le h2 (by
      rcases Key.le_iff_lt_or_eq.mp h with a | a
      · rcases Key.le_iff_lt_or_eq.mp h1 with b | b
        · exact Key.le_iff_lt_or_eq.mpr (Or.inl (Key.lt_trans a b))
        · exact b ▸ h
      · exact a ▸ h1))
  · exact Or.inl h1

end Store
end CwMt
