import CwMt.Proofs.StakingBounds
/- a concrete set-up chain used by the non-vacuity examples of C14–C16 -/
namespace CwMt
namespace Staking

def exCfg : Cfg := { pool := "pool", valid := fun a => a ≠ "bad" ∧ a ≠ "pool" }

def exBank : Bank.State := [("d1", [⟨"TOKEN", 100⟩]), ("d2", [⟨"TOKEN", 100⟩])]

theorem exBank_wf : BankFacts.WF exBank := by
  have h1 : Bank.mint [] "d1" [⟨"TOKEN", 100⟩] = some [("d1", [⟨"TOKEN", 100⟩])] := by decide
  have h2 : Bank.mint [("d1", [⟨"TOKEN", 100⟩])] "d2" [⟨"TOKEN", 100⟩] = some exBank := by decide
  exact BankFacts.WF_mint (BankFacts.WF_mint BankFacts.WF_empty h1) h2

/-- TOKEN, unbonding time 60 s, 100 % apr; `v1` without commission, `v2` with 10 % -/
def exChain : Chain :=
  freshChain ⟨"TOKEN", 60, ⟨Dec.ONE⟩⟩ [⟨"v1", ⟨0⟩⟩, ⟨"v2", ⟨100000000000000000⟩⟩] exBank 0 0

theorem exChain_inv : Inv exCfg exChain := by
  apply inv_fresh
  · intro vo hvo
    simp only [List.mem_cons, List.mem_nil_iff, or_false] at hvo
    rcases hvo with rfl | rfl <;> decide
  · exact exBank_wf

/-- the five-step history of defect D3 (DESIGN.md section 6) -/
def d3History : List Op :=
  [.delegate "d1" "v1" ⟨"TOKEN", 2⟩, .delegate "d2" "v1" ⟨"TOKEN", 10⟩, .undelegate "d1" "v1" ⟨"TOKEN", 1⟩,
   .slash "v1" ⟨500000000000000000⟩, .advance 61000000000, .advance 1000000000, .delegate "d2" "v1" ⟨"TOKEN", 1⟩]

end Staking
end CwMt
