import CwMt.Model.Prefix
/-
  CwMt.Proofs.Prefix — helper lemmas for C07 (namespaced storage views).
  Self-contained: everything (also the facts about `Store` and about the order on `List UInt8`)
  lives in namespace `CwMt.Prefix`.
-/
namespace CwMt.Prefix
open CwMt

/-! ### order on `List UInt8` -/

theorem u8_lt_irrefl (a : UInt8) : ¬ a < a := by
  rw [UInt8.lt_iff_toNat_lt]; omega

theorem klt_irrefl (a : Key) : ¬ a < a := List.lt_irrefl a

theorem klt_trans {a b c : Key} (h₁ : a < b) (h₂ : b < c) : a < c := List.lt_trans h₁ h₂

theorem klt_asymm {a b : Key} (h : a < b) : ¬ b < a := List.lt_asymm h

theorem kle_iff_not_lt {a b : Key} : a ≤ b ↔ ¬ b < a := List.not_lt.symm

theorem kle_iff {a b : Key} : a ≤ b ↔ a < b ∨ a = b := List.le_iff_lt_or_eq

theorem klt_ne {a b : Key} (h : a < b) : a ≠ b := by
  intro e; subst e; exact klt_irrefl a h

theorem append_lt_append_iff (p s t : Key) : p ++ s < p ++ t ↔ s < t := by
  induction p with
  | nil => simp
  | cons a p ih =>
    rw [List.cons_append, List.cons_append, List.cons_lt_cons_iff, ih]
    constructor
    · rintro (h | ⟨_, h⟩)
      · exact absurd h (u8_lt_irrefl a)
      · exact h
    · intro h; exact Or.inr ⟨rfl, h⟩

theorem append_le_append_iff (p s t : Key) : p ++ s ≤ p ++ t ↔ s ≤ t := by
  rw [kle_iff_not_lt, kle_iff_not_lt, append_lt_append_iff]

theorem nil_kle (t : Key) : ([] : Key) ≤ t := by
  rw [kle_iff_not_lt]; exact List.not_lt_nil t

theorem prefix_le_append (p t : Key) : p ≤ p ++ t := by
  have := (append_le_append_iff p [] t).2 (nil_kle t)
  simpa using this

theorem lt_append_right {x y : Key} (z : Key) (h : x < y) : x < y ++ z := by
  induction x generalizing y with
  | nil =>
    cases y with
    | nil => exact absurd h (List.not_lt_nil _)
    | cons b y => exact List.nil_lt_cons _ _
  | cons a x ih =>
    cases y with
    | nil => exact absurd h (List.not_lt_nil _)
    | cons b y =>
      rw [List.cons_append, List.cons_lt_cons_iff]
      rw [List.cons_lt_cons_iff] at h
      rcases h with h | ⟨e, h⟩
      · exact Or.inl h
      · exact Or.inr ⟨e, ih h⟩

/-! ### `hasPrefix`, `drop` -/

theorem hasPrefix_iff {pfx k : Key} : hasPrefix pfx k = true ↔ ∃ t, k = pfx ++ t := by
  unfold hasPrefix
  rw [List.isPrefixOf_iff_prefix]
  constructor
  · rintro ⟨t, h⟩; exact ⟨t, h.symm⟩
  · rintro ⟨t, h⟩; exact ⟨t, h.symm⟩

theorem hasPrefix_append (pfx t : Key) : hasPrefix pfx (pfx ++ t) = true :=
  hasPrefix_iff.2 ⟨t, rfl⟩

theorem hasPrefix_append_append (pp pr k : Key) :
    hasPrefix (pp ++ pr) k = (hasPrefix pp k && hasPrefix pr (k.drop pp.length)) := by
  unfold hasPrefix
  induction pp generalizing k with
  | nil => simp
  | cons a pp ih =>
    cases k with
    | nil => simp [List.isPrefixOf]
    | cons c k => simp [List.isPrefixOf, ih, Bool.and_assoc]

/-! ### `toLP` -/

theorem toLP_ok_iff (a : List UInt8) : (∃ p, toLP a = .ok p) ↔ a.length ≤ 65535 := by
  unfold toLP encodeLength
  by_cases h : a.length > 0xFFFF
  · simp only [h, if_true, Outcome.map]
    constructor
    · rintro ⟨p, hp⟩; cases hp
    · intro h'; omega
  · simp only [h, if_false, Outcome.map]
    constructor
    · intro _; omega
    · intro _; exact ⟨_, rfl⟩

theorem toLP_eq_ok {a : List UInt8} {pa : Key} (h : toLP a = .ok pa) :
    a.length ≤ 65535 ∧
      pa = [UInt8.ofNat (a.length / 256), UInt8.ofNat (a.length % 256)] ++ a := by
  unfold toLP encodeLength at h
  by_cases hl : a.length > 0xFFFF
  · simp only [hl, if_true, Outcome.map] at h; cases h
  · simp only [hl, if_false, Outcome.map] at h
    cases h
    exact ⟨by omega, rfl⟩

theorem u8_ofNat_inj {n m : Nat} (hn : n < 256) (hm : m < 256)
    (h : UInt8.ofNat n = UInt8.ofNat m) : n = m := by
  have := congrArg UInt8.toNat h
  simp only [UInt8.toNat_ofNat'] at this
  omega

theorem lp_prefix_free (a b : List UInt8) (pa pb x y : Key)
    (ha : toLP a = .ok pa) (hb : toLP b = .ok pb) (h : pa ++ x = pb ++ y) : a = b ∧ x = y := by
  obtain ⟨hla, rfl⟩ := toLP_eq_ok ha
  obtain ⟨hlb, rfl⟩ := toLP_eq_ok hb
  simp only [List.cons_append, List.nil_append, List.cons.injEq] at h
  obtain ⟨h1, h2, h3⟩ := h
  have e1 := u8_ofNat_inj (by omega) (by omega) h1
  have e2 := u8_ofNat_inj (by omega) (by omega) h2
  have hl : a.length = b.length := by omega
  exact List.append_inj h3 hl

/-! ### `toLPNested` -/

theorem toLPNested_cons_ok {a : List UInt8} {p : List (List UInt8)} {pp : Key}
    (h : toLPNested (a :: p) = .ok pp) :
    ∃ pa pp', toLP a = .ok pa ∧ toLPNested p = .ok pp' ∧ pp = pa ++ pp' := by
  simp only [toLPNested] at h
  cases ha : toLP a with
  | ok pa =>
    cases hp : toLPNested p with
    | ok pp' =>
      simp only [ha, hp, Outcome.bind, Outcome.map, Outcome.ok.injEq] at h
      exact ⟨pa, pp', rfl, rfl, h.symm⟩
    | err => simp [ha, hp, Outcome.bind, Outcome.map] at h
    | panic => simp [ha, hp, Outcome.bind, Outcome.map] at h
    | outOfFuel => simp [ha, hp, Outcome.bind, Outcome.map] at h
  | err => simp [ha, Outcome.bind] at h
  | panic => simp [ha, Outcome.bind] at h
  | outOfFuel => simp [ha, Outcome.bind] at h

theorem nested_disjoint (p q : List (List UInt8)) (pp pq k : Key)
    (hp : toLPNested p = .ok pp) (hq : toLPNested q = .ok pq)
    (hkp : pp <+: k) (hkq : pq <+: k) : p <+: q ∨ q <+: p := by
  induction p generalizing q pp pq k with
  | nil => exact Or.inl (List.nil_prefix)
  | cons a p ih =>
    cases q with
    | nil => exact Or.inr (List.nil_prefix)
    | cons b q =>
      obtain ⟨pa, pp', ha, hp', rfl⟩ := toLPNested_cons_ok hp
      obtain ⟨pb, pq', hb, hq', rfl⟩ := toLPNested_cons_ok hq
      obtain ⟨z, hz⟩ := hkp
      obtain ⟨z', hz'⟩ := hkq
      have he : pa ++ (pp' ++ z) = pb ++ (pq' ++ z') := by
        rw [← List.append_assoc, ← List.append_assoc, hz, hz']
      obtain ⟨rfl, he'⟩ := lp_prefix_free a b pa pb _ _ ha hb he
      have := ih q pp' pq' (pp' ++ z) hp' hq' ⟨z, rfl⟩ ⟨z', he'.symm⟩
      rcases this with h | h
      · exact Or.inl (List.cons_prefix_cons.2 ⟨rfl, h⟩)
      · exact Or.inr (List.cons_prefix_cons.2 ⟨rfl, h⟩)

theorem toLPNested_append (p r : List (List UInt8)) (pp pr : Key)
    (hp : toLPNested p = .ok pp) (hr : toLPNested r = .ok pr) :
    toLPNested (p ++ r) = .ok (pp ++ pr) := by
  induction p generalizing pp with
  | nil =>
    simp only [toLPNested, Outcome.ok.injEq] at hp
    subst hp
    simpa using hr
  | cons a p ih =>
    obtain ⟨pa, pp', ha, hp', rfl⟩ := toLPNested_cons_ok hp
    simp only [List.cons_append, toLPNested, ha, ih pp' hp', Outcome.bind, Outcome.map,
      List.append_assoc]

/-! ### `window` -/

theorem window_append (pp pr : Key) (base : Store Val) :
    window (pp ++ pr) base = window pr (window pp base) := by
  unfold window
  rw [List.filter_map, List.filter_filter, List.map_map]
  have hf : (fun a : Key × Val =>
      ((fun p : Key × Val => hasPrefix pr p.1) ∘ fun p : Key × Val => (p.1.drop pp.length, p.2)) a
        && hasPrefix pp a.1) = fun p : Key × Val => hasPrefix (pp ++ pr) p.1 := by
    funext a
    simp only [Function.comp, hasPrefix_append_append, Bool.and_comm]
  rw [hf]
  apply List.map_congr_left
  intro a _
  simp only [Function.comp, List.drop_drop, List.length_append]

theorem subwindow (p r : List (List UInt8)) (pp pr : Key) (base : Store Val)
    (hp : toLPNested p = .ok pp) (hr : toLPNested r = .ok pr) :
    toLPNested (p ++ r) = .ok (pp ++ pr) ∧ window (pp ++ pr) base = window pr (window pp base) :=
  ⟨toLPNested_append p r pp pr hp hr, window_append pp pr base⟩

theorem window_nil (pfx : Key) : window pfx ([] : Store Val) = [] := rfl

theorem window_cons_pos (pfx t : Key) (v : Val) (m : Store Val) :
    window pfx ((pfx ++ t, v) :: m) = (t, v) :: window pfx m := by
  simp [window, hasPrefix_append]

theorem window_cons_neg (pfx k' : Key) (v : Val) (m : Store Val) (h : hasPrefix pfx k' = false) :
    window pfx ((k', v) :: m) = window pfx m := by
  simp [window, h]

theorem window_sorted (pfx : Key) (base : Store Val) (h : base.Sorted) :
    (window pfx base).Sorted := by
  unfold Store.Sorted window at *
  rw [List.pairwise_map, List.pairwise_filter]
  refine List.Pairwise.imp ?_ h
  intro a b hab ha hb
  obtain ⟨ta, hta⟩ := hasPrefix_iff.1 ha
  obtain ⟨tb, htb⟩ := hasPrefix_iff.1 hb
  simp only [hta, htb, List.drop_left]
  rw [hta, htb] at hab
  exact (append_lt_append_iff pfx ta tb).1 hab

/-- every key of the window of a store whose keys all exceed `pfx ++ k` exceeds `k` -/
theorem window_all_gt (pfx k : Key) (m : Store Val) (h : ∀ p ∈ m, pfx ++ k < p.1) :
    ∀ p ∈ window pfx m, k < p.1 := by
  intro p hp
  unfold window at hp
  rw [List.mem_map] at hp
  obtain ⟨q, hq, rfl⟩ := hp
  rw [List.mem_filter] at hq
  obtain ⟨t, ht⟩ := hasPrefix_iff.1 hq.2
  have := h q hq.1
  rw [ht] at this
  simp only [ht, List.drop_left]
  exact (append_lt_append_iff pfx k t).1 this

/-! ### `Store` facts -/

theorem store_set_of_all_gt {V : Type} (w : Store V) (k : Key) (v : V) (h : ∀ p ∈ w, k < p.1) :
    Store.set w k v = (k, v) :: w := by
  cases w with
  | nil => rfl
  | cons p w =>
    obtain ⟨k', v'⟩ := p
    have : k < k' := h (k', v') (List.mem_cons_self)
    simp [Store.set, this]

theorem store_get_set_ne {V : Type} (m : Store V) (k r : Key) (v : V) (hne : r ≠ k) :
    (Store.set m k v).get r = m.get r := by
  induction m with
  | nil => simp [Store.set, Store.get, Ne.symm hne]
  | cons p m ih =>
    obtain ⟨k', v'⟩ := p
    simp only [Store.set]
    by_cases h1 : k < k'
    · simp [h1, Store.get, Ne.symm hne]
    · by_cases h2 : k = k'
      · subst h2
        simp [klt_irrefl, Store.get, Ne.symm hne]
      · simp only [h1, h2, if_false, Store.get, ih]

theorem store_get_remove_ne {V : Type} (m : Store V) (k r : Key) (hne : r ≠ k) :
    (Store.remove m k).get r = m.get r := by
  induction m with
  | nil => rfl
  | cons p m ih =>
    obtain ⟨k', v'⟩ := p
    simp only [Store.remove]
    by_cases h1 : k' = k
    · subst h1
      simp [Store.get, Ne.symm hne]
    · simp only [h1, if_false, Store.get, ih]

/-! ### get / set / remove through a view -/

theorem get_exact (base : Store Val) (_h : base.Sorted) (pfx k : Key) :
    View.get base pfx k = (window pfx base).get k := by
  unfold View.get
  induction base with
  | nil => rfl
  | cons p m ih =>
    obtain ⟨k', v'⟩ := p
    have ih := ih (List.Pairwise.of_cons _h)
    by_cases hp : hasPrefix pfx k' = true
    · obtain ⟨t, rfl⟩ := hasPrefix_iff.1 hp
      rw [window_cons_pos]
      simp only [Store.get, List.append_cancel_left_eq, ih]
    · have hp' : hasPrefix pfx k' = false := by simpa using hp
      rw [window_cons_neg _ _ _ _ hp']
      have hne : k' ≠ pfx ++ k := by
        intro e; rw [e, hasPrefix_append] at hp'; cases hp'
      simp only [Store.get, hne, if_false, ih]

theorem window_set (base : Store Val) (h : base.Sorted) (pfx k : Key) (v : Val) :
    window pfx (Store.set base (pfx ++ k) v) = (window pfx base).set k v := by
  induction base with
  | nil =>
    simp only [Store.set, window_cons_pos, window_nil]
  | cons p m ih =>
    obtain ⟨k', v'⟩ := p
    have hs : ∀ q ∈ m, k' < q.1 := fun q hq => (List.pairwise_cons.1 h).1 q hq
    have ih := ih (List.Pairwise.of_cons h)
    simp only [Store.set]
    by_cases h1 : pfx ++ k < k'
    · simp only [h1, if_true]
      rw [window_cons_pos]
      have hall : ∀ q ∈ (k', v') :: m, pfx ++ k < q.1 := by
        intro q hq
        rcases List.mem_cons.1 hq with rfl | hq
        · exact h1
        · exact klt_trans h1 (hs q hq)
      rw [store_set_of_all_gt _ k v (window_all_gt pfx k _ hall)]
    · by_cases h2 : pfx ++ k = k'
      · subst h2
        simp only [klt_irrefl, if_false, if_true, window_cons_pos, Store.set]
      · simp only [h1, h2, if_false]
        by_cases hp : hasPrefix pfx k' = true
        · obtain ⟨t, rfl⟩ := hasPrefix_iff.1 hp
          rw [window_cons_pos, window_cons_pos, ih]
          have h1' : ¬ k < t := fun hh => h1 ((append_lt_append_iff pfx k t).2 hh)
          have h2' : ¬ k = t := fun hh => h2 (by rw [hh])
          simp only [Store.set, h1', h2', if_false]
        · have hp' : hasPrefix pfx k' = false := by simpa using hp
          rw [window_cons_neg _ _ _ _ hp', window_cons_neg _ _ _ _ hp', ih]

theorem set_exact (base : Store Val) (h : base.Sorted) (pfx k : Key) (v : Val) :
    window pfx (View.set base pfx k v) = (window pfx base).set k v ∧
    ∀ r, r ≠ pfx ++ k → (View.set base pfx k v).get r = base.get r :=
  ⟨window_set base h pfx k v, fun r hr => store_get_set_ne base (pfx ++ k) r v hr⟩

theorem window_remove (base : Store Val) (pfx k : Key) :
    window pfx (Store.remove base (pfx ++ k)) = (window pfx base).remove k := by
  induction base with
  | nil => rfl
  | cons p m ih =>
    obtain ⟨k', v'⟩ := p
    simp only [Store.remove]
    by_cases h1 : k' = pfx ++ k
    · subst h1
      simp only [if_true, window_cons_pos, Store.remove]
    · simp only [h1, if_false]
      by_cases hp : hasPrefix pfx k' = true
      · obtain ⟨t, rfl⟩ := hasPrefix_iff.1 hp
        rw [window_cons_pos, window_cons_pos, ih]
        have h1' : ¬ t = k := fun hh => h1 (by rw [hh])
        simp only [Store.remove, h1', if_false]
      · have hp' : hasPrefix pfx k' = false := by simpa using hp
        rw [window_cons_neg _ _ _ _ hp', window_cons_neg _ _ _ _ hp', ih]

theorem remove_exact (base : Store Val) (_h : base.Sorted) (pfx k : Key) :
    window pfx (View.remove base pfx k) = (window pfx base).remove k ∧
    ∀ r, r ≠ pfx ++ k → (View.remove base pfx k).get r = base.get r :=
  ⟨window_remove base pfx k, fun r hr => store_get_remove_ne base (pfx ++ k) r hr⟩

/-! ### `namespaceUpperBound` -/

theorem u8_lt_succ (b : UInt8) (h : b ≠ 255) : b < b + 1 := by
  have hb : b.toNat ≠ 255 := fun e => h (UInt8.toNat_inj.1 (by simpa using e))
  have := b.toNat_lt
  rw [UInt8.lt_iff_toNat_lt, UInt8.toNat_add]
  simp
  omega

theorem upperRev_covers (r t : Key) (hne : r.all (· == 255) = false) :
    r.reverse ++ t < (upperRev r).reverse := by
  induction r generalizing t with
  | nil => simp at hne
  | cons b r ih =>
    simp only [upperRev]
    by_cases hb : b = 255
    · subst hb
      simp only [if_true, List.reverse_cons, List.append_assoc]
      have hr : r.all (· == 255) = false := by simpa using hne
      exact lt_append_right _ (ih _ hr)
    · simp only [hb, if_false, List.reverse_cons, List.append_assoc]
      rw [append_lt_append_iff]
      simp only [List.singleton_append, List.cons_lt_cons_iff]
      exact Or.inl (u8_lt_succ b hb)

theorem append_lt_upperBound (pfx t : Key) (hne : allFF pfx = false) :
    pfx ++ t < namespaceUpperBound pfx := by
  unfold namespaceUpperBound
  have := upperRev_covers pfx.reverse t (by rw [List.all_reverse]; exact hne)
  simpa using this

theorem upper_bound_covers (pfx k : Key) (hne : allFF pfx = false) (hk : pfx <+: k) :
    pfx ≤ k ∧ k < namespaceUpperBound pfx := by
  obtain ⟨t, rfl⟩ := hk
  exact ⟨prefix_le_append pfx t, append_lt_upperBound pfx t hne⟩

/-! ### range -/

theorem inBounds_raw (pfx t : Key) (s e : Option Key) :
    inBounds (some (View.rawStart pfx s)) (View.rawEnd pfx e) (pfx ++ t) = inBounds s e t := by
  unfold inBounds
  congr 1
  · cases s with
    | none =>
      simp only [geStart, View.rawStart]
      exact decide_eq_true (prefix_le_append pfx t)
    | some s =>
      simp only [geStart, View.rawStart, append_le_append_iff]
  · cases e with
    | some e =>
      simp only [ltEnd, View.rawEnd, append_lt_append_iff]
    | none =>
      simp only [View.rawEnd]
      by_cases hff : allFF pfx = true
      · simp only [hff, if_true, ltEnd]
      · have hff' : allFF pfx = false := by simpa using hff
        simp only [hff', ltEnd, Bool.false_eq_true, if_false]
        exact decide_eq_true (append_lt_upperBound pfx t hff')

theorem range_asc (base : Store Val) (pfx : Key) (s e : Option Key) :
    ((base.filter (fun p => inBounds (some (View.rawStart pfx s)) (View.rawEnd pfx e) p.1)).filter
        (fun p => hasPrefix pfx p.1)).map (fun p => (p.1.drop pfx.length, p.2))
      = (window pfx base).filter (fun p => inBounds s e p.1) := by
  unfold window
  rw [List.filter_map, List.filter_filter, List.filter_filter]
  congr 1
  apply List.filter_congr
  intro a _
  by_cases hp : hasPrefix pfx a.1 = true
  · obtain ⟨t, ht⟩ := hasPrefix_iff.1 hp
    simp only [Function.comp, ht, inBounds_raw, List.drop_left, hasPrefix_append, Bool.true_and,
      Bool.and_true]
  · have hp' : hasPrefix pfx a.1 = false := by simpa using hp
    simp only [hp', Bool.false_and, Bool.and_false]

theorem range_exact (base : Store Val) (_h : base.Sorted) (pfx : Key) (s e : Option Key)
    (o : Order) : View.range base pfx s e o = (window pfx base).range s e o := by
  unfold View.range Store.range
  cases o with
  | asc => exact range_asc base pfx s e
  | desc =>
    simp only [List.filter_reverse, List.map_reverse]
    rw [range_asc]

end CwMt.Prefix
