import CwMt.Model.Rules
import CwMt.Gen.Rules
/- The response validation read from the current sources is the one the engine model transcribes (kept apart from the reply rule:
a rewrite of one function must not break the other property's module). -/
namespace CwMt.Rules
open CwMt

theorem verify_steps_as_modelled : Gen.Rules.verifySteps = expectedVerifySteps := by decide

end CwMt.Rules
