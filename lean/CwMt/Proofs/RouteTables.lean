import CwMt.Proofs.Route
import CwMt.Gen.Builder
import CwMt.Gen.Wrapper
/-
  Proofs of the C20 statements over the generated tables `Gen.Builder.*` / `Gen.Wrapper.steps`
  (instances of the generic lemmas of CwMt/Proofs/Route.lean plus kernel evaluation of the tables).
  CwMt/Props/C20.lean restates each theorem and refers to this file.
-/
namespace CwMt.Route.Tables
open CwMt.Route CwMt.Gen

/-! ### AppBuilder -/

/-- Every `with_*` step sets exactly its own field from its single parameter and keeps the ten others. -/
theorem builder_frame : frameOk BField.all BStep.target BStep.withSteps Builder.steps = true := by decide

/-- The table has one row per method of the model's vocabulary and nothing else. -/
theorem builder_table_exact :
    (Builder.steps.map Prod.fst).Nodup ∧ BStep.other ∉ Builder.steps.map Prod.fst ∧
    ∀ st ∈ BStep.new :: BStep.new_custom :: BStep.withSteps, st ∈ Builder.steps.map Prod.fst := by decide

/-- `new` / `new_custom` write a constant (the default component) into each of the eleven fields. -/
theorem builder_defaults {α : Type} (ctor : BStep) (hc : ctor ∈ [BStep.new, .new_custom]) (args : Nat → CVal α)
    (f : BField) (hf : f ∈ BField.all) : (construct Builder.steps ctor args f).isConst = true := by
  simp only [List.mem_cons, List.not_mem_nil, or_false] at hc
  simp only [BField.all, List.mem_cons, List.not_mem_nil, or_false] at hf
  rcases hc with rfl | rfl <;> rcases hf with rfl | rfl | rfl | rfl | rfl | rfl | rfl | rfl | rfl | rfl | rfl <;> rfl

/-- **Any subset, any order, repetitions**: after any list of `with_*` steps every component of the
builder is the value supplied by the last step for it, or what the constructor put there. -/
theorem builder_any_order {α : Type} (init : BField → CVal α) (l : List (BStep × α))
    (hl : ∀ p ∈ l, p.1 ∈ BStep.withSteps) (f : BField) (hf : f ∈ BField.all) :
    runSteps Builder.steps init l f =
      match lastFor BStep.target f l with
      | some a => .supplied a
      | none => init f :=
  runSteps_spec builder_frame l hl init hf

example : ∀ p ∈ [(BStep.with_gov, 1), (BStep.with_bank, 2), (BStep.with_gov, 3)], p.1 ∈ BStep.withSteps := by decide

/-- Hence all orders of the same steps give the same builder (no two steps for the same component). -/
theorem builder_permutations_agree {α : Type} (init : BField → CVal α) (l₁ l₂ : List (BStep × α)) (hp : l₁.Perm l₂)
    (hl : ∀ p ∈ l₁, p.1 ∈ BStep.withSteps) (hnd : (l₁.map (fun p => BStep.target p.1)).Nodup)
    (f : BField) (hf : f ∈ BField.all) :
    runSteps Builder.steps init l₁ f = runSteps Builder.steps init l₂ f :=
  runSteps_perm builder_frame hp hl hnd init hf

example : ([(BStep.with_gov, 1), (BStep.with_bank, 2)] : List (BStep × Nat)).Perm [(BStep.with_bank, 2), (BStep.with_gov, 1)] ∧
    (([(BStep.with_gov, 1), (BStep.with_bank, 2)] : List (BStep × Nat)).map (fun p => BStep.target p.1)).Nodup :=
  ⟨List.Perm.swap _ _ _, by decide⟩

/-- `build` moves every builder field into the same-named `App` / `Router` field, runs the init
function exactly once, after the `App` exists, on the `App`'s own router, api and storage, and returns
that `App`. -/
theorem build_moves_all_and_inits_once {α : Type} (b : BField → CVal α) :
    ∃ app, runBuild Builder.build b = some app ∧
      (∀ f ∈ BField.all, app.comp f = b f) ∧ app.inits = [b .storage] ∧
      Builder.build.routerFields = [.wasm, .bank, .custom, .staking, .distribution, .ibc, .gov, .stargate] := by
  refine ⟨⟨buildComp Builder.build b, [buildComp Builder.build b .storage]⟩, rfl, ?_, rfl, rfl⟩
  intro f hf
  simp only [BField.all, List.mem_cons, List.not_mem_nil, or_false] at hf
  rcases hf with rfl | rfl | rfl | rfl | rfl | rfl | rfl | rfl | rfl | rfl | rfl <;> rfl

/-- The whole pipeline: constructor, any steps, `build`: the application has, per component, the last
supplied value or the constructor's default, and the init function ran once on the supplied (or
default) storage. -/
theorem built_app_any_order {α : Type} (ctor : BStep) (args : Nat → CVal α) (l : List (BStep × α))
    (hl : ∀ p ∈ l, p.1 ∈ BStep.withSteps) :
    ∃ app, runBuild Builder.build (runSteps Builder.steps (construct Builder.steps ctor args) l) = some app ∧
      (∀ f ∈ BField.all, app.comp f =
        match lastFor BStep.target f l with
        | some a => .supplied a
        | none => construct Builder.steps ctor args f) ∧
      app.inits = [app.comp .storage] := by
  obtain ⟨app, h₁, h₂, h₃, _⟩ := build_moves_all_and_inits_once (runSteps Builder.steps (construct Builder.steps ctor args) l)
  refine ⟨app, h₁, fun f hf => ?_, ?_⟩
  · rw [h₂ f hf]; exact builder_any_order _ l hl f hf
  · rw [h₃, h₂ .storage (by decide)]

/-! ### ContractWrapper -/

/-- Every `with_*` of the wrapper sets exactly its own slot from its parameter and keeps the six other
fields — in particular the checksum (full strength since the D6 fix); both constructors take the
three mandatory entry points from their parameters and write constants into the four optional slots. -/
theorem wrapper_frame :
    frameOk WField.all WStep.target WStep.withSteps Wrapper.steps = true ∧
    (∀ c ∈ [WStep.new, .new_with_empty], ∃ r, Wrapper.steps.lookup c = some r ∧ ctorOk r = true) ∧
    (Wrapper.steps.map Prod.fst).Nodup ∧ WStep.other ∉ Wrapper.steps.map Prod.fst := by
  refine ⟨by decide, ?_, by decide, by decide⟩
  intro c hc
  simp only [List.mem_cons, List.not_mem_nil, or_false] at hc
  rcases hc with rfl | rfl <;> exact ⟨_, rfl, by decide⟩

/-- **Any order, repetitions**: a wrapper made by `new` / `new_with_empty` from entry points `e i q`
followed by any list of `with_*` steps still has `e i q`, and each of sudo / reply / migrate /
checksum is the last value supplied for it, or `None`. -/
theorem wrapper_any_order {α : Type} (ctor : WStep) (hc : ctor ∈ [WStep.new, .new_with_empty]) (e i q : α)
    (l : List (WStep × α)) (hl : ∀ p ∈ l, p.1 ∈ WStep.withSteps) :
    let args : Nat → CVal α := fun n => match n with | 0 => .supplied e | 1 => .supplied i | 2 => .supplied q | _ => .undef
    let w := runSteps Wrapper.steps (construct Wrapper.steps ctor args) l
    w .execute_fn = .supplied e ∧ w .instantiate_fn = .supplied i ∧ w .query_fn = .supplied q ∧
    ∀ f ∈ [WField.sudo_fn, .reply_fn, .migrate_fn, .checksum],
      w f = match lastFor WStep.target f l with
        | some a => .supplied a
        | none => .const "None" := by
  intro args w
  have key : ∀ f ∈ WField.all, w f = match lastFor WStep.target f l with
      | some a => .supplied a
      | none => construct Wrapper.steps ctor args f :=
    fun f hf => runSteps_spec wrapper_frame.1 l hl _ hf
  have none_of : ∀ (g : WField) (p : WStep × α), p ∈ l → WStep.target p.1 = g → g ∈ [WField.sudo_fn, .reply_fn, .migrate_fn, .checksum] := by
    intro g p hp ht
    have := hl p hp
    simp only [WStep.withSteps, List.mem_cons, List.not_mem_nil, or_false] at this
    rcases this with h | h | h | h | h | h | h <;> rw [h] at ht <;> subst ht <;> decide
  have mand : ∀ g, g ∉ [WField.sudo_fn, .reply_fn, .migrate_fn, .checksum] → lastFor WStep.target g l = none := by
    intro g hg
    rw [lastFor_eq_getLast?]
    have : l.filter (fun p => decide (WStep.target p.1 = g)) = [] := by
      rw [List.filter_eq_nil_iff]
      intro p hp
      simp only [decide_eq_true_eq]
      exact fun ht => hg (none_of g p hp ht)
    simp [this]
  simp only [List.mem_cons, List.not_mem_nil, or_false] at hc
  refine ⟨?_, ?_, ?_, ?_⟩
  · rw [key _ (by decide), mand _ (by decide)]; rcases hc with rfl | rfl <;> rfl
  · rw [key _ (by decide), mand _ (by decide)]; rcases hc with rfl | rfl <;> rfl
  · rw [key _ (by decide), mand _ (by decide)]; rcases hc with rfl | rfl <;> rfl
  · intro f hf
    have hf' : f ∈ WField.all := by
      simp only [List.mem_cons, List.not_mem_nil, or_false] at hf
      rcases hf with rfl | rfl | rfl | rfl <;> decide
    rw [key f hf']
    cases lastFor WStep.target f l with
    | some a => rfl
    | none =>
      simp only [List.mem_cons, List.not_mem_nil, or_false] at hf
      rcases hc with rfl | rfl <;> rcases hf with rfl | rfl | rfl | rfl <;> rfl

example : (WStep.new ∈ [WStep.new, .new_with_empty]) ∧
    ∀ p ∈ [(WStep.with_checksum, 1), (WStep.with_reply, 2), (WStep.with_sudo_empty, 3)], p.1 ∈ WStep.withSteps := by decide

/-- All orders of the same wrapper steps agree (no two steps for the same slot). -/
theorem wrapper_permutations_agree {α : Type} (init : WField → CVal α) (l₁ l₂ : List (WStep × α)) (hp : l₁.Perm l₂)
    (hl : ∀ p ∈ l₁, p.1 ∈ WStep.withSteps) (hnd : (l₁.map (fun p => WStep.target p.1)).Nodup)
    (f : WField) (hf : f ∈ WField.all) :
    runSteps Wrapper.steps init l₁ f = runSteps Wrapper.steps init l₂ f :=
  runSteps_perm wrapper_frame.1 hp hl hnd init hf

/-- The instance of the property text: a checksum set before `with_reply` survives it. -/
theorem checksum_survives_reply {α : Type} (e i q c r : α) :
    let args : Nat → CVal α := fun n => match n with | 0 => .supplied e | 1 => .supplied i | 2 => .supplied q | _ => .undef
    runSteps Wrapper.steps (construct Wrapper.steps .new args) [(.with_checksum, c), (.with_reply, r)] .checksum = .supplied c := rfl

end CwMt.Route.Tables
