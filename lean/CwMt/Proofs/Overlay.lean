import CwMt.Proofs.Store
import CwMt.Model.Overlay
/-
  CwMt.Proofs.Overlay — lemmas about the transactional overlay (`Stack`, `merge`, `abs`).
-/
namespace CwMt

/-- last-write-wins summary of a replay log -/
def summary (log : List Op) : Store Delta := log.foldl (fun m op => m.set op.key op.toDelta) []

/-- representation invariant of a stack -/
def WF : Stack → Prop
  | .root m => m.Sorted
  | .layer b l => WF b ∧ l.loc.Sorted ∧ l.loc = summary l.log

instance WF.instDecidable : (st : Stack) → Decidable (WF st)
  | .root m => inferInstanceAs (Decidable m.Sorted)
  | .layer b l =>
    have : Decidable (WF b) := WF.instDecidable b
    inferInstanceAs (Decidable (WF b ∧ l.loc.Sorted ∧ l.loc = summary l.log))

/-! ### iteration order -/

theorem before_irrefl (o : Order) (a : Key) : ¬ before o a a = true := by
  cases o <;> simp [before, Key.lt_irrefl]

theorem before_trans {o : Order} {a b c : Key} :
    before o a b = true → before o b c = true → before o a c = true := by
  cases o <;> simp only [before, decide_eq_true_eq]
  · exact Key.lt_trans
  · exact fun h₁ h₂ => Key.lt_trans h₂ h₁

theorem before_asymm {o : Order} {a b : Key} : before o a b = true → ¬ before o b a = true := by
  cases o <;> simp only [before, decide_eq_true_eq] <;> exact Key.lt_asymm

theorem before_total (o : Order) (a b : Key) : before o a b = true ∨ a = b ∨ before o b a = true := by
  cases o <;> simp only [before, decide_eq_true_eq]
  · exact Key.lt_trichotomy a b
  · rcases Key.lt_trichotomy a b with h | h | h
    · exact Or.inr (Or.inr h)
    · exact Or.inr (Or.inl h)
    · exact Or.inl h

/-- strictly monotone in iteration direction `o` -/
abbrev Mono {α : Type} (o : Order) (l : List (Key × α)) : Prop :=
  l.Pairwise (fun a b => before o a.1 b.1 = true)

theorem Store.range_mono {V : Type} {m : Store V} (hs : m.Sorted) (s e : Option Key) (o : Order) :
    Mono o (m.range s e o) := by
  cases o
  · simpa [Mono, before] using Store.range_asc_sorted hs s e
  · simpa [Mono, before] using Store.range_desc_sorted hs s e

theorem mono_ext {α : Type} {o : Order} {l₁ l₂ : List (Key × α)} (h₁ : Mono o l₁) (h₂ : Mono o l₂)
    (h : ∀ x, x ∈ l₁ ↔ x ∈ l₂) : l₁ = l₂ :=
  pairwise_ext (r := fun (a b : Key × α) => before o a.1 b.1 = true)
    (fun a => before_irrefl o a.1) (fun _ _ => before_asymm) l₁ l₂ h₁ h₂ h

/-! ### the merge iterator -/

theorem mem_merge (o : Order) (l : List (Key × Delta)) (r : List (Key × Val))
    (hl : Mono o l) (hr : Mono o r) (k : Key) (v : Val) :
    (k, v) ∈ merge o l r ↔ (k, Delta.set v) ∈ l ∨ ((∀ d, (k, d) ∉ l) ∧ (k, v) ∈ r) := by
  fun_induction merge o l r <;> simp_all <;> grind [before_irrefl, before_trans, before_asymm, before_total]

theorem mem_merge_sub (o : Order) (l : List (Key × Delta)) (r : List (Key × Val)) (k : Key) (v : Val) :
    (k, v) ∈ merge o l r → (∃ d, (k, d) ∈ l) ∨ (k, v) ∈ r := by
  fun_induction merge o l r <;> simp_all <;> grind

theorem merge_mono (o : Order) (l : List (Key × Delta)) (r : List (Key × Val))
    (hl : Mono o l) (hr : Mono o r) : Mono o (merge o l r) := by
  fun_induction merge o l r <;> simp_all <;>
    grind [→ mem_merge_sub, before_irrefl, before_trans, before_asymm, before_total]

/-! ### localRange -/

theorem Store.range_inverted {V : Type} (m : Store V) {s e : Key} (h : e ≤ s) (o : Order) :
    m.range (some s) (some e) o = [] := by
  have hf : m.filter (fun p => inBounds (some s) (some e) p.1) = [] :=
    List.filter_eq_nil_iff.mpr (fun p _ => by simp [Store.inBounds_inverted h])
  cases o <;> simp [Store.range, hf]

/-- the short-circuit on inverted bounds is invisible: inverted bounds select nothing anyway -/
theorem localRange_eq (loc : Store Delta) (s e : Option Key) (o : Order) :
    localRange loc s e o = loc.range s e o := by
  unfold localRange
  split
  · split
    · next h => exact (Store.range_inverted loc (Key.le_iff_lt_or_eq.mpr (Or.inl h)) o).symm
    · rfl
  · rfl

/-! ### point lookups through deltas -/

/-- how a layer's delta for a key combines with what the base answers -/
def overlayGet : Option Delta → Option Val → Option Val
  | some (.set v), _ => some v
  | some .del, _ => none
  | none, b => b

theorem Stack.get_layer (b : Stack) (l : Layer) (k : Key) :
    (Stack.layer b l).get k = overlayGet (l.loc.get k) (b.get k) := by
  rw [Stack.get]
  cases l.loc.get k with
  | none => rfl
  | some d => cases d <;> rfl

theorem sorted_applyDelta {m : Store Val} (hs : m.Sorted) (k : Key) (d : Delta) :
    (applyDelta m k d).Sorted := by
  cases d
  · exact Store.sorted_set hs _ _
  · exact Store.sorted_remove hs _

theorem get_applyDelta (m : Store Val) (hs : m.Sorted) (k k' : Key) (d : Delta) :
    (applyDelta m k d).get k' = if k' = k then overlayGet (some d) (m.get k') else m.get k' := by
  cases d
  · simp only [applyDelta, Store.get_set m hs, overlayGet]
  · simp only [applyDelta, Store.get_remove m hs, overlayGet]

theorem sorted_foldl_applyDelta (loc : Store Delta) (m : Store Val) (hs : m.Sorted) :
    (loc.foldl (fun m p => applyDelta m p.1 p.2) m).Sorted := by
  induction loc generalizing m with
  | nil => exact hs
  | cons p loc ih => exact ih _ (sorted_applyDelta hs _ _)

theorem get_foldl_applyDelta (loc : Store Delta) (hl : loc.Sorted) (m : Store Val) (hs : m.Sorted)
    (k : Key) :
    (loc.foldl (fun m p => applyDelta m p.1 p.2) m).get k = overlayGet (loc.get k) (m.get k) := by
  induction loc generalizing m with
  | nil => rfl
  | cons p loc ih =>
    obtain ⟨k', d⟩ := p
    rw [Store.sorted_cons] at hl
    simp only [List.foldl_cons]
    rw [ih hl.2 _ (sorted_applyDelta hs _ _), get_applyDelta m hs]
    by_cases e : k' = k
    · subst e
      rw [Store.get_eq_none_of_lt hl.1]
      simp [Store.get, overlayGet]
    · have e' : ¬ k = k' := fun h => e h.symm
      simp [Store.get, e, e']

/-! ### summary of a log -/

theorem summary_append (log : List Op) (op : Op) :
    summary (log ++ [op]) = (summary log).set op.key op.toDelta := by
  simp [summary, List.foldl_append]

/-- replaying a log over `m` and applying the log's summary over `m0` agree pointwise, provided the
accumulators already agree -/
theorem foldl_log_inv (log : List Op) :
    ∀ (acc : Store Delta) (m m0 : Store Val), acc.Sorted → m.Sorted →
      (∀ k, m.get k = overlayGet (acc.get k) (m0.get k)) →
      (log.foldl (fun a op => a.set op.key op.toDelta) acc).Sorted ∧
      (log.foldl (fun m op => applyDelta m op.key op.toDelta) m).Sorted ∧
      ∀ k, (log.foldl (fun m op => applyDelta m op.key op.toDelta) m).get k =
        overlayGet ((log.foldl (fun a op => a.set op.key op.toDelta) acc).get k) (m0.get k) := by
  induction log with
  | nil => intro acc m m0 ha hm h; exact ⟨ha, hm, h⟩
  | cons op log ih =>
    intro acc m m0 ha hm h
    simp only [List.foldl_cons]
    apply ih _ _ m0 (Store.sorted_set ha _ _) (sorted_applyDelta hm _ _)
    intro k
    rw [get_applyDelta m hm, Store.get_set acc ha]
    by_cases e : k = op.key
    · simp only [e, if_true]
      cases op.toDelta <;> rfl
    · simp only [e, if_false]
      exact h k

theorem sorted_summary (log : List Op) : (summary log).Sorted :=
  (foldl_log_inv log [] [] [] Store.sorted_nil Store.sorted_nil (fun _ => rfl)).1

theorem get_foldl_log (log : List Op) (m : Store Val) (hm : m.Sorted) (k : Key) :
    (log.foldl (fun m op => applyDelta m op.key op.toDelta) m).get k =
      overlayGet ((summary log).get k) (m.get k) :=
  (foldl_log_inv log [] m m Store.sorted_nil hm (fun _ => rfl)).2.2 k

theorem sorted_foldl_log (log : List Op) (m : Store Val) (hm : m.Sorted) :
    (log.foldl (fun m op => applyDelta m op.key op.toDelta) m).Sorted :=
  (foldl_log_inv log [] m m Store.sorted_nil hm (fun _ => rfl)).2.1

/-! ### the abstraction function -/

theorem WF.abs_sorted : ∀ (st : Stack), WF st → (abs st).Sorted
  | .root _, h => h
  | .layer b l, h => sorted_foldl_applyDelta l.loc _ (WF.abs_sorted b h.1)

theorem get_abs_layer (b : Stack) (l : Layer) (h : WF (.layer b l)) (k : Key) :
    (abs (.layer b l)).get k = overlayGet (l.loc.get k) ((abs b).get k) :=
  get_foldl_applyDelta l.loc h.2.1 _ (WF.abs_sorted b h.1) k

theorem Stack.get_eq_abs : ∀ (st : Stack), WF st → ∀ k, st.get k = (abs st).get k
  | .root _, _, _ => rfl
  | .layer b l, h, k => by
    rw [Stack.get_layer, get_abs_layer b l h, Stack.get_eq_abs b h.1 k]

/-! ### well-formedness is preserved -/

theorem WF.push (st : Stack) (h : WF st) : WF st.push :=
  ⟨h, Store.sorted_nil, rfl⟩

theorem WF.set : ∀ (st : Stack), WF st → ∀ (k : Key) (v : Val), WF (st.set k v)
  | .root _, h, k, v => Store.sorted_set h k v
  | .layer b l, h, k, v => by
    refine ⟨h.1, Store.sorted_set h.2.1 _ _, ?_⟩
    show l.loc.set k (.set v) = summary (l.log ++ [.set k v])
    rw [summary_append, ← h.2.2]; rfl

theorem WF.remove : ∀ (st : Stack), WF st → ∀ (k : Key), WF (st.remove k)
  | .root _, h, k => Store.sorted_remove h k
  | .layer b l, h, k => by
    refine ⟨h.1, Store.sorted_set h.2.1 _ _, ?_⟩
    show l.loc.set k .del = summary (l.log ++ [.del k])
    rw [summary_append, ← h.2.2]; rfl

theorem WF.discard : ∀ (st : Stack), WF st → WF st.discard
  | .root _, h => h
  | .layer _ _, h => h.1

theorem WF.applyOp (st : Stack) (h : WF st) (op : Op) : WF (st.applyOp op) := by
  cases op
  · exact WF.set st h _ _
  · exact WF.remove st h _

theorem WF.applyLog (log : List Op) : ∀ (st : Stack), WF st → WF (st.applyLog log) := by
  induction log with
  | nil => intro st h; exact h
  | cons op log ih => intro st h; exact ih _ (WF.applyOp st h op)

theorem WF.commit : ∀ (st : Stack), WF st → WF st.commit
  | .root _, h => h
  | .layer b l, h => WF.applyLog l.log b h.1

/-! ### writes -/

theorem Stack.abs_set : ∀ (st : Stack), WF st → ∀ (k : Key) (v : Val),
    abs (st.set k v) = (abs st).set k v
  | .root _, _, _, _ => rfl
  | .layer b l, h, k, v => by
    have h' := WF.set _ h k v
    have hs := WF.abs_sorted _ h
    apply Store.ext_get (WF.abs_sorted _ h') (Store.sorted_set hs _ _)
    intro k'
    rw [Store.get_set _ hs, get_abs_layer b l h]
    show (abs (.layer b { loc := l.loc.set k (.set v), log := l.log ++ [.set k v] })).get k' = _
    rw [get_abs_layer b _ h']
    simp only [Store.get_set _ h.2.1]
    by_cases e : k' = k <;> simp [e, overlayGet]

theorem Stack.abs_remove : ∀ (st : Stack), WF st → ∀ (k : Key),
    abs (st.remove k) = (abs st).remove k
  | .root _, _, _ => rfl
  | .layer b l, h, k => by
    have h' := WF.remove _ h k
    have hs := WF.abs_sorted _ h
    apply Store.ext_get (WF.abs_sorted _ h') (Store.sorted_remove hs _)
    intro k'
    rw [Store.get_remove _ hs, get_abs_layer b l h]
    show (abs (.layer b { loc := l.loc.set k .del, log := l.log ++ [.del k] })).get k' = _
    rw [get_abs_layer b _ h']
    simp only [Store.get_set _ h.2.1]
    by_cases e : k' = k <;> simp [e, overlayGet]

theorem Stack.abs_push (st : Stack) : abs st.push = abs st := rfl

theorem Stack.abs_applyOp (st : Stack) (h : WF st) (op : Op) :
    abs (st.applyOp op) = applyDelta (abs st) op.key op.toDelta := by
  cases op
  · exact Stack.abs_set st h _ _
  · exact Stack.abs_remove st h _

theorem Stack.abs_applyLog (log : List Op) : ∀ (st : Stack), WF st →
    abs (st.applyLog log) = log.foldl (fun m op => applyDelta m op.key op.toDelta) (abs st) := by
  induction log with
  | nil => intro st _; rfl
  | cons op log ih =>
    intro st h
    show abs ((st.applyOp op).applyLog log) = _
    rw [ih _ (WF.applyOp st h op), Stack.abs_applyOp st h op]; rfl

theorem Stack.depth_applyOp (st : Stack) (op : Op) : (st.applyOp op).depth = st.depth := by
  cases op <;> cases st <;> rfl

theorem Stack.depth_applyLog (log : List Op) : ∀ (st : Stack), (st.applyLog log).depth = st.depth := by
  induction log with
  | nil => intro st; rfl
  | cons op log ih =>
    intro st
    show ((st.applyOp op).applyLog log).depth = _
    rw [ih, Stack.depth_applyOp]

theorem Stack.discard_applyLog_layer (ops : List Op) : ∀ (st : Stack) (l : Layer),
    ((Stack.layer st l).applyLog ops).discard = st := by
  induction ops with
  | nil => intro st l; rfl
  | cons op ops ih =>
    intro st l
    cases op
    · exact ih st _
    · exact ih st _

theorem Stack.discard_applyLog_push (st : Stack) (ops : List Op) :
    (st.push.applyLog ops).discard = st := Stack.discard_applyLog_layer ops st {}

/-! ### commit -/

theorem Stack.abs_commit (b : Stack) (l : Layer) (h : WF (.layer b l)) :
    abs (Stack.commit (.layer b l)) = abs (.layer b l) ∧
      (Stack.commit (.layer b l)).depth = b.depth := by
  refine ⟨?_, Stack.depth_applyLog l.log b⟩
  show abs (b.applyLog l.log) = _
  have hb := WF.abs_sorted b h.1
  apply Store.ext_get (WF.abs_sorted _ (WF.applyLog l.log b h.1)) (WF.abs_sorted _ h)
  intro k
  rw [Stack.abs_applyLog l.log b h.1, get_foldl_log l.log _ hb, get_abs_layer b l h, h.2.2]

theorem Stack.applyLog_root (log : List Op) : ∀ (m : Store Val),
    (Stack.root m).applyLog log =
      .root (log.foldl (fun m op => applyDelta m op.key op.toDelta) m) := by
  induction log with
  | nil => intro m; rfl
  | cons op log ih =>
    intro m
    cases op
    · exact ih _
    · exact ih _

theorem Stack.commit_root (m : Store Val) (l : Layer) (h : WF (.layer (.root m) l)) :
    Stack.commit (.layer (.root m) l) = .root (abs (.layer (.root m) l)) := by
  have h1 := (Stack.abs_commit (.root m) l h).1
  have h2 : Stack.commit (.layer (.root m) l) = _ := Stack.applyLog_root l.log m
  rw [h2] at h1 ⊢
  exact congrArg Stack.root h1

/-! ### range -/

theorem Stack.range_eq_abs : ∀ (st : Stack), WF st → ∀ (s e : Option Key) (o : Order),
    st.range s e o = (abs st).range s e o
  | .root _, _, _, _, _ => rfl
  | .layer b l, h, s, e, o => by
    have hb := WF.abs_sorted b h.1
    have ha := WF.abs_sorted _ h
    have hl := h.2.1
    rw [Stack.range, Stack.range_eq_abs b h.1 s e o, localRange_eq]
    apply mono_ext (merge_mono o _ _ (Store.range_mono hl s e o) (Store.range_mono hb s e o))
      (Store.range_mono ha s e o)
    intro ⟨k, v⟩
    rw [mem_merge o _ _ (Store.range_mono hl s e o) (Store.range_mono hb s e o),
      Store.mem_range _ ha, get_abs_layer b l h, Store.mem_range _ hb]
    simp only [Store.mem_range _ hl]
    cases inBounds s e k <;> cases l.loc.get k with
    | none => simp [overlayGet]
    | some d => cases d <;> simp [overlayGet]

theorem Stack.range_pairwise (st : Stack) (h : WF st) (s e : Option Key) (o : Order) :
    (st.range s e o).Pairwise (fun a b => before o a.1 b.1 = true) := by
  rw [Stack.range_eq_abs st h]
  exact Store.range_mono (WF.abs_sorted st h) s e o

/-! ### kernel-evaluable `range` (so that `by decide` works on closed stacks)

`merge` is defined by well-founded recursion and therefore does not reduce under `decide`.
`mergeF` is the same function by structural recursion on a fuel argument; `Stack.rangeF` uses it
with exactly enough fuel, and is proved equal to `Stack.range`. The `Decidable` instance below
decides equations about `Stack.range` by evaluating `Stack.rangeF`. -/

def mergeF (o : Order) : Nat → List (Key × Delta) → List (Key × Val) → List (Key × Val)
  | 0, _, r => r
  | _ + 1, [], r => r
  | n + 1, (lk, .set v) :: l, [] => (lk, v) :: mergeF o n l []
  | n + 1, (_, .del) :: l, [] => mergeF o n l []
  | n + 1, (lk, d) :: l, (rk, rv) :: r =>
    if lk = rk then
      match d with
      | .set v => (lk, v) :: mergeF o n l r
      | .del => mergeF o n l r
    else if before o lk rk then
      match d with
      | .set v => (lk, v) :: mergeF o n l ((rk, rv) :: r)
      | .del => mergeF o n l ((rk, rv) :: r)
    else
      (rk, rv) :: mergeF o n ((lk, d) :: l) r

theorem mergeF_cons_cons (o : Order) (n : Nat) (lk : Key) (d : Delta) (l : List (Key × Delta))
    (rk : Key) (rv : Val) (r : List (Key × Val)) :
    mergeF o (n + 1) ((lk, d) :: l) ((rk, rv) :: r) =
      if lk = rk then
        match d with
        | .set v => (lk, v) :: mergeF o n l r
        | .del => mergeF o n l r
      else if before o lk rk then
        match d with
        | .set v => (lk, v) :: mergeF o n l ((rk, rv) :: r)
        | .del => mergeF o n l ((rk, rv) :: r)
      else
        (rk, rv) :: mergeF o n ((lk, d) :: l) r := by
  cases d <;> simp [mergeF]

theorem mergeF_eq (o : Order) (l : List (Key × Delta)) (r : List (Key × Val)) :
    ∀ n, l.length + r.length ≤ n → mergeF o n l r = merge o l r := by
  fun_induction merge o l r <;> intro n hn <;> cases n <;>
    simp_all [mergeF, mergeF_cons_cons] <;> grind

def Stack.rangeF : Stack → Option Key → Option Key → Order → List (Key × Val)
  | .root m, s, e, o => m.range s e o
  | .layer b l, s, e, o =>
    let L := localRange l.loc s e o
    let R := b.rangeF s e o
    mergeF o (L.length + R.length) L R

theorem Stack.rangeF_eq : ∀ (st : Stack) (s e : Option Key) (o : Order),
    st.rangeF s e o = st.range s e o
  | .root _, _, _, _ => rfl
  | .layer b l, s, e, o => by
    simp only [Stack.rangeF, Stack.range, Stack.rangeF_eq b s e o]
    exact mergeF_eq o _ _ _ (Nat.le_refl _)

instance (priority := high) Stack.instDecidableRangeEq (st : Stack) (s e : Option Key) (o : Order)
    (x : List (Key × Val)) : Decidable (st.range s e o = x) :=
  decidable_of_iff (st.rangeF s e o = x) (by rw [Stack.rangeF_eq])

end CwMt
