import CwMt.Proofs.StakingSlash
/-
  CwMt.Proofs.StakingRewards — C15 exact statements: crediting rewards does not change what the Delegation query shows,
  a withdrawal pays exactly what was shown and touches nobody else; C16: a slash leaves shown rewards alone.
-/
set_option linter.unusedSimpArgs false
set_option linter.unusedVariables false
namespace CwMt
namespace Staking
open KMap

theorem Dec.add_zero' (a : Dec) : Dec.add a Dec.zero = a := by apply Dec.ext'; simp [Dec.add, Dec.zero]

theorem Dec.eq_zero_of_isZero {a : Dec} (h : a.isZero = true) : a = Dec.zero := by
  apply Dec.ext'; simpa [Dec.isZero, Dec.zero] using h

theorem elapsed_self (now : Nat) : elapsed now now = 0 := by simp [elapsed]

theorem grossReward_same (now : Nat) (apr : Dec) (stake : Nat) : grossReward now now apr stake = Dec.zero := by
  apply Dec.ext'; simp [grossReward, elapsed_self, Dec.ofNat, Dec.mul, Dec.div, Dec.zero]

theorem calcRewards_same (now : Nat) (apr c : Dec) (stake : Nat) : calcRewards now now apr c stake = .ok Dec.zero := by
  unfold calcRewards netReward
  rw [grossReward_same]
  have h0 : Dec.mul Dec.zero c = Dec.zero := Dec.mul_zero_left c
  rw [h0]
  have h1 : ¬ Dec.zero < Dec.zero := by rw [Dec.lt_def]; exact Nat.lt_irrefl _
  have h2 : Dec.sub Dec.zero Dec.zero = Dec.zero := by apply Dec.ext'; simp [Dec.sub, Dec.zero]
  have h3 : ¬ now / NS < now / NS := Nat.lt_irrefl _
  simp [h1, h2, h3]

theorem shareOf_zero (sh : Shares) (vi : ValInfo) : shareOfRewards sh vi Dec.zero = Dec.zero := by
  unfold shareOfRewards
  split
  · rfl
  · apply Dec.ext'; simp [Dec.divNat, Dec.mul, Dec.zero]

theorem shareOf_dflt (vi : ValInfo) (nr : Dec) : shareOfRewards Shares.dflt vi nr = Dec.zero := by
  unfold shareOfRewards
  split
  · rfl
  · apply Dec.ext'; simp [Dec.divNat, Dec.mul, Dec.zero, Shares.dflt]

/-- when the validator's rewards are up to date, the query shows the whole tokens of the accumulator -/
theorem shownReward_uptodate (s : SState) (now : Nat) (sh : Shares) (vo : Validator) (vi : ValInfo)
    (h : vi.last = now) : shownReward s now sh vo vi = .ok sh.rewards.floor := by
  subst h
  unfold shownReward
  rw [calcRewards_same]
  simp only
  rw [shareOf_zero, Dec.add_zero']

/-- crediting the rewards of `v` does not change what the Delegation query shows for any delegator of `v`, and
afterwards the shown reward is the whole-token part of the delegator's accumulator -/
theorem shown_updR {s s1 : SState} {now : Nat} {v : String} (hi : SInv s) (hl : LastLe s now)
    (h : updateRewards s now v = .ok s1) (d : Addr) :
    ∃ vi vi1 vo, get? s.vinfo v = some vi ∧ get? s1.vinfo v = some vi1 ∧ s.validator? v = some vo ∧
      vi1.last = now ∧ vi1.stake = vi.stake ∧ vi1.stakers = vi.stakers ∧
      shownReward s1 now (curShares s1 d v) vo vi1 = shownReward s now (curShares s d v) vo vi ∧
      shownReward s1 now (curShares s1 d v) vo vi1 = .ok (curShares s1 d v).rewards.floor := by
  unfold updateRewards at h
  split at h
  · simp at h
  · rename_i vi hvi
    split at h
    · simp at h
    · rename_i vo hvo
      have hle := hl v vi hvi
      split at h
      · rename_i hge
        simp only [Outcome.ok.injEq] at h; subst h
        have : vi.last = now := by omega
        exact ⟨vi, vi, vo, hvi, hvi, hvo, this, rfl, rfl, rfl, shownReward_uptodate _ _ _ _ _ this⟩
      · rename_i hlt
        split at h
        · rename_i nr hnr
          split at h
          · rename_i hz
            simp only [Outcome.ok.injEq] at h; subst h
            refine ⟨vi, _, vo, hvi, get?_set_self _ _ _, hvo, rfl, rfl, rfl, ?_, shownReward_uptodate _ now _ _ _ rfl⟩
            rw [shownReward_uptodate _ now _ _ _ rfl]
            unfold shownReward
            rw [hnr]
            simp only [curShares]
            rw [Dec.eq_zero_of_isZero hz, shareOf_zero, Dec.add_zero']
          · split at h
            · simp only [Outcome.ok.injEq] at h; subst h
              refine ⟨vi, _, vo, hvi, get?_set_self _ _ _, hvo, rfl, rfl, rfl, ?_, shownReward_uptodate _ now _ _ _ rfl⟩
              rw [shownReward_uptodate _ now _ _ _ rfl]
              unfold shownReward
              rw [hnr]
              simp only [curShares, get?_creditAll, true_and]
              cases hg : get? s.stakes (d, v) with
              | none =>
                simp only [Option.map_none, Option.getD_none]
                rw [shareOf_dflt, Dec.add_zero']
              | some sh0 =>
                obtain ⟨vi2, hv2, hd⟩ := hi.stakes_listed d v sh0 hg
                rw [hvi] at hv2; simp only [Option.some.injEq] at hv2; subst hv2
                simp [hd]
            · simp at h
        · simp at h
        · simp at h
        · simp at h

/-- C15: crediting rewards of any validator is invisible to every Delegation query -/
theorem query_updR {cfg : Cfg} {c : Chain} {s1 : SState} {v : String} (hi : SInv c.st) (hl : LastLe c.st c.time)
    (h : updateRewards c.st c.time v = .ok s1) (d : Addr) (w : String) :
    queryDelegation cfg { c with st := s1 } d w = queryDelegation cfg c d w := by
  have ur := updR_ok h
  have hval : ∀ x, s1.validator? x = c.st.validator? x := by intro x; simp [SState.validator?, ur.validators]
  by_cases e : w = v
  · subst e
    obtain ⟨vi, vi1, vo, hvi, hvi1, hvo, _, _, _, hsh, _⟩ := shown_updR hi hl h d
    unfold queryDelegation
    simp only [hval, hvo, hvi, hvi1, hsh]
    have : (curShares s1 d w).stake = (curShares c.st d w).stake := stakeOf_updR ur d w
    rw [this]
  · unfold queryDelegation
    simp only [hval]
    have h1 : get? s1.vinfo w = get? c.st.vinfo w := ur.vinfo_other w e
    have h2 : curShares s1 d w = curShares c.st d w := by
      unfold curShares
      obtain ⟨F, hF, _, hid⟩ := ur.stakes (d, w)
      rw [hF]; cases get? c.st.stakes (d, w) <;> simp [hid e]
    rw [h1, h2]
    have h3 : ∀ sh vo vi, shownReward s1 c.time sh vo vi = shownReward c.st c.time sh vo vi := by
      intro sh vo vi; unfold shownReward; rw [ur.info]
    simp only [h3]

/-- the Delegation query only reads parameters, validators, the validator's info and the record of the pair -/
theorem queryDelegation_congr {cfg : Cfg} {c1 c2 : Chain} {d : Addr} {w : String}
    (h1 : c1.st.validators = c2.st.validators) (h2 : get? c1.st.vinfo w = get? c2.st.vinfo w)
    (h3 : curShares c1.st d w = curShares c2.st d w) (h4 : c1.st.info = c2.st.info) (h5 : c1.time = c2.time) :
    queryDelegation cfg c1 d w = queryDelegation cfg c2 d w := by
  unfold queryDelegation
  have hv : c1.st.validator? w = c2.st.validator? w := by simp [SState.validator?, h1]
  have hs : ∀ sh vo vi, shownReward c1.st c1.time sh vo vi = shownReward c2.st c2.time sh vo vi := by
    intro sh vo vi; unfold shownReward; rw [h4, h5]
  rw [hv, h2, h3]
  simp only [hs]

/-- C15 withdraw_exact + others_unaffected -/
structure WithdrawEffect (cfg : Cfg) (c : Chain) (a : Addr) (v : String) (c' : Chain) : Prop where
  /-- `r` is the pending reward the Delegation query showed just before (also when the shown amount is 0) -/
  shown_before : ∃ vo vi r, c.st.validator? v = some vo ∧ get? c.st.vinfo v = some vi ∧
      shownReward c.st c.time (curShares c.st a v) vo vi = .ok r ∧ r ≠ 0 ∧
      Bank.mint c.bank (withdrawAddr c.st a) [⟨c.st.info.bondedDenom, r⟩] = some c'.bank ∧
      cfg.valid (withdrawAddr c.st a) = true
  /-- the accumulator is reset, the stake is untouched -/
  reset : (curShares c'.st a v).rewards = Dec.zero ∧ (curShares c'.st a v).stake = (curShares c.st a v).stake
  /-- afterwards the query shows a pending reward of 0 -/
  shown_after : ∃ vo vi', c'.st.validator? v = some vo ∧ get? c'.st.vinfo v = some vi' ∧
      shownReward c'.st c'.time (curShares c'.st a v) vo vi' = .ok 0
  /-- every other pair answers the Delegation query exactly as before -/
  others : ∀ d2 w, (d2, w) ≠ (a, v) → queryDelegation cfg c' d2 w = queryDelegation cfg c d2 w
  frame : c'.st.queue = c.st.queue ∧ c'.st.withdraw = c.st.withdraw ∧ c'.time = c.time ∧
      (∀ w, w ≠ v → get? c'.st.vinfo w = get? c.st.vinfo w)

theorem withdraw_effect {cfg : Cfg} {c c' : Chain} {a : Addr} {v : String} (hi : SInv c.st)
    (hl : LastLe c.st c.time) (h : withdrawRewards cfg c a v = .ok c') : WithdrawEffect cfg c a v c' := by
  unfold withdrawRewards at h
  split at h
  · rename_i s1 h1
    have ur := updR_ok h1
    obtain ⟨vi, vi1, vo, hvi, hvi1, hvo, hlast, hstk, _, hsame, hup⟩ := shown_updR hi hl h1 a
    split at h
    · simp at h
    · rename_i sh hsh
      split at h
      · simp at h
      · rename_i hvalid
        split at h
        · rename_i bank hb
          simp only [Outcome.ok.injEq] at h; subst h
          have hcur : curShares s1 a v = sh := by simp [curShares, hsh]
          have hwa : withdrawAddr s1 a = withdrawAddr c.st a := by simp [withdrawAddr, ur.withdraw]
          have hval : ∀ x, s1.validator? x = c.st.validator? x := by intro x; simp [SState.validator?, ur.validators]
          refine ⟨⟨vo, vi, sh.rewards.floor, hvo, hvi, ?_, ?_, ?_, ?_⟩, ?_, ⟨vo, vi1, (by rw [← hval v] at hvo; exact hvo), hvi1, ?_⟩, ?_,
            ⟨ur.queue, ur.withdraw, rfl, ur.vinfo_other⟩⟩
          · rw [← hsame, hup, hcur]
          · intro hz
            rw [hz] at hb
            simp [Bank.mint, Bank.normalizeAmount] at hb
          · rw [← hwa, ← ur.info]; exact hb
          · rw [← hwa]; simpa using hvalid
          · constructor
            · simp [curShares, get?_set_self]
            · have := stakeOf_updR ur a v
              unfold stakeOf at this
              rw [← this, hcur]
              simp only [curShares, get?_set_self, Option.getD_some]
          · have : (curShares { s1 with stakes := KMap.set s1.stakes (a, v) { sh with rewards := Dec.zero } } a v).rewards
                = Dec.zero := by simp [curShares, get?_set_self]
            have h0 := shownReward_uptodate { s1 with stakes := KMap.set s1.stakes (a, v) { sh with rewards := Dec.zero } }
              c.time (curShares { s1 with stakes := KMap.set s1.stakes (a, v) { sh with rewards := Dec.zero } } a v) vo vi1 hlast
            rw [h0, this, zero_floor]
          · intro d2 w hne
            rw [← query_updR (cfg := cfg) hi hl h1 d2 w]
            apply queryDelegation_congr
            · rfl
            · rfl
            · simp [curShares, get?_set_ne _ _ hne]
            · rfl
            · rfl
        · simp at h
  · simp at h
  · simp at h
  · simp at h

/-- C15 "mints nothing else": the only balance that changes is the withdraw address, by exactly the shown reward -/
theorem withdraw_balances {cfg : Cfg} {c c' : Chain} {a : Addr} {v : String} (hi : SInv c.st)
    (hl : LastLe c.st c.time) (hwf : BankFacts.WF c.bank) (h : withdrawRewards cfg c a v = .ok c') :
    ∃ r, (∃ vo vi, c.st.validator? v = some vo ∧ get? c.st.vinfo v = some vi ∧
            shownReward c.st c.time (curShares c.st a v) vo vi = .ok r) ∧
      ∀ x d, Bank.queryBalance c'.bank x d = Bank.queryBalance c.bank x d +
        (if x = withdrawAddr c.st a ∧ d = c.st.info.bondedDenom then r else 0) := by
  obtain ⟨vo, vi, r, h1, h2, h3, _, h5, _⟩ := (withdraw_effect hi hl h).shown_before
  exact ⟨r, ⟨vo, vi, h1, h2, h3⟩, fun x d => BankFacts.query_mint hwf h5 x d⟩

/-- zero pending ⇒ the withdrawal is rejected -/
theorem withdraw_zero_rejected {cfg : Cfg} {c : Chain} {a : Addr} {v : String} (hi : SInv c.st)
    (hl : LastLe c.st c.time) (vo : Validator) (vi : ValInfo) (hvo : c.st.validator? v = some vo)
    (hvi : get? c.st.vinfo v = some vi) (hz : shownReward c.st c.time (curShares c.st a v) vo vi = .ok 0) :
    ∀ c', withdrawRewards cfg c a v ≠ .ok c' := by
  intro c' h
  obtain ⟨vo', vi', r, h1, h2, h3, h4, _⟩ := (withdraw_effect hi hl h).shown_before
  rw [hvo] at h1; rw [hvi] at h2
  simp only [Option.some.injEq] at h1 h2
  subst h1; subst h2
  rw [hz] at h3
  simp only [Outcome.ok.injEq] at h3
  exact h4 h3.symm

/-- C16 frame, rewards: after a slash every remaining delegation to `v` shows the same pending reward as before -/
theorem slash_rewards_shown {c c' : Chain} {v : String} {p : Dec} (hi : SInv c.st) (hl : LastLe c.st c.time)
    (h : sudoSlash c v p = .ok c') (d : Addr) (hrec : (get? c'.st.stakes (d, v)).isSome) :
    ∃ vo vi vi', c.st.validator? v = some vo ∧ get? c.st.vinfo v = some vi ∧ get? c'.st.vinfo v = some vi' ∧
      shownReward c'.st c'.time (curShares c'.st d v) vo vi' = shownReward c.st c.time (curShares c.st d v) vo vi := by
  unfold sudoSlash at h
  split at h
  · simp at h
  · split at h
    · rename_i st hst
      simp only [Outcome.ok.injEq] at h; subst h
      unfold slash at hst
      split at hst
      · rename_i s1 h1
        obtain ⟨vi, vi1, vo, hvi, hvi1, hvo, hlast, _, _, hsame, hup⟩ := shown_updR hi hl h1 d
        rw [hvi1] at hst
        simp only at hst
        unfold applySlash at hst
        split at hst
        · split at hst
          · simp only [Outcome.ok.injEq] at hst; subst hst
            -- everything of `v` was removed: no record remains
            exfalso
            simp only [get?_removeAll, true_and] at hrec
            split at hrec
            · simp at hrec
            · rename_i hnot
              cases hg : get? s1.stakes (d, v) with
              | none => simp [hg] at hrec
              | some sh =>
                have hi1 := SInv_updR hi (updR_ok h1)
                obtain ⟨vi2, hv2, hd⟩ := hi1.stakes_listed d v sh hg
                rw [hvi1] at hv2; simp only [Option.some.injEq] at hv2; subst hv2
                exact hnot hd
          · simp only [Outcome.ok.injEq] at hst; subst hst
            refine ⟨vo, vi, _, hvo, hvi, get?_set_self _ _ _, ?_⟩
            rw [← hsame, hup]
            rw [shownReward_uptodate _ c.time _ _ _ (by simpa using hlast)]
            congr 2
            simp only [curShares, get?_scaleAll]
            cases get? s1.stakes (d, v) with
            | none => rfl
            | some sh => simp only [Option.map_some, Option.getD_some]; split <;> rfl
        · simp at hst
      · simp at hst
      · simp at hst
      · simp at hst
    · simp at h
    · simp at h
    · simp at h

end Staking
end CwMt
