import CwMt.Proofs.Staking
/-
  CwMt.Proofs.StakingInv — the chain-level invariant `Inv` (I1–I4 of DESIGN.md C14 plus the side conditions the proof
  needed), its preservation by every operation and by block updates, and absence of panics.
-/
set_option linter.unusedSimpArgs false
set_option linter.unusedVariables false
namespace CwMt
namespace Staking
open KMap

/-- the invariant of the staking machine.
  * `sinv`        I1 every staker of a validator has a record, I2 every record's owner is a staker, commissions ≤ 1
  * `sorted`, `queue_bound`   I3 the unbonding queue is sorted by payout time (and no entry lies further ahead than
                  the unbonding time)
  * `covered`     I4 the pool balance covers all validator totals plus all queued amounts
  * `last_le`     no reward calculation lies in the future (monotone block time)
  * `no_pool`     the pool account never undelegated (nobody signs as `staking_module`)
  * `bank_wf`     balances stored by the bank are normalised
  * `tinv`        (I5) a validator's total is at least the whole tokens of the sum of the shares of its records -/
structure Inv (cfg : Cfg) (c : Chain) : Prop where
  sinv : SInv c.st
  sorted : c.st.queue.Pairwise (fun a b => a.payoutAt ≤ b.payoutAt)
  queue_bound : ∀ u ∈ c.st.queue, u.payoutAt ≤ c.time + NS * c.st.info.unbondingTime
  covered : totalStake c.st.vinfo + queueTotal c.st.queue ≤ poolBal cfg c
  last_le : LastLe c.st c.time
  no_pool : ∀ u ∈ c.st.queue, u.delegator ≠ cfg.pool
  bank_wf : BankFacts.WF c.bank
  tinv : TInv c.st

theorem queueTotal_append (q : List Unbonding) (u : Unbonding) : queueTotal (q ++ [u]) = queueTotal q + u.amount := by
  simp [queueTotal, List.sum_append]

theorem queueTotal_cons (q : List Unbonding) (u : Unbonding) : queueTotal (u :: q) = u.amount + queueTotal q := by
  simp [queueTotal]

theorem remOf_le (p : Dec) : (remOf p).atomics ≤ Dec.ONE := Dec.sub_one_atomics_le p

theorem queueTotal_slashQueue_le (q : List Unbonding) (v : String) (rem : Dec) (h : rem.atomics ≤ Dec.ONE) :
    queueTotal (slashQueue q v rem) ≤ queueTotal q := by
  induction q with
  | nil => exact Nat.le_refl _
  | cons u q ih =>
    simp only [slashQueue, List.map_cons, queueTotal, List.sum_cons] at ih ⊢
    have : (if u.validator = v then { u with amount := Dec.mulFloor u.amount rem } else u).amount ≤ u.amount := by
      split
      · exact Dec.mulFloor_le _ _ h
      · exact Nat.le_refl _
    omega

theorem slashQueue_payoutAt (q : List Unbonding) (v : String) (rem : Dec) :
    (slashQueue q v rem).map (·.payoutAt) = q.map (·.payoutAt) := by
  induction q with
  | nil => rfl
  | cons u q ih =>
    simp only [slashQueue, List.map_cons] at ih ⊢
    rw [ih]; congr 1; split <;> rfl

theorem mem_slashQueue {q : List Unbonding} {v : String} {rem : Dec} {u' : Unbonding} (h : u' ∈ slashQueue q v rem) :
    ∃ u ∈ q, u'.payoutAt = u.payoutAt ∧ u'.delegator = u.delegator ∧ u'.validator = u.validator := by
  simp only [slashQueue, List.mem_map] at h
  obtain ⟨u, hu, rfl⟩ := h
  exact ⟨u, hu, by split <;> rfl, by split <;> rfl, by split <;> rfl⟩

theorem sorted_slashQueue {q : List Unbonding} (v : String) (rem : Dec)
    (h : q.Pairwise (fun a b => a.payoutAt ≤ b.payoutAt)) :
    (slashQueue q v rem).Pairwise (fun a b => a.payoutAt ≤ b.payoutAt) := by
  induction q with
  | nil => exact List.Pairwise.nil
  | cons u q ih =>
    rw [List.pairwise_cons] at h
    simp only [slashQueue, List.map_cons]
    rw [List.pairwise_cons]
    refine ⟨?_, ih h.2⟩
    intro b hb
    obtain ⟨b0, hb0, e, _, _⟩ := mem_slashQueue hb
    have := h.1 b0 hb0
    rw [e]
    split <;> exact this

-- ---------------------------------------------------------------------------------------------
-- pool balance under the two bank operations

theorem pool_after_send_in {cfg : Cfg} {bank bank' : Bank.State} {sender : Addr} {den : String} {n : Nat}
    (hwf : BankFacts.WF bank) (hs : sender ≠ cfg.pool) (h : Bank.send bank sender cfg.pool [⟨den, n⟩] = some bank') :
    Bank.queryBalance bank' cfg.pool den = Bank.queryBalance bank cfg.pool den + n := by
  have := BankFacts.query_send hwf h cfg.pool den
  have h1 : ¬ cfg.pool = sender := fun x => hs x.symm
  simpa [h1] using this

theorem pool_after_send_out {cfg : Cfg} {bank bank' : Bank.State} {to : Addr} {den : String} {n : Nat}
    (hwf : BankFacts.WF bank) (hs : to ≠ cfg.pool) (h : Bank.send bank cfg.pool to [⟨den, n⟩] = some bank') :
    Bank.queryBalance bank' cfg.pool den + n = Bank.queryBalance bank cfg.pool den := by
  have := BankFacts.query_send hwf h cfg.pool den
  have h1 : ¬ cfg.pool = to := fun x => hs x.symm
  simpa [h1] using this

theorem pool_after_mint {cfg : Cfg} {bank bank' : Bank.State} {to : Addr} {den : String} {n : Nat}
    (hwf : BankFacts.WF bank) (h : Bank.mint bank to [⟨den, n⟩] = some bank') (d : String) :
    Bank.queryBalance bank cfg.pool d ≤ Bank.queryBalance bank' cfg.pool d := by
  have := BankFacts.query_mint hwf h cfg.pool d
  omega

-- ---------------------------------------------------------------------------------------------
-- delegate / undelegate / redelegate

theorem inv_delegate {cfg : Cfg} {c c' : Chain} {sender : Addr} {v : String} {coin : Coin}
    (hi : Inv cfg c) (hs : sender ≠ cfg.pool) (h : delegate cfg c sender v coin = .ok c') : Inv cfg c' := by
  unfold delegate at h
  split at h
  · simp at h
  · split at h
    · rename_i st hst
      split at h
      · rename_i bank hb
        simp only [Outcome.ok.injEq] at h; subst h
        unfold addStake at hst
        split at hst
        · rename_i hden
          have sp := updateStake_spec hst
          simp only [denomOk, decide_eq_true_eq] at hden
          have hcoin : coin = ⟨c.st.info.bondedDenom, coin.amount⟩ := by cases coin; simp_all
          rw [hcoin] at hb
          refine ⟨sp.sinv hi.sinv, by simpa [sp.queue] using hi.sorted, ?_, ?_, sp.lastle hi.last_le,
            by simpa [sp.queue] using hi.no_pool, BankFacts.WF_send hi.bank_wf hb, updateStake_tinv hi.tinv hst⟩
          · simpa [sp.queue, sp.info] using hi.queue_bound
          · have hp := pool_after_send_in hi.bank_wf hs hb
            have := sp.total_add rfl
            have := hi.covered
            simp only [poolBal, sp.info, sp.queue] at *
            omega
        · simp at hst
      · simp at h
    · simp at h
    · simp at h
    · simp at h

theorem inv_undelegate {cfg : Cfg} {c c' : Chain} {sender : Addr} {v : String} {coin : Coin}
    (hi : Inv cfg c) (hs : sender ≠ cfg.pool) (h : undelegate c sender v coin = .ok c') : Inv cfg c' := by
  unfold undelegate at h
  split at h
  · simp at h
  · split at h
    · simp at h
    · split at h
      · rename_i st hst
        simp only [Outcome.ok.injEq] at h; subst h
        unfold removeStake at hst
        split at hst
        · have sp := updateStake_spec hst
          refine ⟨?_, ?_, ?_, ?_, ?_, ?_, hi.bank_wf, fun w vi hw => updateStake_tinv hi.tinv hst w vi hw⟩
          · have := sp.sinv hi.sinv
            exact ⟨this.stakers_have, this.stakes_listed, this.comm_le⟩
          · simp only [sp.queue]
            rw [List.pairwise_append]
            refine ⟨hi.sorted, List.pairwise_singleton _ _, ?_⟩
            intro a ha b hb
            simp only [List.mem_singleton] at hb; subst hb
            simpa [sp.info] using hi.queue_bound a ha
          · intro u hu
            simp only [sp.queue, List.mem_append, List.mem_singleton] at hu
            rcases hu with hu | rfl
            · simpa [sp.info] using hi.queue_bound u hu
            · simp [sp.info]
          · have := sp.total_sub rfl
            have := hi.covered
            simp only [poolBal, sp.info, sp.queue, queueTotal_append] at *
            omega
          · exact sp.lastle hi.last_le
          · intro u hu
            simp only [sp.queue, List.mem_append, List.mem_singleton] at hu
            rcases hu with hu | rfl
            · exact hi.no_pool u hu
            · exact hs
        · simp at hst
      · simp at h
      · simp at h
      · simp at h

theorem inv_redelegate {cfg : Cfg} {c c' : Chain} {sender : Addr} {v1 v2 : String} {coin : Coin}
    (hi : Inv cfg c) (h : redelegate c sender v1 v2 coin = .ok c') : Inv cfg c' := by
  unfold redelegate at h
  split at h
  · rename_i st1 h1
    split at h
    · rename_i st2 h2
      simp only [Outcome.ok.injEq] at h; subst h
      unfold removeStake at h1
      unfold addStake at h2
      split at h1
      · split at h2
        · have s1 := updateStake_spec h1
          have s2 := updateStake_spec h2
          refine ⟨s2.sinv (s1.sinv hi.sinv), by simpa [s2.queue, s1.queue] using hi.sorted, ?_, ?_,
            s2.lastle (s1.lastle hi.last_le), by simpa [s2.queue, s1.queue] using hi.no_pool, hi.bank_wf,
            updateStake_tinv (updateStake_tinv hi.tinv h1) h2⟩
          · simpa [s2.queue, s1.queue, s2.info, s1.info] using hi.queue_bound
          · have := s1.total_sub rfl
            have := s2.total_add rfl
            have := hi.covered
            simp only [poolBal, s2.info, s1.info, s2.queue, s1.queue] at *
            omega
        · simp at h2
      · simp at h1
    · simp at h
    · simp at h
    · simp at h
  · simp at h
  · simp at h
  · simp at h

-- ---------------------------------------------------------------------------------------------
-- slash

theorem shareSum_scaleAll_le (m : KMap (Addr × String) Shares) (v : String) (l : List Addr) (rem : Dec)
    (hrem : rem.atomics ≤ Dec.ONE) (w : String) : shareSum (scaleAll m v l rem) w ≤ shareSum m w := by
  induction m with
  | nil => exact Nat.le_refl _
  | cons p m ih =>
    have hX : ∃ X : Shares, scaleAll (p :: m) v l rem = (p.1, X) :: scaleAll m v l rem ∧
        X.stake.atomics ≤ p.2.stake.atomics := by
      refine ⟨if p.1.2 = v ∧ p.1.1 ∈ l then { p.2 with stake := Dec.mul p.2.stake rem } else p.2, rfl, ?_⟩
      split
      · exact Dec.mul_le_left _ _ hrem
      · exact Nat.le_refl _
    obtain ⟨X, e, hle⟩ := hX
    rw [e, shareSum_cons, shareSum_cons]
    by_cases e2 : p.1.2 = w
    · simp only [e2, ite_true]; omega
    · simp only [e2, ite_false]; omega

theorem applySlash_facts {s s' : SState} {v : String} {vi : ValInfo} {rem : Dec} (hi : SInv s) (ht : TInv s)
    (hv : get? s.vinfo v = some vi) (hrem : rem.atomics ≤ Dec.ONE) (h : applySlash s v vi rem = .ok s') :
    s'.info = s.info ∧ s'.validators = s.validators ∧ s'.withdraw = s.withdraw ∧
    s'.queue = slashQueue s.queue v rem ∧ totalStake s'.vinfo ≤ totalStake s.vinfo ∧
    (∀ now, LastLe s now → LastLe s' now) := by
  unfold applySlash at h
  split at h
  · split at h
    · simp only [Outcome.ok.injEq] at h; subst h
      refine ⟨rfl, rfl, rfl, rfl, ?_, ?_⟩
      · have := totalStake_set s.vinfo v vi { vi with stake := 0, stakers := [] } hv
        simp only at this ⊢; omega
      · intro now hl w vi2 hw
        simp only [get?_set] at hw
        split at hw
        · simp only [Option.some.injEq] at hw; subst hw; exact hl v vi hv
        · exact hl w vi2 hw
    · simp only [Outcome.ok.injEq] at h; subst h
      refine ⟨rfl, rfl, rfl, rfl, ?_, ?_⟩
      · have h1 := totalStake_set s.vinfo v vi
          { vi with stake := sumShares (scaleAll s.stakes v vi.stakers rem) v vi.stakers / Dec.ONE } hv
        have h2 : sumShares (scaleAll s.stakes v vi.stakers rem) v vi.stakers / Dec.ONE ≤ vi.stake := by
          rw [sumShares_eq_shareSum _ _ _ (owners_listed_scaled hi hv vi.stakers rem)]
          exact Nat.le_trans (Nat.div_le_div_right (shareSum_scaleAll_le _ _ _ _ hrem _)) (ht v vi hv)
        simp only at h1 ⊢; omega
      · intro now hl w vi2 hw
        simp only [get?_set] at hw
        split at hw
        · simp only [Option.some.injEq] at hw; subst hw; exact hl v vi hv
        · exact hl w vi2 hw
  · simp at h

theorem inv_slash {cfg : Cfg} {c c' : Chain} {v : String} {pct : Dec}
    (hi : Inv cfg c) (h : sudoSlash c v pct = .ok c') : Inv cfg c' := by
  unfold sudoSlash at h
  split at h
  · simp at h
  · split at h
    · rename_i st hst
      simp only [Outcome.ok.injEq] at h; subst h
      unfold slash at hst
      split at hst
      · rename_i s1 h1
        have ur := updR_ok h1
        split at hst
        · simp at hst
        · rename_i vi1 hv1
          obtain ⟨f1, f2, f3, f4, f5, f6⟩ := applySlash_facts (SInv_updR hi.sinv ur) (TInv_updR hi.tinv h1) hv1 (remOf_le pct) hst
          refine ⟨SInv_applySlash (SInv_updR hi.sinv ur) hv1 hst, ?_, ?_, ?_, f6 _ (LastLe_updR hi.last_le ur), ?_, hi.bank_wf,
            TInv_applySlash (SInv_updR hi.sinv ur) (TInv_updR hi.tinv h1) hv1 hst⟩
          · simp only [f4, ur.queue]; exact sorted_slashQueue _ _ hi.sorted
          · intro u hu
            simp only [f4, ur.queue] at hu
            obtain ⟨u0, hu0, e, _, _⟩ := mem_slashQueue hu
            simpa [e, f1, ur.info] using hi.queue_bound u0 hu0
          · have := queueTotal_slashQueue_le c.st.queue v (remOf pct) (remOf_le pct)
            have := ur.total
            have := hi.covered
            simp only [poolBal, f1, ur.info, f4, ur.queue] at *
            omega
          · intro u hu
            simp only [f4, ur.queue] at hu
            obtain ⟨u0, hu0, _, e, _⟩ := mem_slashQueue hu
            rw [e]; exact hi.no_pool u0 hu0
      · simp at hst
      · simp at hst
      · simp at hst
    · simp at h
    · simp at h
    · simp at h

-- ---------------------------------------------------------------------------------------------
-- withdraw, set withdraw address

theorem inv_withdraw {cfg : Cfg} {c c' : Chain} {sender : Addr} {v : String}
    (hi : Inv cfg c) (h : withdrawRewards cfg c sender v = .ok c') : Inv cfg c' := by
  unfold withdrawRewards at h
  split at h
  · rename_i st hst
    have ur := updR_ok hst
    split at h
    · simp at h
    · rename_i sh hsh
      split at h
      · simp at h
      · split at h
        · rename_i bank hb
          simp only [Outcome.ok.injEq] at h; subst h
          refine ⟨SInv_setRewards (SInv_updR hi.sinv ur) _ sh _ hsh, by simpa [ur.queue] using hi.sorted, ?_, ?_,
            (fun w vi hw => LastLe_updR hi.last_le ur w vi hw), by simpa [ur.queue] using hi.no_pool,
            BankFacts.WF_mint hi.bank_wf hb, TInv_setRewards (TInv_updR hi.tinv hst) _ sh _ hsh⟩
          · simpa [ur.queue, ur.info] using hi.queue_bound
          · have := pool_after_mint (cfg := cfg) hi.bank_wf hb c.st.info.bondedDenom
            have := ur.total
            have := hi.covered
            simp only [poolBal, ur.info, ur.queue] at *
            omega
        · simp at h
  · simp at h
  · simp at h
  · simp at h

theorem inv_setWithdraw {cfg : Cfg} {c c' : Chain} {sender a : Addr}
    (hi : Inv cfg c) (h : setWithdraw cfg c sender a = .ok c') : Inv cfg c' := by
  unfold setWithdraw at h
  split at h
  · simp at h
  · split at h <;>
    · simp only [Outcome.ok.injEq] at h; subst h
      exact ⟨⟨hi.sinv.stakers_have, hi.sinv.stakes_listed, hi.sinv.comm_le⟩, hi.sorted, hi.queue_bound, hi.covered,
        hi.last_le, hi.no_pool, hi.bank_wf, hi.tinv⟩

-- ---------------------------------------------------------------------------------------------
-- block updates

theorem dropIfEmpty_facts (s : SState) (u : Unbonding) (rest : List Unbonding) (hi : SInv s) :
    (dropIfEmpty s u rest).info = s.info ∧ (dropIfEmpty s u rest).validators = s.validators ∧
    (dropIfEmpty s u rest).withdraw = s.withdraw ∧
    totalStake (dropIfEmpty s u rest).vinfo ≤ totalStake s.vinfo ∧
    (∀ now, LastLe s now → LastLe (dropIfEmpty s u rest) now) := by
  unfold dropIfEmpty
  split
  · rename_i sh hsh
    split
    · obtain ⟨vi, hv, _⟩ := hi.stakes_listed _ _ sh hsh
      have he : eraseStaker s.vinfo u.validator u.delegator =
          KMap.set s.vinfo u.validator { vi with stakers := setErase vi.stakers u.delegator } := by
        simp [eraseStaker, hv]
      refine ⟨rfl, rfl, rfl, ?_, ?_⟩
      · simp only [he]
        have := totalStake_set s.vinfo u.validator vi { vi with stakers := setErase vi.stakers u.delegator } hv
        simp only at this; omega
      · intro now hl w vi2 hw
        simp only [he, get?_set] at hw
        split at hw
        · simp only [Option.some.injEq] at hw; subst hw; exact hl _ vi hv
        · exact hl w vi2 hw
    · exact ⟨rfl, rfl, rfl, Nat.le_refl _, fun _ h => h⟩
  · exact ⟨rfl, rfl, rfl, Nat.le_refl _, fun _ h => h⟩

/-- the loop of `process_queue`: under the invariant it never fails, and it re-establishes the invariant for the
remaining queue, which is a suffix of the old one -/
theorem processQueue_inv (cfg : Cfg) (now : Nat) : ∀ (q : List Unbonding) (s : SState) (bank : Bank.State),
    SInv s → TInv s → LastLe s now → BankFacts.WF bank → (∀ u ∈ q, u.delegator ≠ cfg.pool) →
    totalStake s.vinfo + queueTotal q ≤ Bank.queryBalance bank cfg.pool s.info.bondedDenom →
    ∃ s' bank' pre, processQueue cfg now s bank q = .ok (s', bank') ∧ (SInv s' ∧ TInv s') ∧ LastLe s' now ∧ BankFacts.WF bank' ∧
      q = pre ++ s'.queue ∧ s'.info = s.info ∧ s'.validators = s.validators ∧ s'.withdraw = s.withdraw ∧
      (∀ u ∈ pre, u.payoutAt ≤ now) ∧ (∀ u, s'.queue.head? = some u → now < u.payoutAt) ∧
      totalStake s'.vinfo + queueTotal s'.queue ≤ Bank.queryBalance bank' cfg.pool s'.info.bondedDenom := by
  intro q
  induction q with
  | nil =>
    intro s bank hi ht hl hwf _ hcov
    refine ⟨{ s with queue := [] }, bank, [], rfl, ⟨⟨hi.stakers_have, hi.stakes_listed, hi.comm_le⟩, ht⟩, hl, hwf, rfl, rfl, rfl,
      rfl, by simp, by simp, ?_⟩
    simpa [queueTotal] using hcov
  | cons u rest ih =>
    intro s bank hi ht hl hwf hnp hcov
    unfold processQueue
    by_cases hdue : u.payoutAt ≤ now
    · simp only [hdue, ite_true]
      obtain ⟨d1, d2, d3, d4, d5⟩ := dropIfEmpty_facts s u rest hi
      have hnp' : ∀ x ∈ rest, x.delegator ≠ cfg.pool := fun x hx => hnp x (List.mem_cons_of_mem _ hx)
      rw [queueTotal_cons] at hcov
      unfold payOne
      by_cases hz : u.amount = 0
      · simp only [hz, ite_true]
        obtain ⟨s', bank', pre, h1, h2, h3, h4, h5, h6, h7, h8, h9, h10, h11⟩ :=
          ih (dropIfEmpty s u rest) bank (SInv_dropIfEmpty hi u rest) (TInv_dropIfEmpty hi ht u rest) (d5 now hl) hwf hnp'
            (by rw [d1]; omega)
        refine ⟨s', bank', u :: pre, h1, h2, h3, h4, by rw [h5]; rfl, h6.trans d1, h7.trans d2, h8.trans d3, ?_, h10, h11⟩
        intro x hx
        rcases List.mem_cons.mp hx with rfl | hx
        · exact hdue
        · exact h9 x hx
      · simp only [hz, ite_false]
        obtain ⟨bank1, hb1⟩ := BankFacts.send_single_ok bank cfg.pool u.delegator s.info.bondedDenom hz (by omega)
        rw [hb1]
        have hp := pool_after_send_out hwf (hnp u List.mem_cons_self) hb1
        obtain ⟨s', bank', pre, h1, h2, h3, h4, h5, h6, h7, h8, h9, h10, h11⟩ :=
          ih (dropIfEmpty s u rest) bank1 (SInv_dropIfEmpty hi u rest) (TInv_dropIfEmpty hi ht u rest) (d5 now hl)
            (BankFacts.WF_send hwf hb1) hnp'
            (by rw [d1]; omega)
        refine ⟨s', bank', u :: pre, h1, h2, h3, h4, by rw [h5]; rfl, h6.trans d1, h7.trans d2, h8.trans d3, ?_, h10, h11⟩
        intro x hx
        rcases List.mem_cons.mp hx with rfl | hx
        · exact hdue
        · exact h9 x hx
    · simp only [hdue, ite_false]
      refine ⟨{ s with queue := u :: rest }, bank, [], rfl, ⟨⟨hi.stakers_have, hi.stakes_listed, hi.comm_le⟩, ht⟩, hl, hwf,
        rfl, rfl, rfl, rfl, by simp, ?_, hcov⟩
      intro x hx
      simp only [List.head?_cons, Option.some.injEq] at hx
      subst hx; omega

theorem inv_advance {cfg : Cfg} {c : Chain} (secs : Nat) (hi : Inv cfg c) :
    ∃ c', advance cfg c secs = .ok c' ∧ Inv cfg c' ∧ c'.time = c.time + secs := by
  have hl : LastLe c.st (c.time + secs) := fun w vi hw => Nat.le_trans (hi.last_le w vi hw) (Nat.le_add_right _ _)
  obtain ⟨s', bank', pre, h1, h2, h3, h4, h5, h6, h7, h8, h9, h10, h11⟩ :=
    processQueue_inv cfg (c.time + secs) c.st.queue c.st c.bank hi.sinv hi.tinv hl hi.bank_wf hi.no_pool hi.covered
  refine ⟨{ st := s', bank := bank', time := c.time + secs, height := c.height + 1 }, ?_, ?_, rfl⟩
  · unfold advance; rw [h1]
  · have hs := hi.sorted
    rw [h5, List.pairwise_append] at hs
    refine ⟨h2.1, hs.2.1, ?_, h11, h3, ?_, h4, h2.2⟩
    · intro u hu
      have := hi.queue_bound u (by rw [h5]; exact List.mem_append_right _ hu)
      simp only [h6]; omega
    · intro u hu
      exact hi.no_pool u (by rw [h5]; exact List.mem_append_right _ hu)

-- ---------------------------------------------------------------------------------------------
-- absence of panics, operation by operation

theorem applySlash_no_panic {s : SState} {v : String} {vi : ValInfo} (rem : Dec) (hi : SInv s)
    (hv : get? s.vinfo v = some vi) : applySlash s v vi rem ≠ .panic ∧ applySlash s v vi rem ≠ .outOfFuel := by
  unfold applySlash
  split
  · split <;> simp
  · rename_i hall
    exfalso; apply hall
    simp only [allStakersExist, List.all_eq_true, contains]
    intro d hd
    exact hi.stakers_have v vi d hv hd

/-- a valid operation: the pool account itself does not delegate or undelegate -/
def Op.okFor (cfg : Cfg) : Op → Prop
  | .delegate a _ _ => a ≠ cfg.pool
  | .undelegate a _ _ => a ≠ cfg.pool
  | _ => True

theorem run_no_panic {cfg : Cfg} {c : Chain} (op : Op) (hi : Inv cfg c) :
    op.run cfg c ≠ .panic ∧ op.run cfg c ≠ .outOfFuel := by
  cases op with
  | delegate a v coin =>
    simp only [Op.run]
    unfold delegate addStake
    have := updateStake_no_panic c.st c.time a v coin.amount false hi.sinv
    split
    · simp
    · split
      · split <;> simp
      · simp
      · rename_i h; split at h
        · exact absurd h this.1
        · simp at h
      · rename_i h; split at h
        · exact absurd h this.2
        · simp at h
  | undelegate a v coin =>
    simp only [Op.run]
    unfold undelegate removeStake
    have := updateStake_no_panic c.st c.time a v coin.amount true hi.sinv
    split
    · simp
    · split
      · simp
      · split
        · simp
        · simp
        · rename_i h; split at h
          · exact absurd h this.1
          · simp at h
        · rename_i h; split at h
          · exact absurd h this.2
          · simp at h
  | redelegate a v1 v2 coin =>
    simp only [Op.run]
    unfold redelegate
    have p1 := updateStake_no_panic c.st c.time a v1 coin.amount true hi.sinv
    split
    · rename_i st1 h1
      unfold removeStake at h1
      split at h1
      · have s1 := updateStake_spec h1
        have p2 := updateStake_no_panic st1 c.time a v2 coin.amount false (s1.sinv hi.sinv)
        unfold addStake
        split
        · simp
        · simp
        · rename_i h; split at h
          · exact absurd h p2.1
          · simp at h
        · rename_i h; split at h
          · exact absurd h p2.2
          · simp at h
      · simp at h1
    · simp
    · rename_i h; unfold removeStake at h; split at h
      · exact absurd h p1.1
      · simp at h
    · rename_i h; unfold removeStake at h; split at h
      · exact absurd h p1.2
      · simp at h
  | withdraw a v =>
    simp only [Op.run]
    unfold withdrawRewards
    have := updR_no_panic c.st c.time v (fun vi d => hi.sinv.stakers_have v vi d) hi.sinv.comm_le
    split
    · split
      · simp
      · split
        · simp
        · split <;> simp
    · simp
    · rename_i h; exact absurd h this.1
    · rename_i h; exact absurd h this.2
  | setWithdraw a b =>
    simp only [Op.run]
    unfold setWithdraw
    split
    · simp
    · split <;> simp
  | slash v p =>
    simp only [Op.run]
    unfold sudoSlash
    split
    · simp
    · have p1 := updR_no_panic c.st c.time v (fun vi d => hi.sinv.stakers_have v vi d) hi.sinv.comm_le
      have hs : slash c.st c.time v p ≠ .panic ∧ slash c.st c.time v p ≠ .outOfFuel := by
        unfold slash
        split
        · rename_i s1 h1
          have ur := updR_ok h1
          obtain ⟨vi, hvi, hvi1⟩ := ur.vinfo_self
          rw [hvi1]
          exact applySlash_no_panic _ (SInv_updR hi.sinv ur) hvi1
        · simp
        · rename_i h; exact absurd h p1.1
        · rename_i h; exact absurd h p1.2
      split
      · simp
      · simp
      · rename_i h; exact absurd h hs.1
      · rename_i h; exact absurd h hs.2
  | advance secs =>
    simp only [Op.run]
    obtain ⟨c', h, _⟩ := inv_advance (cfg := cfg) secs hi
    rw [h]; simp

theorem inv_run {cfg : Cfg} {c c' : Chain} {op : Op} (hi : Inv cfg c) (hop : op.okFor cfg)
    (h : op.run cfg c = .ok c') : Inv cfg c' := by
  cases op with
  | delegate a v coin => exact inv_delegate hi hop h
  | undelegate a v coin => exact inv_undelegate hi hop h
  | redelegate a v1 v2 coin => exact inv_redelegate hi h
  | withdraw a v => exact inv_withdraw hi h
  | setWithdraw a b => exact inv_setWithdraw hi h
  | slash v p => exact inv_slash hi h
  | advance secs =>
    obtain ⟨c2, h2, hi2, _⟩ := inv_advance (cfg := cfg) secs hi
    simp only [Op.run] at h
    rw [h2] at h
    simp only [Outcome.ok.injEq] at h; subst h; exact hi2

theorem step_inv {cfg : Cfg} {c : Chain} {op : Op} (hi : Inv cfg c) (hop : op.okFor cfg) :
    Inv cfg (step cfg c op).1 := by
  unfold step
  split
  · rename_i c' h; exact inv_run hi hop h
  · exact hi
  · exact hi
  · exact hi

theorem step_no_panic {cfg : Cfg} {c : Chain} (op : Op) (hi : Inv cfg c) : (step cfg c op).2 ≠ .panic := by
  have := run_no_panic (cfg := cfg) op hi
  unfold step
  split
  · simp
  · simp
  · rename_i h; exact absurd h this.1
  · rename_i h; exact absurd h this.2

/-- a block update never fails -/
theorem step_advance_ok {cfg : Cfg} {c : Chain} (secs : Nat) (hi : Inv cfg c) :
    (step cfg c (.advance secs)).2 = .ok := by
  obtain ⟨c', h, _⟩ := inv_advance (cfg := cfg) secs hi
  simp only [step, Op.run, h]

/-- running a history: the final chain and the result of every operation -/
def runAll (cfg : Cfg) : Chain → List Op → Chain × List Res
  | c, [] => (c, [])
  | c, op :: ops =>
    let r := step cfg c op
    let rest := runAll cfg r.1 ops
    (rest.1, r.2 :: rest.2)

theorem runAll_inv {cfg : Cfg} : ∀ (ops : List Op) (c : Chain), Inv cfg c → (∀ op ∈ ops, op.okFor cfg) →
    Inv cfg (runAll cfg c ops).1 ∧ ∀ r ∈ (runAll cfg c ops).2, r ≠ .panic := by
  intro ops
  induction ops with
  | nil => intro c hi _; exact ⟨hi, by simp [runAll]⟩
  | cons op ops ih =>
    intro c hi hok
    have h1 := step_inv hi (hok op List.mem_cons_self)
    have h2 := ih (step cfg c op).1 h1 (fun o ho => hok o (List.mem_cons_of_mem _ ho))
    simp only [runAll]
    refine ⟨h2.1, ?_⟩
    intro r hr
    rcases List.mem_cons.mp hr with rfl | hr
    · exact step_no_panic op hi
    · exact h2.2 r hr

/-- the freshly set-up chain (any parameters, any validators with commissions ≤ 1 added at time 0, any normalised
bank) satisfies the invariant -/
theorem inv_init (cfg : Cfg) : Inv cfg ⟨SState.init, [], 0, 0⟩ := by
  refine ⟨⟨?_, ?_, ?_⟩, List.Pairwise.nil, by simp [SState.init], ?_, ?_, by simp [SState.init], BankFacts.WF_empty,
    fun w vi h => by simp [SState.init] at h⟩
  · intro v vi d h; simp [SState.init] at h
  · intro d v sh h; simp [SState.init] at h
  · intro vo h; simp [SState.init] at h
  · simp [SState.init, totalStake, queueTotal]
  · intro w vi h; simp [SState.init] at h

/-- the chain right after set-up: parameters `info`, validators `vals` (added at block time `t`), no delegation yet -/
def freshChain (info : StakingInfo) (vals : List Validator) (bank : Bank.State) (t h : Nat) : Chain :=
  ⟨{ info := info, validators := vals, stakes := [], vinfo := vals.map (fun v => (v.address, ValInfo.new t)),
     queue := [], withdraw := [] }, bank, t, h⟩

theorem get?_fresh_vinfo (vals : List Validator) (t : Nat) (w : String) (vi : ValInfo)
    (h : get? (vals.map (fun v => (v.address, ValInfo.new t))) w = some vi) : vi = ValInfo.new t := by
  induction vals with
  | nil => simp at h
  | cons x xs ih =>
    simp only [List.map_cons, get?_cons] at h
    split at h
    · simp only [Option.some.injEq] at h; exact h.symm
    · exact ih h

theorem totalStake_fresh (vals : List Validator) (t : Nat) :
    totalStake (vals.map (fun v => (v.address, ValInfo.new t))) = 0 := by
  induction vals with
  | nil => rfl
  | cons x xs ih => simp only [totalStake, List.map_cons, List.sum_cons, ValInfo.new] at ih ⊢; omega

/-- every set-up chain with commissions ≤ 1 and a normalised bank satisfies the invariant -/
theorem inv_fresh (cfg : Cfg) (info : StakingInfo) (vals : List Validator) (bank : Bank.State) (t h : Nat)
    (hc : ∀ vo ∈ vals, vo.commission.atomics ≤ Dec.ONE) (hwf : BankFacts.WF bank) :
    Inv cfg (freshChain info vals bank t h) := by
  refine ⟨⟨?_, ?_, hc⟩, List.Pairwise.nil, by simp [freshChain], ?_, ?_, by simp [freshChain], hwf,
    fun w vi _ => by simp [freshChain, shareSum_nil]⟩
  · intro v vi d hv hd
    have := get?_fresh_vinfo vals t v vi hv
    subst this; simp [ValInfo.new] at hd
  · intro d v sh hs; simp [freshChain] at hs
  · simp [freshChain, totalStake_fresh, queueTotal]
  · intro w vi hv
    have := get?_fresh_vinfo vals t w vi hv
    subst this; simp [ValInfo.new, freshChain]

end Staking
end CwMt
