import CwMt.Proofs.StakingOps
/-
  CwMt.Proofs.StakingSlash — C16: what a slash does, what it leaves alone.
-/
set_option linter.unusedSimpArgs false
set_option linter.unusedVariables false
namespace CwMt
namespace Staking
open KMap

theorem Dec.mul_zero_left (r : Dec) : Dec.mul Dec.zero r = Dec.zero := by
  apply Dec.ext'; simp [Dec.mul, Dec.zero]

/-- Σ over the records of validator `v` of the share scaled by `rem` (each product rounded down at 10^-18) -/
def scaledTotal (stakes : KMap (Addr × String) Shares) (v : String) (rem : Dec) : Nat :=
  ((stakes.filter fun p => p.1.2 = v).map (fun p => (Dec.mul p.2.stake rem).atomics)).sum

theorem scaledTotal_cons (p : (Addr × String) × Shares) (m : KMap (Addr × String) Shares) (v : String) (rem : Dec) :
    scaledTotal (p :: m) v rem = (if p.1.2 = v then (Dec.mul p.2.stake rem).atomics else 0) + scaledTotal m v rem := by
  unfold scaledTotal
  by_cases h : p.1.2 = v <;> simp [List.filter_cons, h]

theorem scaledTotal_mapVal (m : KMap (Addr × String) Shares) (F : Addr × String → Shares → Shares) (w : String)
    (rem : Dec) (hF : ∀ k sh, (F k sh).stake = sh.stake) :
    scaledTotal (m.map fun p => (p.1, F p.1 p.2)) w rem = scaledTotal m w rem := by
  induction m with
  | nil => rfl
  | cons p m ih =>
    simp only [List.map_cons, scaledTotal_cons, ih, hF]

theorem le_scaledTotal {m : KMap (Addr × String) Shares} {d : Addr} {v : String} {sh : Shares} (rem : Dec)
    (h : get? m (d, v) = some sh) : (Dec.mul sh.stake rem).atomics ≤ scaledTotal m v rem := by
  induction m with
  | nil => simp at h
  | cons p m ih =>
    obtain ⟨k', sh'⟩ := p
    rw [get?_cons] at h
    rw [scaledTotal_cons]
    by_cases e : k' = (d, v)
    · simp only [e, ite_true, Option.some.injEq] at h; subst h; subst e; simp
    · simp only [e, ite_false] at h
      have := ih h; omega

/-- the sum of the shares after scaling all records of `v` (all owned by `l`) is the scaled total -/
theorem shareSum_scaleAll_self (m : KMap (Addr × String) Shares) (v : String) (l : List Addr) (rem : Dec)
    (h : ∀ p ∈ m, p.1.2 = v → p.1.1 ∈ l) : shareSum (scaleAll m v l rem) v = scaledTotal m v rem := by
  induction m with
  | nil => rfl
  | cons p m ih =>
    have ih' := ih (fun q hq => h q (List.mem_cons_of_mem _ hq))
    have hp := h p List.mem_cons_self
    have e : scaleAll (p :: m) v l rem =
        (p.1, if p.1.2 = v ∧ p.1.1 ∈ l then { p.2 with stake := Dec.mul p.2.stake rem } else p.2) :: scaleAll m v l rem := rfl
    rw [e, shareSum_cons, scaledTotal_cons, ih']
    by_cases e2 : p.1.2 = v
    · simp [e2, hp e2]
    · simp [e2]

theorem scaledTotal_creditAll (stakes : KMap (Addr × String) Shares) (v : String) (vi : ValInfo) (nr : Dec)
    (w : String) (rem : Dec) : scaledTotal (creditAll stakes v vi nr) w rem = scaledTotal stakes w rem := by
  unfold creditAll
  exact scaledTotal_mapVal _ (fun k sh => if k.2 = v ∧ k.1 ∈ vi.stakers then
    { sh with rewards := Dec.add sh.rewards (shareOfRewards sh vi nr) } else sh) w rem
    (by intro k sh; split <;> rfl)

/-- crediting rewards does not change the scaled total -/
theorem updR_scaled {s s' : SState} {now : Nat} {v : String} (h : updateRewards s now v = .ok s') (w : String) (rem : Dec) :
    scaledTotal s'.stakes w rem = scaledTotal s.stakes w rem := by
  unfold updateRewards at h
  split at h
  · simp at h
  · split at h
    · simp at h
    · split at h
      · simp only [Outcome.ok.injEq] at h; subst h; rfl
      · split at h
        · split at h
          · simp only [Outcome.ok.injEq] at h; subst h; rfl
          · split at h
            · simp only [Outcome.ok.injEq] at h; subst h
              exact scaledTotal_creditAll _ _ _ _ _ _
            · simp at h
        · simp at h
        · simp at h
        · simp at h

/-- the complete effect of an accepted slash of validator `v` by `p` (code as fixed by c602f29): every share is
scaled, the validator total becomes the whole tokens of the sum of the scaled shares, and only when that is zero —
i.e. when all scaled shares together are worth less than one token — the records are dropped -/
structure SlashEffect (c : Chain) (v : String) (p : Dec) (c' : Chain) : Prop where
  pct_le : p ≤ Dec.one
  known : ∃ vo, c.st.validator? v = some vo
  bank : c'.bank = c.bank
  time : c'.time = c.time
  withdraw : c'.st.withdraw = c.st.withdraw
  info : c'.st.info = c.st.info
  validators : c'.st.validators = c.st.validators
  queue : c'.st.queue = slashQueue c.st.queue v (remOf p)
  other_records : ∀ k : Addr × String, k.2 ≠ v → get? c'.st.stakes k = get? c.st.stakes k
  other_validators : ∀ w, w ≠ v → get? c'.st.vinfo w = get? c.st.vinfo w
  total : ∃ vi vi', get? c.st.vinfo v = some vi ∧ get? c'.st.vinfo v = some vi' ∧
      vi'.stake = scaledTotal c.st.stakes v (remOf p) / Dec.ONE ∧
      (vi'.stake ≠ 0 → (∀ d, stakeOf c'.st d v = Dec.mul (stakeOf c.st d v) (remOf p)) ∧
                        vi'.stake = shareSum c'.st.stakes v / Dec.ONE ∧ vi'.stakers = vi.stakers) ∧
      (vi'.stake = 0 → (∀ d, get? c'.st.stakes (d, v) = none) ∧ scaledTotal c.st.stakes v (remOf p) < Dec.ONE)

theorem slash_effect {c c' : Chain} {v : String} {p : Dec} (hi : SInv c.st) (h : sudoSlash c v p = .ok c') :
    SlashEffect c v p c' := by
  unfold sudoSlash at h
  split at h
  · simp at h
  · rename_i hp
    split at h
    · rename_i st hst
      simp only [Outcome.ok.injEq] at h; subst h
      unfold slash at hst
      split at hst
      · rename_i s1 h1
        have ur := updR_ok h1
        have hi1 := SInv_updR hi ur
        obtain ⟨vi, vi1, hvi, hvi1, hstk, hstake, _⟩ := UR_self' ur
        rw [hvi1] at hst
        simp only at hst
        have hother : ∀ k : Addr × String, k.2 ≠ v → get? s1.stakes k = get? c.st.stakes k := by
          intro k hk
          obtain ⟨F, hF, _, hid⟩ := ur.stakes k
          rw [hF]; cases get? c.st.stakes k <;> simp [hid hk]
        have hsum : sumShares (scaleAll s1.stakes v vi1.stakers (remOf p)) v vi1.stakers
            = scaledTotal c.st.stakes v (remOf p) := by
          rw [sumShares_eq_shareSum _ _ _ (owners_listed_scaled hi1 hvi1 vi1.stakers (remOf p)),
            shareSum_scaleAll_self _ _ _ _ (owners_listed hi1 hvi1), updR_scaled h1]
        unfold applySlash at hst
        rw [hsum] at hst
        split at hst
        · split at hst
          · rename_i hz
            simp only [Outcome.ok.injEq] at hst; subst hst
            refine ⟨Dec.le_of_not_lt hp, ur.valid, rfl, rfl, ur.withdraw, ur.info, ur.validators, by simp [ur.queue], ?_, ?_,
              ⟨vi, _, hvi, get?_set_self _ _ _, ?_, ?_, ?_⟩⟩
            · intro k hk
              simp only [get?_removeAll, hk, false_and, ite_false]; exact hother k hk
            · intro w hw; simp only [get?_set_ne _ _ hw]; exact ur.vinfo_other w hw
            · simp only [hz]
            · intro hnz; exact absurd rfl hnz
            · intro _
              refine ⟨?_, ?_⟩
              · intro d
                simp only [get?_removeAll, true_and]
                split
                · rfl
                · rename_i hnot
                  cases hg : get? s1.stakes (d, v) with
                  | none => rfl
                  | some sh =>
                    obtain ⟨vi2, hv2, hd⟩ := hi1.stakes_listed d v sh hg
                    rw [hvi1] at hv2; simp only [Option.some.injEq] at hv2; subst hv2
                    exact absurd hd hnot
              · have := Nat.lt_div_mul_add (a := scaledTotal c.st.stakes v (remOf p)) Dec.ONE_pos
                rw [hz] at this; simpa using this
          · rename_i hnz
            simp only [Outcome.ok.injEq] at hst; subst hst
            refine ⟨Dec.le_of_not_lt hp, ur.valid, rfl, rfl, ur.withdraw, ur.info, ur.validators, by simp [ur.queue], ?_, ?_,
              ⟨vi, _, hvi, get?_set_self _ _ _, rfl, ?_, ?_⟩⟩
            · intro k hk
              simp only [get?_scaleAll, hk, false_and, ite_false]
              rw [hother k hk]; cases get? c.st.stakes k <;> rfl
            · intro w hw; simp only [get?_set_ne _ _ hw]; exact ur.vinfo_other w hw
            · intro _
              refine ⟨?_, ?_, hstk⟩
              · intro d
                rw [← stakeOf_updR ur d v]
                unfold stakeOf curShares
                simp only [get?_scaleAll, true_and]
                cases hg : get? s1.stakes (d, v) with
                | none =>
                  simp only [Option.map_none, Option.getD_none, Shares.dflt]
                  exact (Dec.mul_zero_left _).symm
                | some sh =>
                  obtain ⟨vi2, hv2, hd⟩ := hi1.stakes_listed d v sh hg
                  rw [hvi1] at hv2; simp only [Option.some.injEq] at hv2; subst hv2
                  simp [hd]
              · simp only
                rw [shareSum_scaleAll_self _ _ _ _ (owners_listed hi1 hvi1), updR_scaled h1]
            · intro hz; exact absurd hz hnz
        · simp at hst
      · simp at hst
      · simp at hst
      · simp at hst
    · simp at h
    · simp at h
    · simp at h

/-- C16 scales_down, exact form: unless the new validator total is zero every delegation becomes exactly
`mul(share, 1−p)`; if it is zero all delegations of `v` are dropped and together they were worth less than one token
after scaling (so each of them, too: only sub-token remainders are lost) -/
theorem slash_scales_exact {c c' : Chain} {v : String} {p : Dec} (hi : SInv c.st) (h : sudoSlash c v p = .ok c') :
    (scaledTotal c.st.stakes v (remOf p) / Dec.ONE ≠ 0 →
        ∀ d, stakeOf c'.st d v = Dec.mul (stakeOf c.st d v) (remOf p)) ∧
    (scaledTotal c.st.stakes v (remOf p) / Dec.ONE = 0 →
        scaledTotal c.st.stakes v (remOf p) < Dec.ONE ∧
        ∀ d, stakeOf c'.st d v = Dec.zero ∧ (Dec.mul (stakeOf c.st d v) (remOf p)).atomics < Dec.ONE) := by
  have ef := slash_effect hi h
  obtain ⟨vi, vi', _, _, hT, hnz, hz⟩ := ef.total
  constructor
  · intro hne; exact (hnz (by rw [hT]; exact hne)).1
  · intro he
    obtain ⟨hnone, hlt⟩ := hz (by rw [hT]; exact he)
    refine ⟨hlt, fun d => ⟨by simp [stakeOf, curShares, hnone d, Shares.dflt], ?_⟩⟩
    unfold stakeOf curShares
    cases hg : get? c.st.stakes (d, v) with
    | none => simp [Shares.dflt, Dec.mul, Dec.zero]; exact Dec.ONE_pos
    | some sh =>
      have := le_scaledTotal (remOf p) hg
      simp only [Option.getD_some]; omega

/-- C16 never increases: records and shown delegations -/
theorem slash_scales_down {c c' : Chain} {v : String} {p : Dec} (hi : SInv c.st) (h : sudoSlash c v p = .ok c') (d : Addr) :
    stakeOf c'.st d v ≤ Dec.mul (stakeOf c.st d v) (remOf p) ∧ stakeOf c'.st d v ≤ stakeOf c.st d v ∧
    (stakeOf c'.st d v).floor ≤ (stakeOf c.st d v).floor := by
  have ex := slash_scales_exact hi h
  have hle : Dec.mul (stakeOf c.st d v) (remOf p) ≤ stakeOf c.st d v := Dec.mul_le_left _ _ (remOf_le p)
  have h1 : stakeOf c'.st d v ≤ Dec.mul (stakeOf c.st d v) (remOf p) := by
    by_cases e : scaledTotal c.st.stakes v (remOf p) / Dec.ONE = 0
    · rw [((ex.2 e).2 d).1, Dec.le_def]; exact Nat.zero_le _
    · rw [ex.1 e d, Dec.le_def]; exact Nat.le_refl _
  refine ⟨h1, ?_, ?_⟩
  · rw [Dec.le_def] at *; omega
  · rw [Dec.le_def] at *
    unfold Dec.floor
    exact Nat.div_le_div_right (by omega)

theorem mem_slashQueue_amount {q : List Unbonding} {v : String} {rem : Dec} :
    slashQueue q v rem = q.map fun u => if u.validator = v then { u with amount := Dec.mulFloor u.amount rem } else u := rfl

theorem scaledTotal_zero_rem (m : KMap (Addr × String) Shares) (v : String) (rem : Dec) (h : rem.atomics = 0) :
    scaledTotal m v rem = 0 := by
  induction m with
  | nil => rfl
  | cons p m ih => rw [scaledTotal_cons, ih]; simp [Dec.mul, h]

/-- C16 full_slash: `p = 1` removes every delegation to `v` (and empties its pending unbondings) -/
theorem slash_full {c c' : Chain} {v : String} (hi : SInv c.st) (h : sudoSlash c v Dec.one = .ok c') :
    (∀ d, get? c'.st.stakes (d, v) = none) ∧ (∀ u ∈ c'.st.queue, u.validator = v → u.amount = 0) := by
  have ef := slash_effect hi h
  obtain ⟨vi, vi', _, _, hT, _, hz⟩ := ef.total
  have hrem : (remOf Dec.one).atomics = 0 := by simp [remOf, Dec.sub, Dec.one]
  have hmf : ∀ n, Dec.mulFloor n (remOf Dec.one) = 0 := by intro n; simp [Dec.mulFloor, hrem]
  refine ⟨(hz (by rw [hT, scaledTotal_zero_rem _ _ _ hrem]; simp)).1, ?_⟩
  intro u hu hv
  rw [ef.queue, mem_slashQueue_amount, List.mem_map] at hu
  obtain ⟨u0, _, rfl⟩ := hu
  split at hv
  · split
    · exact hmf _
    · rename_i h1 h2; exact absurd h1 h2
  · rename_i h1; exact absurd hv h1

/-- C16 rejects: a fraction above one or an unknown validator -/
theorem slash_rejects {c : Chain} {v : String} {p : Dec} (hi : SInv c.st)
    (hbad : Dec.one < p ∨ c.st.validator? v = none) : ∀ c', sudoSlash c v p ≠ .ok c' := by
  intro c' h
  have ef := slash_effect hi h
  rcases hbad with hb | hb
  · have := ef.pct_le; rw [Dec.le_def] at this; rw [Dec.lt_def] at hb; omega
  · obtain ⟨vo, hvo⟩ := ef.known; rw [hb] at hvo; simp at hvo

/-- C16 exact_when_whole: a whole delegation `n` whose scaled value is the whole number `m` becomes exactly `m` -/
theorem slash_exact_when_whole {c c' : Chain} {v : String} {p : Dec} (hi : SInv c.st)
    (h : sudoSlash c v p = .ok c') (d : Addr) (n m : Nat)
    (hn : stakeOf c.st d v = Dec.ofNat n) (hm : n * (remOf p).atomics = Dec.ONE * m) :
    stakeOf c'.st d v = Dec.ofNat m ∧ (stakeOf c'.st d v).floor = m := by
  have ex := slash_scales_exact hi h
  have hmul : Dec.mul (Dec.ofNat n) (remOf p) = Dec.ofNat m := by
    apply Dec.ext'
    simp only [Dec.mul, Dec.ofNat]
    rw [Nat.mul_assoc, hm, Nat.mul_div_cancel_left _ Dec.ONE_pos]
  have hfl : (Dec.ofNat m).floor = m := by
    simp only [Dec.floor, Dec.ofNat]; exact Nat.mul_div_cancel_left _ Dec.ONE_pos
  by_cases e : scaledTotal c.st.stakes v (remOf p) / Dec.ONE = 0
  · obtain ⟨hz, hlt⟩ := (ex.2 e).2 d
    rw [hn, hmul] at hlt
    have hm0 : m = 0 := by
      simp only [Dec.ofNat] at hlt
      cases m with
      | zero => rfl
      | succ k =>
        exfalso
        have : Dec.ONE * 1 ≤ Dec.ONE * (k + 1) := Nat.mul_le_mul_left _ (by omega)
        omega
    subst hm0
    rw [hz]
    exact ⟨by apply Dec.ext'; simp [Dec.zero, Dec.ofNat], zero_floor⟩
  · rw [ex.1 e d, hn, hmul]; exact ⟨rfl, hfl⟩

/-- C16 frame: other validators' records and totals, the bank, withdraw addresses and parameters are untouched;
pending unbondings of other validators are untouched, those of `v` become `⌊amount·(1−p)⌋` -/
theorem slash_frame {c c' : Chain} {v : String} {p : Dec} (hi : SInv c.st) (h : sudoSlash c v p = .ok c') :
    c'.bank = c.bank ∧ c'.st.withdraw = c.st.withdraw ∧
    (∀ k : Addr × String, k.2 ≠ v → get? c'.st.stakes k = get? c.st.stakes k) ∧
    (∀ w, w ≠ v → get? c'.st.vinfo w = get? c.st.vinfo w) ∧
    c'.st.queue = c.st.queue.map (fun u =>
      if u.validator = v then { u with amount := Dec.mulFloor u.amount (remOf p) } else u) := by
  have ef := slash_effect hi h
  exact ⟨ef.bank, ef.withdraw, ef.other_records, ef.other_validators, ef.queue⟩

/-- any number of slashes of `v` in a row -/
def slashAll (c : Chain) (v : String) : List Dec → Outcome Chain
  | [] => .ok c
  | p :: ps =>
    match sudoSlash c v p with
    | .ok c1 => slashAll c1 v ps
    | .err => .err
    | .panic => .panic
    | .outOfFuel => .outOfFuel

/-- C16 repeated: the single-slash facts compose over any number of slashes -/
theorem slash_repeated {cfg : Cfg} {v : String} : ∀ (ps : List Dec) (c c' : Chain), Inv cfg c →
    slashAll c v ps = .ok c' →
    Inv cfg c' ∧ c'.bank = c.bank ∧ c'.st.withdraw = c.st.withdraw ∧
    (∀ k : Addr × String, k.2 ≠ v → get? c'.st.stakes k = get? c.st.stakes k) ∧
    (∀ w, w ≠ v → get? c'.st.vinfo w = get? c.st.vinfo w) ∧
    (∀ d, stakeOf c'.st d v ≤ stakeOf c.st d v) ∧
    c'.st.queue.length = c.st.queue.length := by
  intro ps
  induction ps with
  | nil =>
    intro c c' hi h
    simp only [slashAll, Outcome.ok.injEq] at h; subst h
    exact ⟨hi, rfl, rfl, fun _ _ => rfl, fun _ _ => rfl, fun d => by rw [Dec.le_def]; exact Nat.le_refl _, rfl⟩
  | cons p ps ih =>
    intro c c' hi h
    simp only [slashAll] at h
    split at h
    · rename_i c1 h1
      have ef := slash_effect hi.sinv h1
      obtain ⟨i1, i2, i3, i4, i5, i6, i7⟩ := ih c1 c' (inv_slash hi h1) h
      refine ⟨i1, i2.trans ef.bank, i3.trans ef.withdraw, fun k hk => (i4 k hk).trans (ef.other_records k hk),
        fun w hw => (i5 w hw).trans (ef.other_validators w hw), ?_, ?_⟩
      · intro d
        have a := i6 d
        have b := (slash_scales_down hi.sinv h1 d).2.1
        rw [Dec.le_def] at *; omega
      · rw [i7, ef.queue]; simp [slashQueue]
    · simp at h
    · simp at h
    · simp at h

end Staking
end CwMt
