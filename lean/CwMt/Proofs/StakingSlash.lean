import CwMt.Proofs.StakingOps
/-
  CwMt.Proofs.StakingSlash — C16: what a slash does, what it leaves alone.
-/
set_option linter.unusedSimpArgs false
set_option linter.unusedVariables false
namespace CwMt
namespace Staking
open KMap

theorem Dec.mul_zero_left (r : Dec) : Dec.mul Dec.zero r = Dec.zero := by
  apply Dec.ext'; simp [Dec.mul, Dec.zero]

/-- the complete effect of an accepted slash of validator `v` by `p` -/
structure SlashEffect (c : Chain) (v : String) (p : Dec) (c' : Chain) : Prop where
  pct_le : p ≤ Dec.one
  known : ∃ vo, c.st.validator? v = some vo
  bank : c'.bank = c.bank
  time : c'.time = c.time
  withdraw : c'.st.withdraw = c.st.withdraw
  info : c'.st.info = c.st.info
  validators : c'.st.validators = c.st.validators
  queue : c'.st.queue = slashQueue c.st.queue v (remOf p)
  other_records : ∀ k : Addr × String, k.2 ≠ v → get? c'.st.stakes k = get? c.st.stakes k
  other_validators : ∀ w, w ≠ v → get? c'.st.vinfo w = get? c.st.vinfo w
  total : ∃ vi vi', get? c.st.vinfo v = some vi ∧ get? c'.st.vinfo v = some vi' ∧
      vi'.stake = Dec.mulFloor vi.stake (remOf p) ∧
      (Dec.mulFloor vi.stake (remOf p) ≠ 0 → ∀ d, stakeOf c'.st d v = Dec.mul (stakeOf c.st d v) (remOf p)) ∧
      (Dec.mulFloor vi.stake (remOf p) = 0 → ∀ d, get? c'.st.stakes (d, v) = none)

theorem slash_effect {c c' : Chain} {v : String} {p : Dec} (hi : SInv c.st) (h : sudoSlash c v p = .ok c') :
    SlashEffect c v p c' := by
  unfold sudoSlash at h
  split at h
  · simp at h
  · rename_i hp
    split at h
    · rename_i st hst
      simp only [Outcome.ok.injEq] at h; subst h
      unfold slash at hst
      split at hst
      · rename_i s1 h1
        have ur := updR_ok h1
        have hi1 := SInv_updR hi ur
        obtain ⟨vi, vi1, hvi, hvi1, hstk, hstake, _⟩ := UR_self' ur
        rw [hvi1] at hst
        simp only at hst
        have hother : ∀ k : Addr × String, k.2 ≠ v → get? s1.stakes k = get? c.st.stakes k := by
          intro k hk
          obtain ⟨F, hF, _, hid⟩ := ur.stakes k
          rw [hF]; cases get? c.st.stakes k <;> simp [hid hk]
        unfold applySlash at hst
        split at hst
        · rename_i hz
          simp only [Outcome.ok.injEq] at hst; subst hst
          refine ⟨Dec.le_of_not_lt hp, ur.valid, rfl, rfl, ur.withdraw, ur.info, ur.validators, by simp [ur.queue], ?_, ?_,
            ⟨vi, _, hvi, get?_set_self _ _ _, ?_, ?_, ?_⟩⟩
          · intro k hk
            simp only [get?_removeAll, hk, false_and, ite_false]; exact hother k hk
          · intro w hw; simp only [get?_set_ne _ _ hw]; exact ur.vinfo_other w hw
          · simp only [← hstake, hz]
          · intro hnz; rw [← hstake] at hnz; exact absurd hz hnz
          · intro _ d
            simp only [get?_removeAll, true_and]
            split
            · rfl
            · rename_i hnot
              cases hg : get? s1.stakes (d, v) with
              | none => rfl
              | some sh =>
                obtain ⟨vi2, hv2, hd⟩ := hi1.stakes_listed d v sh hg
                rw [hvi1] at hv2; simp only [Option.some.injEq] at hv2; subst hv2
                exact absurd hd hnot
        · rename_i hnz
          split at hst
          · simp only [Outcome.ok.injEq] at hst; subst hst
            refine ⟨Dec.le_of_not_lt hp, ur.valid, rfl, rfl, ur.withdraw, ur.info, ur.validators, by simp [ur.queue], ?_, ?_,
              ⟨vi, _, hvi, get?_set_self _ _ _, ?_, ?_, ?_⟩⟩
            · intro k hk
              simp only [get?_scaleAll, hk, false_and, ite_false]
              rw [hother k hk]; cases get? c.st.stakes k <;> rfl
            · intro w hw; simp only [get?_set_ne _ _ hw]; exact ur.vinfo_other w hw
            · simp only [← hstake]
            · intro _ d
              rw [← stakeOf_updR ur d v]
              unfold stakeOf curShares
              simp only [get?_scaleAll, true_and]
              cases hg : get? s1.stakes (d, v) with
              | none =>
                simp only [Option.map_none, Option.getD_none, Shares.dflt]
                exact (Dec.mul_zero_left _).symm
              | some sh =>
                obtain ⟨vi2, hv2, hd⟩ := hi1.stakes_listed d v sh hg
                rw [hvi1] at hv2; simp only [Option.some.injEq] at hv2; subst hv2
                simp [hd]
            · intro hz; rw [← hstake] at hz; exact absurd hz hnz
          · simp at hst
      · simp at hst
      · simp at hst
      · simp at hst
    · simp at h
    · simp at h
    · simp at h

/-- C16 scales_down / never increases: records, shown delegations, validator total and pending unbondings -/
theorem slash_scales_down {c c' : Chain} {v : String} {p : Dec} (hi : SInv c.st) (h : sudoSlash c v p = .ok c') (d : Addr) :
    stakeOf c'.st d v ≤ Dec.mul (stakeOf c.st d v) (remOf p) ∧ stakeOf c'.st d v ≤ stakeOf c.st d v ∧
    (stakeOf c'.st d v).floor ≤ (stakeOf c.st d v).floor := by
  have ef := slash_effect hi h
  obtain ⟨vi, vi', _, _, _, hnz, hz⟩ := ef.total
  have hle : Dec.mul (stakeOf c.st d v) (remOf p) ≤ stakeOf c.st d v := Dec.mul_le_left _ _ (remOf_le p)
  have h1 : stakeOf c'.st d v ≤ Dec.mul (stakeOf c.st d v) (remOf p) := by
    by_cases e : Dec.mulFloor vi.stake (remOf p) = 0
    · have : stakeOf c'.st d v = Dec.zero := by simp [stakeOf, curShares, hz e d, Shares.dflt]
      rw [this, Dec.le_def]; exact Nat.zero_le _
    · rw [hnz e d, Dec.le_def]; exact Nat.le_refl _
  refine ⟨h1, ?_, ?_⟩
  · rw [Dec.le_def] at *; omega
  · rw [Dec.le_def] at *
    unfold Dec.floor
    exact Nat.div_le_div_right (by omega)

theorem mem_slashQueue_amount {q : List Unbonding} {v : String} {rem : Dec} :
    slashQueue q v rem = q.map fun u => if u.validator = v then { u with amount := Dec.mulFloor u.amount rem } else u := rfl

/-- C16 full_slash: `p = 1` removes every delegation to `v` (and empties its pending unbondings) -/
theorem slash_full {c c' : Chain} {v : String} (hi : SInv c.st) (h : sudoSlash c v Dec.one = .ok c') :
    (∀ d, get? c'.st.stakes (d, v) = none) ∧ (∀ u ∈ c'.st.queue, u.validator = v → u.amount = 0) := by
  have ef := slash_effect hi h
  obtain ⟨vi, vi', _, _, _, _, hz⟩ := ef.total
  have hrem : (remOf Dec.one).atomics = 0 := by simp [remOf, Dec.sub, Dec.one]
  have hmf : ∀ n, Dec.mulFloor n (remOf Dec.one) = 0 := by intro n; simp [Dec.mulFloor, hrem]
  refine ⟨hz (hmf _), ?_⟩
  intro u hu hv
  rw [ef.queue, mem_slashQueue_amount, List.mem_map] at hu
  obtain ⟨u0, _, rfl⟩ := hu
  split at hv
  · split
    · exact hmf _
    · rename_i h1 h2; exact absurd h1 h2
  · rename_i h1; exact absurd hv h1

/-- C16 rejects: a fraction above one or an unknown validator -/
theorem slash_rejects {c : Chain} {v : String} {p : Dec} (hi : SInv c.st)
    (hbad : Dec.one < p ∨ c.st.validator? v = none) : ∀ c', sudoSlash c v p ≠ .ok c' := by
  intro c' h
  have ef := slash_effect hi h
  rcases hbad with hb | hb
  · have := ef.pct_le; rw [Dec.le_def] at this; rw [Dec.lt_def] at hb; omega
  · obtain ⟨vo, hvo⟩ := ef.known; rw [hb] at hvo; simp at hvo

/-- C16 exact_when_whole: a whole delegation `n` (not above the validator total) whose scaled value is the whole
number `m` becomes exactly `m`; likewise the validator total -/
theorem slash_exact_when_whole {c c' : Chain} {v : String} {p : Dec} (hi : SInv c.st)
    (h : sudoSlash c v p = .ok c') (d : Addr) (n m : Nat) (vi : ValInfo) (hv : get? c.st.vinfo v = some vi)
    (hn : stakeOf c.st d v = Dec.ofNat n) (hle : n ≤ vi.stake) (hm : n * (remOf p).atomics = Dec.ONE * m) :
    stakeOf c'.st d v = Dec.ofNat m ∧ (stakeOf c'.st d v).floor = m := by
  have ef := slash_effect hi h
  obtain ⟨vi0, vi', hv0, _, _, hnz, hz⟩ := ef.total
  rw [hv] at hv0; simp only [Option.some.injEq] at hv0; subst hv0
  have hmul : Dec.mul (Dec.ofNat n) (remOf p) = Dec.ofNat m := by
    apply Dec.ext'
    simp only [Dec.mul, Dec.ofNat]
    rw [Nat.mul_assoc, hm, Nat.mul_div_cancel_left _ Dec.ONE_pos]
  have hfl : (Dec.ofNat m).floor = m := by
    simp only [Dec.floor, Dec.ofNat]; exact Nat.mul_div_cancel_left _ Dec.ONE_pos
  by_cases e : Dec.mulFloor vi.stake (remOf p) = 0
  · -- the validator total floors to zero: then m = 0 as well
    have hm0 : m = 0 := by
      have h1 : Dec.mulFloor n (remOf p) ≤ Dec.mulFloor vi.stake (remOf p) := by
        unfold Dec.mulFloor
        exact Nat.div_le_div_right (Nat.mul_le_mul_right _ hle)
      have h2 : Dec.mulFloor n (remOf p) = m := by
        unfold Dec.mulFloor; rw [hm, Nat.mul_div_cancel_left _ Dec.ONE_pos]
      omega
    have : stakeOf c'.st d v = Dec.zero := by simp [stakeOf, curShares, hz e d, Shares.dflt]
    subst hm0
    refine ⟨by rw [this]; apply Dec.ext'; simp [Dec.zero, Dec.ofNat], by rw [this]; exact zero_floor⟩
  · rw [hnz e d, hn, hmul]; exact ⟨rfl, hfl⟩

/-- C16 frame: other validators' records and totals, the bank, withdraw addresses and parameters are untouched;
pending unbondings of other validators are untouched, those of `v` become `⌊amount·(1−p)⌋` -/
theorem slash_frame {c c' : Chain} {v : String} {p : Dec} (hi : SInv c.st) (h : sudoSlash c v p = .ok c') :
    c'.bank = c.bank ∧ c'.st.withdraw = c.st.withdraw ∧
    (∀ k : Addr × String, k.2 ≠ v → get? c'.st.stakes k = get? c.st.stakes k) ∧
    (∀ w, w ≠ v → get? c'.st.vinfo w = get? c.st.vinfo w) ∧
    c'.st.queue = c.st.queue.map (fun u =>
      if u.validator = v then { u with amount := Dec.mulFloor u.amount (remOf p) } else u) := by
  have ef := slash_effect hi h
  exact ⟨ef.bank, ef.withdraw, ef.other_records, ef.other_validators, ef.queue⟩

/-- any number of slashes of `v` in a row -/
def slashAll (c : Chain) (v : String) : List Dec → Outcome Chain
  | [] => .ok c
  | p :: ps =>
    match sudoSlash c v p with
    | .ok c1 => slashAll c1 v ps
    | .err => .err
    | .panic => .panic
    | .outOfFuel => .outOfFuel

/-- C16 repeated: the single-slash facts compose over any number of slashes -/
theorem slash_repeated {cfg : Cfg} {v : String} : ∀ (ps : List Dec) (c c' : Chain), Inv cfg c →
    slashAll c v ps = .ok c' →
    Inv cfg c' ∧ c'.bank = c.bank ∧ c'.st.withdraw = c.st.withdraw ∧
    (∀ k : Addr × String, k.2 ≠ v → get? c'.st.stakes k = get? c.st.stakes k) ∧
    (∀ w, w ≠ v → get? c'.st.vinfo w = get? c.st.vinfo w) ∧
    (∀ d, stakeOf c'.st d v ≤ stakeOf c.st d v) ∧
    c'.st.queue.length = c.st.queue.length := by
  intro ps
  induction ps with
  | nil =>
    intro c c' hi h
    simp only [slashAll, Outcome.ok.injEq] at h; subst h
    exact ⟨hi, rfl, rfl, fun _ _ => rfl, fun _ _ => rfl, fun d => by rw [Dec.le_def]; exact Nat.le_refl _, rfl⟩
  | cons p ps ih =>
    intro c c' hi h
    simp only [slashAll] at h
    split at h
    · rename_i c1 h1
      have ef := slash_effect hi.sinv h1
      obtain ⟨i1, i2, i3, i4, i5, i6, i7⟩ := ih c1 c' (inv_slash hi h1) h
      refine ⟨i1, i2.trans ef.bank, i3.trans ef.withdraw, fun k hk => (i4 k hk).trans (ef.other_records k hk),
        fun w hw => (i5 w hw).trans (ef.other_validators w hw), ?_, ?_⟩
      · intro d
        have a := i6 d
        have b := (slash_scales_down hi.sinv h1 d).2.1
        rw [Dec.le_def] at *; omega
      · rw [i7, ef.queue]; simp [slashQueue]
    · simp at h
    · simp at h
    · simp at h

end Staking
end CwMt
