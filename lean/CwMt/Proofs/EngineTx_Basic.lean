import CwMt.Model.EngineTx
import CwMt.Proofs.Engine_Basic
/-
  CwMt.Proofs.EngineTx_Basic — the non-recursive steps of the engine with in-place writes
  (CwMt/Model/EngineTx.lean) against their value-semantics counterparts, the two combinators
  `callThenI` / `mapRespI` through which the wasm arms factor, and unfolding equations of the four
  mutually recursive `…I` functions.
-/
namespace CwMt.EngineTx
open CwMt CwMt.Engine
variable {E : Type}

/-! ### `forget`, `transactionalI` -/

section forget
variable {α : Type}

@[simp] theorem forget_ok (a : α) (ch : Chain E) (tr : Trace) :
    ResI.forget ((.ok a, ch, tr) : ResI α E) = (.ok (a, ch), tr) := rfl
@[simp] theorem forget_err (ch : Chain E) (tr : Trace) :
    ResI.forget ((.err, ch, tr) : ResI α E) = (.err, tr) := rfl
@[simp] theorem forget_panic (ch : Chain E) (tr : Trace) :
    ResI.forget ((.panic, ch, tr) : ResI α E) = (.panic, tr) := rfl
@[simp] theorem forget_outOfFuel (ch : Chain E) (tr : Trace) :
    ResI.forget ((.outOfFuel, ch, tr) : ResI α E) = (.outOfFuel, tr) := rfl

/-- dropping the cache of a failed body does not change the value-semantics view -/
theorem forget_transactionalI (ch : Chain E) (r : ResI α E) : (transactionalI ch r).forget = r.forget := by
  obtain ⟨o, c, t⟩ := r
  cases o <;> rfl

/-- `transactional` at the root is `atomically` of the value-semantics view -/
theorem transactionalI_eq_atomically (ch : Chain E) (r : ResI α E) :
    transactionalI ch r = App.atomically ch r.forget := by
  obtain ⟨o, c, t⟩ := r
  cases o <;> rfl

/-- the shape of an imperative result whose view is known -/
theorem forget_eq_ok {r : ResI α E} {a : α} {ch : Chain E} {tr : Trace}
    (h : r.forget = (.ok (a, ch), tr)) : r = (.ok a, ch, tr) := by
  obtain ⟨o, c, t⟩ := r
  cases o with
  | ok a' =>
    simp only [forget_ok, Prod.mk.injEq, Outcome.ok.injEq] at h
    obtain ⟨⟨rfl, rfl⟩, rfl⟩ := h
    rfl
  | err => simp only [forget_err, Prod.mk.injEq] at h; exact absurd h.1 (by intro h; cases h)
  | panic => simp only [forget_panic, Prod.mk.injEq] at h; exact absurd h.1 (by intro h; cases h)
  | outOfFuel => simp only [forget_outOfFuel, Prod.mk.injEq] at h; exact absurd h.1 (by intro h; cases h)

theorem forget_eq_err {r : ResI α E} {tr : Trace} (h : r.forget = (.err, tr)) : ∃ ch, r = (.err, ch, tr) := by
  obtain ⟨o, c, t⟩ := r
  cases o with
  | ok a' => simp only [forget_ok, Prod.mk.injEq] at h; exact absurd h.1 (by intro h; cases h)
  | err => simp only [forget_err, Prod.mk.injEq] at h; exact ⟨c, by rw [h.2]⟩
  | panic => simp only [forget_panic, Prod.mk.injEq] at h; exact absurd h.1 (by intro h; cases h)
  | outOfFuel => simp only [forget_outOfFuel, Prod.mk.injEq] at h; exact absurd h.1 (by intro h; cases h)

theorem forget_eq_panic {r : ResI α E} {tr : Trace} (h : r.forget = (.panic, tr)) :
    ∃ ch, r = (.panic, ch, tr) := by
  obtain ⟨o, c, t⟩ := r
  cases o with
  | ok a' => simp only [forget_ok, Prod.mk.injEq] at h; exact absurd h.1 (by intro h; cases h)
  | err => simp only [forget_err, Prod.mk.injEq] at h; exact absurd h.1 (by intro h; cases h)
  | panic => simp only [forget_panic, Prod.mk.injEq] at h; exact ⟨c, by rw [h.2]⟩
  | outOfFuel => simp only [forget_outOfFuel, Prod.mk.injEq] at h; exact absurd h.1 (by intro h; cases h)

theorem forget_eq_outOfFuel {r : ResI α E} {tr : Trace} (h : r.forget = (.outOfFuel, tr)) :
    ∃ ch, r = (.outOfFuel, ch, tr) := by
  obtain ⟨o, c, t⟩ := r
  cases o with
  | ok a' => simp only [forget_ok, Prod.mk.injEq] at h; exact absurd h.1 (by intro h; cases h)
  | err => simp only [forget_err, Prod.mk.injEq] at h; exact absurd h.1 (by intro h; cases h)
  | panic => simp only [forget_panic, Prod.mk.injEq] at h; exact absurd h.1 (by intro h; cases h)
  | outOfFuel => simp only [forget_outOfFuel, Prod.mk.injEq] at h; exact ⟨c, by rw [h.2]⟩

end forget

/-! ### the non-recursive steps -/

/-- a module call: same outcome; on `ok` the same state -/
theorem moduleI_ok (d : Dirt E) (ch : Chain E) (s : Addr) (m : Msg) (a : AppResponse) (ch' : Chain E) :
    moduleI d ch s m (.ok (a, ch')) = (.ok a, ch') := rfl

theorem forget_moduleI (d : Dirt E) (ch : Chain E) (s : Addr) (m : Msg)
    (r : Outcome (AppResponse × Chain E)) (tr : Trace) :
    ResI.forget (((moduleI d ch s m r).1, (moduleI d ch s m r).2, tr) : ResI AppResponse E) = (r, tr) := by
  cases r with
  | ok p => obtain ⟨a, ch'⟩ := p; rfl
  | err => rfl
  | panic => rfl
  | outOfFuel => rfl

/-- `send`: the same outcome as `sendFunds`, and the same state on `ok` -/
theorem sendFundsI_cases (d : Dirt E) (ch : Chain E) (s : Addr) (r : String) (f : Coins) :
    (∃ ch1, sendFundsI d ch s r f = (.ok (), ch1) ∧ sendFunds ch s r f = .ok ch1) ∨
    (∃ ch1, sendFundsI d ch s r f = (.err, ch1) ∧ sendFunds ch s r f = .err) ∨
    (∃ ch1, sendFundsI d ch s r f = (.panic, ch1) ∧ sendFunds ch s r f = .panic) ∨
    (∃ ch1, sendFundsI d ch s r f = (.outOfFuel, ch1) ∧ sendFunds ch s r f = .outOfFuel) := by
  unfold sendFundsI sendFunds
  split
  · exact Or.inl ⟨ch, rfl, rfl⟩
  · cases bankExecute ch s (.bankSend r f) with
    | ok p => obtain ⟨a, ch'⟩ := p; exact Or.inl ⟨ch', rfl, rfl⟩
    | err => exact Or.inr (Or.inl ⟨_, rfl, rfl⟩)
    | panic => exact Or.inr (Or.inr (Or.inl ⟨_, rfl, rfl⟩))
    | outOfFuel => exact Or.inr (Or.inr (Or.inr ⟨_, rfl, rfl⟩))

/-- a contract call: a rejected response, a failed or panicking entry point leave their writes behind,
but the view is that of `callContract` -/
theorem forget_callContractI (cfg : Config E) (d : Dirt E) (blk : Block) (ch : Chain E) (addr : Addr)
    (en : Entry) (tr : Trace) :
    (callContractI cfg d blk ch addr en tr).forget = callContract cfg blk ch addr en tr := by
  cases hget : ch.contracts.get? addr with
  | none => simp only [callContractI, callContract, hget, forget_err]
  | some cd =>
    cases hcode : contractCode? cfg cd.codeId with
    | none => simp only [callContractI, callContract, hget, hcode, forget_err]
    | some code =>
      rcases hrun : code.run en (contractEnv blk addr) ch ((ch.cstore.get? addr).getD []) with ⟨res, note⟩
      cases res with
      | ok p =>
        obtain ⟨resp, own'⟩ := p
        simp only [callContractI, callContract, hget, hcode, hrun, transactionalI]
        split <;> rfl
      | err => simp only [callContractI, callContract, hget, hcode, hrun, transactionalI, forget_err]
      | panic => simp only [callContractI, callContract, hget, hcode, hrun, transactionalI, forget_panic]
      | outOfFuel =>
        simp only [callContractI, callContract, hget, hcode, hrun, transactionalI, forget_outOfFuel]

/-! ### combinators -/

/-- post-processing of the response of a successful result; failures (and their dirt) pass through -/
def mapRespI (f : AppResponse → AppResponse) : ResI AppResponse E → ResI AppResponse E
  | (.ok r, ch, tr) => (.ok (f r), ch, tr)
  | other => other

/-- call an entry point, then process the response's sub-messages on the storage the call left -/
def callThenI (cfg : Config E) (d : Dirt E) (blk : Block) (fuel : Nat) (ch : Chain E) (addr : Addr)
    (en : Entry) (custom : Event) (tr : Trace) : ResI AppResponse E :=
  match callContractI cfg d blk ch addr en tr with
  | (.ok resp, ch2, tr1) =>
    processResponseI cfg d blk fuel ch2 addr (buildAppResponse addr custom resp).1
      (buildAppResponse addr custom resp).2 tr1
  | (.err, ch2, tr1) => (.err, ch2, tr1)
  | (.panic, ch2, tr1) => (.panic, ch2, tr1)
  | (.outOfFuel, ch2, tr1) => (.outOfFuel, ch2, tr1)

theorem forget_mapRespI (f : AppResponse → AppResponse) (x : ResI AppResponse E) :
    (mapRespI f x).forget = mapResp f x.forget := by
  obtain ⟨o, c, t⟩ := x
  cases o <;> rfl

theorem forget_callThenI (cfg : Config E) (d : Dirt E) (blk : Block) (fuel : Nat)
    (hP : ∀ ch c r l tr, (processResponseI cfg d blk fuel ch c r l tr).forget
        = processResponse cfg blk fuel ch c r l tr)
    (ch : Chain E) (addr : Addr) (en : Entry) (custom : Event) (tr : Trace) :
    (callThenI cfg d blk fuel ch addr en custom tr).forget = callThen cfg blk fuel ch addr en custom tr := by
  unfold callThenI callThen
  rw [← forget_callContractI cfg d blk ch addr en tr]
  rcases callContractI cfg d blk ch addr en tr with ⟨o, c, t⟩
  cases o with
  | ok resp => exact hP _ _ _ _ _
  | err => rfl
  | panic => rfl
  | outOfFuel => rfl

/-! ### unfolding equations -/

section eqns
variable (cfg : Config E) (d : Dirt E) (blk : Block)

theorem executeI_zero (ch : Chain E) (s : Addr) (m : Msg) (tr : Trace) :
    executeI cfg d blk 0 ch s m tr = (.outOfFuel, ch, tr) := by
  simp only [executeI]

theorem processResponseI_zero (ch : Chain E) (c : Addr) (r : AppResponse) (l : List SubMsg) (tr : Trace) :
    processResponseI cfg d blk 0 ch c r l tr = (.outOfFuel, ch, tr) := by
  simp only [processResponseI]

theorem executeSubmsgI_zero (ch : Chain E) (c : Addr) (sm : SubMsg) (tr : Trace) :
    executeSubmsgI cfg d blk 0 ch c sm tr = (.outOfFuel, ch, tr) := by
  simp only [executeSubmsgI]

theorem replyI_zero (ch : Chain E) (c : Addr) (rp : Reply) (tr : Trace) :
    replyI cfg d blk 0 ch c rp tr = (.outOfFuel, ch, tr) := by
  simp only [replyI]

theorem executeI_succ_bankSend (fuel : Nat) (ch : Chain E) (s : Addr) (to : String) (a : Coins) (tr : Trace) :
    executeI cfg d blk (fuel + 1) ch s (.bankSend to a) tr =
      ((moduleI d ch s (.bankSend to a) (bankExecute ch s (.bankSend to a))).1,
       (moduleI d ch s (.bankSend to a) (bankExecute ch s (.bankSend to a))).2, tr) := by
  simp only [executeI]

theorem executeI_succ_bankBurn (fuel : Nat) (ch : Chain E) (s : Addr) (a : Coins) (tr : Trace) :
    executeI cfg d blk (fuel + 1) ch s (.bankBurn a) tr =
      ((moduleI d ch s (.bankBurn a) (bankExecute ch s (.bankBurn a))).1,
       (moduleI d ch s (.bankBurn a) (bankExecute ch s (.bankBurn a))).2, tr) := by
  simp only [executeI]

theorem executeI_succ_ext (fuel : Nat) (ch : Chain E) (s : Addr) (k : ExtKind) (p : Val) (tr : Trace) :
    executeI cfg d blk (fuel + 1) ch s (.ext k p) tr =
      ((moduleI d ch s (.ext k p) (cfg.extExec k ch blk s p)).1,
       (moduleI d ch s (.ext k p) (cfg.extExec k ch blk s p)).2, tr) := by
  simp only [executeI]

theorem executeI_succ_updateAdmin (fuel : Nat) (ch : Chain E) (s : Addr) (c a : String) (tr : Trace) :
    executeI cfg d blk (fuel + 1) ch s (.wasmUpdateAdmin c a) tr =
      (match updateAdmin cfg ch s c (some a) with
      | .ok (a, ch') => (.ok a, ch', tr)
      | .err => (.err, ch, tr)
      | .panic => (.panic, ch, tr)
      | .outOfFuel => (.outOfFuel, ch, tr)) := by
  simp only [executeI]
  cases updateAdmin cfg ch s c _ with
  | ok p => rfl
  | _ => rfl

theorem executeI_succ_clearAdmin (fuel : Nat) (ch : Chain E) (s : Addr) (c : String) (tr : Trace) :
    executeI cfg d blk (fuel + 1) ch s (.wasmClearAdmin c) tr =
      (match updateAdmin cfg ch s c none with
      | .ok (a, ch') => (.ok a, ch', tr)
      | .err => (.err, ch, tr)
      | .panic => (.panic, ch, tr)
      | .outOfFuel => (.outOfFuel, ch, tr)) := by
  simp only [executeI]
  cases updateAdmin cfg ch s c _ with
  | ok p => rfl
  | _ => rfl

theorem executeI_succ_wasmExecute (fuel : Nat) (ch : Chain E) (s : Addr)
    (c : String) (m : Val) (funds : Coins) (tr : Trace) :
    executeI cfg d blk (fuel + 1) ch s (.wasmExecute c m funds) tr =
      if !cfg.validAddr c then (.err, ch, tr) else
      match sendFundsI d ch s c funds with
      | (.ok _, ch1) => mapRespI (fun r => { r with data := r.data.map encodeExecuteResponse })
          (callThenI cfg d blk fuel ch1 c (.execute ⟨s, funds⟩ m)
            { ty := "execute", attrs := [contractAttr c] } tr)
      | (.err, ch1) => (.err, ch1, tr)
      | (.panic, ch1) => (.panic, ch1, tr)
      | (.outOfFuel, ch1) => (.outOfFuel, ch1, tr) := by
  simp only [executeI, callThenI, mapRespI]
  split
  · rfl
  · rcases sendFundsI d ch s c funds with ⟨o, ch1⟩
    cases o with
    | ok u =>
      simp only []
      rcases callContractI cfg d blk ch1 c (.execute ⟨s, funds⟩ m) tr with ⟨o, ch2, tr1⟩
      cases o with
      | ok p =>
        simp only []
        split <;> simp_all
      | _ => rfl
    | _ => rfl

theorem executeI_succ_wasmInstantiate (fuel : Nat) (ch : Chain E) (s : Addr) (admin : Option String)
    (codeId : Nat) (m : Val) (funds : Coins) (label : String) (salt : Option Val) (tr : Trace) :
    executeI cfg d blk (fuel + 1) ch s (.wasmInstantiate admin codeId m funds label salt) tr =
      if label.isEmpty then (.err, ch, tr) else
      match registerContract cfg ch codeId s admin label blk.height salt with
      | .ok (addr, ch0) =>
        (match sendFundsI d ch0 s addr funds with
        | (.ok _, ch1) =>
          mapRespI (fun r => { r with data := some (encodeInstantiateResponse addr (r.data.getD [])) })
            (callThenI cfg d blk fuel ch1 addr (.instantiate ⟨s, funds⟩ m)
              { ty := "instantiate", attrs := [contractAttr addr, ⟨"code_id", toString codeId⟩] } tr)
        | (.err, ch1) => (.err, ch1, tr)
        | (.panic, ch1) => (.panic, ch1, tr)
        | (.outOfFuel, ch1) => (.outOfFuel, ch1, tr))
      | .err => (.err, ch, tr)
      | .panic => (.panic, ch, tr)
      | .outOfFuel => (.outOfFuel, ch, tr) := by
  simp only [executeI, callThenI, mapRespI]
  split
  · rfl
  · cases registerContract cfg ch codeId s admin label blk.height salt with
    | ok p =>
      obtain ⟨addr, ch0⟩ := p
      simp only []
      rcases sendFundsI d ch0 s addr funds with ⟨o, ch1⟩
      cases o with
      | ok u =>
        simp only []
        rcases callContractI cfg d blk ch1 addr (.instantiate ⟨s, funds⟩ m) tr with ⟨o, ch2, tr1⟩
        cases o with
        | ok p =>
          simp only []
          split <;> simp_all
        | _ => rfl
      | _ => rfl
    | _ => rfl

theorem executeI_succ_wasmMigrate (fuel : Nat) (ch : Chain E) (s : Addr) (c : String) (newCodeId : Nat)
    (m : Val) (tr : Trace) :
    executeI cfg d blk (fuel + 1) ch s (.wasmMigrate c newCodeId m) tr =
      if !cfg.validAddr c then (.err, ch, tr) else
      if !codeKnown cfg newCodeId then (.err, ch, tr) else
      match ch.contracts.get? c with
      | none => (.err, ch, tr)
      | some cd =>
        if cd.admin ≠ some s then (.err, ch, tr) else
        mapRespI (fun r => { r with data := r.data.map encodeExecuteResponse })
          (callThenI cfg d blk fuel
            { ch with contracts := ch.contracts.set c { cd with codeId := newCodeId } } c (.migrate m)
            { ty := "migrate", attrs := [contractAttr c, ⟨"code_id", toString newCodeId⟩] } tr) := by
  simp only [executeI, callThenI, mapRespI]
  split
  · rfl
  · split
    · rfl
    · cases ch.contracts.get? c with
      | none => rfl
      | some cd =>
        simp only []
        split
        · rfl
        · rcases callContractI cfg d blk
            { ch with contracts := ch.contracts.set c { cd with codeId := newCodeId } } c (.migrate m) tr
            with ⟨o, ch2, tr1⟩
          cases o with
          | ok p =>
            simp only []
            split <;> simp_all
          | _ => rfl

theorem processResponseI_succ_nil (fuel : Nat) (ch : Chain E) (c : Addr) (r : AppResponse) (tr : Trace) :
    processResponseI cfg d blk (fuel + 1) ch c r [] tr = (.ok r, ch, tr) := by
  simp only [processResponseI]

theorem processResponseI_succ_cons (fuel : Nat) (ch : Chain E) (c : Addr) (resp : AppResponse)
    (sm : SubMsg) (rest : List SubMsg) (tr : Trace) :
    processResponseI cfg d blk (fuel + 1) ch c resp (sm :: rest) tr =
      (match executeSubmsgI cfg d blk fuel ch c sm tr with
       | (.ok sr, ch₁, tr₁) =>
         processResponseI cfg d blk fuel ch₁ c
           { events := resp.events ++ sr.events, data := sr.data.orElse fun _ => resp.data } rest tr₁
       | other => other) := by
  simp only [processResponseI]
  rcases executeSubmsgI cfg d blk fuel ch c sm tr with ⟨o, c1, t⟩
  cases o with
  | ok p => rfl
  | _ => rfl

theorem executeSubmsgI_succ (fuel : Nat) (ch : Chain E) (c : Addr) (sm : SubMsg) (tr : Trace) :
    executeSubmsgI cfg d blk (fuel + 1) ch c sm tr =
      (match transactionalI ch (executeI cfg d blk fuel ch c sm.msg tr) with
      | (.ok r, ch1, tr1) =>
        if wantsReplyOnOk sm.replyOn then
          (match replyI cfg d blk fuel ch1 c ⟨sm.id, sm.payload, .ok r.events r.data⟩ tr1 with
          | (.ok rr, ch2, tr2) => (.ok { events := r.events ++ rr.events, data := rr.data }, ch2, tr2)
          | other => other)
        else (.ok { r with data := none }, ch1, tr1)
      | (.err, ch0, tr1) =>
        if wantsReplyOnErr sm.replyOn then replyI cfg d blk fuel ch0 c ⟨sm.id, sm.payload, .err⟩ tr1
        else (.err, ch0, tr1)
      | (.panic, ch0, tr1) => (.panic, ch0, tr1)
      | (.outOfFuel, ch0, tr1) => (.outOfFuel, ch0, tr1)) := by
  simp only [executeSubmsgI]
  rcases transactionalI ch (executeI cfg d blk fuel ch c sm.msg tr) with ⟨o, c1, t⟩
  cases o with
  | ok r =>
    simp only []
    split
    · rcases replyI cfg d blk fuel c1 c ⟨sm.id, sm.payload, .ok r.events r.data⟩ t with ⟨o2, c2, t2⟩
      cases o2 <;> rfl
    · rfl
  | _ => rfl

theorem replyI_succ (fuel : Nat) (ch : Chain E) (c : Addr) (rp : Reply) (tr : Trace) :
    replyI cfg d blk (fuel + 1) ch c rp tr =
      callThenI cfg d blk fuel ch c (.reply rp)
        { ty := "reply", attrs := [contractAttr c, ⟨"mode", replyMode rp⟩] } tr := by
  simp only [replyI, callThenI, replyMode]
  rfl

end eqns

end CwMt.EngineTx
