import CwMt.Model.EngineBig
import CwMt.Proofs.Engine
import CwMt.Proofs.EngineObs
import CwMt.Proofs.EngineBig_Core
/- The compositional rules of the fuel-free judgements `Exec / Proc / Sub / Rep` (C02 final-state specification). -/
namespace CwMt.EngineBig
open CwMt CwMt.Engine CwMt.EngineObs
variable {E : Type}

/-- the judgements are functional: a run has one outcome -/
theorem exec_deterministic (cfg : Config E) (blk : Block) (ch : Chain E) (s : Addr) (m : Msg) (o₁ o₂ : Out E)
    (h₁ : Exec cfg blk ch s m o₁) (h₂ : Exec cfg blk ch s m o₂) : o₁ = o₂ :=
  Ev.det (execO_mono cfg blk ch s m) h₁ h₂

theorem sub_deterministic (cfg : Config E) (blk : Block) (ch : Chain E) (c : Addr) (sm : SubMsg) (o₁ o₂ : Out E)
    (h₁ : Sub cfg blk ch c sm o₁) (h₂ : Sub cfg blk ch c sm o₂) : o₁ = o₂ :=
  Ev.det (subO_mono cfg blk ch c sm) h₁ h₂

/-- the judgement does not depend on the ghost trace the run starts with -/
theorem exec_any_trace (cfg : Config E) (blk : Block) (ch : Chain E) (s : Addr) (m : Msg) (o : Out E) (tr : Trace) :
    Exec cfg blk ch s m o ↔ (o ≠ .outOfFuel ∧ ∃ fuel, (execute cfg blk fuel ch s m tr).1 = o) := by
  unfold Exec
  constructor
  · rintro ⟨ho, n, hn⟩
    exact ⟨ho, n, by rw [execute_fst]; exact hn⟩
  · rintro ⟨ho, n, hn⟩
    exact ⟨ho, n, by rw [execute_fst] at hn; exact hn⟩

/-- no sub-messages left: the accumulated response and the current state -/
theorem proc_nil (cfg : Config E) (blk : Block) (ch : Chain E) (c : Addr) (resp : AppResponse) (o : Out E) :
    Proc cfg blk ch c resp [] o ↔ o = .ok (resp, ch) := by
  rw [proc_iff_ev, ev_shift (procO_zero cfg blk ch c resp []),
    ev_congr (fun n => procO_succ_nil cfg blk n ch c resp), ev_const]
  constructor
  · exact fun h => h.1
  · rintro rfl
    exact ⟨rfl, by simp⟩

/-- siblings: the first sub-message (with its reply) runs on `ch`; if it ends `ok` with state `ch₁`, the rest runs
on `ch₁` with its events appended and its data (if any) replacing the data so far; otherwise its outcome is the
outcome of the whole list -/
theorem proc_cons (cfg : Config E) (blk : Block) (ch : Chain E) (c : Addr) (resp : AppResponse) (sm : SubMsg)
    (rest : List SubMsg) (o : Out E) :
    Proc cfg blk ch c resp (sm :: rest) o ↔
      ∃ o₁, Sub cfg blk ch c sm o₁ ∧
        (match o₁ with
         | .ok (sr, ch₁) =>
           Proc cfg blk ch₁ c { events := resp.events ++ sr.events, data := sr.data.orElse fun _ => resp.data } rest o
         | other => o = other) := by
  rw [proc_iff_ev, ev_shift (procO_zero cfg blk ch c resp (sm :: rest))]
  constructor
  · rintro ⟨ho, n, hn⟩
    change procO cfg blk ch c resp (sm :: rest) (n + 1) = o at hn
    rw [procO_succ_cons] at hn
    cases hx : subO cfg blk ch c sm n with
    | ok p =>
      obtain ⟨sr, ch₁⟩ := p
      rw [hx] at hn
      exact ⟨.ok (sr, ch₁), ⟨by simp, n, hx⟩, ⟨ho, n, hn⟩⟩
    | err =>
      rw [hx] at hn
      exact ⟨.err, ⟨by simp, n, hx⟩, hn.symm⟩
    | panic =>
      rw [hx] at hn
      exact ⟨.panic, ⟨by simp, n, hx⟩, hn.symm⟩
    | outOfFuel =>
      rw [hx] at hn
      exact absurd hn.symm ho
  · rintro ⟨o₁, hS, hm⟩
    obtain ⟨n₁, s₁⟩ := Ev.stable (subO_mono cfg blk ch c sm) hS
    cases o₁ with
    | ok p =>
      obtain ⟨sr, ch₁⟩ := p
      simp only [] at hm
      obtain ⟨n₂, s₂⟩ := Ev.stable (procO_mono cfg blk ch₁ c _ rest) hm
      refine ⟨hm.1, max n₁ n₂, ?_⟩
      show procO cfg blk ch c resp (sm :: rest) (max n₁ n₂ + 1) = o
      rw [procO_succ_cons, s₁ _ (Nat.le_max_left ..)]
      exact s₂ _ (Nat.le_max_right ..)
    | err =>
      simp only [] at hm
      subst hm
      refine ⟨by simp, n₁, ?_⟩
      show procO cfg blk ch c resp (sm :: rest) (n₁ + 1) = _
      rw [procO_succ_cons, s₁ _ (Nat.le_refl _)]
    | panic =>
      simp only [] at hm
      subst hm
      refine ⟨by simp, n₁, ?_⟩
      show procO cfg blk ch c resp (sm :: rest) (n₁ + 1) = _
      rw [procO_succ_cons, s₁ _ (Nat.le_refl _)]
    | outOfFuel => exact absurd rfl hS.1

/-- one sub-message: (1) it succeeded with `r`, state `ch₁`: the reply (if wanted) runs on `ch₁` and decides; without
a reply its data is dropped; (2) it failed: the reply (if wanted) runs on `ch` — the state before the sub-message —
and decides, otherwise the failure is the outcome; (3) it panicked. -/
theorem sub_rule (cfg : Config E) (blk : Block) (ch : Chain E) (c : Addr) (sm : SubMsg) (o : Out E) :
    Sub cfg blk ch c sm o ↔
      ((∃ r ch₁, Exec cfg blk ch c sm.msg (.ok (r, ch₁)) ∧
          ((wantsReplyOnOk sm.replyOn = true ∧
              ∃ o', Rep cfg blk ch₁ c ⟨sm.id, sm.payload, .ok r.events r.data⟩ o' ∧ o = mergeReply r o') ∨
           (wantsReplyOnOk sm.replyOn = false ∧ o = .ok ({ r with data := none }, ch₁)))) ∨
       (Exec cfg blk ch c sm.msg .err ∧
          ((wantsReplyOnErr sm.replyOn = true ∧ Rep cfg blk ch c ⟨sm.id, sm.payload, .err⟩ o) ∨
           (wantsReplyOnErr sm.replyOn = false ∧ o = .err))) ∨
       (Exec cfg blk ch c sm.msg .panic ∧ o = .panic)) := by
  rw [sub_iff_ev, ev_shift (subO_zero cfg blk ch c sm)]
  constructor
  · rintro ⟨ho, n, hn⟩
    change subO cfg blk ch c sm (n + 1) = o at hn
    rw [subO_succ] at hn
    cases hx : execO cfg blk ch c sm.msg n with
    | ok p =>
      obtain ⟨r, ch₁⟩ := p
      rw [hx] at hn
      simp only [] at hn
      refine Or.inl ⟨r, ch₁, ⟨by simp, n, hx⟩, ?_⟩
      by_cases hw : wantsReplyOnOk sm.replyOn = true
      · rw [if_pos hw] at hn
        refine Or.inl ⟨hw, _, ⟨?_, n, rfl⟩, hn.symm⟩
        intro hoof
        change repO cfg blk ch₁ c ⟨sm.id, sm.payload, .ok r.events r.data⟩ n = .outOfFuel at hoof
        rw [hoof] at hn
        exact ho hn.symm
      · rw [if_neg hw] at hn
        exact Or.inr ⟨Bool.eq_false_iff.2 hw, hn.symm⟩
    | err =>
      rw [hx] at hn
      simp only [] at hn
      refine Or.inr (Or.inl ⟨⟨by simp, n, hx⟩, ?_⟩)
      by_cases hw : wantsReplyOnErr sm.replyOn = true
      · rw [if_pos hw] at hn
        exact Or.inl ⟨hw, ho, n, hn⟩
      · rw [if_neg hw] at hn
        exact Or.inr ⟨Bool.eq_false_iff.2 hw, hn.symm⟩
    | panic =>
      rw [hx] at hn
      exact Or.inr (Or.inr ⟨⟨by simp, n, hx⟩, hn.symm⟩)
    | outOfFuel =>
      rw [hx] at hn
      exact absurd hn.symm ho
  · rintro (⟨r, ch₁, hE, h⟩ | ⟨hE, h⟩ | ⟨hE, rfl⟩)
    · obtain ⟨n₁, s₁⟩ := Ev.stable (execO_mono cfg blk ch c sm.msg) hE
      rcases h with ⟨hw, o', hR, rfl⟩ | ⟨hw, rfl⟩
      · obtain ⟨n₂, s₂⟩ := Ev.stable (repO_mono cfg blk ch₁ c _) hR
        refine ⟨?_, max n₁ n₂, ?_⟩
        · have := hR.1
          cases o' with
          | ok p => obtain ⟨rr, ch₂⟩ := p; simp [mergeReply]
          | err => simp [mergeReply]
          | panic => simp [mergeReply]
          | outOfFuel => exact absurd rfl this
        · show subO cfg blk ch c sm (max n₁ n₂ + 1) = _
          rw [subO_succ, s₁ _ (Nat.le_max_left ..)]
          simp only []
          rw [if_pos hw, s₂ _ (Nat.le_max_right ..)]
      · refine ⟨by simp, n₁, ?_⟩
        show subO cfg blk ch c sm (n₁ + 1) = _
        rw [subO_succ, s₁ _ (Nat.le_refl _)]
        simp only []
        rw [if_neg (by simp [hw])]
    · obtain ⟨n₁, s₁⟩ := Ev.stable (execO_mono cfg blk ch c sm.msg) hE
      rcases h with ⟨hw, hR⟩ | ⟨hw, rfl⟩
      · obtain ⟨n₂, s₂⟩ := Ev.stable (repO_mono cfg blk ch c _) hR
        refine ⟨hR.1, max n₁ n₂, ?_⟩
        show subO cfg blk ch c sm (max n₁ n₂ + 1) = _
        rw [subO_succ, s₁ _ (Nat.le_max_left ..)]
        simp only []
        rw [if_pos hw, s₂ _ (Nat.le_max_right ..)]
      · refine ⟨by simp, n₁, ?_⟩
        show subO cfg blk ch c sm (n₁ + 1) = _
        rw [subO_succ, s₁ _ (Nat.le_refl _)]
        simp only []
        rw [if_neg (by simp [hw])]
    · obtain ⟨n₁, s₁⟩ := Ev.stable (execO_mono cfg blk ch c sm.msg) hE
      refine ⟨by simp, n₁, ?_⟩
      show subO cfg blk ch c sm (n₁ + 1) = _
      rw [subO_succ, s₁ _ (Nat.le_refl _)]

/-- the reply handler: the contract call on `ch`, then its own sub-messages -/
theorem rep_rule (cfg : Config E) (blk : Block) (ch : Chain E) (c : Addr) (rp : Reply) (o : Out E) :
    Rep cfg blk ch c rp o ↔
      (match (callContract cfg blk ch c (.reply rp) []).1 with
       | .ok (resp, ch₁) =>
         Proc cfg blk ch₁ c (buildAppResponse c (replyEvent c rp) resp).1 (buildAppResponse c (replyEvent c rp) resp).2 o
       | .err => o = .err
       | .panic => o = .panic
       | .outOfFuel => False) := by
  rw [rep_iff_ev, ev_shift (repO_zero cfg blk ch c rp), ev_congr (fun n => repO_succ cfg blk n ch c rp)]
  cases hc : (callContract cfg blk ch c (.reply rp) []).1 with
  | ok p =>
    obtain ⟨resp, ch₁⟩ := p
    exact Iff.rfl
  | err =>
    simp only []
    rw [ev_const]
    exact ⟨fun h => h.1, fun h => ⟨h, by rw [h]; simp⟩⟩
  | panic =>
    simp only []
    rw [ev_const]
    exact ⟨fun h => h.1, fun h => ⟨h, by rw [h]; simp⟩⟩
  | outOfFuel =>
    simp only []
    rw [ev_const]
    exact ⟨fun h => h.2 h.1, False.elim⟩

/-- `WasmMsg::Execute`: funds first, then the contract on the state with the funds moved, then its sub-messages;
the data of the final response is wrapped in the execute-response encoding -/
theorem exec_wasm_execute (cfg : Config E) (blk : Block) (ch : Chain E) (s : Addr) (contract : String) (m : Val)
    (funds : Coins) (o : Out E) :
    Exec cfg blk ch s (.wasmExecute contract m funds) o ↔
      (if cfg.validAddr contract = false then o = .err else
       match sendFunds ch s contract funds with
       | .ok ch₁ =>
         (match (callContract cfg blk ch₁ contract (.execute ⟨s, funds⟩ m) []).1 with
          | .ok (resp, ch₂) =>
            ∃ o', Proc cfg blk ch₂ contract
                (buildAppResponse contract { ty := "execute", attrs := [contractAttr contract] } resp).1
                (buildAppResponse contract { ty := "execute", attrs := [contractAttr contract] } resp).2 o' ∧
              o = (match o' with
                   | .ok (r, ch₃) => .ok ({ r with data := r.data.map encodeExecuteResponse }, ch₃)
                   | other => other)
          | .err => o = .err
          | .panic => o = .panic
          | .outOfFuel => False)
       | .err => o = .err
       | .panic => o = .panic
       | .outOfFuel => False) := by
  rw [exec_iff_ev, ev_shift (execO_zero cfg blk ch s _)]
  have step : ∀ n, execO cfg blk ch s (.wasmExecute contract m funds) (n + 1) =
      (execute cfg blk (n + 1) ch s (.wasmExecute contract m funds) []).1 := fun _ => rfl
  by_cases hv : cfg.validAddr contract = false
  · rw [if_pos hv]
    exact ev_fail .err (by simp) (fun n => by
      rw [step, execute_succ_wasmExecute, if_pos (by simp [hv])])
  · rw [if_neg hv]
    have hv' : ¬ (!cfg.validAddr contract) = true := by simpa using hv
    cases hs : sendFunds ch s contract funds with
    | ok ch₁ =>
      simp only []
      rw [ev_congr (g' := fun n => (mapResp (fun r => { r with data := r.data.map encodeExecuteResponse })
            (callThen cfg blk n ch₁ contract (.execute ⟨s, funds⟩ m)
              { ty := "execute", attrs := [contractAttr contract] } [])).1)
          (fun n => by rw [step, execute_succ_wasmExecute, if_neg hv', hs]),
        callThen_rule]
      cases hc : (callContract cfg blk ch₁ contract (.execute ⟨s, funds⟩ m) []).1 with
      | ok p =>
        obtain ⟨resp, ch₂⟩ := p
        simp only []
        constructor <;>
        · rintro ⟨o', h, rfl⟩
          refine ⟨o', h, ?_⟩
          cases o' with
          | ok p => obtain ⟨r, c₃⟩ := p; rfl
          | _ => rfl
      | _ => exact Iff.rfl
    | err =>
      exact ev_fail .err (by simp) (fun n => by rw [step, execute_succ_wasmExecute, if_neg hv', hs])
    | panic =>
      exact ev_fail .panic (by simp) (fun n => by rw [step, execute_succ_wasmExecute, if_neg hv', hs])
    | outOfFuel =>
      exact ev_oof (fun n => by rw [step, execute_succ_wasmExecute, if_neg hv', hs])

/-- bank messages, admin changes and module messages do not recurse: their outcome is the module's -/
theorem exec_bank (cfg : Config E) (blk : Block) (ch : Chain E) (s : Addr) (to : String) (amount : Coins) (o : Out E) :
    Exec cfg blk ch s (.bankSend to amount) o ↔ (o = bankExecute ch s (.bankSend to amount) ∧ o ≠ .outOfFuel) := by
  rw [exec_iff_ev, ev_shift (execO_zero cfg blk ch s _),
    ev_congr (g' := fun _ => bankExecute ch s (.bankSend to amount))
      (fun n => by show (execute cfg blk (n + 1) ch s (.bankSend to amount) []).1 = _; rw [execute_succ_bankSend]),
    ev_const]

/-- `WasmMsg::Instantiate(2)`: register, move the funds to the new address, run `instantiate` there, then its
sub-messages; the data is always the instantiate-response encoding of the new address and the final data -/
theorem exec_wasm_instantiate (cfg : Config E) (blk : Block) (ch : Chain E) (s : Addr) (admin : Option String)
    (codeId : Nat) (m : Val) (funds : Coins) (label : String) (salt : Option Val) (o : Out E) :
    Exec cfg blk ch s (.wasmInstantiate admin codeId m funds label salt) o ↔
      (if label.isEmpty = true then o = .err else
       match registerContract cfg ch codeId s admin label blk.height salt with
       | .ok (addr, ch₀) =>
         (match sendFunds ch₀ s addr funds with
          | .ok ch₁ =>
            (match (callContract cfg blk ch₁ addr (.instantiate ⟨s, funds⟩ m) []).1 with
             | .ok (resp, ch₂) =>
               ∃ o', Proc cfg blk ch₂ addr
                   (buildAppResponse addr { ty := "instantiate", attrs := [contractAttr addr, ⟨"code_id", toString codeId⟩] } resp).1
                   (buildAppResponse addr { ty := "instantiate", attrs := [contractAttr addr, ⟨"code_id", toString codeId⟩] } resp).2 o' ∧
                 o = (match o' with
                      | .ok (r, ch₃) => .ok ({ r with data := some (encodeInstantiateResponse addr (r.data.getD [])) }, ch₃)
                      | other => other)
             | .err => o = .err
             | .panic => o = .panic
             | .outOfFuel => False)
          | .err => o = .err
          | .panic => o = .panic
          | .outOfFuel => False)
       | .err => o = .err
       | .panic => o = .panic
       | .outOfFuel => False) := by
  rw [exec_iff_ev, ev_shift (execO_zero cfg blk ch s _)]
  have step : ∀ n, execO cfg blk ch s (.wasmInstantiate admin codeId m funds label salt) (n + 1) =
      (execute cfg blk (n + 1) ch s (.wasmInstantiate admin codeId m funds label salt) []).1 := fun _ => rfl
  by_cases hl : label.isEmpty = true
  · rw [if_pos hl]
    exact ev_fail .err (by simp) (fun n => by rw [step, execute_succ_wasmInstantiate, if_pos hl])
  · rw [if_neg hl]
    cases hr : registerContract cfg ch codeId s admin label blk.height salt with
    | ok p =>
      obtain ⟨addr, ch₀⟩ := p
      simp only []
      cases hs : sendFunds ch₀ s addr funds with
      | ok ch₁ =>
        simp only []
        rw [ev_congr (g' := fun n => (mapResp
              (fun r => { r with data := some (encodeInstantiateResponse addr (r.data.getD [])) })
              (callThen cfg blk n ch₁ addr (.instantiate ⟨s, funds⟩ m)
                { ty := "instantiate", attrs := [contractAttr addr, ⟨"code_id", toString codeId⟩] } [])).1)
            (fun n => by rw [step, execute_succ_wasmInstantiate, if_neg hl, hr]; simp only [hs]),
          callThen_rule]
        cases hc : (callContract cfg blk ch₁ addr (.instantiate ⟨s, funds⟩ m) []).1 with
        | ok p =>
          obtain ⟨resp, ch₂⟩ := p
          simp only []
          constructor <;>
          · rintro ⟨o', h, rfl⟩
            refine ⟨o', h, ?_⟩
            cases o' with
            | ok p => obtain ⟨r, c₃⟩ := p; rfl
            | _ => rfl
        | _ => exact Iff.rfl
      | err =>
        exact ev_fail .err (by simp) (fun n => by
          rw [step, execute_succ_wasmInstantiate, if_neg hl, hr]; simp only [hs])
      | panic =>
        exact ev_fail .panic (by simp) (fun n => by
          rw [step, execute_succ_wasmInstantiate, if_neg hl, hr]; simp only [hs])
      | outOfFuel =>
        exact ev_oof (fun n => by rw [step, execute_succ_wasmInstantiate, if_neg hl, hr]; simp only [hs])
    | err =>
      exact ev_fail .err (by simp) (fun n => by rw [step, execute_succ_wasmInstantiate, if_neg hl, hr])
    | panic =>
      exact ev_fail .panic (by simp) (fun n => by rw [step, execute_succ_wasmInstantiate, if_neg hl, hr])
    | outOfFuel =>
      exact ev_oof (fun n => by rw [step, execute_succ_wasmInstantiate, if_neg hl, hr])

/-- `WasmMsg::Migrate`: checks, then the new code id is recorded, then `migrate` of the NEW code runs on that state,
then its sub-messages; data wrapped as for execute -/
theorem exec_wasm_migrate (cfg : Config E) (blk : Block) (ch : Chain E) (s : Addr) (contract : String) (newCodeId : Nat)
    (m : Val) (o : Out E) :
    Exec cfg blk ch s (.wasmMigrate contract newCodeId m) o ↔
      (if cfg.validAddr contract = false then o = .err else
       if codeKnown cfg newCodeId = false then o = .err else
       match ch.contracts.get? contract with
       | none => o = .err
       | some cd =>
         if cd.admin ≠ some s then o = .err else
         match (callContract cfg blk { ch with contracts := ch.contracts.set contract { cd with codeId := newCodeId } }
                  contract (.migrate m) []).1 with
         | .ok (resp, ch₂) =>
           ∃ o', Proc cfg blk ch₂ contract
               (buildAppResponse contract { ty := "migrate", attrs := [contractAttr contract, ⟨"code_id", toString newCodeId⟩] } resp).1
               (buildAppResponse contract { ty := "migrate", attrs := [contractAttr contract, ⟨"code_id", toString newCodeId⟩] } resp).2 o' ∧
             o = (match o' with
                  | .ok (r, ch₃) => .ok ({ r with data := r.data.map encodeExecuteResponse }, ch₃)
                  | other => other)
         | .err => o = .err
         | .panic => o = .panic
         | .outOfFuel => False) := by
  rw [exec_iff_ev, ev_shift (execO_zero cfg blk ch s _)]
  have step : ∀ n, execO cfg blk ch s (.wasmMigrate contract newCodeId m) (n + 1) =
      (execute cfg blk (n + 1) ch s (.wasmMigrate contract newCodeId m) []).1 := fun _ => rfl
  by_cases hv : cfg.validAddr contract = false
  · rw [if_pos hv]
    exact ev_fail .err (by simp) (fun n => by
      rw [step, execute_succ_wasmMigrate, if_pos (by simp [hv])])
  rw [if_neg hv]
  have hv' : ¬ (!cfg.validAddr contract) = true := by simpa using hv
  by_cases hk : codeKnown cfg newCodeId = false
  · rw [if_pos hk]
    exact ev_fail .err (by simp) (fun n => by
      rw [step, execute_succ_wasmMigrate, if_neg hv', if_pos (by simp [hk])])
  rw [if_neg hk]
  have hk' : ¬ (!codeKnown cfg newCodeId) = true := by simpa using hk
  cases hg : ch.contracts.get? contract with
  | none =>
    exact ev_fail .err (by simp) (fun n => by rw [step, execute_succ_wasmMigrate, if_neg hv', if_neg hk', hg])
  | some cd =>
    simp only []
    by_cases ha : cd.admin ≠ some s
    · rw [if_pos ha]
      exact ev_fail .err (by simp) (fun n => by
        rw [step, execute_succ_wasmMigrate, if_neg hv', if_neg hk', hg]; simp only [if_pos ha])
    · rw [if_neg ha]
      rw [ev_congr (g' := fun n => (mapResp (fun r => { r with data := r.data.map encodeExecuteResponse })
            (callThen cfg blk n { ch with contracts := ch.contracts.set contract { cd with codeId := newCodeId } }
              contract (.migrate m)
              { ty := "migrate", attrs := [contractAttr contract, ⟨"code_id", toString newCodeId⟩] } [])).1)
          (fun n => by rw [step, execute_succ_wasmMigrate, if_neg hv', if_neg hk', hg]; simp only [if_neg ha]),
        callThen_rule]
      cases hc : (callContract cfg blk
          { ch with contracts := ch.contracts.set contract { cd with codeId := newCodeId } }
          contract (.migrate m) []).1 with
      | ok p =>
        obtain ⟨resp, ch₂⟩ := p
        simp only []
        constructor <;>
        · rintro ⟨o', h, rfl⟩
          refine ⟨o', h, ?_⟩
          cases o' with
          | ok p => obtain ⟨r, c₃⟩ := p; rfl
          | _ => rfl
      | _ => exact Iff.rfl

/-- the entry point `App::execute_multi` in terms of the judgement: it persists exactly the state of a terminating
successful run of all messages and nothing otherwise (given enough fuel) -/
theorem app_execute_single (cfg : Config E) (blk : Block) (fuel : Nat) (ch : Chain E) (s : Addr) (m : Msg)
    (r : AppResponse) (ch' : Chain E) (tr : Trace)
    (h : App.execute cfg blk fuel ch s m = (.ok r, ch', tr)) : Exec cfg blk ch s m (.ok (r, ch')) := by
  unfold App.execute App.executeMulti at h
  rw [runMsgs_cons] at h
  rcases hx : execute cfg blk fuel ch s m [] with ⟨o, t⟩
  rw [hx] at h
  refine ⟨by simp, fuel, ?_⟩
  rw [hx]
  cases o with
  | ok p =>
    obtain ⟨r₀, ch₀⟩ := p
    simp only [App.runMsgs, App.atomically, Prod.mk.injEq, Outcome.ok.injEq] at h
    obtain ⟨rfl, rfl, _⟩ := h
    rfl
  | err => simp [App.atomically] at h
  | panic => simp [App.atomically] at h
  | outOfFuel => simp [App.atomically] at h

end CwMt.EngineBig
