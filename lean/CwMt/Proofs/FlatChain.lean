import CwMt.Model.Flat
import CwMt.Proofs.Store
import CwMt.Proofs.Json
import CwMt.Proofs.Layout
/- What `Flat.flatten` holds: exactly the raw records of the typed state (CwMt/Model/Flat.lean). -/
namespace CwMt.Flat
open CwMt CwMt.Store
variable {E : Type}

/-! ### writing a list of records into a store -/

theorem writeAll_sorted (l : List (Key × Val)) (s : Store Val) (hs : s.Sorted) : (writeAll l s).Sorted := by
  induction l generalizing s with
  | nil => exact hs
  | cons r l ih => exact ih _ (sorted_set hs _ _)

/-- a key that no record carries keeps what the store held -/
theorem writeAll_get_other (l : List (Key × Val)) (s : Store Val) (hs : s.Sorted) (k : Key)
    (h : ∀ r ∈ l, r.1 ≠ k) : (writeAll l s).get k = s.get k := by
  induction l generalizing s with
  | nil => rfl
  | cons r l ih =>
    show (writeAll l (s.set r.1 r.2)).get k = s.get k
    rw [ih _ (sorted_set hs _ _) (fun r' hr' => h r' (List.mem_cons_of_mem _ hr'))]
    rw [get_set s hs]
    have : k ≠ r.1 := fun e => h r (List.mem_cons_self ..) e.symm
    simp [this]

/-- with pairwise distinct keys, every record is found under its key -/
theorem writeAll_get_mem (l : List (Key × Val)) (s : Store Val) (hs : s.Sorted)
    (hn : (l.map (·.1)).Nodup) (k : Key) (v : Val) (h : (k, v) ∈ l) : (writeAll l s).get k = some v := by
  induction l generalizing s with
  | nil => cases h
  | cons r l ih =>
    simp only [List.map_cons, List.nodup_cons] at hn
    show (writeAll l (s.set r.1 r.2)).get k = some v
    rcases List.mem_cons.mp h with e | hm
    · subst e
      rw [writeAll_get_other l _ (sorted_set hs _ _) k]
      · rw [get_set s hs]; simp
      · intro r' hr' e
        apply hn.1
        show k ∈ l.map (·.1)
        exact List.mem_map.mpr ⟨r', hr', e⟩
    · exact ih _ (sorted_set hs _ _) hn.2 hm

/-- … and nothing else is found -/
theorem writeAll_get_nil (l : List (Key × Val)) (hn : (l.map (·.1)).Nodup) (k : Key) (v : Val) :
    (writeAll l []).get k = some v ↔ (k, v) ∈ l := by
  constructor
  · intro h
    by_cases hk : ∃ r ∈ l, r.1 = k
    · obtain ⟨r, hr, e⟩ := hk
      have := writeAll_get_mem l [] sorted_nil hn r.1 r.2 hr
      rw [e, h] at this
      cases this
      cases r; simp_all
    · rw [writeAll_get_other l [] sorted_nil k (fun r hr e => hk ⟨r, hr, e⟩)] at h
      cases h
  · exact writeAll_get_mem l [] sorted_nil hn k v

/-! ### the three key families: shapes, injectivity, disjointness -/

theorem u8_inj (n m : Nat) (hn : n < 256) (hm : m < 256) (h : UInt8.ofNat n = UInt8.ofNat m) : n = m := by
  have := congrArg UInt8.toNat h
  simp [UInt8.toNat_ofNat'] at this
  omega

theorem utf8_inj {a b : String} (h : utf8 a = utf8 b) : a = b := by
  unfold utf8 at h
  rw [Layout.byteArray_toList_eq, Layout.byteArray_toList_eq] at h
  exact String.toByteArray_inj.mp (ByteArray.ext (Array.ext' h))

theorem balances_bytes : "balances".toUTF8.toList = [98, 97, 108, 97, 110, 99, 101, 115] := by
  rw [show "balances" = String.ofList ['b', 'a', 'l', 'a', 'n', 'c', 'e', 's'] from rfl, Layout.utf8_ofList]; decide

theorem bankKey_eq (a : Addr) : bankKey a = [0, 4, 98, 97, 110, 107, 0, 8, 98, 97, 108, 97, 110, 99, 101, 115] ++ utf8 a := by
  simp only [bankKey, lp, utf8, Layout.bank_bytes, balances_bytes]
  rfl

theorem contractKey_eq (a : Addr) :
    contractKey a = [0, 4, 119, 97, 115, 109, 0, 9, 99, 111, 110, 116, 114, 97, 99, 116, 115] ++ utf8 a := by
  simp only [contractKey, lp, utf8, Layout.wasm_bytes, Layout.contracts_bytes]
  rfl

theorem storeKey_eq (a : Addr) (k : Key) :
    storeKey a k = [0, 4, 119, 97, 115, 109] ++ ([UInt8.ofNat ((14 + (utf8 a).length) / 256), UInt8.ofNat ((14 + (utf8 a).length) % 256)] ++
      ([99, 111, 110, 116, 114, 97, 99, 116, 95, 100, 97, 116, 97, 47] ++ (utf8 a ++ k))) := by
  simp only [storeKey, lp, utf8, Layout.wasm_bytes, Layout.contract_namespace_bytes, List.length_append, List.length_cons,
    List.length_nil, List.append_assoc]
  rfl

theorem bankKey_inj {a b : Addr} (h : bankKey a = bankKey b) : a = b := by
  rw [bankKey_eq, bankKey_eq] at h
  exact utf8_inj (List.append_cancel_left h)

theorem contractKey_inj {a b : Addr} (h : contractKey a = contractKey b) : a = b := by
  rw [contractKey_eq, contractKey_eq] at h
  exact utf8_inj (List.append_cancel_left h)

theorem storeKey_inj {a b : Addr} {k k' : Key} (ha : (utf8 a).length ≤ 65521) (hb : (utf8 b).length ≤ 65521)
    (h : storeKey a k = storeKey b k') : a = b ∧ k = k' := by
  rw [storeKey_eq, storeKey_eq] at h
  have h1 := List.append_cancel_left h
  simp only [List.cons_append, List.nil_append, List.cons.injEq] at h1
  obtain ⟨e1, e2, h2⟩ := h1
  have q := u8_inj _ _ (by omega) (by omega) e1
  have r := u8_inj _ _ (by omega) (by omega) e2
  have hl : (utf8 a).length = (utf8 b).length := by omega
  have h3 : utf8 a ++ k = utf8 b ++ k' := by simpa using h2
  obtain ⟨h4, h5⟩ := List.append_inj h3 hl
  exact ⟨utf8_inj h4, h5⟩

theorem bankKey_ne_contractKey (a b : Addr) : bankKey a ≠ contractKey b := by
  rw [bankKey_eq, contractKey_eq]; intro h
  have := congrArg (fun l => l[2]?) h
  simp at this

theorem bankKey_ne_storeKey (a b : Addr) (k : Key) : bankKey a ≠ storeKey b k := by
  rw [bankKey_eq, storeKey_eq]; intro h
  have := congrArg (fun l => l[2]?) h
  simp at this

theorem contractKey_ne_storeKey (a b : Addr) (k : Key) (hb : (utf8 b).length ≤ 65521) : contractKey a ≠ storeKey b k := by
  rw [contractKey_eq, storeKey_eq]; intro h
  have h6 := congrArg (fun l => l[6]?) h
  have h7 := congrArg (fun l => l[7]?) h
  simp at h6 h7
  have q := u8_inj 0 _ (by omega) (by omega) h6
  have r := u8_inj 9 _ (by omega) (by omega) h7
  omega

/-! ### association lists with pairwise distinct keys -/

theorem amap_get?_of_mem {α : Type} (m : AMap α) (hn : (m.map (·.1)).Nodup) (a : String) (x : α) (h : (a, x) ∈ m) :
    m.get? a = some x := by
  induction m with
  | nil => cases h
  | cons p m ih =>
    simp only [List.map_cons, List.nodup_cons] at hn
    rcases List.mem_cons.mp h with e | hm
    · subst e; simp [AMap.get?]
    · have hne : p.1 ≠ a := fun e => hn.1 (e ▸ List.mem_map.mpr ⟨(a, x), hm, rfl⟩)
      obtain ⟨k, v⟩ := p
      simp only [AMap.get?]
      rw [if_neg hne]
      exact ih hn.2 hm

theorem amap_mem_of_get? {α : Type} (m : AMap α) (a : String) (x : α) (h : m.get? a = some x) : (a, x) ∈ m := by
  induction m with
  | nil => cases h
  | cons p m ih =>
    obtain ⟨k, v⟩ := p
    simp only [AMap.get?] at h
    split at h
    · next e => cases h; subst e; exact List.mem_cons_self ..
    · exact List.mem_cons_of_mem _ (ih h)

/-! ### the records of a well-formed state carry pairwise distinct keys -/

/-- what `flatten` needs of a typed state: no address twice in any of the three maps, contract stores sorted, contract
addresses short enough for the 2-byte length prefix (65521 bytes; the real code panics beyond) -/
structure FlatWF (ch : Chain E) : Prop where
  bank : (ch.bank.map (·.1)).Nodup
  contracts : (ch.contracts.map (·.1)).Nodup
  cstore : (ch.cstore.map (·.1)).Nodup
  inner : ∀ p ∈ ch.cstore, p.2.Sorted
  short : ∀ p ∈ ch.cstore, (utf8 p.1).length ≤ 65521

theorem nodup_map_inj {α β : Type} (f : α → β) (l : List α) (hf : ∀ a ∈ l, ∀ b ∈ l, f a = f b → a = b) (hn : l.Nodup) :
    (l.map f).Nodup := by
  induction l with
  | nil => exact List.nodup_nil
  | cons a l ih =>
    simp only [List.nodup_cons] at hn
    simp only [List.map_cons, List.nodup_cons]
    refine ⟨?_, ih (fun x hx y hy => hf x (List.mem_cons_of_mem _ hx) y (List.mem_cons_of_mem _ hy)) hn.2⟩
    intro hm
    obtain ⟨b, hb, e⟩ := List.mem_map.mp hm
    have := hf b (List.mem_cons_of_mem _ hb) a (List.mem_cons_self ..) e
    exact hn.1 (this ▸ hb)

theorem sorted_keys_nodup (m : Store Val) (hs : m.Sorted) : (m.map (·.1)).Nodup := by
  induction m with
  | nil => exact List.nodup_nil
  | cons p m ih =>
    have h := sorted_cons.mp hs
    simp only [List.map_cons, List.nodup_cons]
    refine ⟨?_, ih h.2⟩
    intro hm
    obtain ⟨q, hq, e⟩ := List.mem_map.mp hm
    exact Key.lt_irrefl _ (e ▸ h.1 q hq)

def storeRecs (c : AMap (Store Val)) : List (Key × Val) :=
  c.flatMap fun p => p.2.map fun kv => (storeKey p.1 kv.1, kv.2)

theorem mem_storeRecs (c : AMap (Store Val)) (r : Key × Val) :
    r ∈ storeRecs c ↔ ∃ p ∈ c, ∃ kv ∈ p.2, r = (storeKey p.1 kv.1, kv.2) := by
  simp only [storeRecs, List.mem_flatMap, List.mem_map]
  constructor
  · rintro ⟨p, hp, kv, hkv, e⟩; exact ⟨p, hp, kv, hkv, e.symm⟩
  · rintro ⟨p, hp, kv, hkv, e⟩; exact ⟨p, hp, kv, hkv, e.symm⟩

theorem storeRecs_nodup (c : AMap (Store Val)) (hn : (c.map (·.1)).Nodup) (hi : ∀ p ∈ c, p.2.Sorted)
    (hsh : ∀ p ∈ c, (utf8 p.1).length ≤ 65521) : ((storeRecs c).map (·.1)).Nodup := by
  induction c with
  | nil => exact List.nodup_nil
  | cons p c ih =>
    simp only [List.map_cons, List.nodup_cons] at hn
    have hp := hsh p (List.mem_cons_self ..)
    show ((p.2.map fun kv => (storeKey p.1 kv.1, kv.2)) ++ storeRecs c |>.map (·.1)).Nodup
    rw [List.map_append, List.nodup_append]
    refine ⟨?_, ih hn.2 (fun q hq => hi q (List.mem_cons_of_mem _ hq)) (fun q hq => hsh q (List.mem_cons_of_mem _ hq)), ?_⟩
    · rw [List.map_map]
      have hk := sorted_keys_nodup p.2 (hi p (List.mem_cons_self ..))
      have : (p.2.map ((·.1) ∘ fun kv => (storeKey p.1 kv.1, kv.2))) = (p.2.map (·.1)).map (storeKey p.1) := by
        rw [List.map_map]; rfl
      rw [this]
      exact nodup_map_inj _ _ (fun a _ b _ e => (storeKey_inj hp hp e).2) hk
    · intro k hk k' hk' e
      subst e
      obtain ⟨r, hr, e1⟩ := List.mem_map.mp hk
      obtain ⟨kv, hkv, e2⟩ := List.mem_map.mp hr
      obtain ⟨r', hr', e3⟩ := List.mem_map.mp hk'
      obtain ⟨q, hq, kv', hkv', e4⟩ := (mem_storeRecs c r').mp hr'
      subst e2 e4
      simp only at e1 e3
      have := storeKey_inj hp (hsh q (List.mem_cons_of_mem _ hq)) (e1.trans e3.symm)
      exact hn.1 (List.mem_map.mpr ⟨q, hq, this.1.symm⟩)

theorem records_nodup (ch : Chain E) (wf : FlatWF ch) : ((records ch).map (·.1)).Nodup := by
  have hshape : records ch = ch.bank.map (fun p => (bankKey p.1, Json.balancesJson p.2)) ++
      (ch.contracts.map (fun p => (contractKey p.1, Json.contractJson p.2)) ++ storeRecs ch.cstore) := rfl
  rw [hshape, List.map_append, List.map_append, List.nodup_append, List.nodup_append]
  refine ⟨?_, ⟨?_, storeRecs_nodup _ wf.cstore wf.inner wf.short, ?_⟩, ?_⟩
  · rw [List.map_map]
    have : ch.bank.map ((·.1) ∘ fun p => (bankKey p.1, Json.balancesJson p.2)) = (ch.bank.map (·.1)).map bankKey := by
      rw [List.map_map]; rfl
    rw [this]
    exact nodup_map_inj _ _ (fun a _ b _ e => bankKey_inj e) wf.bank
  · rw [List.map_map]
    have : ch.contracts.map ((·.1) ∘ fun p => (contractKey p.1, Json.contractJson p.2)) = (ch.contracts.map (·.1)).map contractKey := by
      rw [List.map_map]; rfl
    rw [this]
    exact nodup_map_inj _ _ (fun a _ b _ e => contractKey_inj e) wf.contracts
  · intro k hk k' hk' e
    subst e
    obtain ⟨r, hr, e1⟩ := List.mem_map.mp hk
    obtain ⟨p, _, e2⟩ := List.mem_map.mp hr
    obtain ⟨r', hr', e3⟩ := List.mem_map.mp hk'
    obtain ⟨q, hq, kv, _, e4⟩ := (mem_storeRecs _ r').mp hr'
    subst e2 e4
    simp only at e1 e3
    exact contractKey_ne_storeKey p.1 q.1 kv.1 (wf.short q hq) (e1.trans e3.symm)
  · intro k hk k' hk' e
    subst e
    obtain ⟨r, hr, e1⟩ := List.mem_map.mp hk
    obtain ⟨p, _, e2⟩ := List.mem_map.mp hr
    subst e2
    simp only at e1
    rcases List.mem_append.mp hk' with h | h
    · obtain ⟨r', hr', e3⟩ := List.mem_map.mp h
      obtain ⟨q, _, e4⟩ := List.mem_map.mp hr'
      subst e4
      simp only at e3
      exact bankKey_ne_contractKey p.1 q.1 (e1.trans e3.symm)
    · obtain ⟨r', hr', e3⟩ := List.mem_map.mp h
      obtain ⟨q, _, kv, _, e4⟩ := (mem_storeRecs _ r').mp hr'
      subst e4
      simp only at e3
      exact bankKey_ne_storeKey p.1 q.1 kv.1 (e1.trans e3.symm)

/-- **what the flat store holds**: exactly the records of the typed state -/
theorem flatten_get_iff (ch : Chain E) (wf : FlatWF ch) (k : Key) (v : Val) :
    (flatten ch).get k = some v ↔ (k, v) ∈ records ch :=
  writeAll_get_nil (records ch) (records_nodup ch wf) k v

theorem flatten_sorted (ch : Chain E) : (flatten ch).Sorted := writeAll_sorted _ _ sorted_nil

/-! ### reading the typed state back from the flat store -/

theorem mem_records (ch : Chain E) (r : Key × Val) :
    r ∈ records ch ↔ (∃ p ∈ ch.bank, r = (bankKey p.1, Json.balancesJson p.2)) ∨
      (∃ p ∈ ch.contracts, r = (contractKey p.1, Json.contractJson p.2)) ∨
      (∃ p ∈ ch.cstore, ∃ kv ∈ p.2, r = (storeKey p.1 kv.1, kv.2)) := by
  have hshape : records ch = ch.bank.map (fun p => (bankKey p.1, Json.balancesJson p.2)) ++
      (ch.contracts.map (fun p => (contractKey p.1, Json.contractJson p.2)) ++ storeRecs ch.cstore) := rfl
  rw [hshape, List.mem_append, List.mem_append, mem_storeRecs, List.mem_map, List.mem_map]
  constructor
  · rintro (⟨p, hp, e⟩ | ⟨p, hp, e⟩ | h)
    · exact Or.inl ⟨p, hp, e.symm⟩
    · exact Or.inr (Or.inl ⟨p, hp, e.symm⟩)
    · exact Or.inr (Or.inr h)
  · rintro (⟨p, hp, e⟩ | ⟨p, hp, e⟩ | h)
    · exact Or.inl ⟨p, hp, e.symm⟩
    · exact Or.inr (Or.inl ⟨p, hp, e.symm⟩)
    · exact Or.inr (Or.inr h)

/-- under a bank key: the JSON text of that account's balance, and nothing for an account the ledger does not list -/
theorem flatten_bank (ch : Chain E) (wf : FlatWF ch) (a : Addr) :
    (flatten ch).get (bankKey a) = (ch.bank.get? a).map Json.balancesJson := by
  cases hg : ch.bank.get? a with
  | some cs =>
    rw [Option.map_some, flatten_get_iff ch wf, mem_records]
    exact Or.inl ⟨(a, cs), amap_mem_of_get? _ _ _ hg, rfl⟩
  | none =>
    rw [Option.map_none]
    cases hf : (flatten ch).get (bankKey a) with
    | none => rfl
    | some v =>
      rw [flatten_get_iff ch wf, mem_records] at hf
      rcases hf with ⟨p, hp, e⟩ | ⟨p, _, e⟩ | ⟨p, _, kv, _, e⟩
      · have : p.1 = a := (bankKey_inj (Prod.mk.inj e).1).symm
        have := amap_get?_of_mem ch.bank wf.bank a p.2 (this ▸ hp)
        rw [hg] at this; cases this
      · exact absurd (Prod.mk.inj e).1 (bankKey_ne_contractKey a p.1)
      · exact absurd (Prod.mk.inj e).1 (bankKey_ne_storeKey a p.1 kv.1)

/-- under a registry key: the JSON text of that contract's record -/
theorem flatten_contract (ch : Chain E) (wf : FlatWF ch) (a : Addr) :
    (flatten ch).get (contractKey a) = (ch.contracts.get? a).map Json.contractJson := by
  cases hg : ch.contracts.get? a with
  | some cd =>
    rw [Option.map_some, flatten_get_iff ch wf, mem_records]
    exact Or.inr (Or.inl ⟨(a, cd), amap_mem_of_get? _ _ _ hg, rfl⟩)
  | none =>
    rw [Option.map_none]
    cases hf : (flatten ch).get (contractKey a) with
    | none => rfl
    | some v =>
      rw [flatten_get_iff ch wf, mem_records] at hf
      rcases hf with ⟨p, _, e⟩ | ⟨p, hp, e⟩ | ⟨p, hp, kv, _, e⟩
      · exact absurd (Prod.mk.inj e).1.symm (bankKey_ne_contractKey p.1 a)
      · have : p.1 = a := (contractKey_inj (Prod.mk.inj e).1).symm
        have := amap_get?_of_mem ch.contracts wf.contracts a p.2 (this ▸ hp)
        rw [hg] at this; cases this
      · exact absurd (Prod.mk.inj e).1 (contractKey_ne_storeKey a p.1 kv.1 (wf.short p hp))

/-- under a contract's storage key: what that contract's own store holds under the key -/
theorem flatten_store (ch : Chain E) (wf : FlatWF ch) (a : Addr) (k : Key) (ha : (utf8 a).length ≤ 65521) :
    (flatten ch).get (storeKey a k) = (ch.cstore.get? a).bind (·.get k) := by
  cases hf : (flatten ch).get (storeKey a k) with
  | some v =>
    rw [flatten_get_iff ch wf, mem_records] at hf
    rcases hf with ⟨p, _, e⟩ | ⟨p, hp, e⟩ | ⟨p, hp, kv, hkv, e⟩
    · exact absurd (Prod.mk.inj e).1.symm (bankKey_ne_storeKey p.1 a k)
    · exact absurd (Prod.mk.inj e).1.symm (contractKey_ne_storeKey p.1 a k ha)
    · obtain ⟨e1, e2⟩ := Prod.mk.inj e
      obtain ⟨h1, h2⟩ := storeKey_inj ha (wf.short p hp) e1
      have hp' : (a, p.2) ∈ ch.cstore := by rw [h1]; exact hp
      rw [amap_get?_of_mem ch.cstore wf.cstore a p.2 hp', Option.bind_some]
      have : (k, v) ∈ p.2 := by rw [h2, e2]; exact hkv
      exact ((get_eq_some_iff (wf.inner p hp)).mpr this).symm
  | none =>
    cases hg : ch.cstore.get? a with
    | none => rfl
    | some st =>
      rw [Option.bind_some]
      cases hk : st.get k with
      | none => rfl
      | some v =>
        have hm := amap_mem_of_get? _ _ _ hg
        have : (flatten ch).get (storeKey a k) = some v := by
          rw [flatten_get_iff ch wf, mem_records]
          exact Or.inr (Or.inr ⟨(a, st), hm, (k, v), mem_of_get_eq_some hk, rfl⟩)
        rw [hf] at this; cases this

/-- **equal bytes ⇒ equal typed state**: two well-formed states with the same flat store agree on every balance, every contract
record and every entry of every contract's store -/
theorem flatten_injective (ch ch' : Chain E) (wf : FlatWF ch) (wf' : FlatWF ch') (h : flatten ch = flatten ch') :
    (∀ a, ch.bank.get? a = ch'.bank.get? a) ∧ (∀ a, ch.contracts.get? a = ch'.contracts.get? a) ∧
    (∀ a k, (utf8 a).length ≤ 65521 → (ch.cstore.get? a).bind (·.get k) = (ch'.cstore.get? a).bind (·.get k)) := by
  refine ⟨fun a => ?_, fun a => ?_, fun a k ha => ?_⟩
  · have := flatten_bank ch wf a
    rw [h, flatten_bank ch' wf' a] at this
    cases h1 : ch.bank.get? a <;> cases h2 : ch'.bank.get? a <;> simp_all
    exact (Json.balances_injective (Json.toBytes_injective this)).symm
  · have := flatten_contract ch wf a
    rw [h, flatten_contract ch' wf' a] at this
    cases h1 : ch.contracts.get? a <;> cases h2 : ch'.contracts.get? a <;> simp_all
    exact (Json.contract_injective (Json.toBytes_injective this)).symm
  · rw [← flatten_store ch wf a k ha, h, flatten_store ch' wf' a k ha]

/-- the driver's check implies the hypothesis of the theorems above (it runs on every state the driver flattens) -/
theorem wfCheck_sound (ch : Chain E) (h : wfCheck ch = true) : FlatWF ch := by
  simp only [wfCheck, Bool.and_eq_true, decide_eq_true_eq, List.all_eq_true] at h
  obtain ⟨⟨⟨h1, h2⟩, h3⟩, h4⟩ := h
  exact ⟨h1, h2, h3, fun p hp => (h4 p hp).1, fun p hp => (h4 p hp).2⟩

end CwMt.Flat