import CwMt.Proofs.Engine_Call
/-
  CwMt.Proofs.Engine_Fuel — once a result other than `outOfFuel` is reached, more fuel changes
  nothing (all four engine functions, by one induction on the fuel).
-/
namespace CwMt.Engine
open CwMt
variable {E : Type}

def MonoAt (cfg : Config E) (blk : Block) (fuel : Nat) : Prop :=
  (∀ ch s m tr, (execute cfg blk fuel ch s m tr).1 ≠ .outOfFuel →
    execute cfg blk (fuel + 1) ch s m tr = execute cfg blk fuel ch s m tr) ∧
  (∀ ch c r l tr, (processResponse cfg blk fuel ch c r l tr).1 ≠ .outOfFuel →
    processResponse cfg blk (fuel + 1) ch c r l tr = processResponse cfg blk fuel ch c r l tr) ∧
  (∀ ch c sm tr, (executeSubmsg cfg blk fuel ch c sm tr).1 ≠ .outOfFuel →
    executeSubmsg cfg blk (fuel + 1) ch c sm tr = executeSubmsg cfg blk fuel ch c sm tr) ∧
  (∀ ch c rp tr, (reply cfg blk fuel ch c rp tr).1 ≠ .outOfFuel →
    reply cfg blk (fuel + 1) ch c rp tr = reply cfg blk fuel ch c rp tr)

theorem callThen_mono (cfg : Config E) (blk : Block) (fuel : Nat)
    (hP : ∀ ch c r l tr, (processResponse cfg blk fuel ch c r l tr).1 ≠ .outOfFuel →
      processResponse cfg blk (fuel + 1) ch c r l tr = processResponse cfg blk fuel ch c r l tr)
    (ch : Chain E) (addr : Addr) (en : Entry) (custom : Event) (tr : Trace)
    (h : (callThen cfg blk fuel ch addr en custom tr).1 ≠ .outOfFuel) :
    callThen cfg blk (fuel + 1) ch addr en custom tr = callThen cfg blk fuel ch addr en custom tr := by
  unfold callThen at h ⊢
  generalize callContract cfg blk ch addr en tr = x at h ⊢
  obtain ⟨o, t⟩ := x
  cases o with
  | ok p => exact hP _ _ _ _ _ h
  | _ => rfl

theorem monoAt (cfg : Config E) (blk : Block) (fuel : Nat) : MonoAt cfg blk fuel := by
  induction fuel with
  | zero =>
    refine ⟨?_, ?_, ?_, ?_⟩
    · intro ch s m tr h; rw [execute_zero] at h; exact absurd rfl h
    · intro ch c r l tr h; rw [processResponse_zero] at h; exact absurd rfl h
    · intro ch c sm tr h; rw [executeSubmsg_zero] at h; exact absurd rfl h
    · intro ch c rp tr h; rw [reply_zero] at h; exact absurd rfl h
  | succ fuel ih =>
    obtain ⟨ihE, ihP, ihS, ihR⟩ := ih
    refine ⟨?_, ?_, ?_, ?_⟩
    · intro ch s m tr h
      rcases execute_shape cfg blk ch s m tr with ⟨o, ho, _⟩ | ⟨f, ch1, addr, en, custom, hf, _, _⟩
      · rw [ho (fuel + 1), ho fuel]
      · rw [hf fuel] at h
        rw [hf (fuel + 1), hf fuel]
        have h' : (callThen cfg blk fuel ch1 addr en custom tr).1 ≠ .outOfFuel :=
          fun hc => h ((mapResp_fst_oof _ _).2 hc)
        rw [callThen_mono cfg blk fuel ihP _ _ _ _ _ h']
    · intro ch c r l tr h
      cases l with
      | nil => rw [processResponse_succ_nil, processResponse_succ_nil]
      | cons sm rest =>
        have e1 := processResponse_succ_cons cfg blk (fuel + 1) ch c r sm rest tr
        have e2 := processResponse_succ_cons cfg blk fuel ch c r sm rest tr
        rw [e2] at h
        rw [e1, e2]
        rcases hx : executeSubmsg cfg blk fuel ch c sm tr with ⟨o, t⟩
        rw [hx] at h
        have hs := ihS ch c sm tr
        rw [hx] at hs
        cases o with
        | ok p =>
          rw [hs (by simp)]
          exact ihP _ _ _ _ _ h
        | err => rw [hs (by simp)]
        | panic => rw [hs (by simp)]
        | outOfFuel => exact absurd rfl h
    · intro ch c sm tr h
      have e1 := executeSubmsg_succ cfg blk (fuel + 1) ch c sm tr
      have e2 := executeSubmsg_succ cfg blk fuel ch c sm tr
      rw [e2] at h
      rw [e1, e2]
      rcases hx : execute cfg blk fuel ch c sm.msg tr with ⟨o, t⟩
      rw [hx] at h
      have hs := ihE ch c sm.msg tr
      rw [hx] at hs
      cases o with
      | ok p =>
        obtain ⟨r, ch1⟩ := p
        rw [hs (by simp)]
        simp only [] at h ⊢
        split
        · rename_i hw
          rw [if_pos hw] at h
          have hr := ihR ch1 c ⟨sm.id, sm.payload, .ok r.events r.data⟩ t
          rcases hy : reply cfg blk fuel ch1 c ⟨sm.id, sm.payload, .ok r.events r.data⟩ t with ⟨o2, t2⟩
          rw [hy] at h hr
          cases o2 with
          | outOfFuel => exact absurd rfl h
          | _ => rw [hr (by simp)]
        · rfl
      | err =>
        rw [hs (by simp)]
        simp only [] at h ⊢
        split
        · rename_i hw
          rw [if_pos hw] at h
          exact ihR _ _ _ _ h
        · rfl
      | panic => rw [hs (by simp)]
      | outOfFuel => exact absurd rfl h
    · intro ch c rp tr h
      rw [reply_succ] at h
      rw [reply_succ, reply_succ]
      exact callThen_mono cfg blk fuel ihP _ _ _ _ _ h

theorem fuel_mono_execute (cfg : Config E) (blk : Block) (fuel k : Nat) (ch : Chain E) (sender : Addr)
    (m : Msg) (tr : Trace) (r : Outcome (AppResponse × Chain E)) (tr' : Trace)
    (h : execute cfg blk fuel ch sender m tr = (r, tr')) (hr : r ≠ .outOfFuel) :
    execute cfg blk (fuel + k) ch sender m tr = (r, tr') := by
  induction k with
  | zero => exact h
  | succ k ih =>
    have := (monoAt cfg blk (fuel + k)).1 ch sender m tr (by rw [ih]; exact hr)
    rw [← Nat.add_assoc, this, ih]

end CwMt.Engine
