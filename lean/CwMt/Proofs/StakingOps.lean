import CwMt.Proofs.StakingInv
/-
  CwMt.Proofs.StakingOps — exact effect of the operations on records, totals, queue and bank
  (C14 delegate_exact / rejects / unbonding_payout, C15 exact statements, C16).
-/
set_option linter.unusedSimpArgs false
set_option linter.unusedVariables false
namespace CwMt
namespace Staking
open KMap

theorem Dec.ext' {a b : Dec} (h : a.atomics = b.atomics) : a = b := by cases a; cases b; simp_all

theorem Dec.le_def (a b : Dec) : a ≤ b ↔ a.atomics ≤ b.atomics := Iff.rfl
theorem Dec.lt_def (a b : Dec) : a < b ↔ a.atomics < b.atomics := Iff.rfl
theorem Dec.le_of_not_lt {a b : Dec} (h : ¬ a < b) : b ≤ a := by
  rw [Dec.le_def]; rw [Dec.lt_def] at h; exact Nat.le_of_not_lt h

theorem get?_stakeSaved_stakes (s : SState) (d : Addr) (v : String) (sh' : Shares) (vi' : ValInfo) (k : Addr × String) :
    get? (stakeSaved s d v sh' vi').stakes k =
      if k = (d, v) then (if sh'.stake.isZero then none else some sh') else get? s.stakes k := by
  unfold stakeSaved
  split
  · rename_i hz
    by_cases e : k = (d, v)
    · simp [get?_erase, hz, e]
    · simp [get?_erase, hz, e]
  · rename_i hz
    by_cases e : k = (d, v)
    · simp [get?_set, hz, e]
    · simp [get?_set, hz, e]

theorem get?_stakeSaved_vinfo (s : SState) (d : Addr) (v : String) (sh' : Shares) (vi' : ValInfo) (w : String)
    (hw : w ≠ v) : get? (stakeSaved s d v sh' vi').vinfo w = get? s.vinfo w := by
  unfold stakeSaved
  split <;> simp [get?_set, hw]

theorem stakeSaved_vinfo_self (s : SState) (d : Addr) (v : String) (sh' : Shares) (vi' : ValInfo) :
    ∃ vi2, get? (stakeSaved s d v sh' vi').vinfo v = some vi2 ∧ vi2.stake = vi'.stake ∧ vi2.last = vi'.last := by
  unfold stakeSaved
  split
  · exact ⟨_, get?_set_self _ _ _, rfl, rfl⟩
  · exact ⟨_, get?_set_self _ _ _, rfl, rfl⟩

theorem curShares_stakeSaved (s : SState) (d : Addr) (v : String) (sh' : Shares) (vi' : ValInfo) :
    (curShares (stakeSaved s d v sh' vi') d v).stake = sh'.stake := by
  unfold curShares
  rw [get?_stakeSaved_stakes]
  simp only [ite_true]
  split
  · rename_i hz
    simp only [Option.getD_none, Shares.dflt]
    apply Dec.ext'
    simp only [Dec.isZero, beq_iff_eq] at hz
    simp [Dec.zero, hz]
  · simp

/-- stake component of a record, `0` when there is none -/
def stakeOf (s : SState) (d : Addr) (v : String) : Dec := (curShares s d v).stake

theorem stakeOf_updR {s s' : SState} {now : Nat} {v : String} (ur : UR s now v s') (d : Addr) (w : String) :
    stakeOf s' d w = stakeOf s d w := by
  obtain ⟨F, hF, hs, _⟩ := ur.stakes (d, w)
  unfold stakeOf curShares
  rw [hF]
  cases get? s.stakes (d, w) with
  | none => rfl
  | some sh => simp [hs]

/-- the effect of a successful `update_stake` on records and validator totals -/
structure UEffect (s : SState) (d : Addr) (v : String) (amount : Nat) (sub : Bool) (s' : SState) : Prop where
  self_add : sub = false → stakeOf s' d v = Dec.add (stakeOf s d v) (Dec.ofNat amount)
  self_sub : sub = true → stakeOf s' d v = Dec.sub (stakeOf s d v) (Dec.ofNat amount) ∧
                Dec.ofNat amount ≤ stakeOf s d v
  others : ∀ d2 w, (d2, w) ≠ (d, v) → stakeOf s' d2 w = stakeOf s d2 w
  other_validators : ∀ k : Addr × String, k.2 ≠ v → get? s'.stakes k = get? s.stakes k
  vinfo_other : ∀ w, w ≠ v → get? s'.vinfo w = get? s.vinfo w
  vinfo_self : ∃ vi vi2, get? s.vinfo v = some vi ∧ get? s'.vinfo v = some vi2 ∧
      (sub = false → vi2.stake = vi.stake + amount) ∧ (sub = true → vi2.stake + amount = vi.stake)
  valid : ∃ vo, s.validator? v = some vo

theorem updateStake_effect {s s' : SState} {now : Nat} {d : Addr} {v : String} {amount : Nat} {sub : Bool}
    (h : updateStake s now d v amount sub = .ok s') : UEffect s d v amount sub s' := by
  unfold updateStake at h
  split at h
  · rename_i s1 h1
    have ur := updR_ok h1
    obtain ⟨vi, vi1, hvi, hvi1, hst, hstk, hlast⟩ := UR_self' ur
    unfold applyStake at h
    rw [viOf_of_get hvi1] at h
    by_cases hsub : sub = true
    · simp only [hsub, ite_true] at h
      split at h
      · simp at h
      · rename_i sh hsh
        by_cases h2 : sh.stake < Dec.ofNat amount
        · simp [h2] at h
        · by_cases h3 : vi1.stake < amount
          · simp [h2, h3] at h
          · simp only [h2, h3, ite_false, Outcome.ok.injEq] at h; subst h
            have hcur : stakeOf s1 d v = sh.stake := by simp [stakeOf, curShares, hsh]
            refine ⟨by simp [hsub], ?_, ?_, ?_, ?_, ?_, ?_⟩
            · intro _
              refine ⟨?_, ?_⟩
              · have e := stakeOf_updR ur d v
                rw [← e, hcur]
                unfold stakeOf; rw [curShares_stakeSaved]
              · rw [← stakeOf_updR ur d v, hcur]
                exact Dec.le_of_not_lt h2
            · intro d2 w hne
              rw [← stakeOf_updR ur d2 w]
              unfold stakeOf curShares
              rw [get?_stakeSaved_stakes]; simp [hne]
            · intro k hk
              rw [get?_stakeSaved_stakes]
              have : k ≠ (d, v) := fun e => hk (by rw [e])
              simp only [this, ite_false]
              obtain ⟨F, hF, _, hid⟩ := ur.stakes k
              rw [hF]; cases get? s.stakes k <;> simp [hid hk]
            · intro w hw
              rw [get?_stakeSaved_vinfo _ _ _ _ _ _ hw]; exact ur.vinfo_other w hw
            · obtain ⟨vi2, hv2, hs2, _⟩ := stakeSaved_vinfo_self s1 d v
                { sh with stake := Dec.sub sh.stake (Dec.ofNat amount) } { vi1 with stake := vi1.stake - amount }
              refine ⟨vi, vi2, hvi, hv2, by simp [hsub], ?_⟩
              intro _; simp only at hs2; omega
            · exact ur.valid
    · simp only [hsub, Bool.false_eq_true, ite_false, Outcome.ok.injEq] at h; subst h
      have hsub' : sub = false := by cases sub <;> simp_all
      refine ⟨?_, by simp [hsub'], ?_, ?_, ?_, ?_, ur.valid⟩
      · intro _
        have e := stakeOf_updR ur d v
        rw [← e]
        unfold stakeOf; rw [curShares_stakeSaved]
      · intro d2 w hne
        rw [← stakeOf_updR ur d2 w]
        unfold stakeOf curShares
        rw [get?_stakeSaved_stakes]; simp [hne]
      · intro k hk
        rw [get?_stakeSaved_stakes]
        have : k ≠ (d, v) := fun e => hk (by rw [e])
        simp only [this, ite_false]
        obtain ⟨F, hF, _, hid⟩ := ur.stakes k
        rw [hF]; cases get? s.stakes k <;> simp [hid hk]
      · intro w hw
        rw [get?_stakeSaved_vinfo _ _ _ _ _ _ hw]; exact ur.vinfo_other w hw
      · obtain ⟨vi2, hv2, hs2, _⟩ := stakeSaved_vinfo_self s1 d v
          { curShares s1 d v with stake := Dec.add (curShares s1 d v).stake (Dec.ofNat amount) }
          { vi1 with stake := vi1.stake + amount }
        refine ⟨vi, vi2, hvi, hv2, ?_, by simp [hsub']⟩
        intro _; simp only at hs2; omega
  · simp at h
  · simp at h
  · simp at h

-- ---------------------------------------------------------------------------------------------
-- C14: delegate / undelegate / redelegate, exactly

theorem delegate_effect {cfg : Cfg} {c c' : Chain} {a : Addr} {v : String} {coin : Coin}
    (hwf : BankFacts.WF c.bank) (h : delegate cfg c a v coin = .ok c') :
    coin.amount ≠ 0 ∧ coin.denom = c.st.info.bondedDenom ∧ (∃ vo, c.st.validator? v = some vo) ∧
    (∀ x d, Bank.queryBalance c'.bank x d + (if x = a ∧ d = coin.denom then coin.amount else 0) =
            Bank.queryBalance c.bank x d + (if x = cfg.pool ∧ d = coin.denom then coin.amount else 0)) ∧
    stakeOf c'.st a v = Dec.add (stakeOf c.st a v) (Dec.ofNat coin.amount) ∧
    (∀ d2 w, (d2, w) ≠ (a, v) → stakeOf c'.st d2 w = stakeOf c.st d2 w) ∧
    (∀ k : Addr × String, k.2 ≠ v → get? c'.st.stakes k = get? c.st.stakes k) ∧
    (∀ w, w ≠ v → get? c'.st.vinfo w = get? c.st.vinfo w) ∧
    c'.st.queue = c.st.queue ∧ c'.st.withdraw = c.st.withdraw ∧ c'.st.info = c.st.info ∧ c'.time = c.time := by
  unfold delegate at h
  split at h
  · simp at h
  · rename_i hnz
    split at h
    · rename_i st hst
      split at h
      · rename_i bank hb
        simp only [Outcome.ok.injEq] at h; subst h
        unfold addStake at hst
        split at hst
        · rename_i hden
          simp only [denomOk, decide_eq_true_eq] at hden
          have ef := updateStake_effect hst
          have sp := updateStake_spec hst
          have hcoin : coin = ⟨coin.denom, coin.amount⟩ := by cases coin; rfl
          rw [hcoin] at hb
          refine ⟨hnz, hden, ef.valid, fun x d => BankFacts.query_send hwf hb x d, ef.self_add rfl, ef.others,
            ef.other_validators, ef.vinfo_other, sp.queue, sp.withdraw, sp.info, rfl⟩
        · simp at hst
      · simp at h
    · simp at h
    · simp at h
    · simp at h

theorem undelegate_effect {c c' : Chain} {a : Addr} {v : String} {coin : Coin}
    (h : undelegate c a v coin = .ok c') :
    coin.amount ≠ 0 ∧ coin.denom = c.st.info.bondedDenom ∧ (∃ vo, c.st.validator? v = some vo) ∧
    Dec.ofNat coin.amount ≤ stakeOf c.st a v ∧
    stakeOf c'.st a v = Dec.sub (stakeOf c.st a v) (Dec.ofNat coin.amount) ∧
    (∀ d2 w, (d2, w) ≠ (a, v) → stakeOf c'.st d2 w = stakeOf c.st d2 w) ∧
    (∀ k : Addr × String, k.2 ≠ v → get? c'.st.stakes k = get? c.st.stakes k) ∧
    c'.st.queue = c.st.queue ++ [⟨a, v, coin.amount, c.time + NS * c.st.info.unbondingTime⟩] ∧
    c'.bank = c.bank ∧ c'.st.withdraw = c.st.withdraw ∧ c'.st.info = c.st.info ∧ c'.time = c.time := by
  unfold undelegate at h
  split at h
  · simp at h
  · rename_i hden
    split at h
    · simp at h
    · rename_i hnz
      split at h
      · rename_i st hst
        simp only [Outcome.ok.injEq] at h; subst h
        unfold removeStake at hst
        split at hst
        · have ef := updateStake_effect hst
          have sp := updateStake_spec hst
          simp only [denomOk, decide_eq_true_eq, Decidable.not_not] at hden
          obtain ⟨e1, e2⟩ := ef.self_sub rfl
          refine ⟨hnz, hden, ef.valid, e2, e1, ef.others, ef.other_validators, ?_, rfl, sp.withdraw, sp.info, rfl⟩
          simp [sp.queue, sp.info]
        · simp at hst
      · simp at h
      · simp at h
      · simp at h

theorem redelegate_effect {c c' : Chain} {a : Addr} {v1 v2 : String} {coin : Coin}
    (h : redelegate c a v1 v2 coin = .ok c') :
    coin.denom = c.st.info.bondedDenom ∧ (∃ vo, c.st.validator? v1 = some vo) ∧ (∃ vo, c.st.validator? v2 = some vo) ∧
    Dec.ofNat coin.amount ≤ stakeOf c.st a v1 ∧
    (v1 ≠ v2 → stakeOf c'.st a v1 = Dec.sub (stakeOf c.st a v1) (Dec.ofNat coin.amount) ∧
               stakeOf c'.st a v2 = Dec.add (stakeOf c.st a v2) (Dec.ofNat coin.amount)) ∧
    (∀ d2 w, (d2, w) ≠ (a, v1) → (d2, w) ≠ (a, v2) → stakeOf c'.st d2 w = stakeOf c.st d2 w) ∧
    c'.st.queue = c.st.queue ∧ c'.bank = c.bank ∧ c'.st.withdraw = c.st.withdraw ∧ c'.time = c.time := by
  unfold redelegate at h
  split at h
  · rename_i st1 h1
    split at h
    · rename_i st2 h2
      simp only [Outcome.ok.injEq] at h; subst h
      unfold removeStake at h1
      unfold addStake at h2
      split at h1
      · rename_i hden
        split at h2
        · have e1 := updateStake_effect h1
          have e2 := updateStake_effect h2
          have s1 := updateStake_spec h1
          have s2 := updateStake_spec h2
          simp only [denomOk, decide_eq_true_eq] at hden
          obtain ⟨x1, x2⟩ := e1.self_sub rfl
          obtain ⟨vo2, hvo2⟩ := e2.valid
          refine ⟨hden, e1.valid, ⟨vo2, by simpa [SState.validator?, s1.validators] using hvo2⟩, x2, ?_, ?_,
            by rw [s2.queue, s1.queue], rfl, by rw [s2.withdraw, s1.withdraw], rfl⟩
          · intro hne
            constructor
            · rw [e2.others a v1 (by intro e; exact hne (Prod.mk.inj e).2), x1]
            · rw [e2.self_add rfl, e1.others a v2 (by intro e; exact hne (Prod.mk.inj e).2.symm)]
          · intro d2 w n1 n2
            rw [e2.others d2 w n2, e1.others d2 w n1]
        · simp at h2
      · simp at h1
    · simp at h
    · simp at h
    · simp at h
  · simp at h
  · simp at h
  · simp at h

/-- the shown delegation rises by exactly the delegated amount -/
theorem delegate_shown {cfg : Cfg} {c c' : Chain} {a : Addr} {v : String} {coin : Coin}
    (hwf : BankFacts.WF c.bank) (h : delegate cfg c a v coin = .ok c') :
    (stakeOf c'.st a v).floor = (stakeOf c.st a v).floor + coin.amount := by
  rw [(delegate_effect hwf h).2.2.2.2.1, Dec.floor_ofNat_add]

theorem undelegate_shown {c c' : Chain} {a : Addr} {v : String} {coin : Coin}
    (h : undelegate c a v coin = .ok c') :
    (stakeOf c'.st a v).floor = (stakeOf c.st a v).floor - coin.amount := by
  have e := undelegate_effect h
  rw [e.2.2.2.2.1, Dec.floor_sub_ofNat _ _ ((Dec.le_def _ _).mp e.2.2.2.1)]

/-- rejection (C14): each listed defect makes the operation fail; `step` then leaves the chain untouched -/
theorem delegate_rejects {cfg : Cfg} {c : Chain} {a : Addr} {v : String} {coin : Coin} (hwf : BankFacts.WF c.bank)
    (hbad : coin.amount = 0 ∨ coin.denom ≠ c.st.info.bondedDenom ∨ c.st.validator? v = none) :
    ∀ c', delegate cfg c a v coin ≠ .ok c' := by
  intro c' h
  obtain ⟨h1, h2, ⟨vo, h3⟩, _⟩ := delegate_effect hwf h
  rcases hbad with hb | hb | hb
  · exact h1 hb
  · exact hb h2
  · rw [hb] at h3; simp at h3

theorem undelegate_rejects {c : Chain} {a : Addr} {v : String} {coin : Coin}
    (hbad : coin.amount = 0 ∨ coin.denom ≠ c.st.info.bondedDenom ∨ c.st.validator? v = none ∨
      stakeOf c.st a v < Dec.ofNat coin.amount) :
    ∀ c', undelegate c a v coin ≠ .ok c' := by
  intro c' h
  obtain ⟨h1, h2, ⟨vo, h3⟩, h4, _⟩ := undelegate_effect h
  rcases hbad with hb | hb | hb | hb
  · exact h1 hb
  · exact hb h2
  · rw [hb] at h3; simp at h3
  · rw [Dec.lt_def] at hb; rw [Dec.le_def] at h4; omega

theorem redelegate_rejects {c : Chain} {a : Addr} {v1 v2 : String} {coin : Coin}
    (hbad : coin.denom ≠ c.st.info.bondedDenom ∨ c.st.validator? v1 = none ∨ c.st.validator? v2 = none ∨
      stakeOf c.st a v1 < Dec.ofNat coin.amount) :
    ∀ c', redelegate c a v1 v2 coin ≠ .ok c' := by
  intro c' h
  obtain ⟨h2, ⟨vo, h3⟩, ⟨vo2, h3'⟩, h4, _⟩ := redelegate_effect h
  rcases hbad with hb | hb | hb | hb
  · exact hb h2
  · rw [hb] at h3; simp at h3
  · rw [hb] at h3'; simp at h3'
  · rw [Dec.lt_def] at hb; rw [Dec.le_def] at h4; omega

/-- a failed or rejected top-level call leaves the whole chain unchanged (transactional `execute` / `sudo`) -/
theorem step_not_ok_unchanged {cfg : Cfg} {c : Chain} {op : Op} (h : (step cfg c op).2 ≠ .ok) :
    (step cfg c op).1 = c := by
  unfold step at h ⊢
  split <;> simp_all

theorem step_rejected {cfg : Cfg} {c : Chain} {op : Op} (hi : Inv cfg c) (h : ∀ c', op.run cfg c ≠ .ok c') :
    step cfg c op = (c, .err) := by
  have np := run_no_panic (cfg := cfg) op hi
  unfold step
  split
  · rename_i c' hc; exact absurd hc (h c')
  · rfl
  · rename_i hc; exact absurd hc np.1
  · rename_i hc; exact absurd hc np.2

theorem zero_floor0 : Dec.zero.floor = 0 := by simp [Dec.zero, Dec.floor]

/-- `update_rewards` succeeds for a known validator under the invariant -/
theorem updR_succeeds {s : SState} (hi : SInv s) (now : Nat) {v : String} {vi : ValInfo} {vo : Validator}
    (hv : get? s.vinfo v = some vi) (hvo : s.validator? v = some vo) : ∃ s1, updateRewards s now v = .ok s1 := by
  have np := updR_no_panic s now v (fun vi d => hi.stakers_have v vi d) hi.comm_le
  unfold updateRewards at np ⊢
  rw [hv, hvo] at np ⊢
  simp only at np ⊢
  split
  · exact ⟨_, rfl⟩
  · rename_i hlt
    have hvo' : vo ∈ s.validators := List.mem_of_find?_eq_some hvo
    rw [calcRewards_ok now vi.last s.info.apr vo.commission vi.stake (by omega) (hi.comm_le vo hvo')] at np ⊢
    simp only [hlt, ite_false] at np ⊢
    split
    · exact ⟨_, rfl⟩
    · split
      · exact ⟨_, rfl⟩
      · rename_i h1 h2; simp [h1, h2] at np

/-- C14 (consequence of I5): undelegating any amount up to the SHOWN delegation from a known validator succeeds — it
can no longer fail for lack of validator total -/
theorem undelegate_shown_succeeds {cfg : Cfg} {c : Chain} {a : Addr} {v : String} {coin : Coin} {vo : Validator}
    (hi : Inv cfg c) (hvo : c.st.validator? v = some vo) (hden : coin.denom = c.st.info.bondedDenom)
    (hnz : coin.amount ≠ 0) (hle : coin.amount ≤ (stakeOf c.st a v).floor) :
    ∃ c', undelegate c a v coin = .ok c' := by
  -- the record exists, hence the validator info
  have hrec : ∃ sh, get? c.st.stakes (a, v) = some sh := by
    cases hg : get? c.st.stakes (a, v) with
    | none =>
      exfalso
      have : (stakeOf c.st a v).floor = 0 := by simp [stakeOf, curShares, hg, Shares.dflt, zero_floor0]
      omega
    | some sh => exact ⟨sh, rfl⟩
  obtain ⟨sh, hsh⟩ := hrec
  obtain ⟨vi, hvi, _⟩ := hi.sinv.stakes_listed a v sh hsh
  obtain ⟨s1, h1⟩ := updR_succeeds hi.sinv c.time hvi hvo
  have ur := updR_ok h1
  obtain ⟨vi0, vi1, hvi0, hvi1, _, hstk, _⟩ := UR_self' ur
  have ht1 := TInv_updR hi.tinv h1
  -- the record after crediting: same stake
  have hrec1 : ∃ sh1, get? s1.stakes (a, v) = some sh1 ∧ sh1.stake = sh.stake := by
    obtain ⟨F, hF, hs, _⟩ := ur.stakes (a, v)
    rw [hsh] at hF
    exact ⟨F sh, hF, hs sh⟩
  obtain ⟨sh1, hsh1, hst1⟩ := hrec1
  have hfl : (stakeOf c.st a v).floor = sh.stake.floor := by simp [stakeOf, curShares, hsh]
  have htot := floor_le_total ht1 hsh1 hvi1
  have hge : Dec.ONE * coin.amount ≤ sh.stake.atomics := by
    have h0 : coin.amount ≤ sh.stake.atomics / Dec.ONE := by rw [hfl] at hle; exact hle
    have h2 := Nat.div_mul_le_self sh.stake.atomics Dec.ONE
    have h3 : coin.amount * Dec.ONE ≤ sh.stake.atomics / Dec.ONE * Dec.ONE := Nat.mul_le_mul_right _ h0
    rw [Nat.mul_comm]; omega
  unfold undelegate
  have hd : denomOk c.st coin.denom = true := by simp [denomOk, hden]
  simp only [hd, not_true_eq_false, ite_false, hnz]
  unfold removeStake updateStake
  simp only [hd, ite_true, h1]
  unfold applyStake
  rw [viOf_of_get hvi1]
  simp only [ite_true, hsh1]
  have c1 : ¬ sh1.stake < Dec.ofNat coin.amount := by
    rw [Dec.lt_def, hst1]; simp only [Dec.ofNat]; omega
  have c2 : ¬ vi1.stake < coin.amount := by
    rw [hst1] at htot; rw [hfl] at hle; omega
  simp only [c1, c2, ite_false]
  exact ⟨_, rfl⟩

-- ---------------------------------------------------------------------------------------------
-- C14: payouts of block updates

/-- what the entries `pre` pay to `x` -/
def paidTo (pre : List Unbonding) (x : Addr) : Nat := ((pre.filter fun u => u.delegator = x).map (·.amount)).sum

theorem paidTo_cons (u : Unbonding) (pre : List Unbonding) (x : Addr) :
    paidTo (u :: pre) x = (if u.delegator = x then u.amount else 0) + paidTo pre x := by
  unfold paidTo
  by_cases h : u.delegator = x <;> simp [List.filter_cons, h]

theorem dropIfEmpty_info (s : SState) (u : Unbonding) (rest : List Unbonding) :
    (dropIfEmpty s u rest).info = s.info := by
  unfold dropIfEmpty
  split
  · split <;> rfl
  · rfl

theorem zero_floor : Dec.zero.floor = 0 := by simp [Dec.zero, Dec.floor]

/-- dropping an empty record does not change any shown delegation, and keeps every record that shows ≥ 1 token -/
theorem dropIfEmpty_shown (s : SState) (u : Unbonding) (rest : List Unbonding) (d : Addr) (v : String) :
    (stakeOf (dropIfEmpty s u rest) d v).floor = (stakeOf s d v).floor := by
  unfold dropIfEmpty
  split
  · rename_i sh hsh
    split
    · rename_i hz
      unfold stakeOf curShares
      simp only [get?_erase]
      by_cases e : (d, v) = (u.delegator, u.validator)
      · rw [e] ; simp only [ite_true, hsh, Option.getD_some, Option.getD_none, Shares.dflt, zero_floor]
        omega
      · simp [e]
    · rfl
  · rfl

theorem processQueue_bank (cfg : Cfg) (now : Nat) : ∀ (q : List Unbonding) (s : SState) (bank : Bank.State)
    (s' : SState) (bank' : Bank.State), processQueue cfg now s bank q = .ok (s', bank') → BankFacts.WF bank →
    (∀ u ∈ q, u.delegator ≠ cfg.pool) →
    ∃ pre, q = pre ++ s'.queue ∧ (∀ u ∈ pre, u.payoutAt ≤ now) ∧ (∀ u, s'.queue.head? = some u → now < u.payoutAt) ∧
      s'.info = s.info ∧
      (∀ d v, (stakeOf s' d v).floor = (stakeOf s d v).floor) ∧
      (∀ x d, x ≠ cfg.pool → Bank.queryBalance bank' x d =
          Bank.queryBalance bank x d + (if d = s.info.bondedDenom then paidTo pre x else 0)) := by
  intro q
  induction q with
  | nil =>
    intro s bank s' bank' h _ _
    simp only [processQueue, Outcome.ok.injEq, Prod.mk.injEq] at h
    obtain ⟨rfl, rfl⟩ := h
    exact ⟨[], rfl, by simp, by simp, rfl, fun _ _ => rfl, by simp [paidTo]⟩
  | cons u rest ih =>
    intro s bank s' bank' h hwf hnp
    unfold processQueue at h
    by_cases hdue : u.payoutAt ≤ now
    · simp only [hdue, ite_true] at h
      have hnp' : ∀ x ∈ rest, x.delegator ≠ cfg.pool := fun x hx => hnp x (List.mem_cons_of_mem _ hx)
      unfold payOne at h
      by_cases hz : u.amount = 0
      · simp only [hz, ite_true] at h
        obtain ⟨pre, h1, h2, h3, h4, h5, h6⟩ := ih _ _ _ _ h hwf hnp'
        refine ⟨u :: pre, by rw [h1]; rfl, ?_, h3, h4.trans (dropIfEmpty_info _ _ _), ?_, ?_⟩
        · intro x hx
          rcases List.mem_cons.mp hx with rfl | hx
          · exact hdue
          · exact h2 x hx
        · intro d v; rw [h5, dropIfEmpty_shown]
        · intro x d hx
          rw [h6 x d hx, dropIfEmpty_info, paidTo_cons, hz]; simp
      · simp only [hz, ite_false] at h
        cases hb1 : Bank.send bank cfg.pool u.delegator [⟨s.info.bondedDenom, u.amount⟩] with
        | none => simp [hb1] at h
        | some bank1 =>
          simp only [hb1] at h
          obtain ⟨pre, h1, h2, h3, h4, h5, h6⟩ := ih _ _ _ _ h (BankFacts.WF_send hwf hb1) hnp'
          refine ⟨u :: pre, by rw [h1]; rfl, ?_, h3, h4.trans (dropIfEmpty_info _ _ _), ?_, ?_⟩
          · intro x hx
            rcases List.mem_cons.mp hx with rfl | hx
            · exact hdue
            · exact h2 x hx
          · intro d v; rw [h5, dropIfEmpty_shown]
          · intro x d hx
            have hq := BankFacts.query_send hwf hb1 x d
            rw [h6 x d hx, dropIfEmpty_info, paidTo_cons]
            have hx' : ¬ (x = cfg.pool ∧ d = s.info.bondedDenom) := fun e => hx e.1
            simp only [hx', ite_false, Nat.add_zero] at hq
            rw [hq]
            by_cases e1 : u.delegator = x
            · by_cases e2 : d = s.info.bondedDenom
              · simp [e1, e2]; omega
              · simp [e1, e2]
            · have : ¬ x = u.delegator := fun e => e1 e.symm
              by_cases e2 : d = s.info.bondedDenom
              · simp [e1, e2, this]
              · simp [e1, e2, this]
    · simp only [hdue, ite_false, Outcome.ok.injEq, Prod.mk.injEq] at h
      obtain ⟨rfl, rfl⟩ := h
      refine ⟨[], rfl, by simp, ?_, rfl, fun _ _ => rfl, by simp [paidTo]⟩
      intro x hx
      simp only [List.head?_cons, Option.some.injEq] at hx
      subst hx; omega

/-- C14 payout timing. A block update to time `now` pays exactly the entries of the (sorted) queue that are due,
each in full to its delegator; entries not yet due stay queued untouched; nothing else is paid and no shown
delegation changes. -/
theorem advance_payout {cfg : Cfg} {c : Chain} (secs : Nat) (hi : Inv cfg c) :
    ∃ c' pre, advance cfg c secs = .ok c' ∧ c'.time = c.time + secs ∧
      c.st.queue = pre ++ c'.st.queue ∧ (∀ u ∈ pre, u.payoutAt ≤ c.time + secs) ∧
      (∀ u ∈ c'.st.queue, c.time + secs < u.payoutAt) ∧
      (∀ d v, (stakeOf c'.st d v).floor = (stakeOf c.st d v).floor) ∧
      (∀ x d, x ≠ cfg.pool → Bank.queryBalance c'.bank x d =
          Bank.queryBalance c.bank x d + (if d = c.st.info.bondedDenom then paidTo pre x else 0)) := by
  obtain ⟨c', h, _, ht⟩ := inv_advance (cfg := cfg) secs hi
  have h0 := h
  unfold advance at h
  split at h
  · rename_i st bank hp
    simp only [Outcome.ok.injEq] at h; subst h
    obtain ⟨pre, h1, h2, h3, h4, h5, h6⟩ := processQueue_bank cfg _ _ _ _ _ _ hp hi.bank_wf hi.no_pool
    refine ⟨_, pre, h0, rfl, h1, h2, ?_, h5, h6⟩
    -- the remaining queue is sorted and its head is not due, so nothing in it is due
    have hs := hi.sorted
    rw [h1, List.pairwise_append] at hs
    intro u hu
    cases hq : st.queue with
    | nil => rw [hq] at hu; simp at hu
    | cons u0 rest =>
      have h0' := h3 u0 (by simp [hq])
      rw [hq] at hu hs
      rcases List.mem_cons.mp hu with rfl | hu
      · exact h0'
      · have := (List.pairwise_cons.mp hs.2.1).1 u hu
        omega
  · simp at h
  · simp at h
  · simp at h

end Staking
end CwMt
