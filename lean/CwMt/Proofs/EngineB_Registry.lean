import CwMt.Model.EngineSpec
/-
  CwMt.Proofs.EngineB_Registry — the code registry (C11, C19) and `AMap` lemmas.
-/
namespace CwMt.EngineB
open CwMt

/-! ### AMap -/

theorem get?_set_self {α : Type} (m : AMap α) (k : String) (v : α) : (m.set k v).get? k = some v := by
  induction m with
  | nil => simp [AMap.set, AMap.get?]
  | cons p m ih =>
    obtain ⟨k', v'⟩ := p
    unfold AMap.set
    by_cases h1 : k < k'
    · simp [h1, AMap.get?]
    · by_cases h2 : k = k'
      · simp [h2, AMap.get?]
      · have h3 : ¬ k' = k := fun h => h2 h.symm
        simp [h1, h2, h3, AMap.get?, ih]

theorem get?_set_other {α : Type} (m : AMap α) (k b : String) (v : α) (hb : b ≠ k) :
    (m.set k v).get? b = m.get? b := by
  have hb' : ¬ k = b := fun h => hb h.symm
  induction m with
  | nil => simp [AMap.set, AMap.get?, hb']
  | cons p m ih =>
    obtain ⟨k', v'⟩ := p
    unfold AMap.set
    by_cases h1 : k < k'
    · simp [h1, AMap.get?, hb']
    · by_cases h2 : k = k'
      · subst h2
        simp [h1, AMap.get?, hb']
      · simp only [h1, h2, if_false, AMap.get?, ih]

/-! ### registry -/

/-- the registry invariant of C11 (`C11.RegInv` unfolds to this) -/
def RegInv (codes : Registry.Codes) : Prop :=
  codes.Pairwise (fun a b => a.1 < b.1) ∧ ∀ p ∈ codes, 1 ≤ p.1 ∧ p.1 ≤ Registry.u64Max

theorem reg_inv_empty :
    ([] : Registry.Codes).Pairwise (fun a b => a.1 < b.1) ∧
      ∀ p ∈ ([] : Registry.Codes), 1 ≤ p.1 ∧ p.1 ≤ Registry.u64Max := by
  simp

theorem foldl_max_ge (codes : Registry.Codes) (m : Nat) :
    m ≤ codes.foldl (fun m p => max m p.1) m ∧ ∀ p ∈ codes, p.1 ≤ codes.foldl (fun m p => max m p.1) m := by
  induction codes generalizing m with
  | nil => simp
  | cons q codes ih =>
    simp only [List.foldl_cons, List.mem_cons]
    have := ih (max m q.1)
    refine ⟨by omega, ?_⟩
    intro p hp
    rcases hp with rfl | hp
    · omega
    · exact this.2 p hp

theorem le_maxId (codes : Registry.Codes) : ∀ p ∈ codes, p.1 ≤ Registry.maxId codes :=
  (foldl_max_ge codes 0).2

theorem lookup_none_of_forall_ne (codes : Registry.Codes) (id : Nat) (h : ∀ p ∈ codes, p.1 ≠ id) :
    codes.lookup id = none := by
  induction codes with
  | nil => rfl
  | cons q codes ih =>
    obtain ⟨k, v⟩ := q
    have hk : k ≠ id := h (k, v) (by simp)
    have : (id == k) = false := by simp; exact fun h => hk h.symm
    simp only [List.lookup_cons, this]
    exact ih (fun p hp => h p (by simp [hp]))

theorem lookup_filter_pos (codes : Registry.Codes) (f : Nat × CodeData → Bool) (j : Nat)
    (h : ∀ v, f (j, v) = true) : (codes.filter f).lookup j = codes.lookup j := by
  induction codes with
  | nil => rfl
  | cons q codes ih =>
    obtain ⟨k, v⟩ := q
    by_cases hk : j = k
    · subst hk
      simp [h v]
    · have hb : (j == k) = false := by simp [hk]
      by_cases hf : f (k, v) = true
      · simp [hf, List.lookup_cons, hb, ih]
      · simp [hf, List.lookup_cons, hb, ih]

theorem lookup_filter_neg (codes : Registry.Codes) (f : Nat × CodeData → Bool) (j : Nat)
    (h : ∀ v, f (j, v) = false) : (codes.filter f).lookup j = none := by
  apply lookup_none_of_forall_ne
  intro p hp hj
  rw [List.mem_filter] at hp
  obtain ⟨k, v⟩ := p
  simp only at hj
  subst hj
  rw [h v] at hp
  exact absurd hp.2 (by simp)

theorem lookup_append' (l₁ l₂ : Registry.Codes) (j : Nat) :
    (l₁ ++ l₂).lookup j = (l₁.lookup j).or (l₂.lookup j) := by
  induction l₁ with
  | nil => simp
  | cons q l₁ ih =>
    obtain ⟨k, v⟩ := q
    by_cases hk : (j == k) = true
    · simp [List.lookup_cons, hk]
    · have hk' : (j == k) = false := by simpa using hk
      simp only [List.cons_append, List.lookup_cons, hk', ih]

theorem lookup_insert_self (codes : Registry.Codes) (id : Nat) (cd : CodeData) :
    (Registry.insert codes id cd).lookup id = some cd := by
  unfold Registry.insert
  rw [lookup_append', lookup_append', lookup_filter_neg codes _ id (by simp)]
  simp

theorem lookup_insert_other (codes : Registry.Codes) (id : Nat) (cd : CodeData) (j : Nat) (hj : j ≠ id) :
    (Registry.insert codes id cd).lookup j = codes.lookup j := by
  unfold Registry.insert
  rw [lookup_append', lookup_append']
  have hb : (j == id) = false := by simp [hj]
  by_cases hlt : j < id
  · rw [lookup_filter_pos codes _ j (by simp [hlt])]
    rw [lookup_filter_neg codes (fun x => decide (x.1 > id)) j (by simp; omega)]
    simp [List.lookup_cons, hb]
  · rw [lookup_filter_neg codes (fun x => decide (x.1 < id)) j (by simp; omega)]
    rw [lookup_filter_pos codes (fun x => decide (x.1 > id)) j (by simp; omega)]
    simp [List.lookup_cons, hb]

theorem regInv_insert (codes : Registry.Codes) (id : Nat) (cd : CodeData) (hi : RegInv codes)
    (h1 : 1 ≤ id) (h2 : id ≤ Registry.u64Max) : RegInv (Registry.insert codes id cd) := by
  obtain ⟨hp, hb⟩ := hi
  unfold Registry.insert
  constructor
  · rw [List.pairwise_append, List.pairwise_append]
    refine ⟨⟨hp.sublist List.filter_sublist, by simp, ?_⟩, hp.sublist List.filter_sublist, ?_⟩
    · intro a ha b hb'
      simp only [List.mem_filter, decide_eq_true_eq] at ha
      simp only [List.mem_singleton] at hb'
      subst hb'
      exact ha.2
    · intro a ha b hb'
      simp only [List.mem_filter, decide_eq_true_eq, gt_iff_lt] at hb'
      simp only [List.mem_append, List.mem_filter, decide_eq_true_eq, List.mem_singleton] at ha
      rcases ha with ha | ha
      · omega
      · subst ha; exact hb'.2
  · intro p hp'
    simp only [List.mem_append, List.mem_filter, List.mem_singleton] at hp'
    rcases hp' with (hp' | hp') | hp'
    · exact hb p hp'.1
    · subst hp'; exact ⟨h1, h2⟩
    · exact hb p hp'.1

theorem nextCodeId_some (codes : Registry.Codes) (id : Nat) (h : Registry.nextCodeId codes = some id) :
    id = Registry.maxId codes + 1 ∧ id ≤ Registry.u64Max := by
  unfold Registry.nextCodeId at h
  split at h
  · exact absurd h (by simp)
  · simp only [Option.some.injEq] at h
    omega

theorem reg_inv_store (st st' : Registry.State) (creator : Addr) (chk : Nat → Val) (id : Nat)
    (hi : RegInv st.codes) (h : Registry.storeCode st creator chk = .ok (id, st')) : RegInv st'.codes := by
  unfold Registry.storeCode at h
  split at h
  · exact absurd h (by simp)
  · rename_i nid hn
    simp only [Outcome.ok.injEq, Prod.mk.injEq] at h
    obtain ⟨rfl, rfl⟩ := h
    have := nextCodeId_some _ _ hn
    exact regInv_insert _ _ _ hi (by omega) this.2

theorem reg_inv_store_with_id (st st' : Registry.State) (creator : Addr) (chk : Nat → Val) (id id' : Nat)
    (hi : RegInv st.codes) (hle : id ≤ Registry.u64Max)
    (h : Registry.storeCodeWithId st creator id chk = .ok (id', st')) : RegInv st'.codes := by
  unfold Registry.storeCodeWithId at h
  split at h
  · exact absurd h (by simp)
  · split at h
    · exact absurd h (by simp)
    · simp only [Outcome.ok.injEq, Prod.mk.injEq] at h
      obtain ⟨rfl, rfl⟩ := h
      exact regInv_insert _ _ _ hi (by omega) hle

theorem duplicate_unfold (st st' : Registry.State) (id nid : Nat)
    (h : Registry.duplicateCode st id = .ok (nid, st')) :
    ∃ cd, st.codes.lookup id = some cd ∧ Registry.nextCodeId st.codes = some nid ∧
      st'.codes = Registry.insert st.codes nid cd := by
  unfold Registry.duplicateCode at h
  split at h
  · exact absurd h (by simp)
  · split at h
    · exact absurd h (by simp)
    · rename_i cd hcd
      split at h
      · exact absurd h (by simp)
      · rename_i n hn
        simp only [Outcome.ok.injEq, Prod.mk.injEq] at h
        obtain ⟨rfl, rfl⟩ := h
        exact ⟨cd, hcd, hn, rfl⟩

theorem reg_inv_duplicate (st st' : Registry.State) (id nid : Nat)
    (hi : RegInv st.codes) (h : Registry.duplicateCode st id = .ok (nid, st')) : RegInv st'.codes := by
  obtain ⟨cd, _, hn, hs⟩ := duplicate_unfold st st' id nid h
  have := nextCodeId_some _ _ hn
  rw [hs]
  exact regInv_insert _ _ _ hi (by omega) this.2

theorem auto_id (st st' : Registry.State) (creator : Addr) (chk : Nat → Val) (id : Nat)
    (h : Registry.storeCode st creator chk = .ok (id, st')) :
    id = Registry.maxId st.codes + 1 ∧ (∀ p ∈ st.codes, p.1 < id) ∧ st.codes.lookup id = none := by
  unfold Registry.storeCode at h
  split at h
  · exact absurd h (by simp)
  · rename_i nid hn
    simp only [Outcome.ok.injEq, Prod.mk.injEq] at h
    obtain ⟨rfl, _⟩ := h
    have h1 := (nextCodeId_some _ _ hn).1
    have h2 : ∀ p ∈ st.codes, p.1 < nid := by
      intro p hp
      have := le_maxId st.codes p hp
      omega
    refine ⟨h1, h2, lookup_none_of_forall_ne _ _ ?_⟩
    intro p hp
    have := h2 p hp
    omega

theorem explicit_id_iff (st : Registry.State) (creator : Addr) (chk : Nat → Val) (id : Nat) :
    (∃ st', Registry.storeCodeWithId st creator id chk = .ok (id, st')) ↔
      (id ≠ 0 ∧ st.codes.lookup id = none) := by
  unfold Registry.storeCodeWithId
  constructor
  · rintro ⟨st', h⟩
    split at h
    · exact absurd h (by simp)
    · rename_i hs
      split at h
      · exact absurd h (by simp)
      · rename_i h0
        refine ⟨h0, ?_⟩
        cases hl : st.codes.lookup id with
        | none => rfl
        | some x => rw [hl] at hs; simp at hs
  · rintro ⟨h0, hl⟩
    simp [hl, h0]

theorem explicit_id_rejected (st : Registry.State) (creator : Addr) (chk : Nat → Val) (id : Nat)
    (h : id = 0 ∨ (st.codes.lookup id).isSome = true) : Registry.storeCodeWithId st creator id chk = .err := by
  unfold Registry.storeCodeWithId
  rcases h with h | h
  · subst h
    split <;> simp
  · simp [h]

theorem stored_code_found (st : Registry.State) (_hi : RegInv st.codes) (id : Nat) (cd : CodeData) :
    (Registry.insert st.codes id cd).lookup id = some cd ∧
    ∀ j, j ≠ id → (Registry.insert st.codes id cd).lookup j = st.codes.lookup j :=
  ⟨lookup_insert_self _ _ _, fun j hj => lookup_insert_other _ _ _ j hj⟩

theorem duplicate_shares (st st' : Registry.State) (id nid : Nat) (_hi : RegInv st.codes)
    (h : Registry.duplicateCode st id = .ok (nid, st')) :
    nid = Registry.maxId st.codes + 1 ∧ st'.codes.lookup nid = st.codes.lookup id ∧
      (st.codes.lookup id).isSome = true := by
  obtain ⟨cd, hcd, hn, hs⟩ := duplicate_unfold st st' id nid h
  refine ⟨(nextCodeId_some _ _ hn).1, ?_, by simp [hcd]⟩
  rw [hs, hcd, lookup_insert_self]

theorem code_id_from_registry (st₁ st₂ : Registry.State) (c : Addr) (k : Nat → Val) (h : st₁.codes = st₂.codes) :
    (Registry.storeCode st₁ c k).map (·.1) = (Registry.storeCode st₂ c k).map (·.1) := by
  unfold Registry.storeCode
  rw [h]
  cases Registry.nextCodeId st₂.codes <;> simp [Outcome.map]

end CwMt.EngineB
