import CwMt.Model.EngineSpec
import CwMt.Proofs.EngineB_Registry
/-
  CwMt.Proofs.EngineB_Engine — event composition (C04), snapshots (C10), contract registration
  (C11), admin authorisation (C12), and the call wrapper (C13).
-/
namespace CwMt.EngineB
open CwMt
variable {E : Type}

/-! ### C04 -/

theorem events_of_call (addr : Addr) (custom : Event) (r : Response) :
    (buildAppResponse addr custom r).1.events =
      custom ::
        ((if r.attrs.isEmpty then [] else [{ ty := "wasm", attrs := contractAttr addr :: r.attrs }]) ++
          r.events.map fun ev => { ty := "wasm-" ++ ev.ty, attrs := contractAttr addr :: ev.attrs }) ∧
    (buildAppResponse addr custom r).1.data = r.data ∧ (buildAppResponse addr custom r).2 = r.msgs :=
  ⟨rfl, rfl, rfl⟩

theorem sub_events_then_reply_events (cfg : Config E) (blk : Block) (fuel : Nat) (ch ch₁ ch₂ : Chain E)
    (contract : Addr) (sm : SubMsg) (tr tr₁ tr₂ : Trace) (r rr : AppResponse)
    (h : execute cfg blk fuel ch contract sm.msg tr = (.ok (r, ch₁), tr₁))
    (hw : wantsReplyOnOk sm.replyOn = true)
    (hr : reply cfg blk fuel ch₁ contract ⟨sm.id, sm.payload, .ok r.events r.data⟩ tr₁ = (.ok (rr, ch₂), tr₂)) :
    executeSubmsg cfg blk (fuel + 1) ch contract sm tr =
      (.ok ({ events := r.events ++ rr.events, data := rr.data }, ch₂), tr₂) := by
  simp only [executeSubmsg, h, hw, if_true, hr]

theorem no_reply_no_data (cfg : Config E) (blk : Block) (fuel : Nat) (ch ch₁ : Chain E)
    (contract : Addr) (sm : SubMsg) (tr tr₁ : Trace) (r : AppResponse)
    (h : execute cfg blk fuel ch contract sm.msg tr = (.ok (r, ch₁), tr₁))
    (hw : wantsReplyOnOk sm.replyOn = false) :
    executeSubmsg cfg blk (fuel + 1) ch contract sm tr = (.ok ({ events := r.events, data := none }, ch₁), tr₁) := by
  simp only [executeSubmsg, h, hw, Bool.false_eq_true, if_false]

theorem caught_failure_events (cfg : Config E) (blk : Block) (fuel : Nat) (ch : Chain E)
    (contract : Addr) (sm : SubMsg) (tr tr₁ : Trace)
    (h : execute cfg blk fuel ch contract sm.msg tr = (.err, tr₁))
    (hw : wantsReplyOnErr sm.replyOn = true) :
    executeSubmsg cfg blk (fuel + 1) ch contract sm tr =
      reply cfg blk fuel ch contract ⟨sm.id, sm.payload, .err⟩ tr₁ := by
  simp only [executeSubmsg, h, hw, if_true]

theorem bank_event (ch ch' : Chain E) (sender : Addr) (to : String) (amount : Coins) (r : AppResponse)
    (h : bankExecute ch sender (.bankSend to amount) = .ok (r, ch')) :
    r = { events := [{ ty := "transfer", attrs := [⟨"recipient", to⟩, ⟨"sender", sender⟩,
            ⟨"amount", coinsToString amount⟩] }], data := none } := by
  simp only [bankExecute] at h
  split at h
  · simp only [Outcome.ok.injEq, Prod.mk.injEq] at h
    exact h.1.symm
  · exact absurd h (by simp)

theorem burn_no_event (ch ch' : Chain E) (sender : Addr) (amount : Coins) (r : AppResponse)
    (h : bankExecute ch sender (.bankBurn amount) = .ok (r, ch')) : r = {} := by
  simp only [bankExecute] at h
  split at h
  · simp only [Outcome.ok.injEq, Prod.mk.injEq] at h
    exact h.1.symm
  · exact absurd h (by simp)

/-! ### C10 / C12 / C13: the call wrapper -/

theorem callContract_eq (cfg : Config E) (blk : Block) (ch : Chain E) (addr : Addr) (en : Entry)
    (tr : Trace) (cd : ContractData) (code : Code E)
    (hc : ch.contracts.get? addr = some cd) (hcode : contractCode? cfg cd.codeId = some code) :
    callContract cfg blk ch addr en tr =
      (let own := (ch.cstore.get? addr).getD []
       let res := code.run en (contractEnv blk addr) ch own
       let tr' := tr ++ [{ callee := addr, entry := en, env := contractEnv blk addr, note := res.2 }]
       match res.1 with
       | .ok (resp, own') =>
         if responseOk resp then (.ok (resp, { ch with cstore := ch.cstore.set addr own' }), tr') else (.err, tr')
       | .err => (.err, tr')
       | .panic => (.panic, tr')
       | .outOfFuel => (.outOfFuel, tr')) := by
  unfold callContract
  rcases code with ⟨run, q⟩
  simp only [hc, hcode]
  generalize run en (contractEnv blk addr) ch ((ch.cstore.get? addr).getD []) = p
  rcases p with ⟨res, note⟩
  rcases res with ⟨resp, own'⟩ | _ | _ | _ <;> simp

theorem snapshot_is_call_state (cfg : Config E) (blk : Block) (ch : Chain E) (addr : Addr) (en : Entry)
    (tr : Trace) (cd : ContractData) (code : Code E)
    (hc : ch.contracts.get? addr = some cd) (hcode : contractCode? cfg cd.codeId = some code) :
    callContract cfg blk ch addr en tr =
      (let own := (ch.cstore.get? addr).getD []
       let res := code.run en (contractEnv blk addr) ch own
       let tr' := tr ++ [{ callee := addr, entry := en, env := contractEnv blk addr, note := res.2 }]
       match res.1 with
       | .ok (resp, own') =>
         if responseOk resp then (.ok (resp, { ch with cstore := ch.cstore.set addr own' }), tr') else (.err, tr')
       | .err => (.err, tr')
       | .panic => (.panic, tr')
       | .outOfFuel => (.outOfFuel, tr')) :=
  callContract_eq cfg blk ch addr en tr cd code hc hcode

theorem later_calls_see_completed_effects (cfg : Config E) (blk : Block) (fuel : Nat) (ch : Chain E)
    (contract : Addr) (resp : AppResponse) (sm : SubMsg) (rest : List SubMsg) (tr tr₁ : Trace)
    (sr : AppResponse) (ch₁ : Chain E)
    (h : executeSubmsg cfg blk fuel ch contract sm tr = (.ok (sr, ch₁), tr₁)) :
    processResponse cfg blk (fuel + 1) ch contract resp (sm :: rest) tr =
      processResponse cfg blk fuel ch₁ contract
        { events := resp.events ++ sr.events, data := sr.data.orElse fun _ => resp.data } rest tr₁ := by
  simp only [processResponse, h]

theorem balance_is_entry_of_all (cfg : Config E) (eq : ExtKind → Chain E → Block → Val → Outcome Val)
    (blk : Block) (ch : Chain E) (a d : String) (hv : cfg.validAddr a = true) :
    query cfg eq blk ch (.balance a d) = .ok (.amount (Bank.amountOf (Bank.balance ch.bank a) d)) ∧
    query cfg eq blk ch (.allBalances a) = .ok (.coins (Bank.balance ch.bank a)) := by
  simp [query, hv, Bank.queryBalance]

theorem served_by_recorded_code (cfg : Config E) (blk : Block) (ch : Chain E) (c : Addr) (en : Entry) (tr : Trace)
    (cd : ContractData) (code : Code E)
    (hc : ch.contracts.get? c = some cd) (hcode : contractCode? cfg cd.codeId = some code) :
    ∃ note, (callContract cfg blk ch c en tr).2 = tr ++ [⟨c, en, contractEnv blk c, note⟩] ∧
      note = (code.run en (contractEnv blk c) ch ((ch.cstore.get? c).getD [])).2 := by
  refine ⟨_, ?_, rfl⟩
  rw [callContract_eq cfg blk ch c en tr cd code hc hcode]
  simp only
  split
  · split <;> rfl
  all_goals rfl

theorem malformed_rejected (cfg : Config E) (blk : Block) (ch : Chain E) (addr : Addr) (en : Entry) (tr : Trace)
    (cd : ContractData) (code : Code E) (resp : Response) (own' : Store Val) (note : String)
    (hc : ch.contracts.get? addr = some cd) (hcode : contractCode? cfg cd.codeId = some code)
    (hrun : code.run en (contractEnv blk addr) ch ((ch.cstore.get? addr).getD []) = (.ok (resp, own'), note))
    (hbad : responseOk resp = false) :
    callContract cfg blk ch addr en tr = (.err, tr ++ [⟨addr, en, contractEnv blk addr, note⟩]) := by
  rw [callContract_eq cfg blk ch addr en tr cd code hc hcode]
  simp [hrun, hbad]

theorem rollback_as_error (cfg : Config E) (blk : Block) (ch : Chain E) (addr : Addr) (en : Entry) (tr : Trace)
    (cd : ContractData) (code : Code E) (note : String)
    (hc : ch.contracts.get? addr = some cd) (hcode : contractCode? cfg cd.codeId = some code)
    (hrun : code.run en (contractEnv blk addr) ch ((ch.cstore.get? addr).getD []) = (.err, note)) :
    callContract cfg blk ch addr en tr = (.err, tr ++ [⟨addr, en, contractEnv blk addr, note⟩]) := by
  rw [callContract_eq cfg blk ch addr en tr cd code hc hcode]
  simp [hrun]

/-! ### C11: registration -/

theorem stored_code_usable (cfg : Config E) (id : Nat) (cd : CodeData) (hid : 1 ≤ id)
    (h : cfg.codes.lookup id = some cd) : codeKnown cfg id = true ∧ codeData? cfg id = some cd := by
  have : ¬ id < 1 := by omega
  simp [codeKnown, codeData?, h, this]

/-- what a successful registration went through -/
theorem register_unfold (cfg : Config E) (ch ch' : Chain E) (codeId : Nat) (creator : Addr) (admin : Option Addr)
    (label : String) (created : Nat) (salt : Option Val) (addr : Addr)
    (h : registerContract cfg ch codeId creator admin label created salt = .ok (addr, ch')) :
    codeKnown cfg codeId = true ∧
    (salt = none → cfg.addrClassic codeId ch.contracts.length = .ok addr) ∧
    (∀ s, salt = some s → ∃ cd, codeData? cfg codeId = some cd ∧ cfg.validAddr creator = true ∧
      cfg.addrSalted cd.checksum creator s = .ok addr) ∧
    ch.contracts.get? addr = none ∧
    ch' = { ch with
      contracts := ch.contracts.set addr
                     { codeId := codeId, creator := creator, admin := admin, label := label, created := created } } := by
  unfold registerContract at h
  split at h
  · exact absurd h (by simp)
  · rename_i hk
    simp only at h
    split at h
    · rename_i a ha
      split at h
      · exact absurd h (by simp)
      · rename_i hex
        simp only [Outcome.ok.injEq, Prod.mk.injEq] at h
        obtain ⟨rfl, rfl⟩ := h
        refine ⟨by simpa using hk, ?_, ?_, ?_, rfl⟩
        · intro hs; subst hs; exact ha
        · intro s hs; subst hs
          simp only at ha
          split at ha
          · exact absurd ha (by simp)
          · rename_i cd hcd
            split at ha
            · rename_i hv
              exact ⟨cd, hcd, hv, ha⟩
            · exact absurd ha (by simp)
        · cases hg : ch.contracts.get? a with
          | none => rfl
          | some x => rw [hg] at hex; simp at hex
    all_goals exact absurd h (by simp)

theorem fresh_address (cfg : Config E) (ch ch' : Chain E) (codeId : Nat) (creator : Addr) (admin : Option Addr)
    (label : String) (created : Nat) (salt : Option Val) (addr : Addr)
    (h : registerContract cfg ch codeId creator admin label created salt = .ok (addr, ch')) :
    ch.contracts.get? addr = none ∧
    ch'.contracts.get? addr = some { codeId := codeId, creator := creator, admin := admin, label := label, created := created } ∧
    (∀ b, b ≠ addr → ch'.contracts.get? b = ch.contracts.get? b) ∧
    ch'.bank = ch.bank ∧ ch'.cstore = ch.cstore := by
  obtain ⟨_, _, _, hn, rfl⟩ := register_unfold cfg ch ch' codeId creator admin label created salt addr h
  exact ⟨hn, get?_set_self _ _ _, fun b hb => get?_set_other _ _ _ _ hb, rfl, rfl⟩

theorem classic_address_inputs (cfg : Config E) (ch ch' : Chain E) (codeId : Nat) (creator : Addr)
    (admin : Option Addr) (label : String) (created : Nat) (addr : Addr)
    (h : registerContract cfg ch codeId creator admin label created none = .ok (addr, ch')) :
    cfg.addrClassic codeId ch.contracts.length = .ok addr :=
  (register_unfold cfg ch ch' codeId creator admin label created none addr h).2.1 rfl

theorem salted_address_inputs (cfg : Config E) (ch ch' : Chain E) (codeId : Nat) (creator : Addr)
    (admin : Option Addr) (label : String) (created : Nat) (salt : Val) (addr : Addr)
    (h : registerContract cfg ch codeId creator admin label created (some salt) = .ok (addr, ch')) :
    ∃ cd, codeData? cfg codeId = some cd ∧ cfg.addrSalted cd.checksum creator salt = .ok addr := by
  obtain ⟨cd, hcd, _, ha⟩ :=
    (register_unfold cfg ch ch' codeId creator admin label created (some salt) addr h).2.2.1 salt rfl
  exact ⟨cd, hcd, ha⟩

theorem salted_repeat_rejected (cfg : Config E) (ch ch' ch₂ : Chain E) (codeId : Nat) (creator : Addr)
    (admin admin₂ : Option Addr) (label label₂ : String) (created created₂ : Nat) (salt : Val) (addr : Addr)
    (h : registerContract cfg ch codeId creator admin label created (some salt) = .ok (addr, ch'))
    (hstill : (ch₂.contracts.get? addr).isSome = true) :
    registerContract cfg ch₂ codeId creator admin₂ label₂ created₂ (some salt) = .err := by
  obtain ⟨hk, _, h2, _, _⟩ := register_unfold cfg ch ch' codeId creator admin label created (some salt) addr h
  obtain ⟨cd, hcd, hv, ha⟩ := h2 salt rfl
  unfold registerContract
  simp [hk, hcd, hv, ha, hstill]

/-! ### C12 -/

/-- `C12.adminOf` unfolds to this -/
def adminOf (ch : Chain E) (c : String) : Option Addr := (ch.contracts.get? c).bind (·.admin)

/-- the validity check of the new admin, named so that `split` does not look inside -/
def newOk (cfg : Config E) (new : Option String) : Bool :=
  match new with | some a => cfg.validAddr a | none => true

theorem updateAdmin_eq (cfg : Config E) (ch : Chain E) (sender : Addr) (c : String) (new : Option String) :
    updateAdmin cfg ch sender c new =
      if (!cfg.validAddr c) = true then .err else
      if (!newOk cfg new) = true then .err else
      match ch.contracts.get? c with
      | none => .err
      | some cd =>
        if cd.admin ≠ some sender then .err
        else .ok ({}, { ch with contracts := ch.contracts.set c { cd with admin := new } }) := by
  cases new <;> rfl

theorem updateAdmin_ok (cfg : Config E) (ch ch' : Chain E) (sender : Addr) (c : String)
    (new : Option String) (r : AppResponse)
    (h : updateAdmin cfg ch sender c new = .ok (r, ch')) :
    ∃ cd, ch.contracts.get? c = some cd ∧ cd.admin = some sender ∧ r = {} ∧
      ch' = { ch with contracts := ch.contracts.set c { cd with admin := new } } := by
  rw [updateAdmin_eq] at h
  by_cases h1 : (!cfg.validAddr c) = true
  · rw [if_pos h1] at h; exact absurd h (by simp)
  · rw [if_neg h1] at h
    by_cases h2 : (!newOk cfg new) = true
    · rw [if_pos h2] at h; exact absurd h (by simp)
    · rw [if_neg h2] at h
      cases hcd : ch.contracts.get? c with
      | none => rw [hcd] at h; exact absurd h (by simp)
      | some cd =>
        rw [hcd] at h
        simp only at h
        by_cases ha : cd.admin = some sender
        · rw [if_neg (by simp [ha])] at h
          simp only [Outcome.ok.injEq, Prod.mk.injEq] at h
          exact ⟨cd, rfl, ha, h.1.symm, h.2.symm⟩
        · rw [if_pos ha] at h; exact absurd h (by simp)

theorem updateAdmin_non_admin (cfg : Config E) (ch : Chain E) (sender : Addr) (c : String)
    (new : Option String) (h : (ch.contracts.get? c).bind (·.admin) ≠ some sender) :
    updateAdmin cfg ch sender c new = .err := by
  rw [updateAdmin_eq]
  by_cases h1 : (!cfg.validAddr c) = true
  · rw [if_pos h1]
  · rw [if_neg h1]
    by_cases h2 : (!newOk cfg new) = true
    · rw [if_pos h2]
    · rw [if_neg h2]
      cases hcd : ch.contracts.get? c with
      | none => rfl
      | some cd =>
        rw [hcd] at h
        simp only [Option.bind_some] at h
        simp only
        rw [if_pos h]

theorem auth_update_admin (cfg : Config E) (blk : Block) (fuel : Nat) (ch ch' : Chain E) (sender : Addr)
    (c a : String) (tr tr' : Trace) (r : AppResponse)
    (h : execute cfg blk fuel ch sender (.wasmUpdateAdmin c a) tr = (.ok (r, ch'), tr')) :
    (ch.contracts.get? c).bind (·.admin) = some sender := by
  cases fuel with
  | zero => simp [execute] at h
  | succ fuel =>
    simp only [execute, Prod.mk.injEq] at h
    obtain ⟨cd, hcd, ha, _⟩ := updateAdmin_ok cfg ch ch' sender c _ r h.1
    simp [hcd, ha]

theorem auth_clear_admin (cfg : Config E) (blk : Block) (fuel : Nat) (ch ch' : Chain E) (sender : Addr)
    (c : String) (tr tr' : Trace) (r : AppResponse)
    (h : execute cfg blk fuel ch sender (.wasmClearAdmin c) tr = (.ok (r, ch'), tr')) :
    (ch.contracts.get? c).bind (·.admin) = some sender := by
  cases fuel with
  | zero => simp [execute] at h
  | succ fuel =>
    simp only [execute, Prod.mk.injEq] at h
    obtain ⟨cd, hcd, ha, _⟩ := updateAdmin_ok cfg ch ch' sender c _ r h.1
    simp [hcd, ha]

/-- unfolding equation of `execute` for `Migrate` once the guards have passed -/
theorem execute_succ_wasmMigrate (cfg : Config E) (blk : Block) (fuel : Nat) (ch : Chain E)
    (sender : Addr) (c : String) (n : Nat) (m : Val) (tr : Trace) (cd : ContractData)
    (hv : cfg.validAddr c = true) (hk : codeKnown cfg n = true)
    (hc : ch.contracts.get? c = some cd) (ha : cd.admin = some sender) :
    execute cfg blk (fuel + 1) ch sender (.wasmMigrate c n m) tr =
      (match callContract cfg blk { ch with contracts := ch.contracts.set c { cd with codeId := n } } c
          (.migrate m) tr with
       | (.ok (resp, ch₂), tr₁) =>
         (match processResponse cfg blk fuel ch₂ c
             (buildAppResponse c { ty := "migrate", attrs := [contractAttr c, ⟨"code_id", toString n⟩] } resp).1
             (buildAppResponse c { ty := "migrate", attrs := [contractAttr c, ⟨"code_id", toString n⟩] } resp).2 tr₁ with
          | (.ok (r, ch₃), tr₂) => (.ok ({ r with data := r.data.map encodeExecuteResponse }, ch₃), tr₂)
          | other => other)
       | (.err, tr₁) => (.err, tr₁)
       | (.panic, tr₁) => (.panic, tr₁)
       | (.outOfFuel, tr₁) => (.outOfFuel, tr₁)) := by
  have ha' : ¬ (cd.admin ≠ some sender) := by simp [ha]
  simp only [execute, hv, hk, hc, Bool.not_true, Bool.false_eq_true, if_false]
  rw [if_neg ha']
  rfl

theorem auth_migrate (cfg : Config E) (blk : Block) (fuel : Nat) (ch ch' : Chain E) (sender : Addr)
    (c : String) (n : Nat) (m : Val) (tr tr' : Trace) (r : AppResponse)
    (h : execute cfg blk fuel ch sender (.wasmMigrate c n m) tr = (.ok (r, ch'), tr')) :
    (ch.contracts.get? c).bind (·.admin) = some sender ∧ codeKnown cfg n = true := by
  cases fuel with
  | zero => simp [execute] at h
  | succ fuel =>
    simp only [execute] at h
    split at h
    · exact absurd h (by simp)
    · split at h
      · exact absurd h (by simp)
      · rename_i hk
        split at h
        · exact absurd h (by simp)
        · rename_i cd hcd
          split at h
          · exact absurd h (by simp)
          · rename_i ha
            refine ⟨?_, by simpa using hk⟩
            have : cd.admin = some sender := by simpa using ha
            simp [hcd, this]

theorem migrate_non_admin (cfg : Config E) (blk : Block) (fuel : Nat) (ch : Chain E) (sender : Addr)
    (c : String) (n : Nat) (m : Val) (tr : Trace)
    (h : (ch.contracts.get? c).bind (·.admin) ≠ some sender) :
    execute cfg blk (fuel + 1) ch sender (.wasmMigrate c n m) tr = (.err, tr) := by
  simp only [execute]
  split
  · rfl
  · split
    · rfl
    · split
      · rfl
      · rename_i cd hcd
        rw [hcd] at h
        simp only [Option.bind_some] at h
        simp [h]

theorem non_admin_rejected (cfg : Config E) (blk : Block) (fuel : Nat) (ch : Chain E) (sender : Addr)
    (c : String) (n : Nat) (m : Val) (a : String) (tr : Trace)
    (h : (ch.contracts.get? c).bind (·.admin) ≠ some sender) :
    execute cfg blk (fuel + 1) ch sender (.wasmMigrate c n m) tr = (.err, tr) ∧
    execute cfg blk (fuel + 1) ch sender (.wasmUpdateAdmin c a) tr = (.err, tr) ∧
    execute cfg blk (fuel + 1) ch sender (.wasmClearAdmin c) tr = (.err, tr) := by
  refine ⟨migrate_non_admin cfg blk fuel ch sender c n m tr h, ?_, ?_⟩
  · simp only [execute, updateAdmin_non_admin cfg ch sender c _ h]
  · simp only [execute, updateAdmin_non_admin cfg ch sender c _ h]

theorem admin_change_effect (cfg : Config E) (ch ch' : Chain E) (sender : Addr) (c : String)
    (new : Option String) (r : AppResponse)
    (h : updateAdmin cfg ch sender c new = .ok (r, ch')) :
    (ch'.contracts.get? c).bind (·.admin) = new ∧
    (∃ cd, ch.contracts.get? c = some cd ∧ ch'.contracts.get? c = some { cd with admin := new }) ∧
    (∀ b, b ≠ c → ch'.contracts.get? b = ch.contracts.get? b) ∧
    ch'.bank = ch.bank ∧ ch'.cstore = ch.cstore ∧ r = {} := by
  obtain ⟨cd, hcd, _, hr, rfl⟩ := updateAdmin_ok cfg ch ch' sender c new r h
  refine ⟨?_, ⟨cd, hcd, get?_set_self _ _ _⟩, fun b hb => get?_set_other _ _ _ _ hb, rfl, rfl, hr⟩
  simp [get?_set_self]

theorem former_admin_rejected (cfg : Config E) (blk : Block) (fuel : Nat) (ch ch' : Chain E) (sender : Addr)
    (c : String) (new : Option String) (r : AppResponse) (n : Nat) (m : Val) (a : String) (tr : Trace)
    (h : updateAdmin cfg ch sender c new = .ok (r, ch')) (hne : new ≠ some sender) :
    execute cfg blk (fuel + 1) ch' sender (.wasmMigrate c n m) tr = (.err, tr) ∧
    execute cfg blk (fuel + 1) ch' sender (.wasmUpdateAdmin c a) tr = (.err, tr) ∧
    execute cfg blk (fuel + 1) ch' sender (.wasmClearAdmin c) tr = (.err, tr) := by
  apply non_admin_rejected
  rw [(admin_change_effect cfg ch ch' sender c new r h).1]
  exact hne

theorem migrate_runs_new_code (cfg : Config E) (blk : Block) (fuel : Nat) (ch : Chain E)
    (sender : Addr) (c : String) (n : Nat) (m : Val) (tr : Trace) (cd : ContractData)
    (hv : cfg.validAddr c = true) (hk : codeKnown cfg n = true)
    (hc : ch.contracts.get? c = some cd) (ha : cd.admin = some sender) :
    let ch₁ : Chain E := { ch with contracts := ch.contracts.set c { cd with codeId := n } }
    ch₁.cstore = ch.cstore ∧ ch₁.contracts.get? c = some { cd with codeId := n } ∧
    execute cfg blk (fuel + 1) ch sender (.wasmMigrate c n m) tr =
      (match callContract cfg blk ch₁ c (.migrate m) tr with
       | (.ok (resp, ch₂), tr₁) =>
         (match processResponse cfg blk fuel ch₂ c
             (buildAppResponse c { ty := "migrate", attrs := [contractAttr c, ⟨"code_id", toString n⟩] } resp).1
             (buildAppResponse c { ty := "migrate", attrs := [contractAttr c, ⟨"code_id", toString n⟩] } resp).2 tr₁ with
          | (.ok (r, ch₃), tr₂) => (.ok ({ r with data := r.data.map encodeExecuteResponse }, ch₃), tr₂)
          | other => other)
       | (.err, tr₁) => (.err, tr₁)
       | (.panic, tr₁) => (.panic, tr₁)
       | (.outOfFuel, tr₁) => (.outOfFuel, tr₁)) := by
  intro ch₁
  exact ⟨rfl, get?_set_self _ _ _, execute_succ_wasmMigrate cfg blk fuel ch sender c n m tr cd hv hk hc ha⟩

theorem empty_label_rejected (cfg : Config E) (blk : Block) (fuel : Nat) (ch : Chain E) (sender : Addr)
    (admin : Option String) (codeId : Nat) (m : Val) (funds : Coins) (salt : Option Val) (tr : Trace) :
    execute cfg blk (fuel + 1) ch sender (.wasmInstantiate admin codeId m funds "" salt) tr = (.err, tr) := by
  simp [execute]

/-! ### C13: `buildAppResponse` keeps accepted keys, values and types -/

theorem accepted_unchanged (addr : Addr) (custom : Event) (r : Response) :
    (∀ a ∈ r.attrs, r.attrs ≠ [] → ∃ e ∈ (buildAppResponse addr custom r).1.events, e.ty = "wasm" ∧ a ∈ e.attrs) ∧
    (∀ ev ∈ r.events, ∃ e ∈ (buildAppResponse addr custom r).1.events,
        e.ty = "wasm-" ++ ev.ty ∧ e.attrs = contractAttr addr :: ev.attrs) := by
  constructor
  · intro a ha hne
    refine ⟨{ ty := "wasm", attrs := contractAttr addr :: r.attrs }, ?_, rfl, by simp [ha]⟩
    have : r.attrs.isEmpty = false := by
      cases hr : r.attrs with
      | nil => exact absurd hr hne
      | cons _ _ => rfl
    simp [buildAppResponse, this]
  · intro ev hev
    refine ⟨{ ty := "wasm-" ++ ev.ty, attrs := contractAttr addr :: ev.attrs }, ?_, rfl, rfl⟩
    simp only [buildAppResponse, List.mem_cons, List.mem_append, List.mem_map]
    right; right
    exact ⟨ev, hev, rfl⟩

end CwMt.EngineB
