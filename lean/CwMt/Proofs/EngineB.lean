import CwMt.Model.EngineSpec
namespace CwMt.EngineB
end CwMt.EngineB
