import CwMt.Proofs.EngineB_Wire
import CwMt.Proofs.EngineB_Registry
import CwMt.Proofs.EngineB_Engine
import CwMt.Proofs.EngineB_Validate
/- Lemmas referenced by CwMt/Props/{C04,C10,C11,C12,C13,C19}.lean (namespace `CwMt.EngineB`). -/
